(* Engine/Refine_proofs.v — PROOFS for C06 on the "grow" fragment: commit-only histories of
   node creations (0 or 1 label), relationship creations (parallel edges, self loops) and
   property sets / removals on nodes and relationships.  For EVERY such well-formed history
   every read interface of the faithful model except the two whole-map reads agrees with the
   spec graph: nodes(), neighbors / incoming_neighbors as multisets (Permutation),
   node_property, edge_property, labels, external ids and external-id lookup.
   Method: the relation `Rel` between (memtable :: published runs, node table) and the spec
   graph; one commutation lemma per write kind (`rel_apply_op`); commit; induction over the
   history. *)
From Coq Require Import Lia Permutation.
From NDB Require Import Engine.Graph Engine.Model Engine.Known Engine.Lib_proofs.

(* ---------------- the fragment ---------------- *)
Definition grow_op (o : wop) : bool :=
  match o with
  | OGetLabel _ | OCreateNode _ _ | OCreateEdge _ | OSetNP _ _ _ | ORemNP _ _ | OSetEP _ _ _ | ORemEP _ _ => true
  | _ => false
  end.
Definition grow_hist (h : list hop) : bool :=
  forallb (fun x => match x with HTxn ops true => forallb grow_op ops | _ => false end) h.

(* ---------------- the relation between a list of runs + node table and the spec graph ---------------- *)
Definition notomb (m : mem) : Prop := m.(me_tn) = [] /\ m.(me_te) = [].
Definition gnode_of (p : N * N) : gnode := mkGNode (fst p) (if snd p =? UNLABELED then [] else [snd p]) true.

Record Rel (rs : list mem) (ie : list (N * N)) (g : graph) : Prop := mkRel {
  R_notomb : forall m, In m rs -> notomb m;
  R_nodes : g.(g_nodes) = map gnode_of ie;
  R_edges : Permutation (flat_map me_edges rs) g.(g_edges);
  R_np : forall key, prop_runs nk_eqb me_np me_nrm rs key = assoc nk_eqb key g.(g_np);
  R_ep : forall key, prop_runs ek_eqb me_ep me_erm rs key = assoc ek_eqb key g.(g_ep)
}.

Definition view_rs (s : state) (t : txn) : list mem := t.(tx_mem) :: s.(runs).
Definition view_ie (s : state) (t : txn) : list (N * N) :=
  s.(i2e) ++ map (fun c => (fst (fst c), snd (fst c))) t.(tx_created).

Lemma g_live_rel : forall ie g n, g.(g_nodes) = map gnode_of ie ->
  g_live g n = (n <? N.of_nat (length ie)).
Proof.
  intros ie g n H; unfold g_live; rewrite H, nthN_map.
  destruct (N.ltb_spec n (N.of_nat (length ie))) as [L | L].
  - destruct (nthN_some ie n L) as [x E]; rewrite E; reflexivity.
  - rewrite (nthN_none ie n L); reflexivity.
Qed.

Lemma g_has_ext_rel : forall ie g ext, g.(g_nodes) = map gnode_of ie ->
  g_has_ext g ext = existsb (fun r => fst r =? ext) ie.
Proof.
  intros ie g ext H; unfold g_has_ext; rewrite H. clear H. induction ie as [|p ie IH]; cbn; [reflexivity|].
  rewrite IH; reflexivity.
Qed.

(* overlay of the head memtable *)
Lemma prop_runs_cons : forall {K} (eqb : K -> K -> bool) gp gr m rs k,
  prop_runs eqb gp gr (m :: rs) k =
  if memK eqb k (gr m) then None else match assoc eqb k (gp m) with Some v => Some v | None => prop_runs eqb gp gr rs k end.
Proof. reflexivity. Qed.

(* ---------------- one call of a transaction ---------------- *)
Definition frame (a b : state) : Prop :=
  runs a = runs b /\ segs a = segs b /\ store_n a = store_n b /\ store_e a = store_e b /\ i2e a = i2e b /\ i2l a = i2l b.
Lemma frame_refl : forall a, frame a a.
Proof. intros; unfold frame; repeat split. Qed.

Definition nolab (t : txn) : Prop := t.(tx_ladd) = [] /\ t.(tx_lrem) = [].

Lemma rel_apply_op : forall s t g o,
  Rel (view_rs s t) (view_ie s t) g -> nolab t -> grow_op o = true -> wf_op g o = true ->
  Rel (view_rs (fst (apply_op (s, t) o)) (snd (apply_op (s, t) o)))
      (view_ie (fst (apply_op (s, t) o)) (snd (apply_op (s, t) o))) (g_apply g o) /\
  nolab (snd (apply_op (s, t) o)) /\ frame (fst (apply_op (s, t) o)) s.
Proof.
  intros s t g o [Hnt Hn He Hnp Hep] Hl Hg Hw.
  destruct o; try discriminate Hg; cbn [apply_op g_apply fst snd wf_op] in *.
  - (* OGetLabel *)
    destruct (memN name (interner s)); cbn [fst snd]; (split; [constructor; assumption | split; [exact Hl | unfold frame; cbn; repeat split]]).
  - (* OCreateNode *)
    apply andb_true_iff in Hw; destruct Hw as [_ Hw]. apply negb_true_iff in Hw.
    rewrite Hw.
    rewrite (g_has_ext_rel _ _ ext Hn) in Hw. unfold view_ie in Hw. rewrite existsb_app in Hw.
    apply orb_false_iff in Hw; destruct Hw as [W1 W2].
    unfold e2i_has; rewrite W1.
    assert (W3 : existsb (fun c : N * N * N => fst (fst c) =? ext) (tx_created t) = false).
    { clear -W2. induction (tx_created t) as [|c l IH]; cbn in *; [reflexivity|].
      apply orb_false_iff in W2; destruct W2 as [A B]. rewrite A, (IH B); reflexivity. }
    rewrite W3. cbn [fst snd].
    split; [|split; [exact Hl | apply frame_refl]].
    constructor; cbn [g_nodes g_np g_edges g_ep view_rs view_ie tx_mem tx_created]; try assumption.
    unfold view_ie in *. cbn [tx_created i2e].
    rewrite (map_app (fun c : N * N * N => (fst (fst c), snd (fst c)))), app_assoc, (map_app gnode_of), <- Hn. reflexivity.
  - (* OCreateEdge *)
    rewrite Hw. cbn [fst snd]. split; [|split; [exact Hl | apply frame_refl]].
    constructor; cbn [g_nodes g_np g_edges g_ep view_rs view_ie tx_mem tx_created set_mem mem_create_edge]; try assumption.
    + intros m [E | I]; [subst m; destruct (Hnt (tx_mem t) (or_introl eq_refl)) as [A B]; split; assumption | apply Hnt; right; exact I].
    + cbn [flat_map me_edges]. cbn [flat_map view_rs] in He. cbn. apply perm_skip. exact He.
  - (* OSetNP *)
    rewrite Hw. cbn [fst snd]. split; [|split; [exact Hl | apply frame_refl]].
    constructor; cbn [g_nodes g_np g_edges g_ep view_rs view_ie tx_mem tx_created set_mem]; try assumption.
    + intros m [E | I]; [subst m; destruct (Hnt (tx_mem t) (or_introl eq_refl)) as [A B]; split; assumption | apply Hnt; right; exact I].
    + intros key. specialize (Hnp key). unfold view_rs in Hnp. rewrite prop_runs_cons in Hnp; unfold view_rs; try rewrite prop_runs_cons; cbn [tx_mem set_mem].
      cbn [mem_set_np me_np me_nrm].
      destruct (nk_eqb key (n, k)) eqn:E.
      * apply nk_eqb_ok in E; subst key.
        rewrite (memK_setrm_same nk_eqb), (assoc_bind_same nk_eqb nk_eqb_ok), (assoc_bind_same nk_eqb nk_eqb_ok). reflexivity.
      * rewrite (memK_setrm_other nk_eqb nk_eqb_ok _ _ _ E), (assoc_bind_other nk_eqb nk_eqb_ok _ _ _ _ E),
                (assoc_bind_other nk_eqb nk_eqb_ok _ _ _ _ E). exact Hnp.
  - (* ORemNP *)
    cbn [fst snd]. split; [|split; [exact Hl | apply frame_refl]].
    constructor; cbn [g_nodes g_np g_edges g_ep view_rs view_ie tx_mem tx_created set_mem]; try assumption.
    + intros m [E | I]; [subst m; destruct (Hnt (tx_mem t) (or_introl eq_refl)) as [A B]; split; assumption | apply Hnt; right; exact I].
    + intros key. specialize (Hnp key). unfold view_rs in Hnp. rewrite prop_runs_cons in Hnp; unfold view_rs; try rewrite prop_runs_cons; cbn [tx_mem set_mem].
      cbn [mem_rem_np me_np me_nrm].
      destruct (nk_eqb key (n, k)) eqn:E.
      * apply nk_eqb_ok in E; subst key. unfold memK; cbn [existsb]. rewrite (eqb_refl' nk_eqb nk_eqb_ok). cbn.
        rewrite (assoc_unbind_same nk_eqb). reflexivity.
      * unfold memK at 1; cbn [existsb]. rewrite E. cbn [orb]. fold (memK nk_eqb key (setrm nk_eqb (n, k) (me_nrm (tx_mem t)))).
        rewrite (memK_setrm_other nk_eqb nk_eqb_ok _ _ _ E), (assoc_unbind_other nk_eqb nk_eqb_ok _ _ _ E),
                (assoc_unbind_other nk_eqb nk_eqb_ok _ _ _ E). exact Hnp.
  - (* OSetEP *)
    rewrite Hw. cbn [fst snd]. split; [|split; [exact Hl | apply frame_refl]].
    constructor; cbn [g_nodes g_np g_edges g_ep view_rs view_ie tx_mem tx_created set_mem]; try assumption.
    + intros m [E | I]; [subst m; destruct (Hnt (tx_mem t) (or_introl eq_refl)) as [A B]; split; assumption | apply Hnt; right; exact I].
    + intros key. specialize (Hep key). unfold view_rs in Hep. rewrite prop_runs_cons in Hep; unfold view_rs; try rewrite prop_runs_cons; cbn [tx_mem set_mem].
      cbn [mem_set_ep me_ep me_erm].
      destruct (ek_eqb key (e, k)) eqn:E.
      * apply ek_eqb_ok in E; subst key.
        rewrite (memK_setrm_same ek_eqb), (assoc_bind_same ek_eqb ek_eqb_ok), (assoc_bind_same ek_eqb ek_eqb_ok). reflexivity.
      * rewrite (memK_setrm_other ek_eqb ek_eqb_ok _ _ _ E), (assoc_bind_other ek_eqb ek_eqb_ok _ _ _ _ E),
                (assoc_bind_other ek_eqb ek_eqb_ok _ _ _ _ E). exact Hep.
  - (* ORemEP *)
    cbn [fst snd]. split; [|split; [exact Hl | apply frame_refl]].
    constructor; cbn [g_nodes g_np g_edges g_ep view_rs view_ie tx_mem tx_created set_mem]; try assumption.
    + intros m [E | I]; [subst m; destruct (Hnt (tx_mem t) (or_introl eq_refl)) as [A B]; split; assumption | apply Hnt; right; exact I].
    + intros key. specialize (Hep key). unfold view_rs in Hep. rewrite prop_runs_cons in Hep; unfold view_rs; try rewrite prop_runs_cons; cbn [tx_mem set_mem].
      cbn [mem_rem_ep me_ep me_erm].
      destruct (ek_eqb key (e, k)) eqn:E.
      * apply ek_eqb_ok in E; subst key. unfold memK; cbn [existsb]. rewrite (eqb_refl' ek_eqb ek_eqb_ok). cbn.
        rewrite (assoc_unbind_same ek_eqb). reflexivity.
      * unfold memK at 1; cbn [existsb]. rewrite E. cbn [orb]. fold (memK ek_eqb key (setrm ek_eqb (e, k) (me_erm (tx_mem t)))).
        rewrite (memK_setrm_other ek_eqb ek_eqb_ok _ _ _ E), (assoc_unbind_other ek_eqb ek_eqb_ok _ _ _ E),
                (assoc_unbind_other ek_eqb ek_eqb_ok _ _ _ E). exact Hep.
Qed.

Lemma frame_trans : forall a b c, frame a b -> frame b c -> frame a c.
Proof.
  intros a b c (A1 & A2 & A3 & A4 & A5 & A6) (B1 & B2 & B3 & B4 & B5 & B6).
  unfold frame; rewrite A1, A2, A3, A4, A5, A6; repeat split; assumption.
Qed.

Lemma rel_frame : forall a b t g, frame a b -> Rel (view_rs b t) (view_ie b t) g -> Rel (view_rs a t) (view_ie a t) g.
Proof. intros a b t g (A1 & _ & _ & _ & A5 & _) H. unfold view_rs, view_ie in *. rewrite A1, A5. exact H. Qed.

Lemma rel_fold_apply : forall ops s t g,
  Rel (view_rs s t) (view_ie s t) g -> nolab t -> forallb grow_op ops = true -> wf_tx g ops = true ->
  Rel (view_rs (fst (fold_left apply_op ops (s, t))) (snd (fold_left apply_op ops (s, t))))
      (view_ie (fst (fold_left apply_op ops (s, t))) (snd (fold_left apply_op ops (s, t)))) (g_apply_tx g ops) /\
  nolab (snd (fold_left apply_op ops (s, t))) /\ frame (fst (fold_left apply_op ops (s, t))) s.
Proof.
  induction ops as [|o ops IH]; intros s t g HR Hl Hg Hw.
  - cbn. split; [exact HR | split; [exact Hl | apply frame_refl]].
  - cbn [forallb] in Hg. apply andb_true_iff in Hg; destruct Hg as [Hg1 Hg2].
    cbn [wf_tx] in Hw. apply andb_true_iff in Hw; destruct Hw as [Hw1 Hw2].
    destruct (rel_apply_op s t g o HR Hl Hg1 Hw1) as (R1 & L1 & F1).
    unfold g_apply_tx. cbn [fold_left].
    destruct (apply_op (s, t) o) as [s1 t1]; cbn [fst snd] in *.
    destruct (IH s1 t1 (g_apply g o) R1 L1 Hg2 Hw2) as (R2 & L2 & F2).
    split; [exact R2 | split; [exact L2 | eapply frame_trans; eassumption]].
Qed.

Lemma mem_is_empty_eq : forall m, mem_is_empty m = true -> m = mem0.
Proof.
  intros [a b c d e f g] H. unfold mem_is_empty in H.
  destruct a, b, c, d, e, f, g; try discriminate H. reflexivity.
Qed.

(* ---------------- engine states of the fragment ---------------- *)
Definition Inv (s : state) (g : graph) : Prop :=
  Rel s.(runs) s.(i2e) g /\ s.(segs) = [] /\ s.(store_n) = [] /\ s.(store_e) = [] /\
  s.(i2l) = map (fun p => [snd p]) s.(i2e).

Lemma inv_txn : forall s g ops, Inv s g -> forallb grow_op ops = true -> wf_tx g ops = true ->
  Inv (run_txn s ops true) (g_apply_tx g ops).
Proof.
  intros s g ops (HR & H2 & H3 & H4 & H5) Hg Hw. unfold run_txn, begin.
  set (t0 := mkTxn (next_txid s) [] [] [] mem0).
  assert (HR0 : Rel (view_rs (bump s) t0) (view_ie (bump s) t0) g).
  { destruct HR as [A B C D E]. unfold view_rs, view_ie; cbn. rewrite app_nil_r.
    constructor.
    - intros m [Em | I]; [subst m; split; reflexivity | apply A; exact I].
    - exact B.
    - cbn. exact C.
    - intros key; rewrite prop_runs_cons; cbn. apply D.
    - intros key; rewrite prop_runs_cons; cbn. apply E. }
  assert (Hl0 : nolab t0) by (split; reflexivity).
  destruct (rel_fold_apply ops (bump s) t0 g HR0 Hl0 Hg Hw) as (R1 & (L1 & L2) & (F1 & F2 & F3 & F4 & F5 & F6)).
  destruct (fold_left apply_op ops (bump s, t0)) as [s2 t2]; cbn [fst snd] in *.
  cbn [bump set_txid runs segs store_n store_e i2e i2l] in F1, F2, F3, F4, F5, F6.
  unfold Inv, commit; cbn [runs segs store_n store_e i2e i2l].
  rewrite L1, L2; cbn [fold_left]. rewrite F2, F3, F4, F6, H5.
  split; [|split; [exact H2 | split; [exact H3 | split; [exact H4|]]]].
  - destruct R1 as [A B C D E]. unfold view_rs, view_ie in *. rewrite F1, F5 in *.
    destruct (mem_is_empty (tx_mem t2)) eqn:Em.
    + apply mem_is_empty_eq in Em. rewrite Em in *.
      constructor.
      * intros m I; apply A; right; exact I.
      * exact B.
      * cbn in C. exact C.
      * intros key; specialize (D key); rewrite prop_runs_cons in D; exact D.
      * intros key; specialize (E key); rewrite prop_runs_cons in E; exact E.
    + constructor; assumption.
  - rewrite map_app, map_map, F5. reflexivity.
Qed.

Lemma inv0 : Inv s0 g0.
Proof.
  unfold Inv; cbn. split; [|repeat split; reflexivity].
  constructor; cbn.
  - intros m [].
  - reflexivity.
  - constructor.
  - reflexivity.
  - reflexivity.
Qed.

Theorem inv_hist : forall h s g, Inv s g -> grow_hist h = true -> wf_hist_from g h = true ->
  Inv (fold_left step h s) (fold_left g_step h g).
Proof.
  induction h as [|x h IH]; intros s g HI Hg Hw; [exact HI|].
  unfold grow_hist in Hg; cbn [forallb] in Hg; fold (grow_hist h) in Hg.
  apply andb_true_iff in Hg; destruct Hg as [Hx Hg].
  destruct x as [ops [|] | | | |]; try discriminate Hx.
  cbn [wf_hist_from] in Hw. apply andb_true_iff in Hw; destruct Hw as [Hw1 Hw2].
  cbn [fold_left step g_step]. apply IH; [apply inv_txn; assumption | exact Hg | exact Hw2].
Qed.

(* ---------------- reads of a tombstone-free run list ---------------- *)
Lemma scan_out_notomb : forall rs n, (forall m, In m rs -> notomb m) ->
  scan_out rs [] [] n = (flat_map (fun m => filter (fun e => e_src e =? n) m.(me_edges)) rs, Some ([], [])).
Proof.
  induction rs as [|m rs IH]; intros n H; [reflexivity|].
  cbn [scan_out flat_map]. destruct (H m (or_introl eq_refl)) as [T1 T2]. rewrite T1, T2. cbn [memN existsb app].
  rewrite (IH n (fun m' I => H m' (or_intror I))). f_equal. f_equal.
  apply filter_ext. intros e. cbn. rewrite !andb_true_r. reflexivity.
Qed.
Lemma scan_in_notomb : forall rs n, (forall m, In m rs -> notomb m) ->
  scan_in rs [] [] n = (flat_map (fun m => filter (fun e => e_dst e =? n) m.(me_edges)) rs, Some ([], [])).
Proof.
  induction rs as [|m rs IH]; intros n H; [reflexivity|].
  cbn [scan_in flat_map]. destruct (H m (or_introl eq_refl)) as [T1 T2]. rewrite T1, T2. cbn [memN existsb app].
  rewrite (IH n (fun m' I => H m' (or_intror I))). f_equal. f_equal.
  apply filter_ext. intros e. cbn. rewrite !andb_true_r. reflexivity.
Qed.

Definition reads_agree (s : state) (g : graph) : Prop :=
  m_nodes s = g_node_ids g /\
  (forall n, Permutation (m_out s n) (g_out g n)) /\
  (forall n, Permutation (m_in s n) (g_in g n)) /\
  (forall n k, m_nprop s n k = g_nprop g n k) /\
  (forall e k, m_eprop s e k = g_eprop g e k) /\
  (forall n, g_labels g n = filter (fun l => negb (l =? UNLABELED)) (m_labels s n)) /\
  (forall n, m_ext s n = g_ext g n) /\
  (forall ext, m_lookup s ext = g_lookup g ext).

Lemma index_rel : forall ext ie i,
  index_of (fun x => (gn_ext x =? ext) && gn_live x) (map gnode_of ie) i = index_ext ext ie i.
Proof.
  intros ext ie; induction ie as [|p ie IH]; intros i; cbn; [reflexivity|].
  rewrite andb_true_r. destruct (fst p =? ext); [reflexivity | apply IH].
Qed.

Theorem inv_reads : forall s g, Inv s g -> reads_agree s g.
Proof.
  intros s g ([Hnt Hn He Hnp Hep] & H2 & H3 & H4 & H5).
  unfold reads_agree. split; [|split; [|split; [|split; [|split; [|split; [|split]]]]]].
  - unfold m_nodes, g_node_ids. rewrite Hn, map_length. apply filter_ext_in. intros n Hin.
    apply In_nseq in Hin. rewrite (g_live_rel _ _ n Hn).
    replace (n <? N.of_nat (length (i2e s))) with true by (symmetry; apply N.ltb_lt; lia).
    rewrite existsb_all_false; [reflexivity|]. intros m Hm. destruct (Hnt m Hm) as [T _]. rewrite T. reflexivity.
  - intros n. unfold m_out. rewrite (scan_out_notomb _ n Hnt), H2. cbn [memN existsb flat_map]. rewrite app_nil_r.
    rewrite <- filter_flat_map. unfold g_out. apply Permutation_filter'. exact He.
  - intros n. unfold m_in. rewrite (scan_in_notomb _ n Hnt), H2. cbn [memN existsb flat_map]. rewrite app_nil_r.
    rewrite <- filter_flat_map. unfold g_in. apply Permutation_filter'. exact He.
  - intros n k. unfold m_nprop, g_nprop. rewrite Hnp, H3. destruct (assoc nk_eqb (n, k) (g_np g)); reflexivity.
  - intros e k. unfold m_eprop, g_eprop. rewrite Hep, H4. destruct (assoc ek_eqb (e, k) (g_ep g)); reflexivity.
  - intros n. unfold g_labels, m_labels. rewrite Hn, H5, !nthN_map.
    destruct (nthN (i2e s) n) as [p|]; cbn; [|reflexivity].
    destruct (snd p =? UNLABELED); reflexivity.
  - intros n. unfold g_ext, m_ext. rewrite Hn, nthN_map. destruct (nthN (i2e s) n) as [p|]; reflexivity.
  - intros ext. unfold g_lookup, m_lookup. rewrite Hn. symmetry. apply index_rel.
Qed.

(* C06 for the fragment: commit-only histories of node / relationship creations and property
   sets / removals; every read interface except the two whole-map reads *)
Theorem refines_grow : forall h, grow_hist h = true -> wf_hist h = true -> reads_agree (run h) (spec h).
Proof.
  intros h Hg Hw. apply inv_reads. unfold run, spec. apply inv_hist; [exact inv0 | exact Hg | exact Hw].
Qed.

Example refines_grow_nonvacuous :
  let h := [HTxn [OGetLabel 0; OCreateNode 1 0; OCreateNode 2 UNLABELED; OGetLabel 10; OCreateEdge (0, 1, 1); OCreateEdge (0, 1, 1);
                  OCreateEdge (1, 1, 1); OSetNP 0 0 3; OSetEP (0, 1, 1) 1 4] true;
            HTxn [ORemNP 0 0; OSetNP 0 1 5; OSetEP (0, 1, 1) 1 6; ORemEP (0, 1, 1) 0; OCreateNode 3 0; OCreateEdge (2, 1, 0)] true;
            HTxn [OSetNP 0 0 7; ORemNP 0 1] true] in
  grow_hist h = true /\ wf_hist h = true /\ m_out (run h) 0 = [(0, 1, 1); (0, 1, 1)] /\ m_nprop (run h) 0 0 = Some 7 /\
  m_nprop (run h) 0 1 = None /\ m_eprop (run h) (0, 1, 1) 1 = Some 6.
Proof. cbv zeta; repeat split; vm_compute; reflexivity. Qed.
