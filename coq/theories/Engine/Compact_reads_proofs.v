(* Engine/Compact_reads_proofs.v — PROOFS for C05: for EVERY engine state whose published runs
   hold no node / relationship tombstone and no property-removal marker (`compactable`, the
   complement of K-C05-tomb / -remove / -recreate at state level), compaction / checkpoint
   changes no read except possibly the two whole-map reads: nodes(), neighbors and
   incoming_neighbors as multisets, node_property, edge_property, labels, external ids, lookup.
   The segment built from the runs answers edge reads like the runs did (`seg_edges_notomb`,
   sorting is a permutation), the sunk store answers single-key reads like the newest-first
   overlay did (`sink_assoc`). *)
From Coq Require Import Lia Permutation.
From NDB Require Import Engine.Graph Engine.Model Engine.Known Engine.Lib_proofs Engine.Refine_proofs Engine.Compact_proofs.

(* runs without tombstones and without property removals *)
Definition quiet_run (m : mem) : Prop :=
  m.(me_tn) = [] /\ m.(me_te) = [] /\ m.(me_nrm) = [] /\ m.(me_erm) = [].
Definition compactable (s : state) : Prop := forall m, In m s.(runs) -> quiet_run m.
Definition quiet_run_b (m : mem) : bool :=
  match m.(me_tn), m.(me_te), m.(me_nrm), m.(me_erm) with [], [], [], [] => true | _, _, _, _ => false end.
Definition compactable_b (s : state) : bool := forallb quiet_run_b s.(runs).
Lemma compactable_b_ok : forall s, compactable_b s = true -> compactable s.
Proof.
  intros s H m I. unfold compactable_b in H. rewrite forallb_forall in H. specialize (H m I).
  unfold quiet_run_b in H. unfold quiet_run.
  destruct (me_tn m), (me_te m), (me_nrm m), (me_erm m); try discriminate H. repeat split.
Qed.

Lemma seg_edges_notomb : forall rs, (forall m, In m rs -> notomb m) -> seg_edges rs [] [] = flat_map me_edges rs.
Proof.
  induction rs as [|m rs IH]; intros H; [reflexivity|].
  cbn [seg_edges flat_map]. destruct (H m (or_introl eq_refl)) as [T1 T2]. rewrite T1, T2. cbn [app].
  rewrite (IH (fun m' I => H m' (or_intror I))). f_equal.
  apply filter_true. intros e _. reflexivity.
Qed.

Section Sink.
  Context {K : Type} (eqb : K -> K -> bool) (eqb_ok : forall a b, eqb a b = true <-> a = b).
  Lemma sink_step_assoc : forall (l acc : list (K * N)) key,
    assoc eqb key (fold_left (fun a kv => if memK eqb (fst kv) (map fst a) then a else a ++ [kv]) l acc) =
    match assoc eqb key acc with Some v => Some v | None => assoc eqb key l end.
  Proof.
    induction l as [|[k v] l IH]; intros acc key; cbn [fold_left assoc fst].
    - destruct (assoc eqb key acc); reflexivity.
    - rewrite IH. rewrite (memK_keys_assoc eqb).
      destruct (assoc eqb k acc) eqn:Ek.
      + destruct (assoc eqb key acc) eqn:Ea; [reflexivity|].
        destruct (eqb key k) eqn:E; [|reflexivity].
        apply eqb_ok in E; subst. rewrite Ek in Ea. discriminate Ea.
      + rewrite (assoc_app eqb). cbn [assoc]. destruct (assoc eqb key acc); [reflexivity|].
        destruct (eqb key k); reflexivity.
  Qed.
  Lemma sink_assoc : forall (gp : mem -> list (K * N)) (gr : mem -> list K) rs acc key,
    (forall m, In m rs -> gr m = []) ->
    assoc eqb key (sink eqb gp rs acc) =
    match assoc eqb key acc with Some v => Some v | None => prop_runs eqb gp gr rs key end.
  Proof.
    intros gp gr; induction rs as [|m rs IH]; intros acc key H; cbn [sink prop_runs].
    - destruct (assoc eqb key acc); reflexivity.
    - rewrite IH; [|intros m' I; apply H; right; exact I]. rewrite sink_step_assoc.
      rewrite (H m (or_introl eq_refl)). cbn [memK existsb].
      destruct (assoc eqb key acc); [reflexivity|]. destruct (assoc eqb key (gp m)); reflexivity.
  Qed.
End Sink.

Definition Pout (n : N) (e : edge) : bool := (e_src e =? n) && negb (memN (e_dst e) []) && negb (memE e []).
Definition Pin (n : N) (e : edge) : bool := (e_dst e =? n) && negb (memN (e_src e) []) && negb (memE e []).
Lemma m_out_notomb : forall s n, (forall m, In m (runs s) -> notomb m) ->
  m_out s n = flat_map (fun m => filter (fun e => e_src e =? n) m.(me_edges)) (runs s) ++ flat_map (fun sg => filter (Pout n) sg) (segs s).
Proof. intros s n H. unfold m_out. rewrite (scan_out_notomb _ n H). reflexivity. Qed.
Lemma m_in_notomb : forall s n, (forall m, In m (runs s) -> notomb m) ->
  m_in s n = flat_map (fun m => filter (fun e => e_dst e =? n) m.(me_edges)) (runs s) ++ flat_map (fun sg => filter (Pin n) sg) (segs s).
Proof. intros s n H. unfold m_in. rewrite (scan_in_notomb _ n H). reflexivity. Qed.
Lemma Pout_ext : forall n e, Pout n e = (e_src e =? n).
Proof. intros; unfold Pout; cbn; rewrite !andb_true_r; reflexivity. Qed.
Lemma Pin_ext : forall n e, Pin n e = (e_dst e =? n).
Proof. intros; unfold Pin; cbn; rewrite !andb_true_r; reflexivity. Qed.

Definition same_reads (a b : state) : Prop :=
  m_nodes a = m_nodes b /\
  (forall n, Permutation (m_out a n) (m_out b n)) /\
  (forall n, Permutation (m_in a n) (m_in b n)) /\
  (forall n k, m_nprop a n k = m_nprop b n k) /\
  (forall e k, m_eprop a e k = m_eprop b e k) /\
  (forall n, m_labels a n = m_labels b n) /\ (forall n, m_ext a n = m_ext b n) /\
  (forall ext, m_lookup a ext = m_lookup b ext).

Theorem compact_same_reads : forall s, compactable s -> same_reads (compact s) s.
Proof.
  intros s Hc.
  assert (Hnt : forall m, In m (runs s) -> notomb m) by (intros m I; destruct (Hc m I) as (A & B & _); split; assumption).
  unfold same_reads. split; [|split; [|split; [|split; [|split]]]].
  - apply compact_nodes. intros m I. exact (proj1 (Hc m I)).
  - intros n. rewrite (m_out_notomb s n Hnt). unfold compact. destruct (runs s) as [|m0 rs0] eqn:Hr.
    + rewrite (m_out_notomb s n); rewrite Hr; [apply Permutation_refl | intros m []].
    + rewrite m_out_notomb; [|intros m []]. cbn [runs segs].
      change (flat_map (fun m => filter (fun e => e_src e =? n) (me_edges m)) [] ++
              flat_map (fun sg => filter (Pout n) sg) (isort edge_leb (seg_edges (m0 :: rs0) [] []) :: segs s))
        with (filter (Pout n) (isort edge_leb (seg_edges (m0 :: rs0) [] [])) ++ flat_map (fun sg => filter (Pout n) sg) (segs s)).
      apply Permutation_app_tail.
      rewrite (seg_edges_notomb (m0 :: rs0) Hnt), <- filter_flat_map.
      rewrite (filter_ext _ _ (Pout_ext n)).
      apply Permutation_filter'. apply Permutation_isort.
  - intros n. rewrite (m_in_notomb s n Hnt). unfold compact. destruct (runs s) as [|m0 rs0] eqn:Hr.
    + rewrite (m_in_notomb s n); rewrite Hr; [apply Permutation_refl | intros m []].
    + rewrite m_in_notomb; [|intros m []]. cbn [runs segs].
      change (flat_map (fun m => filter (fun e => e_dst e =? n) (me_edges m)) [] ++
              flat_map (fun sg => filter (Pin n) sg) (isort edge_leb (seg_edges (m0 :: rs0) [] []) :: segs s))
        with (filter (Pin n) (isort edge_leb (seg_edges (m0 :: rs0) [] [])) ++ flat_map (fun sg => filter (Pin n) sg) (segs s)).
      apply Permutation_app_tail.
      rewrite (seg_edges_notomb (m0 :: rs0) Hnt), <- filter_flat_map.
      rewrite (filter_ext _ _ (Pin_ext n)).
      apply Permutation_filter'. apply Permutation_isort.
  - intros n k. unfold compact. destruct (runs s) as [|m0 rs0] eqn:Hr; [reflexivity|].
    unfold m_nprop. cbn [runs store_n prop_runs]. rewrite Hr.
    rewrite (assoc_app nk_eqb), (sink_assoc nk_eqb nk_eqb_ok me_np me_nrm).
    + cbn [assoc]. destruct (prop_runs nk_eqb me_np me_nrm (m0 :: rs0) (n, k)); reflexivity.
    + intros m I. rewrite <- Hr in I. exact (proj1 (proj2 (proj2 (Hc m I)))).
  - intros e k. unfold compact. destruct (runs s) as [|m0 rs0] eqn:Hr; [reflexivity|].
    unfold m_eprop. cbn [runs store_e prop_runs]. rewrite Hr.
    rewrite (assoc_app ek_eqb), (sink_assoc ek_eqb ek_eqb_ok me_ep me_erm).
    + cbn [assoc]. destruct (prop_runs ek_eqb me_ep me_erm (m0 :: rs0) (e, k)); reflexivity.
    + intros m I. rewrite <- Hr in I. exact (proj2 (proj2 (proj2 (Hc m I)))).
  - repeat split; intros; apply compact_labels_ids; exact 0.
Qed.

(* the hypothesis is executable and met by a state with two runs, parallel edges, overwritten
   properties and an older segment + sunk store *)
Example compact_same_reads_nonvacuous :
  let h := [HTxn [OGetLabel 0; OCreateNode 1 0; OCreateNode 2 0; OGetLabel 10; OCreateEdge (0, 1, 1); OSetNP 0 0 3; OSetEP (0, 1, 1) 0 4] true;
            HCompact;
            HTxn [OCreateEdge (0, 1, 1); OCreateEdge (1, 1, 1); OSetNP 0 0 5; OSetNP 1 1 6] true;
            HTxn [OSetEP (0, 1, 1) 0 7; OSetNP 0 0 8] true] in
  compactable_b (run h) = true /\ length (run h).(runs) = 2%nat /\ (run h).(segs) <> [] /\
  m_nprop (compact (run h)) 0 0 = Some 8 /\ m_out (compact (run h)) 0 = [(0, 1, 1); (0, 1, 1)].
Proof. cbv zeta; repeat split; try (vm_compute; reflexivity). intro H; vm_compute in H; discriminate H. Qed.
