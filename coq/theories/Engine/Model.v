(* Engine/Model.v — MODEL (faithful side `M`) of nervusdb-storage's GraphEngine as seen
   through nervusdb::Db: memtable, L0 runs newest-first, compacted segments, the sunk
   property store, i2e (durable, first label) / i2l (memory only), label interner, the
   WAL as the list of committed transactions in the code's record order, open = replay,
   and the read algorithms of read_path_*.rs / api.rs.  Small total computable Gallina,
   no proofs.  Source: engine.rs, memtable.rs, snapshot.rs, read_path_iters.rs,
   read_path_overlay.rs, read_path_property_store.rs, api.rs, idmap.rs, csr.rs, bulkload.rs
   (after the two `fix:` commits: csr incoming_neighbors on an edge-free segment, WAL
   record order tombstones-before-creates).

   Not modelled (outside the six properties / owned by others): page layout, the B-tree
   (the property store is the list of inserted (key,value) pairs, newest first among equal
   keys — what a single-leaf tree does), CSR encoding, index catalog, statistics, HNSW
   internals (the vector index is the set of ids `set_vector` was called on). *)
From NDB Require Export Engine.Graph.

(* ---------------- memtable (memtable.rs) ---------------- *)
Record mem := mkMem {
  me_edges : list edge;               (* out / in_ vectors as one multiset *)
  me_tn : list N;                     (* tombstoned_nodes *)
  me_te : list edge;                  (* tombstoned_edges *)
  me_np : list ((N * N) * N);         (* node_properties, flattened *)
  me_ep : list ((edge * N) * N);      (* edge_properties, flattened *)
  me_nrm : list (N * N);              (* removed_node_properties *)
  me_erm : list (edge * N)            (* removed_edge_properties *)
}.
Definition mem0 : mem := mkMem [] [] [] [] [] [] [].

Definition mem_is_empty (m : mem) : bool :=
  match m with mkMem [] [] [] [] [] [] [] => true | _ => false end.

Definition mem_create_edge (m : mem) (e : edge) : mem :=
  mkMem (e :: m.(me_edges)) m.(me_tn) m.(me_te) m.(me_np) m.(me_ep) m.(me_nrm) m.(me_erm).
Definition mem_tomb_node (m : mem) (n : N) : mem :=
  mkMem m.(me_edges) (if memN n m.(me_tn) then m.(me_tn) else n :: m.(me_tn)) m.(me_te) m.(me_np) m.(me_ep) m.(me_nrm) m.(me_erm).
(* tombstone_edge deletes the earlier copies of the key held by this memtable *)
Definition mem_tomb_edge (m : mem) (e : edge) : mem :=
  mkMem (filter (fun x => negb (edge_eqb e x)) m.(me_edges)) m.(me_tn)
        (if memE e m.(me_te) then m.(me_te) else e :: m.(me_te)) m.(me_np) m.(me_ep) m.(me_nrm) m.(me_erm).
Definition mem_set_np (m : mem) (n k v : N) : mem :=
  mkMem m.(me_edges) m.(me_tn) m.(me_te) (bind nk_eqb (n, k) v m.(me_np)) m.(me_ep)
        (setrm nk_eqb (n, k) m.(me_nrm)) m.(me_erm).
Definition mem_rem_np (m : mem) (n k : N) : mem :=
  mkMem m.(me_edges) m.(me_tn) m.(me_te) (unbind nk_eqb (n, k) m.(me_np)) m.(me_ep)
        ((n, k) :: setrm nk_eqb (n, k) m.(me_nrm)) m.(me_erm).
Definition mem_set_ep (m : mem) (e : edge) (k v : N) : mem :=
  mkMem m.(me_edges) m.(me_tn) m.(me_te) m.(me_np) (bind ek_eqb (e, k) v m.(me_ep))
        m.(me_nrm) (setrm ek_eqb (e, k) m.(me_erm)).
Definition mem_rem_ep (m : mem) (e : edge) (k : N) : mem :=
  mkMem m.(me_edges) m.(me_tn) m.(me_te) m.(me_np) (unbind ek_eqb (e, k) m.(me_ep))
        m.(me_nrm) ((e, k) :: setrm ek_eqb (e, k) m.(me_erm)).

(* ---------------- WAL records (wal.rs), as far as the engine interprets them ---------------- *)
Inductive wrec :=
| RCreateLabel (name id : N)
| RCreateNode (ext lab iid : N)
| RAddLabel (n l : N)
| RRemLabel (n l : N)
| RCreateEdge (e : edge)
| RTombNode (n : N)
| RTombEdge (e : edge)
| RSetNP (n k v : N)
| RRemNP (n k : N)
| RSetEP (e : edge) (k v : N)
| RRemEP (e : edge) (k : N)
| RManifest (epoch : N) (sg : list (list edge))     (* ManifestSwitch: the segment list *)
| RCheckpoint (upto epoch : N).

Record state := mkState {
  runs : list mem;                    (* published_runs, newest first: the frozen memtables *)
  rtx : list N;                       (* their transaction ids (same order); only compaction reads them *)
  segs : list (list edge);            (* published_segments, newest first *)
  store_n : list ((N * N) * N);       (* sunk node properties: insertions, newest first *)
  store_e : list ((edge * N) * N);    (* sunk edge properties *)
  i2e : list (N * N);                 (* durable node table: (external id, first label) *)
  i2l : list (list N);                (* in-memory label lists *)
  interner : list N;                  (* label / rel-type names, index = id *)
  next_txid : N;
  ckpt : N;                           (* checkpoint_txid *)
  epoch : N;                          (* manifest_epoch *)
  wal : list (N * list wrec);         (* committed transactions in log order = what Wal::replay_committed returns: the records a failed
                                         commit() left behind (BeginTx, ops, no CommitTx) are in the file but never part of this list *)
  vecs : list N                       (* ids present in the vector index *)
}.
Definition s0 : state := mkState [] [] [] [] [] [] [] [] 1 0 0 [] [].

Definition set_runs (s : state) r := mkState r s.(rtx) s.(segs) s.(store_n) s.(store_e) s.(i2e) s.(i2l) s.(interner) s.(next_txid) s.(ckpt) s.(epoch) s.(wal) s.(vecs).
Definition set_txid (s : state) t := mkState s.(runs) s.(rtx) s.(segs) s.(store_n) s.(store_e) s.(i2e) s.(i2l) s.(interner) t s.(ckpt) s.(epoch) s.(wal) s.(vecs).
Definition bump (s : state) := set_txid s (N.succ s.(next_txid)).

(* ---------------- write transaction (engine.rs WriteTxn) ---------------- *)
Record txn := mkTxn {
  tx_id : N;
  tx_created : list (N * N * N);      (* (ext, label, internal id) in call order *)
  tx_ladd : list (N * N);
  tx_lrem : list (N * N);
  tx_mem : mem
}.
Definition set_mem (t : txn) (m : mem) := mkTxn t.(tx_id) t.(tx_created) t.(tx_ladd) t.(tx_lrem) m.

Definition begin (s : state) : state * txn :=
  (bump s, mkTxn s.(next_txid) [] [] [] mem0).

Definition e2i_has (s : state) (ext : N) : bool := existsb (fun r => fst r =? ext) s.(i2e).

(* one call on the transaction; get_or_create_label and set_vector act on the engine at once *)
Definition apply_op (st : state * txn) (o : wop) : state * txn :=
  let (s, t) := st in
  match o with
  | OGetLabel name =>
      if memN name s.(interner) then st
      else (mkState s.(runs) s.(rtx) s.(segs) s.(store_n) s.(store_e) s.(i2e) s.(i2l) (s.(interner) ++ [name])
                    (N.succ s.(next_txid)) s.(ckpt) s.(epoch)
                    (s.(wal) ++ [(s.(next_txid), [RCreateLabel name (N.of_nat (length s.(interner)))])]) s.(vecs), t)
  | OCreateNode ext lab =>
      if e2i_has s ext then st
      else if existsb (fun c => fst (fst c) =? ext) t.(tx_created) then st
      else (s, mkTxn t.(tx_id)
                     (t.(tx_created) ++ [(ext, lab, N.of_nat (length s.(i2e) + length t.(tx_created)))])
                     t.(tx_ladd) t.(tx_lrem) t.(tx_mem))
  | OAddLabel n l => (s, mkTxn t.(tx_id) t.(tx_created) (t.(tx_ladd) ++ [(n, l)]) t.(tx_lrem) t.(tx_mem))
  | ORemLabel n l => (s, mkTxn t.(tx_id) t.(tx_created) t.(tx_ladd) (t.(tx_lrem) ++ [(n, l)]) t.(tx_mem))
  | OCreateEdge e => (s, set_mem t (mem_create_edge t.(tx_mem) e))
  | OTombEdge e => (s, set_mem t (mem_tomb_edge t.(tx_mem) e))
  | OTombNode n => (s, set_mem t (mem_tomb_node t.(tx_mem) n))
  | OSetNP n k v => (s, set_mem t (mem_set_np t.(tx_mem) n k v))
  | ORemNP n k => (s, set_mem t (mem_rem_np t.(tx_mem) n k))
  | OSetEP e k v => (s, set_mem t (mem_set_ep t.(tx_mem) e k v))
  | ORemEP e k => (s, set_mem t (mem_rem_ep t.(tx_mem) e k))
  | OSetVec n =>
      (mkState s.(runs) s.(rtx) s.(segs) s.(store_n) s.(store_e) s.(i2e) s.(i2l) s.(interner) s.(next_txid)
               s.(ckpt) s.(epoch) s.(wal) (if memN n s.(vecs) then s.(vecs) else n :: s.(vecs)), t)
  end.

(* the records of one commit, in the order commit() appends them.  The memtable lists are built by
   consing, so `rev` gives call order: replaying the records rebuilds the same lists (the code logs
   edges sorted and property maps in hash order; a run is insensitive to either) *)
Definition commit_records (t : txn) : list wrec :=
  let m := t.(tx_mem) in
  map (fun c => RCreateNode (fst (fst c)) (snd (fst c)) (snd c)) t.(tx_created)
  ++ map (fun p => RAddLabel (fst p) (snd p)) t.(tx_ladd)
  ++ map (fun p => RRemLabel (fst p) (snd p)) t.(tx_lrem)
  ++ map RTombEdge (rev m.(me_te))
  ++ map RCreateEdge (rev m.(me_edges))
  ++ map RTombNode (rev m.(me_tn))
  ++ map (fun kv => RSetNP (fst (fst kv)) (snd (fst kv)) (snd kv)) (rev m.(me_np))
  ++ map (fun p => RRemNP (fst p) (snd p)) (rev m.(me_nrm))
  ++ map (fun kv => RSetEP (fst (fst kv)) (snd (fst kv)) (snd kv)) (rev m.(me_ep))
  ++ map (fun p => RRemEP (fst p) (snd p)) (rev m.(me_erm)).

(* idmap.rs apply_add_label / apply_remove_label on the in-memory lists (unknown node: ignored here,
   an error in the code — the generator never produces it) *)
Definition i2l_add (l : list (list N)) (p : N * N) : list (list N) :=
  updN (label_add (snd p)) (fst p) l.
Definition i2l_rem (l : list (list N)) (p : N * N) : list (list N) :=
  updN (label_rem (snd p)) (fst p) l.

Definition commit (s : state) (t : txn) : state :=
  let i2e' := s.(i2e) ++ map (fun c => (fst (fst c), snd (fst c))) t.(tx_created) in
  let i2l0 := s.(i2l) ++ map (fun c => [snd (fst c)]) t.(tx_created) in
  let i2l' := fold_left i2l_rem t.(tx_lrem) (fold_left i2l_add t.(tx_ladd) i2l0) in
  let runs' := if mem_is_empty t.(tx_mem) then s.(runs) else t.(tx_mem) :: s.(runs) in
  let rtx' := if mem_is_empty t.(tx_mem) then s.(rtx) else t.(tx_id) :: s.(rtx) in
  mkState runs' rtx' s.(segs) s.(store_n) s.(store_e) i2e' i2l' s.(interner) (N.succ s.(next_txid))
          s.(ckpt) s.(epoch) (s.(wal) ++ [(t.(tx_id), commit_records t)]) s.(vecs).

Definition run_txn (s : state) (ops : list wop) (do_commit : bool) : state :=
  let (s1, t) := begin s in
  let (s2, t2) := fold_left apply_op ops (s1, t) in
  if do_commit then commit s2 t2 else s2.

(* ---------------- compaction (engine.rs compact / build_segment_from_runs) ---------------- *)
(* newest -> oldest; a run's own tombstones are added to the blocked sets BEFORE its edges are filtered *)
Fixpoint seg_edges (rs : list mem) (bn : list N) (be : list edge) : list edge :=
  match rs with
  | [] => []
  | m :: rs' =>
      let bn' := m.(me_tn) ++ bn in
      let be' := m.(me_te) ++ be in
      filter (fun e => negb (memN (e_src e) bn' || memN (e_dst e) bn' || memE e be')) m.(me_edges)
      ++ seg_edges rs' bn' be'
  end.
(* property sinking: newest value per (id, key) over the runs; removed keys are not touched *)
Fixpoint sink {K} (eqb : K -> K -> bool) (get : mem -> list (K * N)) (rs : list mem) (acc : list (K * N)) : list (K * N) :=
  match rs with
  | [] => acc
  | m :: rs' =>
      sink eqb get rs' (fold_left (fun a kv => if memK eqb (fst kv) (map fst a) then a else a ++ [kv]) (get m) acc)
  end.
Definition max_txid (ts : list N) : N := fold_left N.max ts 0.

Definition compact (s : state) : state :=
  match s.(runs) with
  | [] => s
  | _ =>
      let seg := isort edge_leb (seg_edges s.(runs) [] []) in
      let segs' := seg :: s.(segs) in
      let up_to := max_txid s.(rtx) in
      let ep := N.succ s.(epoch) in
      mkState [] [] segs'
              (sink nk_eqb me_np s.(runs) [] ++ s.(store_n))
              (sink ek_eqb me_ep s.(runs) [] ++ s.(store_e))
              s.(i2e) s.(i2l) s.(interner) (N.succ s.(next_txid)) up_to ep
              (s.(wal) ++ [(s.(next_txid), [RManifest ep segs'; RCheckpoint up_to ep])]) s.(vecs)
  end.

(* checkpoint_on_close: only with no published runs; rewrites the log as one transaction *)
Definition close (s : state) : state :=
  match s.(runs) with
  | _ :: _ => s
  | [] =>
      let up_to := N.pred s.(next_txid) in
      let recs := map (fun p => RCreateLabel (snd p) (fst p))
                      (combine (nseq 0 (length s.(interner))) s.(interner))
                  ++ [RManifest s.(epoch) s.(segs); RCheckpoint up_to s.(epoch)] in
      mkState s.(runs) s.(rtx) s.(segs) s.(store_n) s.(store_e) s.(i2e) s.(i2l) s.(interner)
              (N.succ s.(next_txid)) s.(ckpt) s.(epoch) [(s.(next_txid), recs)] s.(vecs)
  end.

(* ---------------- open = recovery (engine.rs open / scan_recovery_state / replay functions) ---------------- *)
Record rstate := mkR { r_epoch : N; r_segs : list (list edge); r_ckpt : N; r_max : N }.
Definition scan_rec (r : rstate) (x : wrec) : rstate :=
  match x with
  | RManifest ep sg => if r.(r_epoch) <=? ep then mkR ep sg 0 r.(r_max) else r
  | RCheckpoint upto ep => if ep =? r.(r_epoch) then mkR r.(r_epoch) r.(r_segs) (N.max r.(r_ckpt) upto) r.(r_max) else r
  | _ => r
  end.
Definition scan_tx (r : rstate) (tx : N * list wrec) : rstate :=
  let r1 := mkR r.(r_epoch) r.(r_segs) r.(r_ckpt) (N.max r.(r_max) (fst tx)) in
  fold_left scan_rec (snd tx) r1.
Definition scan_recovery (w : list (N * list wrec)) : rstate := fold_left scan_tx w (mkR 0 [] 0 0).

Definition replay_label (intr : list N) (x : wrec) : list N :=
  match x with
  | RCreateLabel name _ => if memN name intr then intr else intr ++ [name]
  | _ => intr
  end.
Definition replay_labels (w : list (N * list wrec)) : list N :=
  fold_left (fun a tx => fold_left replay_label (snd tx) a) w [].

(* one record into (i2l, memtable); CreateNode of a known external id is skipped *)
Definition replay_rec (st : list (list N) * mem) (x : wrec) : list (list N) * mem :=
  let (l, m) := st in
  match x with
  | RAddLabel n lb => (i2l_add l (n, lb), m)
  | RRemLabel n lb => (i2l_rem l (n, lb), m)
  | RCreateEdge e => (l, mem_create_edge m e)
  | RTombNode n => (l, mem_tomb_node m n)
  | RTombEdge e => (l, mem_tomb_edge m e)
  | RSetNP n k v => (l, mem_set_np m n k v)
  | RRemNP n k => (l, mem_rem_np m n k)
  | RSetEP e k v => (l, mem_set_ep m e k v)
  | RRemEP e k => (l, mem_rem_ep m e k)
  | _ => st
  end.
(* returns runs oldest-first-reversed = newest first *)
Fixpoint replay_graph (w : list (N * list wrec)) (ck : N) (l : list (list N)) (acc : list mem) (tacc : list N) : list (list N) * (list mem * list N) :=
  match w with
  | [] => (l, (acc, tacc))
  | tx :: w' =>
      if fst tx <=? ck then replay_graph w' ck l acc tacc
      else let (l', m) := fold_left replay_rec (snd tx) (l, mem0) in
           replay_graph w' ck l' (if mem_is_empty m then acc else m :: acc) (if mem_is_empty m then tacc else fst tx :: tacc)
  end.

Definition open (s : state) : state :=
  let r := scan_recovery s.(wal) in
  let l0 := map (fun p => [snd p]) s.(i2e) in
  let '(l, (rs, ts)) := replay_graph s.(wal) r.(r_ckpt) l0 [] [] in
  mkState rs ts r.(r_segs) s.(store_n) s.(store_e) s.(i2e) l (replay_labels s.(wal))
          (N.max (N.succ r.(r_max)) 1) r.(r_ckpt) r.(r_epoch) s.(wal) s.(vecs).

Definition step (s : state) (h : hop) : state :=
  match h with
  | HTxn ops c => run_txn s ops c
  | HCompact | HCheckpoint => compact s
  | HCloseReopen => open (close s)
  | HDropReopen => open s
  end.
Definition run (h : list hop) : state := fold_left step h s0.

(* ---------------- reads (read_path_iters.rs, read_path_overlay.rs, api.rs) ---------------- *)
(* NeighborsIter over the runs: returns the yielded edges and, unless the iterator terminated
   early (src blocked), the blocked sets to use for the segments *)
Fixpoint scan_out (rs : list mem) (bn : list N) (be : list edge) (src : N) : list edge * option (list N * list edge) :=
  match rs with
  | [] => ([], Some (bn, be))
  | m :: rs' =>
      if memN src bn then ([], None)
      else
        let here := if memN src m.(me_tn) then []
                    else filter (fun e => (e_src e =? src) && negb (memN (e_dst e) bn) && negb (memE e be)) m.(me_edges) in
        let (rest, fin) := scan_out rs' (m.(me_tn) ++ bn) (m.(me_te) ++ be) src in
        (here ++ rest, fin)
  end.
Definition m_out (s : state) (src : N) : list edge :=
  let (es, fin) := scan_out s.(runs) [] [] src in
  match fin with
  | None => es
  | Some (bn, be) =>
      if memN src bn then es
      else es ++ flat_map (fun sg => filter (fun e => (e_src e =? src) && negb (memN (e_dst e) bn) && negb (memE e be)) sg) s.(segs)
  end.
Fixpoint scan_in (rs : list mem) (bn : list N) (be : list edge) (dst : N) : list edge * option (list N * list edge) :=
  match rs with
  | [] => ([], Some (bn, be))
  | m :: rs' =>
      if memN dst bn then ([], None)
      else
        let here := if memN dst m.(me_tn) then []
                    else filter (fun e => (e_dst e =? dst) && negb (memN (e_src e) bn) && negb (memE e be)) m.(me_edges) in
        let (rest, fin) := scan_in rs' (m.(me_tn) ++ bn) (m.(me_te) ++ be) dst in
        (here ++ rest, fin)
  end.
Definition m_in (s : state) (dst : N) : list edge :=
  let (es, fin) := scan_in s.(runs) [] [] dst in
  match fin with
  | None => es
  | Some (bn, be) =>
      if memN dst bn then es
      else es ++ flat_map (fun sg => filter (fun e => (e_dst e =? dst) && negb (memN (e_src e) bn) && negb (memE e be)) sg) s.(segs)
  end.

Definition m_nodes (s : state) : list N :=
  filter (fun n => negb (existsb (fun r => memN n r.(me_tn)) s.(runs))) (nseq 0 (length s.(i2e))).

(* node_property_from_runs / edge_property_from_runs: a removal stops the run search with None —
   and api.rs then falls through to the store *)
Fixpoint prop_runs {K} (eqb : K -> K -> bool) (gp : mem -> list (K * N)) (gr : mem -> list K)
         (rs : list mem) (k : K) : option N :=
  match rs with
  | [] => None
  | m :: rs' =>
      if memK eqb k (gr m) then None
      else match assoc eqb k (gp m) with Some v => Some v | None => prop_runs eqb gp gr rs' k end
  end.
Definition m_nprop (s : state) (n k : N) : option N :=
  match prop_runs nk_eqb me_np me_nrm s.(runs) (n, k) with
  | Some v => Some v
  | None => assoc nk_eqb (n, k) s.(store_n)
  end.
Definition m_eprop (s : state) (e : edge) (k : N) : option N :=
  match prop_runs ek_eqb me_ep me_erm s.(runs) (e, k) with
  | Some v => Some v
  | None => assoc ek_eqb (e, k) s.(store_e)
  end.

(* merge_*_properties_from_runs: `resolved` = keys removed or already seen, newest first *)
Fixpoint merge_runs {I} (ieqb : I -> I -> bool) (gp : mem -> list ((I * N) * N)) (gr : mem -> list (I * N))
         (rs : list mem) (i : I) (resolved : list N) (acc : props) : props :=
  match rs with
  | [] => acc
  | m :: rs' =>
      let removed := filter_map (fun p => if ieqb (fst p) i then Some (snd p) else None) (gr m) in
      let res1 := removed ++ resolved in
      let here := filter_map (fun kv => if ieqb (fst (fst kv)) i then Some (snd (fst kv), snd kv) else None) (gp m) in
      let fresh := filter (fun kv => negb (memN (fst kv) res1)) here in
      merge_runs ieqb gp gr rs' i (map fst here ++ res1) (acc ++ fresh)
  end.
(* extend_*_properties_from_store: every stored key not in the merged map is fetched; with
   several stored entries for one key the LAST one fetched (the oldest) overwrites the others *)
Definition extend_store {I} (ieqb : I -> I -> bool) (store : list ((I * N) * N)) (i : I) (merged : props) : props :=
  let mine := filter_map (fun kv => if ieqb (fst (fst kv)) i then Some (snd (fst kv), snd kv) else None) store in
  let keys := dedupN (map fst mine) in
  let extra := filter_map (fun k => if memN k (map fst merged) then None
                                    else match assoc_last N.eqb k mine with Some v => Some (k, v) | None => None end) keys in
  isort fst_leb (merged ++ extra).
Definition m_nprops (s : state) (n : N) : props :=
  extend_store N.eqb s.(store_n) n (merge_runs N.eqb me_np me_nrm s.(runs) n [] []).
Definition m_eprops (s : state) (e : edge) : props :=
  extend_store edge_eqb s.(store_e) e (merge_runs edge_eqb me_ep me_erm s.(runs) e [] []).

Definition m_labels (s : state) (n : N) : list N := match nthN s.(i2l) n with Some l => l | None => [] end.
Definition m_ext (s : state) (n : N) : N := match nthN s.(i2e) n with Some r => fst r | None => 0 end.
Fixpoint index_ext (ext : N) (l : list (N * N)) (i : N) : N :=
  match l with [] => UNLABELED | x :: t => if fst x =? ext then i else index_ext ext t (N.succ i) end.
Definition m_lookup (s : state) (ext : N) : N := index_ext ext s.(i2e) 0.

Definition m_reader (s : state) : reader :=
  mkReader (length s.(i2e)) (m_nodes s) (m_out s) (m_in s) (m_nprop s) (m_nprops s)
           (m_eprop s) (m_eprops s) (m_labels s) (m_ext s) (m_lookup s).
(* GraphEngine::search_vector (after b0237dc): the ids in the vector index, minus the nodes that are
   tombstoned in a published run of the current snapshot *)
Definition m_vec_ids (s : state) : list N :=
  filter (fun n => negb (existsb (fun r => memN n r.(me_tn)) s.(runs))) s.(vecs).
Definition m_dump (s : state) : dump := dump_of s.(interner) (m_vec_ids s) (m_reader s).

(* the dump after every step of a history *)
Fixpoint run_dumps (s : state) (h : list hop) : list dump :=
  match h with
  | [] => []
  | x :: t => let s' := step s x in m_dump s' :: run_dumps s' t
  end.

(* ---------------- bulk load (bulkload.rs) ---------------- *)
(* node = (external id, label NAME, properties); edge = (src ext, type NAME, dst ext, properties) *)
Definition bnode := (N * N * props)%type.
Definition bedge := (N * N * N * props)%type.

Fixpoint intern_all (names : list N) (intr : list N) : list N :=
  match names with
  | [] => intr
  | n :: t => intern_all t (if memN n intr then intr else intr ++ [n])
  end.
Fixpoint index_name (name : N) (l : list N) (i : N) : N :=
  match l with [] => UNLABELED | x :: t => if x =? name then i else index_name name t (N.succ i) end.
Fixpoint index_bnode (ext : N) (l : list bnode) (i : N) : N :=
  match l with [] => UNLABELED | x :: t => if fst (fst x) =? ext then i else index_bnode ext t (N.succ i) end.

Definition bulk (ns : list bnode) (es : list bedge) : state :=
  let intr := intern_all (map (fun e => snd (fst (fst e))) es) (intern_all (map (fun n => snd (fst n)) ns) []) in
  let iid ext := index_bnode ext ns 0 in
  let ekey (e : bedge) : edge := (iid (fst (fst (fst e))), index_name (snd (fst (fst e))) intr 0, iid (snd (fst e))) in
  let seg := isort edge_leb (map ekey es) in
  let sn := flat_map (fun n => map (fun kv => ((iid (fst (fst n)), fst kv), snd kv)) (snd n)) ns in
  let se := flat_map (fun e => map (fun kv => ((ekey e, fst kv), snd kv)) (snd e)) es in
  let recs := map (fun p => RCreateLabel (snd p) (fst p)) (combine (nseq 0 (length intr)) intr)
              ++ [RManifest 0 [seg]; RCheckpoint 0 0] in
  (* the store lists are newest-first: later insertions in front *)
  mkState [] [] [] (rev sn) (rev se)
          (map (fun n => (fst (fst n), index_name (snd (fst n)) intr 0)) ns) [] [] 1 0 0 [(0, recs)] [].
Definition bulk_open (ns : list bnode) (es : list bedge) : state := open (bulk ns es).
