(* Engine/Graph.v — MODEL (spec side `S`): write operations, histories, the plain
   property graph the storage engine is supposed to implement, and the canonical
   logical dump.  Small total computable Gallina, no proofs.

   Identifiers are `N`: internal node ids (dense from 0), external ids, label /
   relationship-type ids (ids of the engine's interner; names are `N` codes too),
   property keys, property values (opaque codes of a palette fixed by the harness —
   the engine never looks inside a value). *)
From Coq Require Export List NArith Bool.
Export ListNotations.
Open Scope N_scope.

Definition edge := (N * N * N)%type.              (* (src, rel, dst) *)
Definition e_src (e : edge) : N := fst (fst e).
Definition e_rel (e : edge) : N := snd (fst e).
Definition e_dst (e : edge) : N := snd e.
Definition edge_eqb (a b : edge) : bool :=
  (e_src a =? e_src b) && (e_rel a =? e_rel b) && (e_dst a =? e_dst b).
Definition nk_eqb (a b : N * N) : bool := (fst a =? fst b) && (snd a =? snd b).
Definition ek_eqb (a b : edge * N) : bool := edge_eqb (fst a) (fst b) && (snd a =? snd b).

(* executor.rs: UNLABELED_LABEL_ID = LabelId::MAX *)
Definition UNLABELED : N := 4294967295.

Definition memN (x : N) (l : list N) : bool := existsb (N.eqb x) l.
Definition memE (x : edge) (l : list edge) : bool := existsb (edge_eqb x) l.

Section Assoc.
  Context {K V : Type} (eqb : K -> K -> bool).
  Fixpoint assoc (k : K) (l : list (K * V)) : option V :=
    match l with
    | [] => None
    | (k', v) :: t => if eqb k k' then Some v else assoc k t
    end.
  Definition unbind (k : K) (l : list (K * V)) : list (K * V) :=
    filter (fun kv => negb (eqb k (fst kv))) l.
  Definition bind (k : K) (v : V) (l : list (K * V)) : list (K * V) := (k, v) :: unbind k l.
  (* the LAST binding of k (oldest in a prepend-ordered list) *)
  Fixpoint assoc_last (k : K) (l : list (K * V)) : option V :=
    match l with
    | [] => None
    | (k', v) :: t => match assoc_last k t with
                      | Some w => Some w
                      | None => if eqb k k' then Some v else None
                      end
    end.
End Assoc.
Definition setrm {K} (eqb : K -> K -> bool) (k : K) (l : list K) : list K :=
  filter (fun x => negb (eqb k x)) l.
Definition memK {K} (eqb : K -> K -> bool) (k : K) (l : list K) : bool := existsb (eqb k) l.

(* ---------------- write operations and histories ---------------- *)
Inductive wop :=
| OGetLabel (name : N)                 (* get_or_create_label / get_or_create_rel_type *)
| OCreateNode (ext lab : N)            (* create_node(ext, label id or UNLABELED) *)
| OAddLabel (n l : N)
| ORemLabel (n l : N)
| OCreateEdge (e : edge)
| OTombEdge (e : edge)
| OTombNode (n : N)
| OSetNP (n k v : N)
| ORemNP (n k : N)
| OSetEP (e : edge) (k v : N)
| ORemEP (e : edge) (k : N)
| OSetVec (n : N).                     (* set_vector(n, some vector) *)

Inductive hop :=
| HTxn (ops : list wop) (commit : bool)   (* begin_write; ops; then commit() succeeds (true), or the transaction is dropped
                                              or commit() returns an error before its CommitTx record is logged (false) *)
| HCompact                                 (* Db::compact *)
| HCheckpoint                              (* Db::checkpoint (= compact in the code) *)
| HCloseReopen                             (* Db::close (checkpoint_on_close); Db::open *)
| HDropReopen.                             (* drop(Db); Db::open *)

(* ---------------- canonical logical dump ---------------- *)
Definition props := list (N * N).                     (* (key, value) sorted by key *)
(* (iid, ext (0 = none), lookup(ext) (UNLABELED = none), label NAMES sorted, node_properties, node_property per key) *)
Definition dnode := (N * N * N * list N * props * props)%type.
(* ((src, type NAME, dst), multiplicity, edge_properties, edge_property per key) *)
Definition dedge := (edge * N * props * props)%type.
Record dump := mkDump { d_nodes : list dnode; d_out : list dedge; d_in : list dedge; d_vec : list N }.

Definition KEYS : list N := [0; 1; 2].
(* neighbour queries are dumped for the internal ids 0..UNIVERSE-1 (the harness never creates more nodes) *)
Definition UNIVERSE : nat := 8.

(* sorting (insertion sort on a boolean order) and run-length grouping *)
Section Sort.
  Context {A : Type} (leb : A -> A -> bool).
  Fixpoint insert (x : A) (l : list A) : list A :=
    match l with
    | [] => [x]
    | y :: t => if leb x y then x :: l else y :: insert x t
    end.
  Fixpoint isort (l : list A) : list A :=
    match l with [] => [] | x :: t => insert x (isort t) end.
End Sort.
Definition edge_leb (a b : edge) : bool :=
  if e_src a <? e_src b then true else if e_src b <? e_src a then false else
  if e_rel a <? e_rel b then true else if e_rel b <? e_rel a then false else
  e_dst a <=? e_dst b.
Definition fst_leb {B} (a b : N * B) : bool := fst a <=? fst b.

Fixpoint dedupN (l : list N) : list N :=
  match l with
  | [] => []
  | x :: t => if memN x t then dedupN t else x :: dedupN t
  end.
Definition sort_setN (l : list N) : list N := isort N.leb (dedupN l).

(* sorted edge list -> (edge, multiplicity) *)
Fixpoint group_edges (l : list edge) : list (edge * N) :=
  match l with
  | [] => []
  | e :: t => match group_edges t with
              | (e', n) :: g => if edge_eqb e e' then (e', N.succ n) :: g else (e, 1) :: (e', n) :: g
              | [] => [(e, 1)]
              end
  end.

(* list access by an N index (never converts a large N to nat) *)
Fixpoint nthN {A} (l : list A) (i : N) : option A :=
  match l with
  | [] => None
  | x :: t => if i =? 0 then Some x else nthN t (N.pred i)
  end.
Fixpoint updN {A} (f : A -> A) (i : N) (l : list A) : list A :=
  match l with
  | [] => []
  | x :: t => if i =? 0 then f x :: t else x :: updN f (N.pred i) t
  end.
Definition name_of (interner : list N) (id : N) : option N := nthN interner id.
Fixpoint filter_map {A B} (f : A -> option B) (l : list A) : list B :=
  match l with
  | [] => []
  | x :: t => match f x with Some y => y :: filter_map f t | None => filter_map f t end
  end.
Definition UNKNOWN_NAME : N := 999.
Definition rel_name (interner : list N) (id : N) : N :=
  match name_of interner id with Some n => n | None => UNKNOWN_NAME end.

Fixpoint nseq (start : N) (len : nat) : list N :=
  match len with O => [] | S k => start :: nseq (N.succ start) k end.

(* A read interface: what a snapshot answers (ids, not names) *)
Record reader := mkReader {
  rd_count : nat;                                  (* number of internal ids ever assigned *)
  rd_nodes : list N;                               (* nodes() *)
  rd_out : N -> list edge;                         (* neighbors(n, None) *)
  rd_in : N -> list edge;                          (* incoming_neighbors(n, None) *)
  rd_nprop : N -> N -> option N;                   (* node_property *)
  rd_nprops : N -> props;                          (* node_properties, [] = None *)
  rd_eprop : edge -> N -> option N;
  rd_eprops : edge -> props;
  rd_labels : N -> list N;                         (* resolve_node_labels (ids) *)
  rd_ext : N -> N;                                 (* resolve_external, 0 = None *)
  rd_lookup : N -> N                               (* lookup_internal_id, UNLABELED = None *)
}.

Definition singles (f : N -> option N) : props :=
  filter_map (fun k => match f k with Some v => Some (k, v) | None => None end) KEYS.

Definition dump_edges (interner : list N) (r : reader) (view : N -> list edge) : list dedge :=
  let ids := flat_map view (nseq 0 UNIVERSE) in
  map (fun '(e, n) =>
         ((e_src e, rel_name interner (e_rel e), e_dst e), n, r.(rd_eprops) e, singles (r.(rd_eprop) e)))
      (group_edges (isort edge_leb ids)).

Definition dump_of (interner : list N) (vecs : list N) (r : reader) : dump :=
  mkDump
    (map (fun n => (n, r.(rd_ext) n, r.(rd_lookup) (r.(rd_ext) n),
                    isort N.leb (filter_map (name_of interner) (r.(rd_labels) n)),
                    r.(rd_nprops) n, singles (r.(rd_nprop) n)))
         r.(rd_nodes))
    (dump_edges interner r r.(rd_out))
    (dump_edges interner r r.(rd_in))
    (sort_setN vecs).

(* ---------------- the spec graph S ---------------- *)
Record gnode := mkGNode { gn_ext : N; gn_labels : list N; gn_live : bool }.
Record graph := mkGraph {
  g_nodes : list gnode;                 (* index = internal id *)
  g_np : list ((N * N) * N);            (* (node, key) -> value *)
  g_edges : list edge;                  (* multiset *)
  g_ep : list ((edge * N) * N)          (* (edge key, key) -> value: one map per (src,type,dst) *)
}.
Definition g0 : graph := mkGraph [] [] [] [].

Definition g_live (g : graph) (n : N) : bool :=
  match nthN g.(g_nodes) n with Some x => x.(gn_live) | None => false end.
Definition g_has_ext (g : graph) (ext : N) : bool := existsb (fun x => x.(gn_ext) =? ext) g.(g_nodes).

Definition label_add (l : N) (ls : list N) : list N := if memN l ls then ls else isort N.leb (l :: ls).
Definition label_rem (l : N) (ls : list N) : list N := filter (fun x => negb (x =? l)) ls.

Definition touches (n : N) (e : edge) : bool := (e_src e =? n) || (e_dst e =? n).

Definition g_apply (g : graph) (o : wop) : graph :=
  match o with
  | OGetLabel _ | OSetVec _ => g
  | OCreateNode ext lab =>
      if g_has_ext g ext then g
      else mkGraph (g.(g_nodes) ++ [mkGNode ext (if lab =? UNLABELED then [] else [lab]) true])
                   g.(g_np) g.(g_edges) g.(g_ep)
  | OAddLabel n l =>
      if g_live g n then mkGraph (updN (fun x => mkGNode x.(gn_ext) (label_add l x.(gn_labels)) x.(gn_live)) n g.(g_nodes))
                                 g.(g_np) g.(g_edges) g.(g_ep) else g
  | ORemLabel n l =>
      if g_live g n then mkGraph (updN (fun x => mkGNode x.(gn_ext) (label_rem l x.(gn_labels)) x.(gn_live)) n g.(g_nodes))
                                 g.(g_np) g.(g_edges) g.(g_ep) else g
  | OCreateEdge e =>
      if g_live g (e_src e) && g_live g (e_dst e)
      then mkGraph g.(g_nodes) g.(g_np) (e :: g.(g_edges)) g.(g_ep) else g
  | OTombEdge e =>
      mkGraph g.(g_nodes) g.(g_np) (filter (fun x => negb (edge_eqb e x)) g.(g_edges))
              (filter (fun kv => negb (edge_eqb e (fst (fst kv)))) g.(g_ep))
  | OTombNode n =>
      if g_live g n then
      mkGraph (updN (fun x => mkGNode x.(gn_ext) x.(gn_labels) false) n g.(g_nodes))
              (filter (fun kv => negb (fst (fst kv) =? n)) g.(g_np))
              (filter (fun x => negb (touches n x)) g.(g_edges))
              (filter (fun kv => negb (touches n (fst (fst kv)))) g.(g_ep))
      else g
  | OSetNP n k v => if g_live g n then mkGraph g.(g_nodes) (bind nk_eqb (n, k) v g.(g_np)) g.(g_edges) g.(g_ep) else g
  | ORemNP n k => mkGraph g.(g_nodes) (unbind nk_eqb (n, k) g.(g_np)) g.(g_edges) g.(g_ep)
  | OSetEP e k v => if memE e g.(g_edges) then mkGraph g.(g_nodes) g.(g_np) g.(g_edges) (bind ek_eqb (e, k) v g.(g_ep)) else g
  | ORemEP e k => mkGraph g.(g_nodes) g.(g_np) g.(g_edges) (unbind ek_eqb (e, k) g.(g_ep))
  end.
Definition g_apply_tx (g : graph) (ops : list wop) : graph := fold_left g_apply ops g.
Definition g_step (g : graph) (h : hop) : graph :=
  match h with HTxn ops true => g_apply_tx g ops | _ => g end.
Definition spec (h : list hop) : graph := fold_left g_step h g0.

(* reads of S *)
Definition g_node_ids (g : graph) : list N :=
  filter (g_live g) (nseq 0 (length g.(g_nodes))).
Definition g_out (g : graph) (n : N) : list edge := filter (fun e => e_src e =? n) g.(g_edges).
Definition g_in (g : graph) (n : N) : list edge := filter (fun e => e_dst e =? n) g.(g_edges).
Definition g_nprop (g : graph) (n k : N) : option N := assoc nk_eqb (n, k) g.(g_np).
Definition g_nprops (g : graph) (n : N) : props :=
  isort fst_leb (filter_map (fun kv => if fst (fst kv) =? n then Some (snd (fst kv), snd kv) else None) g.(g_np)).
Definition g_eprop (g : graph) (e : edge) (k : N) : option N := assoc ek_eqb (e, k) g.(g_ep).
Definition g_eprops (g : graph) (e : edge) : props :=
  isort fst_leb (filter_map (fun kv => if edge_eqb (fst (fst kv)) e then Some (snd (fst kv), snd kv) else None) g.(g_ep)).
Definition g_labels (g : graph) (n : N) : list N :=
  match nthN g.(g_nodes) n with Some x => x.(gn_labels) | None => [] end.
Definition g_ext (g : graph) (n : N) : N :=
  match nthN g.(g_nodes) n with Some x => x.(gn_ext) | None => 0 end.
Fixpoint index_of (p : gnode -> bool) (l : list gnode) (i : N) : N :=
  match l with [] => UNLABELED | x :: t => if p x then i else index_of p t (N.succ i) end.
Definition g_lookup (g : graph) (ext : N) : N :=
  index_of (fun x => (x.(gn_ext) =? ext) && x.(gn_live)) g.(g_nodes) 0.

Definition g_reader (g : graph) : reader :=
  mkReader (length g.(g_nodes)) (g_node_ids g) (g_out g) (g_in g) (g_nprop g) (g_nprops g)
           (g_eprop g) (g_eprops g) (g_labels g) (g_ext g) (g_lookup g).
Definition g_dump (interner vecs : list N) (g : graph) : dump := dump_of interner vecs (g_reader g).
