(* Engine/Bulk_equiv_proofs.v — PROOFS for C30: the property part of the joining lemma and the
   assembled theorem.  `spec_load_nprop` / `spec_load_eprop`: in the spec graph of `load_txns ns es`
   a property read returns the last value the input gives, i.e. what the bulk-loaded store's first
   entry is; `bulk_equiv_txn`: for every valid input whose load history is well-formed the
   bulk-loaded database and the transactionally loaded one agree on every read interface except the
   two whole-map reads (nodes(), both edge views as multisets, node_property, edge_property, labels,
   external ids, lookup). *)
From Coq Require Import Lia Permutation.
From NDB Require Import Engine.Graph Engine.Model Engine.Known Engine.Lib_proofs Engine.Refine_proofs Engine.Reopen_proofs Engine.Compact_reads_proofs Engine.Bulk_proofs Engine.Bulk_join_proofs.

(* ---------------- sequences of property sets ---------------- *)
Section Binds.
  Context {K : Type} (eqb : K -> K -> bool) (eqb_ok : forall a b, eqb a b = true <-> a = b).
  Definition binds (L acc : list (K * N)) : list (K * N) := fold_left (fun l kv => bind eqb (fst kv) (snd kv) l) L acc.
  Lemma binds_app : forall a b acc, binds (a ++ b) acc = binds b (binds a acc).
  Proof. intros; unfold binds; apply fold_left_app. Qed.
  (* the last set of a key wins = the first entry of the reversed list *)
  Lemma assoc_binds : forall L acc key,
    assoc eqb key (binds L acc) = match assoc eqb key (rev L) with Some v => Some v | None => assoc eqb key acc end.
  Proof.
    induction L as [|[k v] L IH]; intros acc key; cbn [binds fold_left rev fst snd]; [reflexivity|].
    fold (binds L (bind eqb k v acc)). rewrite IH, (assoc_app eqb). cbn [assoc].
    destruct (assoc eqb key (rev L)); [reflexivity|].
    destruct (eqb key k) eqn:E.
    - apply eqb_ok in E; subst. apply (assoc_bind_same eqb eqb_ok).
    - apply (assoc_bind_other eqb eqb_ok); exact E.
  Qed.
End Binds.

(* ---------------- node properties of the load's spec graph ---------------- *)
Fixpoint pairs_from (i : N) (ns : list bnode) : list ((N * N) * N) :=
  match ns with
  | [] => []
  | nd :: t => map (fun kv : N * N => ((i, fst kv), snd kv)) (snd nd) ++ pairs_from (N.succ i) t
  end.

Lemma setnp_np : forall (ps : props) i g, g_live g i = true ->
  g_np (fold_left g_apply (map (fun kv => OSetNP i (fst kv) (snd kv)) ps) g) =
  binds nk_eqb (map (fun kv : N * N => ((i, fst kv), snd kv)) ps) (g_np g).
Proof.
  induction ps as [|kv ps IH]; intros i g Hl; [reflexivity|]. cbn [map fold_left binds fst snd].
  fold (binds nk_eqb (map (fun kv : N * N => ((i, fst kv), snd kv)) ps) (bind nk_eqb (i, fst kv) (snd kv) (g_np g))).
  assert (E : g_apply g (OSetNP i (fst kv) (snd kv)) = mkGraph (g_nodes g) (bind nk_eqb (i, fst kv) (snd kv) (g_np g)) (g_edges g) (g_ep g))
    by (cbn [g_apply]; rewrite Hl; reflexivity).
  rewrite E. rewrite IH; [reflexivity|]. unfold g_live in *. cbn [g_nodes]. exact Hl.
Qed.

Lemma spec_load_nodes_np : forall ns intr i g, wf_hist_from g (fst (load_nodes ns intr i)) = true ->
  i = N.of_nat (length (g_nodes g)) ->
  g_np (fold_left g_step (fst (load_nodes ns intr i)) g) = binds nk_eqb (pairs_from i ns) (g_np g).
Proof.
  induction ns as [|[[ext lab] ps] ns IH]; intros intr i g Hw Hi; [reflexivity|].
  cbn [load_nodes] in *. fold (intern1 lab intr) in *.
  specialize (IH (intern1 lab intr) (N.succ i)).
  destruct (load_nodes ns (intern1 lab intr) (N.succ i)) as [h fin]; cbn [fst snd] in *.
  cbn [wf_hist_from] in Hw. apply andb_true_iff in Hw. destruct Hw as [Hw1 Hw2].
  cbn [fold_left g_step pairs_from snd] in *.
  remember (index_name lab (intern1 lab intr) 0) as id eqn:Hid.
  assert (Hext : g_has_ext g ext = false).
  { cbn [wf_tx wf_op g_apply] in Hw1. apply andb_true_iff in Hw1. destruct Hw1 as [_ Hw1].
    apply andb_true_iff in Hw1. destruct Hw1 as [Hw1 _]. apply andb_true_iff in Hw1. destruct Hw1 as [_ Hw1].
    apply negb_true_iff in Hw1. exact Hw1. }
  set (gm := mkGraph (g_nodes g ++ [mkGNode ext (if id =? UNLABELED then [] else [id]) true]) (g_np g) (g_edges g) (g_ep g)).
  assert (Hlive : g_live gm i = true).
  { unfold g_live, gm. cbn [g_nodes]. rewrite Hi, nthN_app_last. reflexivity. }
  set (g1 := g_apply_tx g (OGetLabel lab :: OCreateNode ext id :: map (fun kv : N * N => OSetNP i (fst kv) (snd kv)) ps)) in *.
  assert (H1 : g_np g1 = binds nk_eqb (map (fun kv : N * N => ((i, fst kv), snd kv)) ps) (g_np g) /\
               length (g_nodes g1) = S (length (g_nodes g))).
  { unfold g1, g_apply_tx. cbn [fold_left g_apply]. rewrite Hext. fold gm. split.
    - rewrite (setnp_np ps i gm Hlive). reflexivity.
    - destruct (setnp_frame ps i gm) as (A & _). rewrite A. unfold gm; cbn [g_nodes]. rewrite app_length. cbn. lia. }
  destruct H1 as (P1 & L1).
  rewrite (IH g1 Hw2); [|rewrite L1, Hi, Nat2N.inj_succ; reflexivity].
  rewrite P1, (binds_app nk_eqb). reflexivity.
Qed.

(* with distinct external ids a node's position is what index_bnode finds *)
Definition has_ext_b (x : N) (l : list bnode) : bool := existsb (fun m : bnode => fst (fst m) =? x) l.
Lemma index_bnode_skip : forall x pre l i, has_ext_b x pre = false ->
  index_bnode x (pre ++ l) i = index_bnode x l (i + N.of_nat (length pre)).
Proof.
  intros x pre; induction pre as [|p pre IH]; intros l i H; cbn [app length index_bnode].
  - cbn. rewrite N.add_0_r. reflexivity.
  - cbn in H. apply orb_false_iff in H. destruct H as [H1 H2]. rewrite H1.
    rewrite (IH l (N.succ i) H2), Nat2N.inj_succ. f_equal. lia.
Qed.
Lemma uniq_exts_app : forall pre nd t, uniq_exts (pre ++ nd :: t) = true -> has_ext_b (fst (fst nd)) pre = false.
Proof.
  induction pre as [|p pre IH]; intros nd t H; [reflexivity|]. cbn [app uniq_exts] in H.
  apply andb_true_iff in H. destruct H as [H1 H2]. apply negb_true_iff in H1.
  pose proof (IH nd t H2) as IH'. unfold has_ext_b in *. cbn [existsb]. rewrite IH', orb_false_r.
  rewrite existsb_app in H1. apply orb_false_iff in H1. destruct H1 as [_ H1]. cbn in H1.
  apply orb_false_iff in H1. destruct H1 as [H1 _]. rewrite N.eqb_sym. exact H1.
Qed.
Lemma pairs_index : forall ns pre, uniq_exts (pre ++ ns) = true ->
  flat_map (fun nd : bnode => map (fun kv : N * N => ((index_bnode (fst (fst nd)) (pre ++ ns) 0, fst kv), snd kv)) (snd nd)) ns =
  pairs_from (N.of_nat (length pre)) ns.
Proof.
  induction ns as [|nd ns IH]; intros pre H; [reflexivity|]. cbn [flat_map pairs_from].
  rewrite (index_bnode_skip _ pre (nd :: ns) 0 (uniq_exts_app pre nd ns H)). cbn [index_bnode].
  rewrite N.eqb_refl, N.add_0_l. f_equal.
  specialize (IH (pre ++ [nd])). rewrite <- app_assoc in IH. cbn [app] in IH.
  replace (N.of_nat (length (pre ++ [nd]))) with (N.succ (N.of_nat (length pre))) in IH by (rewrite app_length; cbn [length]; lia).
  rewrite <- (IH H).
  apply flat_map_ext. intros nd'. reflexivity.
Qed.

Theorem spec_load_nprop : forall ns es, wf_hist (load_txns ns es) = true -> uniq_exts ns = true ->
  forall key, assoc nk_eqb key (g_np (spec (load_txns ns es))) = assoc nk_eqb key (store_n (bulk_open ns es)).
Proof.
  intros ns es Hw Hu key. unfold load_txns, spec, wf_hist in *.
  pose proof (spec_load_nodes_np ns [] 0 g0) as HN.
  destruct (load_nodes ns [] 0) as [hN intrN]; cbn [fst snd] in *.
  rewrite wf_hist_from_app in Hw. apply andb_true_iff in Hw. destruct Hw as [Hw1 Hw2].
  rewrite fold_left_app.
  destruct (spec_load_edges ns es intrN _ Hw2) as (_ & P2 & _). cbn zeta in P2. rewrite P2.
  rewrite (HN Hw1 eq_refl). rewrite (assoc_binds nk_eqb nk_eqb_ok). cbn [g_np g0 assoc].
  destruct (bulk_open_state ns es) as (_ & _ & _ & _ & S5 & _). rewrite S5.
  pose proof (pairs_index ns [] Hu) as Hp. cbn in Hp. rewrite <- Hp.
  destruct (assoc nk_eqb key (rev _)); reflexivity.
Qed.

(* ---------------- relationship properties of the load's spec graph ---------------- *)
Lemma memE_head : forall e l, memE e (e :: l) = true.
Proof. intros; unfold memE; cbn. rewrite (eqb_refl' edge_eqb edge_eqb_ok). reflexivity. Qed.

Lemma setep_ep : forall (ps : props) e g, memE e (g_edges g) = true ->
  g_ep (fold_left g_apply (map (fun kv => OSetEP e (fst kv) (snd kv)) ps) g) =
  binds ek_eqb (map (fun kv : N * N => ((e, fst kv), snd kv)) ps) (g_ep g).
Proof.
  induction ps as [|kv ps IH]; intros e g Hm; [reflexivity|]. cbn [map fold_left binds fst snd].
  fold (binds ek_eqb (map (fun kv : N * N => ((e, fst kv), snd kv)) ps) (bind ek_eqb (e, fst kv) (snd kv) (g_ep g))).
  assert (E : g_apply g (OSetEP e (fst kv) (snd kv)) = mkGraph (g_nodes g) (g_np g) (g_edges g) (bind ek_eqb (e, fst kv) (snd kv) (g_ep g)))
    by (cbn [g_apply]; rewrite Hm; reflexivity).
  rewrite E. rewrite IH; [reflexivity|]. cbn [g_edges]. exact Hm.
Qed.

Lemma spec_load_edges_ep : forall all es intr g, wf_hist_from g (load_edges all es intr) = true ->
  let fin := intern_all (map (fun e : bedge => snd (fst (fst e))) es) intr in
  g_ep (fold_left g_step (load_edges all es intr) g) =
  binds ek_eqb (flat_map (fun e : bedge => map (fun kv : N * N => ((ekey_in all fin e, fst kv), snd kv)) (snd e)) es) (g_ep g).
Proof.
  intros all; induction es as [|[[[se rel] de] ps] es IH]; intros intr g Hw; [reflexivity|].
  cbn [load_edges] in *. fold (intern1 rel intr) in *.
  cbn [wf_hist_from] in Hw. apply andb_true_iff in Hw. destruct Hw as [Hw1 Hw2].
  cbn [fold_left g_step flat_map map intern_all fst snd] in *. fold (intern1 rel intr). cbn zeta.
  remember (index_bnode se all 0, index_name rel (intern1 rel intr) 0, index_bnode de all 0) as e eqn:He.
  assert (Hlive : g_live g (e_src e) && g_live g (e_dst e) = true).
  { cbn [wf_tx wf_op g_apply] in Hw1. apply andb_true_iff in Hw1. destruct Hw1 as [_ Hw1].
    apply andb_true_iff in Hw1. destruct Hw1 as [Hw1 _]. exact Hw1. }
  set (gm := mkGraph (g_nodes g) (g_np g) (e :: g_edges g) (g_ep g)).
  set (g1 := g_apply_tx g (OGetLabel rel :: OCreateEdge e :: map (fun kv : N * N => OSetEP e (fst kv) (snd kv)) ps)) in *.
  assert (P1 : g_ep g1 = binds ek_eqb (map (fun kv : N * N => ((e, fst kv), snd kv)) ps) (g_ep g)).
  { unfold g1, g_apply_tx. cbn [fold_left g_apply]. rewrite Hlive.
    exact (setep_ep ps e gm (memE_head e (g_edges g))). }
  rewrite (IH (intern1 rel intr) g1 Hw2). cbn zeta. rewrite P1, (binds_app ek_eqb). f_equal. f_equal.
  apply map_ext. intros kv. f_equal. f_equal.
  unfold ekey_in. rewrite He. cbn [fst snd]. f_equal. f_equal. symmetry. apply index_stable.
Qed.

Theorem spec_load_eprop : forall ns es, wf_hist (load_txns ns es) = true ->
  forall key, assoc ek_eqb key (g_ep (spec (load_txns ns es))) = assoc ek_eqb key (store_e (bulk_open ns es)).
Proof.
  intros ns es Hw key. unfold load_txns, spec, wf_hist in *.
  pose proof (load_nodes_intr ns [] 0) as Hfin.
  pose proof (spec_load_nodes ns [] 0 g0) as HN.
  destruct (load_nodes ns [] 0) as [hN intrN]; cbn [fst snd] in *.
  rewrite wf_hist_from_app in Hw. apply andb_true_iff in Hw. destruct Hw as [Hw1 Hw2].
  rewrite fold_left_app.
  rewrite (spec_load_edges_ep ns es intrN _ Hw2). cbn zeta.
  destruct (HN Hw1) as (_ & _ & P1). cbn zeta in P1. rewrite P1.
  rewrite (assoc_binds ek_eqb ek_eqb_ok). cbn [g_ep g0 assoc].
  destruct (bulk_open_state ns es) as (_ & _ & _ & _ & _ & S6). rewrite S6.
  replace (intern_all (map (fun e : bedge => snd (fst (fst e))) es) intrN) with (bulk_intr ns es) by (rewrite Hfin; reflexivity).
  change (fun e : bedge => map (fun kv : N * N => ((ekey_in ns (bulk_intr ns es) e, fst kv), snd kv)) (snd e))
    with (fun e : bedge => map (fun kv : N * N => ((bulk_ekey ns es e, fst kv), snd kv)) (snd e)).
  destruct (assoc ek_eqb key (rev _)); reflexivity.
Qed.

(* ---------------- C30 for every read except the two whole-map reads ---------------- *)
Theorem bulk_equiv_txn : forall ns es, bulk_valid ns es = true -> wf_hist (load_txns ns es) = true ->
  same_reads (bulk_open ns es) (run (load_txns ns es)).
Proof.
  intros ns es Hv Hw.
  assert (Hu : uniq_exts ns = true).
  { unfold bulk_valid in Hv. apply andb_true_iff in Hv. destruct Hv as [Hv _]. apply andb_true_iff in Hv. exact (proj1 Hv). }
  destruct (bulk_equiv_txn_graph ns es Hw) as (G1 & G2 & G3 & G4 & G5 & G6).
  destruct (bulk_open_reads ns es) as (_ & _ & _ & RA4 & RA5).
  assert (HI : Inv (run (load_txns ns es)) (spec (load_txns ns es)))
    by (unfold run, spec; apply inv_hist; [exact inv0 | apply load_txns_grow | exact Hw]).
  destruct (inv_reads _ _ HI) as (_ & _ & _ & RB4 & RB5 & _).
  unfold same_reads. split; [exact G1 | split; [exact G2 | split; [exact G3 | split; [|split; [|split; [exact G4 | split; [exact G5 | exact G6]]]]]]].
  - intros n k. rewrite RA4, RB4. unfold g_nprop. symmetry. apply spec_load_nprop; assumption.
  - intros e k. rewrite RA5, RB5. unfold g_eprop. symmetry. apply spec_load_eprop; assumption.
Qed.
