(* Engine/Bulk_join_proofs.v — PROOFS for C30: the joining lemma.  For every input whose load
   history is well-formed the spec graph of `load_txns ns es` is the graph the input describes
   (`spec_load_txns`: node table with the bulk interner's label ids, relationships = the input
   relationships with the bulk interner's type ids, as a multiset; property part: Bulk_equiv_proofs.v),
   and therefore the bulk-loaded database and the transactionally loaded one agree on nodes(), labels,
   external ids, lookup and both edge views (`bulk_equiv_txn_graph`). *)
From Coq Require Import Lia Permutation.
From NDB Require Import Engine.Graph Engine.Model Engine.Known Engine.Lib_proofs Engine.Refine_proofs Engine.Reopen_proofs Engine.Compact_reads_proofs Engine.Bulk_proofs.

(* ---------------- interner bookkeeping ---------------- *)
Lemma intern_all_ext : forall names intr, exists suf, intern_all names intr = intr ++ suf.
Proof.
  induction names as [|x names IH]; intros intr; cbn [intern_all]; [exists []; rewrite app_nil_r; reflexivity|].
  destruct (memN x intr).
  - apply IH.
  - destruct (IH (intr ++ [x])) as [suf E]. exists ([x] ++ suf). rewrite E, <- app_assoc. reflexivity.
Qed.
Lemma index_name_app : forall x l suf i, memN x l = true -> index_name x (l ++ suf) i = index_name x l i.
Proof.
  intros x l suf; induction l as [|y l IH]; intros i H; cbn in *; [discriminate H|].
  rewrite N.eqb_sym. destruct (x =? y) eqn:E; [reflexivity|]. cbn in H. apply IH. exact H.
Qed.
Lemma memN_app_r : forall x l, memN x (l ++ [x]) = true.
Proof. intros; unfold memN; rewrite existsb_app; cbn. rewrite N.eqb_refl. apply orb_true_r. Qed.
Definition intern1 (x : N) (intr : list N) : list N := if memN x intr then intr else intr ++ [x].
Lemma memN_intern1 : forall x intr, memN x (intern1 x intr) = true.
Proof. intros; unfold intern1; destruct (memN x intr) eqn:E; [exact E | apply memN_app_r]. Qed.
(* the id a name gets when it is registered is its id in every later interner *)
Lemma index_stable : forall x intr names, index_name x (intern_all names (intern1 x intr)) 0 = index_name x (intern1 x intr) 0.
Proof.
  intros x intr names. destruct (intern_all_ext names (intern1 x intr)) as [suf E]. rewrite E.
  apply index_name_app. apply memN_intern1.
Qed.
Lemma load_nodes_intr : forall ns intr i, snd (load_nodes ns intr i) = intern_all (map (fun n : bnode => snd (fst n)) ns) intr.
Proof.
  induction ns as [|[[ext lab] ps] ns IH]; intros intr i; [reflexivity|].
  cbn [load_nodes map intern_all fst snd]. specialize (IH (if memN lab intr then intr else intr ++ [lab]) (N.succ i)).
  destruct (load_nodes ns _ (N.succ i)) as [h fin]; cbn [snd] in *. exact IH.
Qed.

(* ---------------- spec graph of the node phase ---------------- *)
Lemma wf_hist_from_app : forall a b g, wf_hist_from g (a ++ b) = wf_hist_from g a && wf_hist_from (fold_left g_step a g) b.
Proof.
  induction a as [|x a IH]; intros b g; [reflexivity|]. cbn [app wf_hist_from fold_left].
  destruct x as [ops c | | | |]; cbn [g_step]; rewrite ?IH; try reflexivity.
  rewrite andb_assoc. reflexivity.
Qed.

(* property sets change neither nodes, nor edges *)
Lemma setnp_frame : forall (ps : props) i g,
  let g' := fold_left g_apply (map (fun kv => OSetNP i (fst kv) (snd kv)) ps) g in
  g_nodes g' = g_nodes g /\ g_edges g' = g_edges g /\ g_ep g' = g_ep g.
Proof.
  induction ps as [|kv ps IH]; intros i g; [repeat split|]. cbn [map fold_left].
  destruct (IH i (g_apply g (OSetNP i (fst kv) (snd kv)))) as (A & B & C). cbn zeta. rewrite A, B, C.
  cbn [g_apply]. destruct (g_live g i); repeat split.
Qed.
Lemma setep_frame : forall (ps : props) e g,
  let g' := fold_left g_apply (map (fun kv => OSetEP e (fst kv) (snd kv)) ps) g in
  g_nodes g' = g_nodes g /\ g_edges g' = g_edges g /\ g_np g' = g_np g.
Proof.
  induction ps as [|kv ps IH]; intros e g; [repeat split|]. cbn [map fold_left].
  destruct (IH e (g_apply g (OSetEP e (fst kv) (snd kv)))) as (A & B & C). cbn zeta. rewrite A, B, C.
  cbn [g_apply]. destruct (memE e (g_edges g)); repeat split.
Qed.

Lemma spec_load_nodes : forall ns intr i g, wf_hist_from g (fst (load_nodes ns intr i)) = true ->
  let g' := fold_left g_step (fst (load_nodes ns intr i)) g in
  g_nodes g' = g_nodes g ++ map (fun n : bnode => gnode_of (fst (fst n), index_name (snd (fst n)) (snd (load_nodes ns intr i)) 0)) ns
  /\ g_edges g' = g_edges g /\ g_ep g' = g_ep g.
Proof.
  induction ns as [|[[ext lab] ps] ns IH]; intros intr i g Hw.
  - cbn. rewrite app_nil_r. repeat split.
  - cbn [load_nodes] in *. fold (intern1 lab intr) in *.
    pose proof (load_nodes_intr ns (intern1 lab intr) (N.succ i)) as Hfin.
    specialize (IH (intern1 lab intr) (N.succ i)).
    destruct (load_nodes ns (intern1 lab intr) (N.succ i)) as [h fin]; cbn [fst snd] in *.
    cbn [wf_hist_from] in Hw. apply andb_true_iff in Hw. destruct Hw as [Hw1 Hw2].
    cbn [fold_left g_step] in *. cbn zeta.
    set (id := index_name lab (intern1 lab intr) 0) in *.
    (* the node transaction *)
    assert (Hext : g_has_ext g ext = false).
    { cbn [wf_tx wf_op g_apply] in Hw1. apply andb_true_iff in Hw1. destruct Hw1 as [_ Hw1].
      apply andb_true_iff in Hw1. destruct Hw1 as [Hw1 _]. apply andb_true_iff in Hw1. destruct Hw1 as [_ Hw1].
      apply negb_true_iff in Hw1. exact Hw1. }
    set (g1 := g_apply_tx g (OGetLabel lab :: OCreateNode ext id :: map (fun kv : N * N => OSetNP i (fst kv) (snd kv)) ps)) in *.
    assert (H1 : g_nodes g1 = g_nodes g ++ [gnode_of (ext, id)] /\ g_edges g1 = g_edges g /\ g_ep g1 = g_ep g).
    { unfold g1, g_apply_tx. cbn [fold_left g_apply]. rewrite Hext.
      destruct (setnp_frame ps i (mkGraph (g_nodes g ++ [mkGNode ext (if id =? UNLABELED then [] else [id]) true]) (g_np g) (g_edges g) (g_ep g))) as (A & B & C).
      cbn zeta in A, B, C. rewrite A, B, C. cbn. repeat split. }
    destruct H1 as (N1 & E1 & P1).
    destruct (IH g1 Hw2) as (N2 & E2 & P2). cbn zeta in N2, E2, P2.
    rewrite N2, E2, P2, N1, E1, P1. cbn [map fst snd]. rewrite <- app_assoc. cbn [app].
    repeat split. f_equal. f_equal. f_equal. f_equal.
    rewrite Hfin. unfold id. symmetry. apply index_stable.
Qed.

(* ---------------- spec graph of the relationship phase ---------------- *)
Definition ekey_in (all : list bnode) (fin : list N) (e : bedge) : edge :=
  (index_bnode (fst (fst (fst e))) all 0, index_name (snd (fst (fst e))) fin 0, index_bnode (snd (fst e)) all 0).

Lemma spec_load_edges : forall all es intr g, wf_hist_from g (load_edges all es intr) = true ->
  let g' := fold_left g_step (load_edges all es intr) g in
  let fin := intern_all (map (fun e : bedge => snd (fst (fst e))) es) intr in
  g_nodes g' = g_nodes g /\ g_np g' = g_np g /\
  g_edges g' = rev (map (ekey_in all fin) es) ++ g_edges g.
Proof.
  intros all; induction es as [|[[[se rel] de] ps] es IH]; intros intr g Hw.
  - cbn. repeat split.
  - cbn [load_edges] in *. fold (intern1 rel intr) in *.
    cbn [wf_hist_from] in Hw. apply andb_true_iff in Hw. destruct Hw as [Hw1 Hw2].
    cbn [fold_left g_step] in *. cbn zeta.
    remember (index_bnode se all 0, index_name rel (intern1 rel intr) 0, index_bnode de all 0) as e eqn:He.
    assert (Hlive : g_live g (e_src e) && g_live g (e_dst e) = true).
    { cbn [wf_tx wf_op g_apply] in Hw1. apply andb_true_iff in Hw1. destruct Hw1 as [_ Hw1].
      apply andb_true_iff in Hw1. destruct Hw1 as [Hw1 _]. exact Hw1. }
    set (g1 := g_apply_tx g (OGetLabel rel :: OCreateEdge e :: map (fun kv : N * N => OSetEP e (fst kv) (snd kv)) ps)) in *.
    assert (H1 : g_nodes g1 = g_nodes g /\ g_np g1 = g_np g /\ g_edges g1 = e :: g_edges g).
    { unfold g1, g_apply_tx. cbn [fold_left g_apply]. rewrite Hlive.
      destruct (setep_frame ps e (mkGraph (g_nodes g) (g_np g) (e :: g_edges g) (g_ep g))) as (A & B & C).
      split; [exact A | split; [exact C | exact B]]. }
    destruct H1 as (N1 & P1 & E1).
    destruct (IH (intern1 rel intr) g1 Hw2) as (N2 & P2 & E2). cbn zeta in N2, P2, E2.
    rewrite N2, P2, E2, N1, P1, E1. cbn [map rev intern_all fst snd]. fold (intern1 rel intr).
    repeat split. rewrite <- app_assoc. cbn [app]. f_equal. f_equal.
    unfold ekey_in. rewrite He. cbn [fst snd]. f_equal. f_equal. symmetry. apply index_stable.
Qed.

(* ---------------- the spec graph of the whole load: nodes and relationships ---------------- *)
Theorem spec_load_txns : forall ns es, wf_hist (load_txns ns es) = true ->
  let g := spec (load_txns ns es) in
  g_nodes g = map gnode_of (map (fun n : bnode => (fst (fst n), index_name (snd (fst n)) (bulk_intr ns es) 0)) ns) /\
  Permutation (g_edges g) (map (bulk_ekey ns es) es).
Proof.
  intros ns es Hw. unfold load_txns, spec, wf_hist in *.
  pose proof (load_nodes_intr ns [] 0) as Hfin.
  pose proof (spec_load_nodes ns [] 0 g0) as HN.
  destruct (load_nodes ns [] 0) as [hN intrN]; cbn [fst snd] in *.
  rewrite wf_hist_from_app in Hw. apply andb_true_iff in Hw. destruct Hw as [Hw1 Hw2].
  destruct (HN Hw1) as (N1 & E1 & _). cbn zeta in N1, E1.
  rewrite fold_left_app.
  destruct (spec_load_edges ns es intrN _ Hw2) as (N2 & _ & E2). cbn zeta in N2, E2.
  cbn zeta. rewrite N2, E2, N1, E1. cbn [g_nodes g_edges g0 app]. rewrite app_nil_r.
  assert (Hi : intern_all (map (fun e : bedge => snd (fst (fst e))) es) intrN = bulk_intr ns es)
    by (rewrite Hfin; reflexivity).
  split.
  - rewrite map_map. apply map_ext_in. intros [[ext lab] ps] Hin. cbn [fst snd]. f_equal. f_equal.
    (* the id of a node label in the final interner of the node phase is its id in the bulk interner *)
    rewrite <- Hi, Hfin.
    destruct (intern_all_ext (map (fun e : bedge => snd (fst (fst e))) es) (intern_all (map (fun n : bnode => snd (fst n)) ns) [])) as [suf E].
    rewrite E. symmetry. apply index_name_app.
    (* lab was interned during the node phase *)
    clear -Hin. revert Hin. generalize (@nil N).
    induction ns as [|[[ext' lab'] ps'] ns IH]; intros acc Hin; [destruct Hin|].
    cbn [map intern_all fst snd]. destruct Hin as [E | Hin].
    + inversion E; subst. fold (intern1 lab acc).
      destruct (intern_all_ext (map (fun n : bnode => snd (fst n)) ns) (intern1 lab acc)) as [suf E2]. rewrite E2.
      unfold memN. rewrite existsb_app. fold (memN lab (intern1 lab acc)). rewrite memN_intern1. reflexivity.
    + apply IH. exact Hin.
  - rewrite Hi. eapply Permutation_trans; [apply Permutation_sym; apply Permutation_rev|].
    apply Permutation_refl.
Qed.

(* ---------------- joining the two halves: everything except the property reads ---------------- *)
Lemma gnode_of_inj : forall p q, gnode_of p = gnode_of q -> p = q.
Proof.
  intros [e1 l1] [e2 l2] H. unfold gnode_of in H; cbn [fst snd] in H. inversion H as [[He Hl]]. subst e2. f_equal.
  destruct (l1 =? UNLABELED) eqn:E1, (l2 =? UNLABELED) eqn:E2; try discriminate Hl.
  - apply N.eqb_eq in E1, E2. congruence.
  - inversion Hl. reflexivity.
Qed.
Lemma map_inj : forall {A B} (f : A -> B), (forall x y, f x = f y -> x = y) -> forall l1 l2, map f l1 = map f l2 -> l1 = l2.
Proof.
  intros A B f Hf; induction l1 as [|x l1 IH]; intros [|y l2] H; cbn in H; try discriminate H; [reflexivity|].
  inversion H. f_equal; [apply Hf; assumption | apply IH; assumption].
Qed.
Lemma load_txns_grow : forall ns es, grow_hist (load_txns ns es) = true.
Proof.
  intros ns es. unfold load_txns. pose proof (load_nodes_grow ns [] 0) as H. destruct (load_nodes ns [] 0) as [h intr]. cbn [fst] in H.
  apply grow_hist_app; [exact H | apply load_edges_grow].
Qed.

Definition same_graph_reads (a b : state) : Prop :=
  m_nodes a = m_nodes b /\
  (forall n, Permutation (m_out a n) (m_out b n)) /\
  (forall n, Permutation (m_in a n) (m_in b n)) /\
  (forall n, m_labels a n = m_labels b n) /\ (forall n, m_ext a n = m_ext b n) /\
  (forall ext, m_lookup a ext = m_lookup b ext).

Theorem bulk_equiv_txn_graph : forall ns es, wf_hist (load_txns ns es) = true ->
  same_graph_reads (bulk_open ns es) (run (load_txns ns es)).
Proof.
  intros ns es Hw.
  set (a := bulk_open ns es). set (b := run (load_txns ns es)). set (g := spec (load_txns ns es)).
  assert (HI : Inv b g) by (unfold b, g, run, spec; apply inv_hist; [exact inv0 | apply load_txns_grow | exact Hw]).
  destruct (bulk_open_state ns es) as (A1 & A2 & A3 & A4 & _). fold a in A1, A2, A3, A4.
  destruct (bulk_open_reads ns es) as (RA1 & RA2 & RA3 & _). fold a in RA1, RA2, RA3.
  destruct (spec_load_txns ns es Hw) as (G1 & G2). fold g in G1, G2.
  destruct (inv_reads b g HI) as (RB1 & RB2 & RB3 & _).
  destruct HI as ([Hnt Hn He Hnp Hep] & B2 & B3 & B4 & B5).
  assert (Hie : i2e b = i2e a).
  { apply (map_inj gnode_of gnode_of_inj). rewrite <- Hn, G1, A3. reflexivity. }
  unfold same_graph_reads. split; [|split; [|split; [|split; [|split]]]].
  - rewrite RA1. unfold m_nodes. rewrite Hie, A3, map_length. symmetry. apply filter_true.
    intros n _. rewrite existsb_all_false; [reflexivity|]. intros m Hm. destruct (Hnt m Hm) as [T _]. rewrite T. reflexivity.
  - intros n. eapply Permutation_trans; [apply RA2|]. apply Permutation_sym.
    eapply Permutation_trans; [apply RB2|]. unfold g_out. apply Permutation_filter'. exact G2.
  - intros n. eapply Permutation_trans; [apply RA3|]. apply Permutation_sym.
    eapply Permutation_trans; [apply RB3|]. unfold g_in. apply Permutation_filter'. exact G2.
  - intros n. unfold m_labels. rewrite A4, B5, Hie. reflexivity.
  - intros n. unfold m_ext. rewrite Hie. reflexivity.
  - intros ext. unfold m_lookup. rewrite Hie. reflexivity.
Qed.
