(* Engine/Case.v — what an engine correspondence case is and when it agrees (shared by
   Corr/C04 C05 C06 C07 C14).  A case is one history the harness ran on the real engine,
   the canonical dump the implementation gave after every step, and the dump of the
   harness's own reference graph (the Rust transcription of the spec `S`) after every step. *)
From NDB Require Export Engine.Graph Engine.Model Engine.Known Corr.Common.

Definition props_eqb (a b : props) : bool := list_eqb nk_eqb a b.
(* lookup_internal_id is not reachable through nervusdb::Db: histories run through Db carry NOLK *)
Definition NOLK : N := 4294967294.
Definition dnode_eqb (a b : dnode) : bool :=
  let '(i1, x1, k1, l1, m1, s1) := a in
  let '(i2, x2, k2, l2, m2, s2) := b in
  (i1 =? i2) && (x1 =? x2) && ((k2 =? NOLK) || (k1 =? k2)) && list_eqb N.eqb l1 l2 && props_eqb m1 m2 && props_eqb s1 s2.
Definition dedge_eqb (a b : dedge) : bool :=
  let '(e1, n1, m1, s1) := a in
  let '(e2, n2, m2, s2) := b in
  edge_eqb e1 e2 && (n1 =? n2) && props_eqb m1 m2 && props_eqb s1 s2.
Definition dump_eqb (a b : dump) : bool :=
  list_eqb dnode_eqb a.(d_nodes) b.(d_nodes) && list_eqb dedge_eqb a.(d_out) b.(d_out)
  && list_eqb dedge_eqb a.(d_in) b.(d_in) && list_eqb N.eqb a.(d_vec) b.(d_vec).

Record hcase := {
  hist : list hop;
  impl_dumps : list dump;      (* implementation, after every step *)
  ref_dumps : list dump;       (* harness reference graph (spec S), after every step; vectors = impl's *)
  impl_classes : list bool     (* the harness's known-finding class predicates on the whole history *)
}.

(* spec dumps after every step, names resolved with the model's interner at that point *)
Fixpoint spec_dumps (s : state) (g : graph) (h : list hop) : list dump :=
  match h with
  | [] => []
  | x :: t => let s' := step s x in let g' := g_step g x in
              g_dump s'.(interner) (m_vec_ids s') g' :: spec_dumps s' g' t
  end.

Definition hcase_ok (c : hcase) : bool :=
  list_eqb dump_eqb (run_dumps s0 c.(hist)) c.(impl_dumps)
  && list_eqb dump_eqb (spec_dumps s0 g0 c.(hist)) c.(ref_dumps)
  && list_eqb Bool.eqb (cls_list (classes c.(hist))) c.(impl_classes).

(* C30: one node/edge list loaded both ways *)
Record bcase := {
  b_nodes : list bnode;
  b_edges : list bedge;
  b_txns : list hop;           (* the transactional load the harness ran *)
  impl_bulk : dump;
  impl_txn : dump
}.
Definition last_dump (l : list dump) : dump := last l (mkDump [] [] [] []).
Definition bcase_ok (c : bcase) : bool :=
  dump_eqb (m_dump (bulk_open c.(b_nodes) c.(b_edges))) c.(impl_bulk)
  && dump_eqb (m_dump (run c.(b_txns))) c.(impl_txn).
