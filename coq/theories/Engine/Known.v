(* Engine/Known.v — executable known-finding class predicates over id-level histories
   (mirrored by `classes` in harness/hx_engine/src/bin/engine.rs; the harness writes its
   flags into every case and Engine/Case.v compares them with `classes` below), and
   the well-formedness of histories the theorems quantify over.  No proofs. *)
From NDB Require Export Engine.Graph Engine.Model.

Record cls := mkCls {
  k_eprops : bool;     (* K-C06-eprops *)
  k_samerun : bool;    (* K-C14-samerun *)
  k_tomb : bool;       (* K-C05-tomb *)
  k_remove : bool;     (* K-C05-remove *)
  k_dups : bool;       (* K-C05-dups *)
  k_recreate : bool;   (* K-C05-recreate *)
  k_labels : bool;     (* K-C04-labels *)
  k_vector : bool;     (* K-C07-vector *)
  k_labelorder : bool  (* K-C06-labelorder *)
}.
Definition cls_list (c : cls) : list bool :=
  [c.(k_eprops); c.(k_samerun); c.(k_tomb); c.(k_remove); c.(k_dups); c.(k_recreate); c.(k_labels); c.(k_vector); c.(k_labelorder)].

(* scanning state *)
Record kst := mkK {
  kc : cls;
  kg : graph;                         (* the spec graph so far *)
  k_twp : list edge;                  (* edge keys deleted while they had properties *)
  k_anydel : bool;                    (* since the last compaction: a live node was deleted, or a relationship key that already reached a segment *)
  k_sunk_n : list (N * N); k_sunk_e : list (edge * N);   (* property keys sunk by a compaction *)
  k_pend_n : list (N * N); k_pend_e : list (edge * N);   (* set since the last compaction *)
  k_rec : bool;                       (* delete-then-recreate of an edge key inside one committed txn, not yet compacted *)
  k_lab : bool;                       (* a label was added / removed *)
  k_labm : bool;                      (* ... and a compaction / checkpoint followed *)
  k_lrem : list (N * N);              (* (node,label) removed so far in the current transaction *)
  k_here_n : list (N * N); k_here_e : list (edge * N);   (* property keys holding a value in the current transaction's memtable *)
  k_remp : bool;                      (* a value still held by an older run was removed (the next compaction sinks it anyway) *)
  k_seg : list edge                   (* relationship keys that reached a segment *)
}.
Definition k0 : kst := mkK (mkCls false false false false false false false false false) g0 [] false [] [] [] [] false false false [] [] [] false [].

Definition has_eprops (g : graph) (e : edge) : bool := existsb (fun kv => edge_eqb (fst (fst kv)) e) g.(g_ep).

(* per-transaction scan: (state, edges created so far in this txn, edge keys tombstoned in this txn) *)
Definition k_op (st : kst * list edge * list edge) (o : wop) : kst * list edge * list edge :=
  let '(k, created, tombed) := st in
  let c := k.(kc) in
  let g := k.(kg) in
  let k' :=
    match o with
    | OTombEdge e =>
        mkK c g (if has_eprops g e then e :: k.(k_twp) else k.(k_twp)) (k.(k_anydel) || memE e k.(k_seg))
            k.(k_sunk_n) k.(k_sunk_e) k.(k_pend_n) k.(k_pend_e) k.(k_rec) k.(k_lab) k.(k_labm) k.(k_lrem) k.(k_here_n) k.(k_here_e) k.(k_remp) k.(k_seg)
    | OTombNode n =>
        mkK (mkCls c.(k_eprops)
                   (c.(k_samerun) || existsb (fun e => xorb (e_src e =? n) (e_dst e =? n)) created)
                   c.(k_tomb) c.(k_remove) c.(k_dups) c.(k_recreate) c.(k_labels) c.(k_vector) c.(k_labelorder))
            g k.(k_twp) (k.(k_anydel) || g_live g n) k.(k_sunk_n) k.(k_sunk_e) k.(k_pend_n) k.(k_pend_e) k.(k_rec) k.(k_lab) k.(k_labm) k.(k_lrem) k.(k_here_n) k.(k_here_e) k.(k_remp) k.(k_seg)
    | OCreateEdge e =>
        let ok := g_live g (e_src e) && g_live g (e_dst e) in
        mkK (mkCls (c.(k_eprops) || (memE e k.(k_twp) && ok)) c.(k_samerun)
                   c.(k_tomb) c.(k_remove) c.(k_dups) c.(k_recreate) c.(k_labels) c.(k_vector) c.(k_labelorder))
            g k.(k_twp) k.(k_anydel) k.(k_sunk_n) k.(k_sunk_e) k.(k_pend_n) k.(k_pend_e)
            (k.(k_rec) || (ok && memE e tombed)) k.(k_lab) k.(k_labm) k.(k_lrem) k.(k_here_n) k.(k_here_e) k.(k_remp) k.(k_seg)
    | OSetNP n key _ =>
        mkK c g k.(k_twp) k.(k_anydel) k.(k_sunk_n) k.(k_sunk_e) k.(k_pend_n) k.(k_pend_e)
            k.(k_rec) k.(k_lab) k.(k_labm) k.(k_lrem) ((n, key) :: k.(k_here_n)) k.(k_here_e) k.(k_remp) k.(k_seg)
    | OSetEP e key _ =>
        mkK c g k.(k_twp) k.(k_anydel) k.(k_sunk_n) k.(k_sunk_e) k.(k_pend_n) k.(k_pend_e)
            k.(k_rec) k.(k_lab) k.(k_labm) k.(k_lrem) k.(k_here_n) ((e, key) :: k.(k_here_e)) k.(k_remp) k.(k_seg)
    | ORemNP n key =>
        mkK (mkCls c.(k_eprops) c.(k_samerun) c.(k_tomb) (c.(k_remove) || memK nk_eqb (n, key) k.(k_sunk_n))
                   c.(k_dups) c.(k_recreate) c.(k_labels) c.(k_vector) c.(k_labelorder))
            g k.(k_twp) k.(k_anydel) k.(k_sunk_n) k.(k_sunk_e) k.(k_pend_n) k.(k_pend_e)
            k.(k_rec) k.(k_lab) k.(k_labm) k.(k_lrem) (setrm nk_eqb (n, key) k.(k_here_n)) k.(k_here_e)
            (k.(k_remp) || memK nk_eqb (n, key) k.(k_pend_n)) k.(k_seg)
    | ORemEP e key =>
        mkK (mkCls c.(k_eprops) c.(k_samerun) c.(k_tomb) (c.(k_remove) || memK ek_eqb (e, key) k.(k_sunk_e))
                   c.(k_dups) c.(k_recreate) c.(k_labels) c.(k_vector) c.(k_labelorder))
            g k.(k_twp) k.(k_anydel) k.(k_sunk_n) k.(k_sunk_e) k.(k_pend_n) k.(k_pend_e)
            k.(k_rec) k.(k_lab) k.(k_labm) k.(k_lrem) k.(k_here_n) (setrm ek_eqb (e, key) k.(k_here_e))
            (k.(k_remp) || memK ek_eqb (e, key) k.(k_pend_e)) k.(k_seg)
    | OAddLabel n l =>
        mkK (mkCls c.(k_eprops) c.(k_samerun) c.(k_tomb) c.(k_remove) c.(k_dups) c.(k_recreate) c.(k_labels) c.(k_vector)
                   (c.(k_labelorder) || memK nk_eqb (n, l) k.(k_lrem)))
            g k.(k_twp) k.(k_anydel) k.(k_sunk_n) k.(k_sunk_e) k.(k_pend_n) k.(k_pend_e) k.(k_rec) true k.(k_labm) k.(k_lrem) k.(k_here_n) k.(k_here_e) k.(k_remp) k.(k_seg)
    | ORemLabel n l =>
        mkK c g k.(k_twp) k.(k_anydel) k.(k_sunk_n) k.(k_sunk_e) k.(k_pend_n) k.(k_pend_e) k.(k_rec) true k.(k_labm) ((n, l) :: k.(k_lrem)) k.(k_here_n) k.(k_here_e) k.(k_remp) k.(k_seg)
    | _ => k
    end in
  let created' :=
    match o with
    | OTombEdge e => filter (fun x => negb (edge_eqb e x)) created
    | OCreateEdge e => if g_live g (e_src e) && g_live g (e_dst e) then e :: created else created
    | _ => created
    end in
  let tombed' := match o with OTombEdge e => e :: tombed | _ => tombed end in
  (mkK k'.(kc) (g_apply g o) k'.(k_twp) k'.(k_anydel) k'.(k_sunk_n) k'.(k_sunk_e) k'.(k_pend_n) k'.(k_pend_e)
       k'.(k_rec) k'.(k_lab) k'.(k_labm) k'.(k_lrem) k'.(k_here_n) k'.(k_here_e) k'.(k_remp) k'.(k_seg), created', tombed').

Definition set_cls (k : kst) (c : cls) : kst :=
  mkK c k.(kg) k.(k_twp) k.(k_anydel) k.(k_sunk_n) k.(k_sunk_e) k.(k_pend_n) k.(k_pend_e) k.(k_rec) k.(k_lab) k.(k_labm) k.(k_lrem) k.(k_here_n) k.(k_here_e) k.(k_remp) k.(k_seg).

Definition k_step (k : kst) (h : hop) : kst :=
  let c := k.(kc) in
  match h with
  | HTxn ops false =>
      if existsb (fun o => match o with OSetVec _ => true | _ => false end) ops
      then set_cls k (mkCls c.(k_eprops) c.(k_samerun) c.(k_tomb) c.(k_remove) c.(k_dups) c.(k_recreate) c.(k_labels) true c.(k_labelorder))
      else k
  | HTxn ops true =>
      let k1 := fst (fst (fold_left k_op ops
                   (mkK k.(kc) k.(kg) k.(k_twp) k.(k_anydel) k.(k_sunk_n) k.(k_sunk_e) k.(k_pend_n) k.(k_pend_e)
                        k.(k_rec) k.(k_lab) k.(k_labm) [] [] [] k.(k_remp) k.(k_seg), [], []))) in
      mkK k1.(kc) k1.(kg) k1.(k_twp) k1.(k_anydel) k1.(k_sunk_n) k1.(k_sunk_e)
          (k1.(k_here_n) ++ k1.(k_pend_n)) (k1.(k_here_e) ++ k1.(k_pend_e))
          k1.(k_rec) k1.(k_lab) k1.(k_labm) [] [] [] k1.(k_remp) k1.(k_seg)
  | HCompact | HCheckpoint =>
      let dn := existsb (fun p => memK nk_eqb p k.(k_sunk_n)) k.(k_pend_n) in
      let de := existsb (fun p => memK ek_eqb p k.(k_sunk_e)) k.(k_pend_e) in
      mkK (mkCls c.(k_eprops) c.(k_samerun) (c.(k_tomb) || k.(k_anydel)) (c.(k_remove) || k.(k_remp))
                 (c.(k_dups) || dn || de) (c.(k_recreate) || k.(k_rec)) c.(k_labels) c.(k_vector) c.(k_labelorder))
          k.(kg) k.(k_twp) false
          (k.(k_pend_n) ++ k.(k_sunk_n)) (k.(k_pend_e) ++ k.(k_sunk_e)) [] []
          k.(k_rec) k.(k_lab) (k.(k_labm) || k.(k_lab)) k.(k_lrem) k.(k_here_n) k.(k_here_e) k.(k_remp) (k.(kg).(g_edges) ++ k.(k_seg))
  | HCloseReopen =>
      set_cls k (mkCls c.(k_eprops) c.(k_samerun) c.(k_tomb) c.(k_remove) c.(k_dups) c.(k_recreate) (c.(k_labels) || k.(k_lab)) c.(k_vector) c.(k_labelorder))
  | HDropReopen =>
      set_cls k (mkCls c.(k_eprops) c.(k_samerun) c.(k_tomb) c.(k_remove) c.(k_dups) c.(k_recreate) (c.(k_labels) || k.(k_labm)) c.(k_vector) c.(k_labelorder))
  end.
Definition classes (h : list hop) : cls := (fold_left k_step h k0).(kc).

(* ---------------- well-formed histories (what the generators produce, what the theorems assume) ---------------- *)
(* an operation is valid against the spec graph when it addresses things that exist *)
Definition wf_op (g : graph) (o : wop) : bool :=
  match o with
  | OGetLabel _ => true
  | OCreateNode ext _ => negb (ext =? 0) && negb (g_has_ext g ext)
  | OAddLabel n _ | ORemLabel n _ | OTombNode n | OSetNP n _ _ | ORemNP n _ | OSetVec n => g_live g n
  | OCreateEdge e => g_live g (e_src e) && g_live g (e_dst e)
  | OTombEdge e | OSetEP e _ _ | ORemEP e _ => memE e g.(g_edges)
  end.
Fixpoint wf_tx (g : graph) (ops : list wop) : bool :=
  match ops with
  | [] => true
  | o :: t => wf_op g o && wf_tx (g_apply g o) t
  end.
Fixpoint wf_hist_from (g : graph) (h : list hop) : bool :=
  match h with
  | [] => true
  | HTxn ops c :: t => wf_tx g ops && wf_hist_from (g_step g (HTxn ops c)) t
  | _ :: t => wf_hist_from g t
  end.
Definition wf_hist (h : list hop) : bool := wf_hist_from g0 h.

Definition commits_only (h : list hop) : bool :=
  forallb (fun x => match x with HTxn _ true => true | _ => false end) h.
