(* Engine/Lib_proofs.v — PROOFS: list / association-list / sorting lemmas shared by the engine proofs. *)
From Coq Require Import Lia Permutation.
From NDB Require Import Engine.Graph Engine.Model.

(* ---------------- decidable equalities ---------------- *)
Lemma nk_eqb_ok : forall a b : N * N, nk_eqb a b = true <-> a = b.
Proof.
  intros [a1 a2] [b1 b2]; unfold nk_eqb; cbn. rewrite andb_true_iff, !N.eqb_eq. split.
  - intros [H1 H2]; subst; reflexivity.
  - intros H; inversion H; split; reflexivity.
Qed.
Lemma edge_eqb_ok : forall a b : edge, edge_eqb a b = true <-> a = b.
Proof.
  intros [[a1 a2] a3] [[b1 b2] b3]; unfold edge_eqb, e_src, e_rel, e_dst; cbn.
  rewrite !andb_true_iff, !N.eqb_eq. split.
  - intros [[H1 H2] H3]; subst; reflexivity.
  - intros H; inversion H; repeat split; reflexivity.
Qed.
Lemma ek_eqb_ok : forall a b : edge * N, ek_eqb a b = true <-> a = b.
Proof.
  intros [a1 a2] [b1 b2]; unfold ek_eqb; cbn. rewrite andb_true_iff, edge_eqb_ok, N.eqb_eq. split.
  - intros [H1 H2]; subst; reflexivity.
  - intros H; inversion H; split; reflexivity.
Qed.

Section Keyed.
  Context {K : Type} (eqb : K -> K -> bool) (eqb_ok : forall a b, eqb a b = true <-> a = b).

  Lemma eqb_refl' : forall a, eqb a a = true.
  Proof. intros a; apply eqb_ok; reflexivity. Qed.
  Lemma eqb_false_sym : forall a b, eqb a b = false -> eqb b a = false.
  Proof.
    intros a b H. destruct (eqb b a) eqn:E; [|reflexivity].
    apply eqb_ok in E; subst. rewrite eqb_refl' in H; discriminate H.
  Qed.
  Lemma eqb_neq : forall a b, eqb a b = false <-> a <> b.
  Proof.
    intros a b; split.
    - intros H E; subst; rewrite eqb_refl' in H; discriminate H.
    - intros H. destruct (eqb a b) eqn:E; [apply eqb_ok in E; contradiction | reflexivity].
  Qed.

  Lemma assoc_unbind_same : forall {V} k (l : list (K * V)), assoc eqb k (unbind eqb k l) = None.
  Proof.
    intros V k l; induction l as [|[k' v] l IH]; cbn; [reflexivity|].
    destruct (eqb k k') eqn:E; cbn; [exact IH | rewrite E; exact IH].
  Qed.
  Lemma assoc_unbind_other : forall {V} k k0 (l : list (K * V)), eqb k k0 = false ->
    assoc eqb k (unbind eqb k0 l) = assoc eqb k l.
  Proof.
    intros V k k0 l H; induction l as [|[k' v] l IH]; cbn; [reflexivity|].
    destruct (eqb k0 k') eqn:E; cbn.
    - apply eqb_ok in E; subst k'. rewrite H. exact IH.
    - destruct (eqb k k'); [reflexivity | exact IH].
  Qed.
  Lemma assoc_bind_same : forall {V} k v (l : list (K * V)), assoc eqb k (bind eqb k v l) = Some v.
  Proof. intros; unfold bind; cbn; rewrite eqb_refl'; reflexivity. Qed.
  Lemma assoc_bind_other : forall {V} k k0 v (l : list (K * V)), eqb k k0 = false ->
    assoc eqb k (bind eqb k0 v l) = assoc eqb k l.
  Proof. intros; unfold bind; cbn; rewrite H; apply assoc_unbind_other; exact H. Qed.

  Lemma memK_setrm_same : forall k (l : list K), memK eqb k (setrm eqb k l) = false.
  Proof.
    intros k l; unfold memK, setrm; induction l as [|x l IH]; cbn; [reflexivity|].
    destruct (eqb k x) eqn:E; cbn; [exact IH | rewrite E; exact IH].
  Qed.
  Lemma memK_setrm_other : forall k k0 (l : list K), eqb k k0 = false ->
    memK eqb k (setrm eqb k0 l) = memK eqb k l.
  Proof.
    intros k k0 l H; unfold memK, setrm; induction l as [|x l IH]; cbn; [reflexivity|].
    destruct (eqb k0 x) eqn:E; cbn.
    - apply eqb_ok in E; subst x. rewrite H; exact IH.
    - rewrite IH; reflexivity.
  Qed.

  Lemma assoc_app : forall {V} k (a b : list (K * V)),
    assoc eqb k (a ++ b) = match assoc eqb k a with Some v => Some v | None => assoc eqb k b end.
  Proof.
    intros V k a b; induction a as [|[k' v] a IH]; cbn; [reflexivity|].
    destruct (eqb k k'); [reflexivity | exact IH].
  Qed.
  Lemma memK_keys_assoc : forall {V} k (l : list (K * V)),
    memK eqb k (map fst l) = match assoc eqb k l with Some _ => true | None => false end.
  Proof.
    intros V k l; unfold memK; induction l as [|[k' v] l IH]; cbn; [reflexivity|].
    destruct (eqb k k'); [reflexivity | exact IH].
  Qed.
End Keyed.

(* ---------------- permutations, filters, sorting ---------------- *)
Lemma Permutation_filter' : forall {A} (p : A -> bool) l l', Permutation l l' -> Permutation (filter p l) (filter p l').
Proof.
  intros A p l l' H; induction H; cbn.
  - constructor.
  - destruct (p x); [constructor|]; assumption.
  - destruct (p x), (p y); try constructor; try apply Permutation_refl. 
  - eapply Permutation_trans; eassumption.
Qed.
Lemma filter_flat_map : forall {A B} (p : B -> bool) (f : A -> list B) l,
  filter p (flat_map f l) = flat_map (fun x => filter p (f x)) l.
Proof.
  intros A B p f l; induction l as [|x l IH]; cbn; [reflexivity|].
  rewrite filter_app, IH; reflexivity.
Qed.
Lemma filter_true : forall {A} (p : A -> bool) l, (forall x, In x l -> p x = true) -> filter p l = l.
Proof.
  intros A p l; induction l as [|x l IH]; intros H; cbn; [reflexivity|].
  rewrite (H x (or_introl eq_refl)), IH; [reflexivity | intros y I; apply H; right; exact I].
Qed.
Lemma Permutation_insert : forall {A} (leb : A -> A -> bool) x l, Permutation (insert leb x l) (x :: l).
Proof.
  intros A leb x l; induction l as [|y l IH]; cbn; [apply Permutation_refl|].
  destruct (leb x y); [apply Permutation_refl|].
  eapply Permutation_trans; [apply perm_skip; exact IH | apply perm_swap].
Qed.
Lemma Permutation_isort : forall {A} (leb : A -> A -> bool) l, Permutation (isort leb l) l.
Proof.
  intros A leb l; induction l as [|x l IH]; cbn; [constructor|].
  eapply Permutation_trans; [apply Permutation_insert | apply perm_skip; exact IH].
Qed.

(* ---------------- nthN / nseq ---------------- *)
Lemma nthN_map : forall {A B} (f : A -> B) l i, nthN (map f l) i = option_map f (nthN l i).
Proof.
  intros A B f l; induction l as [|x l IH]; intros i; cbn; [reflexivity|].
  destruct (i =? 0); [reflexivity | apply IH].
Qed.
Lemma nthN_some : forall {A} (l : list A) i, i < N.of_nat (length l) -> exists x, nthN l i = Some x.
Proof.
  intros A l; induction l as [|x l IH]; intros i H; cbn in *; [lia|].
  destruct (i =? 0) eqn:E; [exists x; reflexivity|].
  apply N.eqb_neq in E. apply IH. lia.
Qed.
Lemma nthN_none : forall {A} (l : list A) i, N.of_nat (length l) <= i -> nthN l i = None.
Proof.
  intros A l; induction l as [|x l IH]; intros i H; cbn in *; [reflexivity|].
  destruct (i =? 0) eqn:E; [apply N.eqb_eq in E; lia|].
  apply N.eqb_neq in E. apply IH. lia.
Qed.
Lemma nthN_app_last : forall {A} (l : list A) x, nthN (l ++ [x]) (N.of_nat (length l)) = Some x.
Proof.
  intros A l x; induction l as [|y l IH]; cbn [app length nthN]; [reflexivity|].
  rewrite Nat2N.inj_succ. destruct (N.succ (N.of_nat (length l)) =? 0) eqn:E; [apply N.eqb_eq in E; lia|].
  rewrite N.pred_succ. exact IH.
Qed.
Lemma In_nseq : forall k a n, In n (nseq a k) <-> a <= n /\ n < a + N.of_nat k.
Proof.
  induction k as [|k IH]; intros a n; cbn [nseq].
  - split; [intros [] | intros [H1 H2]; cbn in H2; lia].
  - cbn [In]. rewrite IH, Nat2N.inj_succ. split.
    + intros [E | [H1 H2]]; lia.
    + intros [H1 H2]. destruct (N.eq_dec a n); [left; assumption | right; lia].
Qed.
Lemma existsb_all_false : forall {A} (f : A -> bool) l, (forall x, In x l -> f x = false) -> existsb f l = false.
Proof.
  intros A f l; induction l as [|y l IH]; intros H; cbn; [reflexivity|].
  rewrite (H y (or_introl eq_refl)), IH; [reflexivity | intros x I; apply H; right; exact I].
Qed.
