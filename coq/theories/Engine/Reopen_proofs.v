(* Engine/Reopen_proofs.v — PROOFS for C04 on the "grow" fragment (see Refine_proofs.v):
   for EVERY well-formed commit-only history of node / relationship creations and property
   sets / removals, close + reopen and drop + reopen leave the canonical dump unchanged.
   Replaying the records of a commit rebuilds its memtable exactly (`replay_commit`), the log
   invariant `WalInv` says recovery rebuilds the published runs, their transaction ids and the
   interner; a close with nothing published rewrites the log as one snapshot transaction and
   recovery still yields the same state (`close_open_eqv`).  No compaction in this fragment. *)
From Coq Require Import Lia Permutation.
From NDB Require Import Engine.Graph Engine.Model Engine.Known Engine.Lib_proofs Engine.Abandon_proofs.
From NDB Require Import Engine.Refine_proofs.

(* ---------------- well-formed property lists of a memtable ---------------- *)
Section PWF.
  Context {K : Type} (eqb : K -> K -> bool) (eqb_ok : forall a b, eqb a b = true <-> a = b).
  Fixpoint ukeys (l : list (K * N)) : Prop :=
    match l with [] => True | kv :: t => assoc eqb (fst kv) t = None /\ ukeys t end.
  Fixpoint uniq (l : list K) : Prop :=
    match l with [] => True | k :: t => memK eqb k t = false /\ uniq t end.
  Definition pwf (np : list (K * N)) (nrm : list K) : Prop :=
    ukeys np /\ uniq nrm /\ (forall k, memK eqb k nrm = true -> assoc eqb k np = None).

  Lemma unbind_id : forall k (l : list (K * N)), assoc eqb k l = None -> unbind eqb k l = l.
  Proof.
    intros k l; unfold unbind; induction l as [|[k' v] l IH]; cbn; intros H; [reflexivity|].
    destruct (eqb k k') eqn:E; [discriminate H|]. cbn. rewrite (IH H). reflexivity.
  Qed.
  Lemma setrm_id : forall k (l : list K), memK eqb k l = false -> setrm eqb k l = l.
  Proof.
    intros k l; unfold memK, setrm; induction l as [|x l IH]; cbn; intros H; [reflexivity|].
    apply orb_false_iff in H; destruct H as [H1 H2]. rewrite H1; cbn. rewrite (IH H2). reflexivity.
  Qed.
  Lemma assoc_unbind_none : forall k k0 (l : list (K * N)), assoc eqb k l = None -> assoc eqb k (unbind eqb k0 l) = None.
  Proof.
    intros k k0 l H. destruct (eqb k k0) eqn:E.
    - apply eqb_ok in E; subst. apply assoc_unbind_same.
    - rewrite (assoc_unbind_other eqb eqb_ok _ _ _ E). exact H.
  Qed.
  Lemma ukeys_unbind : forall k l, ukeys l -> ukeys (unbind eqb k l).
  Proof.
    intros k l; induction l as [|[k' v] l IH]; cbn; intros H; [exact I|].
    destruct H as [H1 H2]. destruct (eqb k k'); cbn; [apply IH; exact H2|].
    split; [apply assoc_unbind_none; exact H1 | apply IH; exact H2].
  Qed.
  Lemma memK_setrm_false : forall k k0 l, memK eqb k l = false -> memK eqb k (setrm eqb k0 l) = false.
  Proof.
    intros k k0 l H. destruct (eqb k k0) eqn:E.
    - apply eqb_ok in E; subst. apply memK_setrm_same.
    - rewrite (memK_setrm_other eqb eqb_ok _ _ _ E). exact H.
  Qed.
  Lemma uniq_setrm : forall k l, uniq l -> uniq (setrm eqb k l).
  Proof.
    intros k l; induction l as [|x l IH]; cbn; intros H; [exact I|].
    destruct H as [H1 H2]. destruct (eqb k x); cbn; [apply IH; exact H2|].
    split; [apply memK_setrm_false; exact H1 | apply IH; exact H2].
  Qed.
  Lemma memK_setrm_true : forall k k0 l, memK eqb k (setrm eqb k0 l) = true -> memK eqb k l = true /\ eqb k k0 = false.
  Proof.
    intros k k0 l H. destruct (eqb k k0) eqn:E.
    - apply eqb_ok in E; subst. rewrite memK_setrm_same in H; discriminate H.
    - rewrite (memK_setrm_other eqb eqb_ok _ _ _ E) in H. split; [exact H | reflexivity].
  Qed.

  Lemma pwf_nil : pwf [] [].
  Proof. unfold pwf; cbn; repeat split; intros; discriminate. Qed.
  Lemma pwf_set : forall k v np nrm, pwf np nrm -> pwf (bind eqb k v np) (setrm eqb k nrm).
  Proof.
    intros k v np nrm (U & Q & D). unfold pwf, bind. cbn [ukeys fst]. repeat split.
    - apply assoc_unbind_same.
    - apply ukeys_unbind; exact U.
    - apply uniq_setrm; exact Q.
    - intros k' H. destruct (memK_setrm_true _ _ _ H) as [H1 H2]. cbn [assoc]. rewrite H2.
      apply assoc_unbind_none. apply D; exact H1.
  Qed.
  Lemma pwf_rem : forall k np nrm, pwf np nrm -> pwf (unbind eqb k np) (k :: setrm eqb k nrm).
  Proof.
    intros k np nrm (U & Q & D). unfold pwf. cbn [uniq]. repeat split.
    - apply ukeys_unbind; exact U.
    - apply memK_setrm_same.
    - apply uniq_setrm; exact Q.
    - intros k' H. unfold memK in H; cbn [existsb] in H. apply orb_true_iff in H. destruct H as [H | H].
      + apply eqb_ok in H; subst. apply assoc_unbind_same.
      + destruct (memK_setrm_true _ _ _ H) as [H1 H2]. apply assoc_unbind_none. apply D; exact H1.
  Qed.
End PWF.

Definition mem_wf (m : mem) : Prop := pwf nk_eqb m.(me_np) m.(me_nrm) /\ pwf ek_eqb m.(me_ep) m.(me_erm).

Lemma mem_wf0 : mem_wf mem0.
Proof. split; apply pwf_nil. Qed.

Lemma memwf_apply_op : forall s t o, mem_wf (tx_mem t) -> mem_wf (tx_mem (snd (apply_op (s, t) o))).
Proof.
  intros s t o [H1 H2]. destruct o; cbn [apply_op snd tx_mem set_mem]; try (split; assumption).
  - destruct (memN name (interner s)); cbn; split; assumption.
  - destruct (e2i_has s ext); [cbn; split; assumption|]. destruct (existsb _ (tx_created t)); cbn; split; assumption.
  - split; [apply (pwf_set nk_eqb nk_eqb_ok); exact H1 | exact H2].
  - split; [apply (pwf_rem nk_eqb nk_eqb_ok); exact H1 | exact H2].
  - split; [exact H1 | apply (pwf_set ek_eqb ek_eqb_ok); exact H2].
  - split; [exact H1 | apply (pwf_rem ek_eqb ek_eqb_ok); exact H2].
Qed.

(* ---------------- replaying the records of one commit rebuilds its memtable ---------------- *)
Lemma replay_nodes : forall cs st,
  fold_left replay_rec (map (fun c : N * N * N => RCreateNode (fst (fst c)) (snd (fst c)) (snd c)) cs) st = st.
Proof. induction cs as [|c cs IH]; intros [l m]; cbn; [reflexivity | apply IH]. Qed.

Lemma replay_edges : forall es l m,
  fold_left replay_rec (map RCreateEdge (rev es)) (l, m) =
  (l, mkMem (es ++ m.(me_edges)) m.(me_tn) m.(me_te) m.(me_np) m.(me_ep) m.(me_nrm) m.(me_erm)).
Proof.
  induction es as [|e es IH]; intros l m; cbn [rev app]; [destruct m; reflexivity|].
  rewrite map_app, fold_left_app, IH. reflexivity.
Qed.

Lemma replay_setnp : forall kvs l m, m.(me_np) = [] -> m.(me_nrm) = [] -> ukeys nk_eqb kvs ->
  fold_left replay_rec (map (fun kv : N * N * N => RSetNP (fst (fst kv)) (snd (fst kv)) (snd kv)) (rev kvs)) (l, m) =
  (l, mkMem m.(me_edges) m.(me_tn) m.(me_te) kvs m.(me_ep) [] m.(me_erm)).
Proof.
  induction kvs as [|[[n k] v] kvs IH]; intros l m H1 H2 U; cbn [rev app].
  - destruct m; cbn in *; subst; reflexivity.
  - destruct U as [U1 U2]. rewrite map_app, fold_left_app, (IH l m H1 H2 U2). cbn [map fold_left fst snd replay_rec].
    unfold mem_set_np, bind. cbn [me_np me_nrm me_edges me_tn me_te me_ep me_erm]. cbn [fst] in U1. rewrite (unbind_id nk_eqb _ _ U1). reflexivity.
Qed.
Lemma replay_remnp : forall ks l m, m.(me_nrm) = [] -> uniq nk_eqb ks -> (forall k, memK nk_eqb k ks = true -> assoc nk_eqb k m.(me_np) = None) ->
  fold_left replay_rec (map (fun p : N * N => RRemNP (fst p) (snd p)) (rev ks)) (l, m) =
  (l, mkMem m.(me_edges) m.(me_tn) m.(me_te) m.(me_np) m.(me_ep) ks m.(me_erm)).
Proof.
  induction ks as [|[n k] ks IH]; intros l m H1 U D; cbn [rev app].
  - destruct m; cbn in *; subst; reflexivity.
  - destruct U as [U1 U2]. rewrite map_app, fold_left_app, (IH l m H1 U2).
    + cbn [map fold_left fst snd replay_rec]. unfold mem_rem_np. cbn [me_np me_nrm me_edges me_tn me_te me_ep me_erm]. rewrite (setrm_id nk_eqb _ _ U1).
      rewrite (unbind_id nk_eqb (n, k) (me_np m)); [reflexivity|].
      apply D. unfold memK; cbn. rewrite (eqb_refl' nk_eqb nk_eqb_ok). reflexivity.
    + intros k' Hk. apply D. unfold memK in *; cbn. rewrite Hk. apply orb_true_r.
Qed.
Lemma replay_setep : forall kvs l m, m.(me_ep) = [] -> m.(me_erm) = [] -> ukeys ek_eqb kvs ->
  fold_left replay_rec (map (fun kv : edge * N * N => RSetEP (fst (fst kv)) (snd (fst kv)) (snd kv)) (rev kvs)) (l, m) =
  (l, mkMem m.(me_edges) m.(me_tn) m.(me_te) m.(me_np) kvs m.(me_nrm) []).
Proof.
  induction kvs as [|[[n k] v] kvs IH]; intros l m H1 H2 U; cbn [rev app].
  - destruct m; cbn in *; subst; reflexivity.
  - destruct U as [U1 U2]. rewrite map_app, fold_left_app, (IH l m H1 H2 U2). cbn [map fold_left fst snd replay_rec].
    unfold mem_set_ep, bind. cbn [me_np me_nrm me_edges me_tn me_te me_ep me_erm]. cbn [fst] in U1. rewrite (unbind_id ek_eqb _ _ U1). reflexivity.
Qed.
Lemma replay_remep : forall ks l m, m.(me_erm) = [] -> uniq ek_eqb ks -> (forall k, memK ek_eqb k ks = true -> assoc ek_eqb k m.(me_ep) = None) ->
  fold_left replay_rec (map (fun p : edge * N => RRemEP (fst p) (snd p)) (rev ks)) (l, m) =
  (l, mkMem m.(me_edges) m.(me_tn) m.(me_te) m.(me_np) m.(me_ep) m.(me_nrm) ks).
Proof.
  induction ks as [|[n k] ks IH]; intros l m H1 U D; cbn [rev app].
  - destruct m; cbn in *; subst; reflexivity.
  - destruct U as [U1 U2]. rewrite map_app, fold_left_app, (IH l m H1 U2).
    + cbn [map fold_left fst snd replay_rec]. unfold mem_rem_ep. cbn [me_np me_nrm me_edges me_tn me_te me_ep me_erm]. rewrite (setrm_id ek_eqb _ _ U1).
      rewrite (unbind_id ek_eqb (n, k) (me_ep m)); [reflexivity|].
      apply D. unfold memK; cbn. rewrite (eqb_refl' ek_eqb ek_eqb_ok). reflexivity.
    + intros k' Hk. apply D. unfold memK in *; cbn. rewrite Hk. apply orb_true_r.
Qed.

Theorem replay_commit : forall t l, nolab t -> notomb (tx_mem t) -> mem_wf (tx_mem t) ->
  fold_left replay_rec (commit_records t) (l, mem0) = (l, tx_mem t).
Proof.
  intros t l [L1 L2] [T1 T2] [(U1 & Q1 & D1) (U2 & Q2 & D2)].
  unfold commit_records. rewrite L1, L2, T1, T2. cbn [map rev app].
  rewrite !fold_left_app, replay_nodes. cbn [fold_left].
  rewrite replay_edges. cbn [me_edges me_tn me_te me_np me_ep me_nrm me_erm mem0]. rewrite app_nil_r.
  rewrite replay_setnp; [|reflexivity|reflexivity|exact U1]. cbn [me_edges me_tn me_te me_np me_ep me_nrm me_erm].
  rewrite replay_remnp; [|reflexivity|exact Q1|exact D1]. cbn [me_edges me_tn me_te me_np me_ep me_nrm me_erm].
  rewrite replay_setep; [|reflexivity|reflexivity|exact U2]. cbn [me_edges me_tn me_te me_np me_ep me_nrm me_erm].
  rewrite replay_remep; [|reflexivity|exact Q2|exact D2]. cbn [me_edges me_tn me_te me_np me_ep me_nrm me_erm].
  destruct (tx_mem t); cbn in *; subst; reflexivity.
Qed.

(* ---------------- the log of a fragment history ---------------- *)
Definition plain (x : wrec) : bool :=
  match x with RManifest _ _ | RCheckpoint _ _ | RCreateLabel _ _ => false | _ => true end.
Definition labelrec (x : wrec) : bool := match x with RCreateLabel _ _ => true | _ => false end.
Definition tx_ok (tx : N * list wrec) : Prop :=
  1 <= fst tx /\ (forallb plain (snd tx) = true \/ forallb labelrec (snd tx) = true).

Definition core3 (r : rstate) := (r_epoch r, r_segs r, r_ckpt r).
Lemma scan_recs_core : forall recs r, (forallb plain recs = true \/ forallb labelrec recs = true) ->
  core3 (fold_left scan_rec recs r) = core3 r.
Proof.
  induction recs as [|x recs IH]; intros r H; [reflexivity|]. cbn [fold_left].
  rewrite IH.
  - destruct H as [H | H]; cbn [forallb] in H; apply andb_true_iff in H; destruct H as [H _]; destruct x; try discriminate H; reflexivity.
  - destruct H as [H | H]; cbn [forallb] in H; apply andb_true_iff in H; destruct H as [_ H]; [left | right]; exact H.
Qed.
Lemma scan_wal_core : forall w r, (forall tx, In tx w -> tx_ok tx) -> core3 (fold_left scan_tx w r) = core3 r.
Proof.
  induction w as [|tx w IH]; intros r H; [reflexivity|]. cbn [fold_left].
  rewrite IH; [|intros tx' I; apply H; right; exact I].
  unfold scan_tx. rewrite scan_recs_core; [reflexivity | exact (proj2 (H tx (or_introl eq_refl)))].
Qed.

Lemma replay_graph_app : forall w1 w2 ck l acc tacc,
  replay_graph (w1 ++ w2) ck l acc tacc =
  let '(l1, (a1, t1)) := replay_graph w1 ck l acc tacc in replay_graph w2 ck l1 a1 t1.
Proof.
  induction w1 as [|tx w1 IH]; intros w2 ck l acc tacc; cbn [app replay_graph]; [reflexivity|].
  destruct (fst tx <=? ck); [apply IH|].
  destruct (fold_left replay_rec (snd tx) (l, mem0)) as [l' m]. apply IH.
Qed.

Lemma replay_labelrecs : forall recs l m, forallb labelrec recs = true -> fold_left replay_rec recs (l, m) = (l, m).
Proof.
  induction recs as [|x recs IH]; intros l m H; [reflexivity|].
  cbn [forallb] in H; apply andb_true_iff in H; destruct H as [H1 H2].
  destruct x; try discriminate H1. cbn. apply IH; exact H2.
Qed.
Lemma replay_label_plain : forall recs a, forallb plain recs = true -> fold_left replay_label recs a = a.
Proof.
  induction recs as [|x recs IH]; intros a H; [reflexivity|].
  cbn [forallb] in H; apply andb_true_iff in H; destruct H as [H1 H2].
  destruct x; try discriminate H1; cbn; apply IH; exact H2.
Qed.

Lemma forallb_map_true : forall {A B} (f : B -> bool) (g : A -> B) l, (forall x, f (g x) = true) -> forallb f (map g l) = true.
Proof. intros A B f g l H; induction l as [|x l IH]; cbn; [reflexivity | rewrite H, IH; reflexivity]. Qed.
Lemma commit_records_plain : forall t, forallb plain (commit_records t) = true.
Proof.
  intros t; unfold commit_records. rewrite !forallb_app.
  repeat (rewrite forallb_map_true; [|intros; reflexivity]). reflexivity.
Qed.

Lemma memN_In : forall x l, memN x l = true <-> In x l.
Proof.
  intros x l; unfold memN; rewrite existsb_exists. split.
  - intros (y & I & E). apply N.eqb_eq in E; subst; exact I.
  - intros I. exists x; split; [exact I | apply N.eqb_refl].
Qed.
Lemma NoDup_app_last : forall (l : list N) x, NoDup l -> memN x l = false -> NoDup (l ++ [x]).
Proof.
  intros l x H Hx. induction H as [|y l Hy H IH]; cbn.
  - constructor; [intros [] | constructor].
  - unfold memN in Hx; cbn in Hx. apply orb_false_iff in Hx. destruct Hx as [Hxy Hx].
    constructor; [|apply IH; exact Hx].
    intros I. apply in_app_or in I. destruct I as [I | [I | []]]; [contradiction|].
    subst. rewrite N.eqb_refl in Hxy. discriminate Hxy.
Qed.

Record WalInv (s : state) : Prop := mkW {
  W_replay : forall l, replay_graph s.(wal) 0 l [] [] = (l, (s.(runs), s.(rtx)));
  W_ok : forall tx, In tx s.(wal) -> tx_ok tx;
  W_txid : 1 <= s.(next_txid);
  W_labels : replay_labels s.(wal) = s.(interner);
  W_epoch : s.(epoch) = 0;
  W_uniq : NoDup s.(interner)
}.

Lemma replay_labels_app : forall w tx, replay_labels (w ++ [tx]) = fold_left replay_label (snd tx) (replay_labels w).
Proof. intros; unfold replay_labels; rewrite fold_left_app; reflexivity. Qed.

Lemma walinv_apply_op : forall s t o, WalInv s -> WalInv (fst (apply_op (s, t) o)) /\ tx_id (snd (apply_op (s, t) o)) = tx_id t.
Proof.
  intros s t o [W1 W2 W3 W4 W5 W6]. destruct o; cbn [apply_op fst snd]; try (split; [constructor; assumption | reflexivity]).
  - destruct (memN name (interner s)) eqn:Em; cbn [fst snd]; [split; [constructor; assumption | reflexivity]|].
    split; [|reflexivity]. constructor; cbn [wal runs rtx next_txid interner epoch].
    + intros l. rewrite replay_graph_app, W1. cbn [replay_graph].
      replace (fst (next_txid s, [RCreateLabel name (N.of_nat (length (interner s)))]) <=? 0) with false
        by (symmetry; apply N.leb_gt; cbn; lia).
      cbn. reflexivity.
    + intros tx I. apply in_app_or in I. destruct I as [I | [I | []]]; [apply W2; exact I|].
      subst tx. split; [exact W3 | right; reflexivity].
    + lia.
    + rewrite replay_labels_app, W4. cbn. rewrite Em. reflexivity.
    + exact W5.
    + apply NoDup_app_last; [exact W6 | exact Em].
  - destruct (e2i_has s ext); [cbn; split; [constructor; assumption | reflexivity]|].
    destruct (existsb _ (tx_created t)); cbn; (split; [constructor; assumption | reflexivity]).
Qed.
Lemma walinv_fold : forall ops s t, WalInv s ->
  WalInv (fst (fold_left apply_op ops (s, t))) /\ tx_id (snd (fold_left apply_op ops (s, t))) = tx_id t.
Proof.
  induction ops as [|o ops IH]; intros s t H; [split; [exact H | reflexivity]|]. cbn [fold_left].
  destruct (walinv_apply_op s t o H) as [H1 E1]. destruct (apply_op (s, t) o) as [s1 t1]; cbn [fst snd] in *.
  destruct (IH s1 t1 H1) as [H2 E2]. split; [exact H2 | rewrite E2; exact E1].
Qed.
Lemma memwf_fold : forall ops s t, mem_wf (tx_mem t) -> mem_wf (tx_mem (snd (fold_left apply_op ops (s, t)))).
Proof.
  induction ops as [|o ops IH]; intros s t H; [exact H|]. cbn [fold_left].
  pose proof (memwf_apply_op s t o H) as H1. destruct (apply_op (s, t) o) as [s1 t1]; cbn [snd] in H1. apply IH; exact H1.
Qed.

Lemma walinv_commit : forall s t, WalInv s -> 1 <= tx_id t -> nolab t -> notomb (tx_mem t) -> mem_wf (tx_mem t) ->
  WalInv (commit s t).
Proof.
  intros s t [W1 W2 W3 W4 W5 W6] Hid Hl Hn Hm. unfold commit. constructor; cbn [wal runs rtx next_txid interner epoch].
  - intros l. rewrite replay_graph_app, W1. cbn [replay_graph fst snd].
    replace (tx_id t <=? 0) with false by (symmetry; apply N.leb_gt; lia).
    rewrite (replay_commit t l Hl Hn Hm). destruct (mem_is_empty (tx_mem t)); reflexivity.
  - intros tx I. apply in_app_or in I. destruct I as [I | [I | []]]; [apply W2; exact I|].
    subst tx. split; [exact Hid | left; apply commit_records_plain].
  - lia.
  - rewrite replay_labels_app, W4. cbn [snd]. apply replay_label_plain. apply commit_records_plain.
  - exact W5.
  - exact W6.
Qed.

Lemma walinv_txn : forall s g ops, Inv s g -> WalInv s -> forallb grow_op ops = true -> wf_tx g ops = true ->
  WalInv (run_txn s ops true).
Proof.
  intros s g ops (HR & H2 & H3 & H4 & H5) HW Hg Hw. unfold run_txn, begin.
  set (t0 := mkTxn (next_txid s) [] [] [] mem0).
  assert (HR0 : Rel (view_rs (bump s) t0) (view_ie (bump s) t0) g).
  { destruct HR as [A B C D E]. unfold view_rs, view_ie; cbn. rewrite app_nil_r.
    constructor.
    - intros m [Em | I]; [subst m; split; reflexivity | apply A; exact I].
    - exact B.
    - cbn. exact C.
    - intros key; rewrite prop_runs_cons; cbn. apply D.
    - intros key; rewrite prop_runs_cons; cbn. apply E. }
  assert (Hl0 : nolab t0) by (split; reflexivity).
  assert (HW0 : WalInv (bump s)).
  { destruct HW as [W1 W2 W3 W4 W5 W6]. constructor; cbn; try assumption. lia. }
  destruct (rel_fold_apply ops (bump s) t0 g HR0 Hl0 Hg Hw) as (R1 & L1 & _).
  destruct (walinv_fold ops (bump s) t0 HW0) as [HW1 E1].
  pose proof (memwf_fold ops (bump s) t0 mem_wf0) as M1.
  destruct (fold_left apply_op ops (bump s, t0)) as [s2 t2]; cbn [fst snd] in *.
  apply walinv_commit; try assumption.
  - rewrite E1. cbn. exact (W_txid s HW).
  - destruct R1 as [A _ _ _ _]. apply A. left. reflexivity.
Qed.

Lemma walinv0 : WalInv s0.
Proof. constructor; cbn; try reflexivity; try lia; try constructor; intros tx []. Qed.

Theorem walinv_hist : forall h s g, Inv s g -> WalInv s -> grow_hist h = true -> wf_hist_from g h = true ->
  WalInv (fold_left step h s).
Proof.
  induction h as [|x h IH]; intros s g HI HW Hg Hw; [exact HW|].
  unfold grow_hist in Hg; cbn [forallb] in Hg; fold (grow_hist h) in Hg.
  apply andb_true_iff in Hg; destruct Hg as [Hx Hg].
  destruct x as [ops [|] | | | |]; try discriminate Hx.
  cbn [wf_hist_from] in Hw. apply andb_true_iff in Hw; destruct Hw as [Hw1 Hw2].
  cbn [fold_left step]. apply (IH _ (g_apply_tx g ops)).
  - apply inv_txn; assumption.
  - apply (walinv_txn s g); assumption.
  - exact Hg.
  - exact Hw2.
Qed.

(* ---------------- reopen ---------------- *)
Theorem open_eqv : forall s g, Inv s g -> WalInv s -> eqv (open s) s.
Proof.
  intros s g (HR & H2 & H3 & H4 & H5) [W1 W2 W3 W4 W5 W6]. unfold open.
  pose proof (scan_wal_core (wal s) (mkR 0 [] 0 0) W2) as Hc. unfold core3 in Hc; cbn [r_epoch r_segs r_ckpt] in Hc.
  unfold scan_recovery. set (r := fold_left scan_tx (wal s) (mkR 0 [] 0 0)) in *.
  assert (Hr : r_epoch r = 0 /\ r_segs r = [] /\ r_ckpt r = 0) by (inversion Hc; repeat split; reflexivity).
  destruct Hr as (E1 & E2 & E3). rewrite E3, E2, E1.
  rewrite W1. unfold eqv; cbn. rewrite W4, H2, H5. repeat split.
Qed.

Lemma core3_inv : forall r a b c, core3 r = (a, b, c) -> r_epoch r = a /\ r_segs r = b /\ r_ckpt r = c.
Proof. intros r a b c H; unfold core3 in H. injection H as E1 E2 E3. repeat split; assumption. Qed.

(* close with nothing published rewrites the log as one snapshot transaction *)
Lemma relog_labels : forall intr acc i, NoDup (acc ++ intr) ->
  fold_left replay_label (map (fun p : N * N => RCreateLabel (snd p) (fst p)) (combine (nseq i (length intr)) intr)) acc = acc ++ intr.
Proof.
  induction intr as [|x intr IH]; intros acc i H; cbn [length nseq combine map fold_left]; [rewrite app_nil_r; reflexivity|].
  cbn [replay_label snd fst].
  assert (Hx : memN x acc = false).
  { destruct (memN x acc) eqn:E; [|reflexivity]. apply memN_In in E.
    apply NoDup_remove_2 in H. exfalso. apply H. apply in_or_app. left. exact E. }
  rewrite Hx. rewrite IH; [rewrite <- app_assoc; reflexivity|]. rewrite <- app_assoc. exact H.
Qed.

Theorem close_open_eqv : forall s g, Inv s g -> WalInv s -> eqv (open (close s)) s.
Proof.
  intros s g HI HW. unfold close. destruct (runs s) as [|m0 rs0] eqn:Hr; [|apply (open_eqv s g HI HW)].
  destruct HI as (HR & H2 & H3 & H4 & H5). destruct HW as [W1 W2 W3 W4 W5 W6].
  unfold open. cbn [wal i2e store_n store_e vecs].
  set (lab := map (fun p : N * N => RCreateLabel (snd p) (fst p)) (combine (nseq 0 (length (interner s))) (interner s))).
  assert (Hlab : forallb labelrec lab = true) by (apply forallb_map_true; intros; reflexivity).
  (* recovery scan *)
  assert (Hscan : core3 (scan_recovery [(next_txid s, lab ++ [RManifest (epoch s) (segs s); RCheckpoint (N.pred (next_txid s)) (epoch s)])])
                  = (0, [], N.pred (next_txid s))).
  { unfold scan_recovery. cbn [fold_left scan_tx fst snd]. rewrite fold_left_app.
    set (r1 := fold_left scan_rec lab _).
    assert (Hc : core3 r1 = (0, [], 0)) by (unfold r1; rewrite scan_recs_core; [reflexivity | right; exact Hlab]).
    destruct (core3_inv _ _ _ _ Hc) as (E1 & E2 & E3). rewrite W5, H2. cbn [fold_left scan_rec].
    rewrite E1. cbn [N.leb N.compare r_epoch r_segs r_ckpt N.eqb]. unfold core3; cbn [r_epoch r_segs r_ckpt N.leb N.eqb].
    rewrite ?E1, ?E3. cbn. rewrite ?N.max_0_l. reflexivity. }
  set (r := scan_recovery _) in *. destruct (core3_inv _ _ _ _ Hscan) as (E1 & E2 & E3). rewrite E1, E2, E3.
  cbn [replay_graph fst snd].
  replace (next_txid s <=? N.pred (next_txid s)) with false by (symmetry; apply N.leb_gt; lia).
  rewrite fold_left_app, (replay_labelrecs lab _ mem0 Hlab). cbn [fold_left replay_rec mem_is_empty mem0].
  unfold eqv; cbn [runs segs store_n store_e i2e i2l interner vecs]. rewrite Hr, H2, H5.
  unfold replay_labels. cbn [fold_left snd]. rewrite fold_left_app.
  unfold lab. rewrite (relog_labels (interner s) [] 0); [|exact W6]. cbn. repeat split.
Qed.

(* C04 for the fragment *)
Theorem reopen_grow : forall h, grow_hist h = true -> wf_hist h = true ->
  m_dump (open (close (run h))) = m_dump (run h) /\ m_dump (open (run h)) = m_dump (run h).
Proof.
  intros h Hg Hw.
  assert (HI : Inv (run h) (spec h)) by (unfold run, spec; apply inv_hist; [exact inv0 | exact Hg | exact Hw]).
  assert (HW : WalInv (run h)) by (unfold run; apply (walinv_hist h s0 g0); [exact inv0 | exact walinv0 | exact Hg | exact Hw]).
  split; apply eqv_dump; [apply (close_open_eqv _ _ HI HW) | apply (open_eqv _ _ HI HW)].
Qed.

(* any number of close / drop + reopen cycles *)
Example reopen_grow_nonvacuous :
  let h := [HTxn [OGetLabel 0; OCreateNode 1 0; OCreateNode 2 UNLABELED; OGetLabel 10; OCreateEdge (0, 1, 1); OCreateEdge (0, 1, 1);
                  OSetNP 0 0 3; OSetEP (0, 1, 1) 1 4] true;
            HTxn [ORemNP 0 0; OSetNP 0 1 5; ORemEP (0, 1, 1) 0; OCreateNode 3 0; OCreateEdge (2, 1, 0)] true] in
  grow_hist h = true /\ wf_hist h = true /\ (run h).(runs) <> [] /\ (open (run h)).(runs) = (run h).(runs).
Proof. cbv zeta; repeat split; try (vm_compute; reflexivity). intro H; vm_compute in H; discriminate H. Qed.
