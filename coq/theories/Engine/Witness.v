(* Engine/Witness.v — PROOFS: concrete histories on which the faithful model M violates the
   six storage properties (each is also in the harness corpus and reproduced on the real
   engine), checked by vm_compute.  Label ids: OGetLabel 0 registers "L0" as id 0,
   OGetLabel 10 registers "R0" as id 1. *)
From NDB Require Import Engine.Graph Engine.Model Engine.Known.

Definition e01 : edge := (0, 1, 1).
Definition W_base : hop :=
  HTxn [OGetLabel 0; OCreateNode 1 0; OCreateNode 2 0; OCreateNode 3 0; OGetLabel 10] true.

(* spec-side dump of a history, names resolved by the model's interner *)
Definition spec_dump (h : list hop) : dump := g_dump (run h).(interner) (m_vec_ids (run h)) (spec h).

(* K-C06-eprops: properties of a deleted relationship come back when the key is created again *)
Definition h_eprops : list hop :=
  [W_base; HTxn [OCreateEdge e01; OSetEP e01 0 7] true; HTxn [OTombEdge e01] true; HTxn [OCreateEdge e01] true].
Lemma w_eprops : commits_only h_eprops = true /\ wf_hist h_eprops = true /\
  m_eprops (run h_eprops) e01 = [(0, 7)] /\ g_eprops (spec h_eprops) e01 = [] /\
  m_dump (run h_eprops) <> spec_dump h_eprops /\ (classes h_eprops).(k_eprops) = true.
Proof. repeat split; try (vm_compute; reflexivity). intro H; vm_compute in H; discriminate H. Qed.

(* K-C14-samerun: relationship created and one endpoint deleted in one transaction *)
Definition h_samerun : list hop := [W_base; HTxn [OCreateEdge (2, 1, 1); OTombNode 2] true].
Lemma w_samerun : commits_only h_samerun = true /\ wf_hist h_samerun = true /\
  In (2, 1, 1) (m_in (run h_samerun) 1) /\ ~ In 2 (m_nodes (run h_samerun)) /\
  m_out (run h_samerun) 2 = [] /\
  m_dump (run h_samerun) <> spec_dump h_samerun /\ (classes h_samerun).(k_samerun) = true.
Proof.
  repeat split; try (vm_compute; reflexivity).
  - vm_compute; left; reflexivity.
  - vm_compute; intros [H | [H | H]]; try discriminate H; exact H.
  - intro H; vm_compute in H; discriminate H.
Qed.

(* K-C05-tomb: compaction drops the tombstones, the deleted node is back *)
Definition h_tomb : list hop := [W_base; HTxn [OTombNode 2] true].
Lemma w_tomb : wf_hist h_tomb = true /\ m_nodes (run h_tomb) = [0; 1] /\ m_nodes (compact (run h_tomb)) = [0; 1; 2] /\
  m_dump (compact (run h_tomb)) <> m_dump (run h_tomb) /\ (classes (h_tomb ++ [HCompact])).(k_tomb) = true.
Proof. repeat split; try (vm_compute; reflexivity). intro H; vm_compute in H; discriminate H. Qed.

(* K-C05-remove: a removal after the value was sunk falls through to the store *)
Definition h_rem : list hop := [W_base; HTxn [OSetNP 0 0 5] true].
Definition t_rem : hop := HTxn [ORemNP 0 0] true.
Lemma w_remove : wf_hist (h_rem ++ [HCompact; t_rem]) = true /\
  m_nprop (run (h_rem ++ [HCompact; t_rem])) 0 0 = Some 5 /\ m_nprop (run (h_rem ++ [t_rem])) 0 0 = None /\
  m_dump (run (h_rem ++ [HCompact; t_rem])) <> m_dump (run (h_rem ++ [t_rem])) /\
  (classes (h_rem ++ [HCompact; t_rem])).(k_remove) = true.
Proof. repeat split; try (vm_compute; reflexivity). intro H; vm_compute in H; discriminate H. Qed.

(* K-C05-dups: an overwrite sunk by a second compaction becomes a second store entry;
   node_properties then answers with the OLD value, node_property with the new one *)
Definition h_dups : list hop := [W_base; HTxn [OSetNP 0 0 5] true; HCompact; HTxn [OSetNP 0 0 6] true].
Lemma w_dups : wf_hist h_dups = true /\ m_nprops (run h_dups) 0 = [(0, 6)] /\
  m_nprops (compact (run h_dups)) 0 = [(0, 5)] /\ m_nprop (compact (run h_dups)) 0 0 = Some 6 /\
  m_dump (compact (run h_dups)) <> m_dump (run h_dups) /\ (classes (h_dups ++ [HCompact])).(k_dups) = true.
Proof. repeat split; try (vm_compute; reflexivity). intro H; vm_compute in H; discriminate H. Qed.

(* K-C05-recreate: delete + re-create of a relationship key in one transaction: compaction
   applies the run's own tombstone to the run's own edge *)
Definition h_rec : list hop := [W_base; HTxn [OCreateEdge e01] true; HTxn [OTombEdge e01; OCreateEdge e01] true].
Lemma w_recreate : wf_hist h_rec = true /\ m_out (run h_rec) 0 = [e01] /\ m_out (compact (run h_rec)) 0 = [] /\
  m_dump (compact (run h_rec)) <> m_dump (run h_rec) /\ (classes (h_rec ++ [HCompact])).(k_recreate) = true.
Proof. repeat split; try (vm_compute; reflexivity). intro H; vm_compute in H; discriminate H. Qed.

(* fixed (060a936): with tombstones logged first, the same history survives drop + reopen *)
Lemma w_order_fixed : m_dump (open (run h_rec)) = m_dump (run h_rec).
Proof. vm_compute; reflexivity. Qed.

(* K-C04-labels: labels added after creation are memory-only *)
Definition h_lab : list hop := [W_base; HTxn [OGetLabel 1; OAddLabel 0 2] true].
Lemma w_labels : wf_hist h_lab = true /\ m_labels (run h_lab) 0 = [0; 2] /\
  m_labels (open (close (run h_lab))) 0 = [0] /\
  m_dump (open (close (run h_lab))) <> m_dump (run h_lab) /\ (classes (h_lab ++ [HCloseReopen])).(k_labels) = true.
Proof. repeat split; try (vm_compute; reflexivity). intro H; vm_compute in H; discriminate H. Qed.

(* K-C07-vector: set_vector in an abandoned transaction stays in the index *)
Definition h_vec : list hop := [W_base; HTxn [OSetVec 0] false].
Lemma w_vector : wf_hist h_vec = true /\ (m_dump (run h_vec)).(d_vec) = [0] /\ (m_dump (run [W_base])).(d_vec) = [] /\
  (classes h_vec).(k_vector) = true.
Proof. repeat split; vm_compute; reflexivity. Qed.

(* K-C30-parallel-props: two bulk relationships with the same key and a common property key *)
Definition w_bn : list bnode := [(1, 0, []); (2, 0, [])].
Definition w_be : list bedge := [(1, 10, 2, [(0, 1)]); (1, 10, 2, [(0, 5)])].
Definition w_btx : list hop :=
  [HTxn [OGetLabel 0; OCreateNode 1 0] true; HTxn [OGetLabel 0; OCreateNode 2 0] true;
   HTxn [OGetLabel 10; OCreateEdge e01; OSetEP e01 0 1] true; HTxn [OGetLabel 10; OCreateEdge e01; OSetEP e01 0 5] true].
Lemma w_bulk : m_eprops (bulk_open w_bn w_be) e01 = [(0, 1)] /\ m_eprop (bulk_open w_bn w_be) e01 0 = Some 5 /\
  m_eprops (run w_btx) e01 = [(0, 5)] /\ m_dump (bulk_open w_bn w_be) <> m_dump (run w_btx).
Proof. repeat split; try (vm_compute; reflexivity). intro H; vm_compute in H; discriminate H. Qed.

(* K-C06-labelorder: a transaction keeps label additions and removals in two lists and applies all
   additions before all removals: remove-then-add of one label in one transaction ends removed *)
Definition h_labord : list hop := [W_base; HTxn [ORemLabel 0 0; OAddLabel 0 0] true].
Lemma w_labelorder : commits_only h_labord = true /\ wf_hist h_labord = true /\
  m_labels (run h_labord) 0 = [] /\ g_labels (spec h_labord) 0 = [0] /\
  m_dump (run h_labord) <> spec_dump h_labord /\ (classes h_labord).(k_labelorder) = true.
Proof. repeat split; try (vm_compute; reflexivity). intro H; vm_compute in H; discriminate H. Qed.
