(* Engine/Abandon_proofs.v — PROOFS for C07: an abandoned transaction leaves the engine
   state unchanged (except for the transaction-id counter), and erasing abandoned
   transactions from a history without reopen steps does not change any read. *)
From NDB Require Import Engine.Graph Engine.Model Engine.Known.

(* the calls of a write transaction that act on the engine immediately are set_vector and the
   registration of a NEW label / relationship-type name *)
Definition quiet_op (s : state) (o : wop) : bool :=
  match o with
  | OSetVec _ => false
  | OGetLabel name => memN name s.(interner)
  | _ => true
  end.

Lemma apply_op_quiet : forall s t o, quiet_op s o = true -> fst (apply_op (s, t) o) = s.
Proof.
  intros s t o H; destruct o; cbn in *; try reflexivity; try discriminate H.
  - rewrite H; reflexivity.
  - destruct (e2i_has s ext); [reflexivity|].
    destruct (existsb _ (tx_created t)); reflexivity.
Qed.

Lemma fold_apply_quiet : forall ops s t,
  forallb (quiet_op s) ops = true -> fst (fold_left apply_op ops (s, t)) = s.
Proof.
  induction ops as [|o ops IH]; intros s t H; [reflexivity|].
  cbn [forallb] in H; cbn [fold_left].
  apply andb_true_iff in H; destruct H as [Ho Hr].
  pose proof (apply_op_quiet s t o Ho) as E.
  destruct (apply_op (s, t) o) as [s1 t1]; cbn [fst] in E; subst s1.
  apply IH; exact Hr.
Qed.

(* an abandoned transaction only consumes a transaction id *)
Theorem abandon_state : forall s ops,
  forallb (quiet_op s) ops = true -> run_txn s ops false = bump s.
Proof.
  intros s ops H; unfold run_txn, begin.
  assert (Hq : forallb (quiet_op (bump s)) ops = true).
  { exact H. }
  pose proof (fold_apply_quiet ops (bump s) (mkTxn (next_txid s) [] [] [] mem0) Hq) as E.
  destruct (fold_left apply_op ops _) as [s2 t2]; cbn [fst] in E; exact E.
Qed.

Theorem abandon_dump : forall s ops,
  forallb (quiet_op s) ops = true -> m_dump (run_txn s ops false) = m_dump s.
Proof. intros s ops H; rewrite (abandon_state s ops H); reflexivity. Qed.

(* ---- erasure over histories: states equal up to transaction ids / log ---- *)
Definition eqv (a b : state) : Prop :=
  runs a = runs b /\ segs a = segs b /\ store_n a = store_n b /\ store_e a = store_e b /\
  i2e a = i2e b /\ i2l a = i2l b /\ interner a = interner b /\ vecs a = vecs b.
Definition eqvt (a b : txn) : Prop :=
  tx_created a = tx_created b /\ tx_ladd a = tx_ladd b /\ tx_lrem a = tx_lrem b /\ tx_mem a = tx_mem b.

Lemma eqv_refl : forall a, eqv a a.
Proof. intros a; unfold eqv; repeat split. Qed.
Lemma eqv_bump_l : forall a b, eqv a b -> eqv (bump a) b.
Proof. intros a b H; exact H. Qed.

Lemma eqv_dump : forall a b, eqv a b -> m_dump a = m_dump b.
Proof.
  intros [ra ta sa na ea ia la inta nxa ca epa wa va] [rb tb sb nb eb ib lb intb nxb cb epb wb vb] H.
  unfold eqv in H; cbn in H.
  destruct H as (H1 & H2 & H3 & H4 & H5 & H6 & H7 & H8); subst.
  reflexivity.
Qed.

Lemma eqv_apply_op : forall a b ta tb o, eqv a b -> eqvt ta tb ->
  eqv (fst (apply_op (a, ta) o)) (fst (apply_op (b, tb) o)) /\
  eqvt (snd (apply_op (a, ta) o)) (snd (apply_op (b, tb) o)).
Proof.
  intros a b ta tb o (H1 & H2 & H3 & H4 & H5 & H6 & H7 & H8) (T1 & T2 & T3 & T4).
  destruct o; cbn;
    try (split; [unfold eqv; cbn; repeat split; assumption | unfold eqvt; cbn; rewrite ?T1, ?T2, ?T3, ?T4; repeat split; reflexivity]).
  - (* OGetLabel *) rewrite H7. destruct (memN name (interner b)); cbn.
    + split; [unfold eqv; repeat split; assumption | unfold eqvt; repeat split; assumption].
    + split; [unfold eqv; cbn; rewrite ?H7; repeat split; assumption | unfold eqvt; repeat split; assumption].
  - (* OCreateNode *) unfold e2i_has; rewrite H5, T1.
    destruct (existsb (fun r => fst r =? ext) (i2e b)); cbn.
    + split; [unfold eqv; repeat split; assumption | unfold eqvt; repeat split; assumption].
    + destruct (existsb _ (tx_created tb)); cbn.
      * split; [unfold eqv; repeat split; assumption | unfold eqvt; repeat split; assumption].
      * split; [unfold eqv; repeat split; assumption | unfold eqvt; cbn; rewrite ?T1, ?T2, ?T3, ?T4; repeat split; reflexivity].
  - (* OSetVec *) rewrite H8. split; [unfold eqv; cbn; repeat split; assumption | unfold eqvt; repeat split; assumption].
Qed.

Lemma eqv_fold_apply : forall ops a b ta tb, eqv a b -> eqvt ta tb ->
  eqv (fst (fold_left apply_op ops (a, ta))) (fst (fold_left apply_op ops (b, tb))) /\
  eqvt (snd (fold_left apply_op ops (a, ta))) (snd (fold_left apply_op ops (b, tb))).
Proof.
  induction ops as [|o ops IH]; intros a b ta tb E T; [split; assumption|].
  cbn [fold_left].
  destruct (eqv_apply_op a b ta tb o E T) as [E1 T1].
  destruct (apply_op (a, ta) o) as [a1 ta1], (apply_op (b, tb) o) as [b1 tb1]; cbn [fst snd] in *.
  apply IH; assumption.
Qed.

Lemma eqv_commit : forall a b ta tb, eqv a b -> eqvt ta tb -> eqv (commit a ta) (commit b tb).
Proof.
  intros a b ta tb (H1 & H2 & H3 & H4 & H5 & H6 & H7 & H8) (T1 & T2 & T3 & T4).
  unfold eqv, commit; cbn. rewrite H1, H2, H3, H4, H5, H6, H7, H8, T1, T2, T3, T4. repeat split.
Qed.

Lemma eqv_run_txn : forall a b ops c, eqv a b -> eqv (run_txn a ops c) (run_txn b ops c).
Proof.
  intros a b ops c E; unfold run_txn, begin.
  assert (T : eqvt (mkTxn (next_txid a) [] [] [] mem0) (mkTxn (next_txid b) [] [] [] mem0)) by (unfold eqvt; repeat split).
  destruct (eqv_fold_apply ops (bump a) (bump b) _ _ E T) as [E1 T1].
  destruct (fold_left apply_op ops (bump a, _)) as [a2 ta2], (fold_left apply_op ops (bump b, _)) as [b2 tb2]; cbn [fst snd] in *.
  destruct c; [apply eqv_commit; assumption | exact E1].
Qed.

Lemma eqv_compact : forall a b, eqv a b -> eqv (compact a) (compact b).
Proof.
  intros a b (H1 & H2 & H3 & H4 & H5 & H6 & H7 & H8); unfold compact; rewrite H1.
  destruct (runs b) eqn:Hb; [unfold eqv; rewrite Hb; repeat split; assumption|].
  unfold eqv; cbn. rewrite H2, H3, H4, H5, H6, H7, H8. repeat split.
Qed.

Definition no_reopen (h : list hop) : bool :=
  forallb (fun x => match x with HCloseReopen | HDropReopen => false | _ => true end) h.
Definition erase_abandoned (h : list hop) : list hop :=
  filter (fun x => match x with HTxn _ false => false | _ => true end) h.
(* every abandoned transaction of the history is quiet at the point where it runs *)
Fixpoint quiet_hist (s : state) (h : list hop) : bool :=
  match h with
  | [] => true
  | HTxn ops false :: t => forallb (quiet_op s) ops && quiet_hist (step s (HTxn ops false)) t
  | x :: t => quiet_hist (step s x) t
  end.

Lemma erase_eqv : forall h a b, eqv a b -> no_reopen h = true -> quiet_hist a h = true ->
  eqv (fold_left step h a) (fold_left step (erase_abandoned h) b).
Proof.
  induction h as [|x h IH]; intros a b E N Q; [exact E|].
  unfold no_reopen in N; cbn [forallb] in N; fold (no_reopen h) in N.
  apply andb_true_iff in N; destruct N as [Nx N].
  destruct x as [ops [|] | | | |]; try discriminate Nx;
    cbn [erase_abandoned filter fold_left quiet_hist step] in *; fold (erase_abandoned h).
  - apply IH; [apply eqv_run_txn; exact E | exact N | exact Q].
  - apply andb_true_iff in Q; destruct Q as [Q1 Q2].
    rewrite (abandon_state a ops Q1) in *. apply IH; [exact E | exact N | exact Q2].
  - apply IH; [apply eqv_compact; exact E | exact N | exact Q].
  - apply IH; [apply eqv_compact; exact E | exact N | exact Q].
Qed.

Theorem erase_abandoned_dump : forall h,
  no_reopen h = true -> quiet_hist s0 h = true ->
  m_dump (run h) = m_dump (run (erase_abandoned h)).
Proof.
  intros h N Q; apply eqv_dump; unfold run; apply erase_eqv; [apply eqv_refl | exact N | exact Q].
Qed.

(* the hypotheses are met by a non-trivial history (an abandoned transaction with every kind of
   buffered write, then a commit and a compaction) *)
Example erase_nonvacuous :
  let h := [HTxn [OGetLabel 0; OCreateNode 1 0; OCreateNode 2 0; OGetLabel 10; OCreateEdge (0, 1, 1)] true;
            HTxn [OGetLabel 0; OCreateNode 9 0; OAddLabel 0 1; OCreateEdge (1, 1, 0); OTombEdge (0, 1, 1); OTombNode 1;
                  OSetNP 0 0 3; ORemNP 0 1; OSetEP (0, 1, 1) 0 4; ORemEP (0, 1, 1) 1] false;
            HTxn [OSetNP 0 1 2] true; HCompact] in
  no_reopen h = true /\ quiet_hist s0 h = true /\ erase_abandoned h <> h.
Proof. cbv zeta; repeat split; try (vm_compute; reflexivity). intro H; discriminate H. Qed.

(* K-C07-vector at the level of the erasure statement *)
Lemma erase_refuted : exists h, wf_hist h = true /\ no_reopen h = true /\
  m_dump (run h) <> m_dump (run (erase_abandoned h)).
Proof.
  exists [HTxn [OGetLabel 0; OCreateNode 1 0] true; HTxn [OSetVec 0] false].
  repeat split; try (vm_compute; reflexivity). intro H; vm_compute in H; discriminate H.
Qed.
