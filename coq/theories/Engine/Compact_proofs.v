(* Engine/Compact_proofs.v — PROOFS for C05 (small part): what compaction provably leaves alone.
   Node enumeration is unchanged when no published run holds a node tombstone (with one it is
   not: K-C05-tomb); labels, external ids and external-id lookup are never changed. *)
From NDB Require Import Engine.Graph Engine.Model Engine.Known.

Lemma existsb_all_false : forall {A} (f : A -> bool) l, (forall x, In x l -> f x = false) -> existsb f l = false.
Proof.
  intros A f l; induction l as [|y l IH]; intros H; cbn; [reflexivity|].
  rewrite (H y (or_introl eq_refl)), IH; [reflexivity | intros x I; apply H; right; exact I].
Qed.

Theorem compact_nodes : forall s, (forall m, In m s.(runs) -> m.(me_tn) = []) -> m_nodes (compact s) = m_nodes s.
Proof.
  intros s H. unfold compact. destruct (runs s) as [|m0 rs] eqn:Hr; [reflexivity|].
  unfold m_nodes; cbn [runs i2e]. rewrite Hr. apply filter_ext. intros n.
  cbn [existsb]. symmetry. f_equal.
  change (existsb (fun r => memN n (me_tn r)) (m0 :: rs) = false).
  apply existsb_all_false. intros m Hm. rewrite (H m Hm). reflexivity.
Qed.

Theorem compact_labels_ids : forall s n ext,
  m_labels (compact s) n = m_labels s n /\ m_ext (compact s) n = m_ext s n /\ m_lookup (compact s) ext = m_lookup s ext.
Proof. intros s n ext. unfold compact. destruct (runs s); repeat split; reflexivity. Qed.

(* a compaction with nothing published is the identity (what Db::checkpoint does right after a compaction) *)
Theorem compact_idle : forall s, s.(runs) = [] -> compact s = s.
Proof. intros s H; unfold compact; rewrite H; reflexivity. Qed.
