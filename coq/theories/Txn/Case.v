(* Txn/Case.v — correspondence case shared by Corr/C13.v and Corr/C24.v: a database, a mode,
   a statement sequence, and what the implementation returned / left behind. *)
From NDB Require Export Txn.Model Corr.Common.
Open Scope Z_scope.

Record tcase := {
  init_nodes : list (Z * option Z);
  init_edges : list (N * N);
  explicit : bool;        (* true: one explicit C API transaction (ndb_begin_write .. ndb_txn_commit); false: ndb_execute_write per statement *)
  stmts : list stmt;
  impl_status : list bool;                 (* NDB_OK per statement *)
  impl_nodes : list (Z * list N * list (N * Z));    (* dump after commit: key, labels, properties *)
  impl_edges : list (Z * Z)
}.

Definition tcase_ok (c : tcase) : bool :=
  let db := init_graph (init_nodes c) (init_edges c) in
  let final := if explicit c then M_txn db (stmts c) else fold_left M_autocommit (stmts c) db in
  let st := if explicit c then statuses false false db [] (stmts c) else auto_statuses db (stmts c) in
  list_eqb Bool.eqb st (impl_status c) &&
  ms_eqb dnode_eqb (dump_nodes final) (impl_nodes c) &&
  ms_eqb dedge_eqb (dump_edges final) (impl_edges c).
