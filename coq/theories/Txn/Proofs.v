(* Txn/Proofs.v — PROOFS about Txn/Model.v *)
From Coq Require Import List ZArith NArith Bool Lia.
From NDB Require Import Txn.Model.
Import ListNotations.
Open Scope Z_scope.

Lemma apply_ops_app : forall ops1 ops2 g, apply_ops g (ops1 ++ ops2) = apply_ops (apply_ops g ops1) ops2.
Proof. intros. unfold apply_ops. apply fold_left_app. Qed.

Lemma apply_ops_nil : forall g, apply_ops g [] = g.
Proof. reflexivity. Qed.

(* ---------- C13, auto-commit: the buffer of a failing statement is dropped ---------- *)
Lemma autocommit_atomic : forall db s, fails db (gnext db) s = true -> M_autocommit db s = db.
Proof.
  intros db s H. unfold M_autocommit, fails in *.
  destruct (eval db (gnext db) s) as [ops ok]. cbn [snd] in H.
  destruct ok; [discriminate | reflexivity].
Qed.

Lemma autocommit_ok : forall db s, fails db (gnext db) s = false ->
  M_autocommit db s = apply_ops db (fst (eval db (gnext db) s)).
Proof.
  intros db s H. unfold M_autocommit, fails in *.
  destruct (eval db (gnext db) s) as [ops ok]. cbn [snd fst] in *.
  destruct ok; [reflexivity | discriminate].
Qed.

(* ---------- the spec transaction is the sequence of its statements run one by one ---------- *)
Lemma S_run_autocommit_seq : forall ss db buf,
  apply_ops db (fold_left (step true true db) ss buf) = fold_left M_autocommit ss (apply_ops db buf).
Proof.
  induction ss as [|s ss IH]; intros db buf; [reflexivity|].
  cbn [fold_left]. rewrite IH. f_equal.
  unfold step, M_autocommit, next_of, view_of.
  destruct (eval (apply_ops db buf) (gnext (apply_ops db buf)) s) as [ops ok].
  destruct ok; cbn [orb negb].
  - apply apply_ops_app.
  - reflexivity.
Qed.

Theorem S_txn_autocommit_seq : forall db ss, S_txn db ss = fold_left M_autocommit ss db.
Proof. intros. unfold S_txn, txn, run. rewrite S_run_autocommit_seq. reflexivity. Qed.

(* ---------- C13, explicit transactions: outside K-C13-buffer the code is atomic ---------- *)
Lemma step_clean_eq : forall (ryw : bool) db buf s,
  fails_dirty (view_of ryw db buf s) (next_of db buf) s = false ->
  step ryw false db buf s = step ryw true db buf s.
Proof.
  intros ryw db buf s H. unfold step, fails_dirty in *.
  destruct (eval (view_of ryw db buf s) (next_of db buf) s) as [ops ok].
  destruct ok; cbn [orb negb andb] in *; [reflexivity|].
  destruct ops; [now rewrite app_nil_r | discriminate].
Qed.

Lemma run_clean_eq : forall ryw db ss buf,
  some_dirty ryw false db buf ss = false ->
  fold_left (step ryw false db) ss buf = fold_left (step ryw true db) ss buf.
Proof.
  induction ss as [|s ss IH]; intros buf H; [reflexivity|].
  cbn [some_dirty] in H. apply orb_false_iff in H. destruct H as [H1 H2].
  cbn [fold_left]. rewrite <- (step_clean_eq ryw db buf s H1). apply IH. exact H2.
Qed.

Theorem txn_atomic_unless_dirty : forall ryw db ss,
  some_dirty ryw false db [] ss = false -> txn ryw false db ss = txn ryw true db ss.
Proof. intros. unfold txn, run. now rewrite run_clean_eq. Qed.

(* transactions all of whose statements succeed: no dirty failure *)
Lemma fails_dirty_ok : forall view n s, fails view n s = false -> fails_dirty view n s = false.
Proof.
  intros view n s H. unfold fails, fails_dirty in *. destruct (eval view n s) as [ops ok].
  cbn [snd] in H. destruct ok; [reflexivity|discriminate].
Qed.

(* ---------- C24: statements that read nothing see the same thing either way ---------- *)
Definition is_create (s : stmt) : bool := match s with SCreate _ => true | SCreateNL _ => true | SSyntax => true | _ => false end.

Lemma eval_create_view : forall v1 v2 n s, is_create s = true -> eval v1 n s = eval v2 n s.
Proof. intros v1 v2 n s H. destruct s; try discriminate; reflexivity. Qed.

Lemma run_creates_eq : forall atomic db ss buf, forallb is_create ss = true ->
  fold_left (step false atomic db) ss buf = fold_left (step true atomic db) ss buf.
Proof.
  induction ss as [|s ss IH]; intros buf H; [reflexivity|].
  cbn [forallb] in H. apply andb_true_iff in H. destruct H as [H1 H2].
  cbn [fold_left].
  assert (E : step false atomic db buf s = step true atomic db buf s).
  { unfold step. now rewrite (eval_create_view (view_of false db buf s) (view_of true db buf s) _ s H1). }
  rewrite E. apply IH. exact H2.
Qed.

Theorem txn_creates_ryw : forall atomic db ss, forallb is_create ss = true ->
  txn false atomic db ss = txn true atomic db ss.
Proof. intros. unfold txn, run. now rewrite run_creates_eq. Qed.

(* ---------- witnesses ---------- *)
Definition db0 : graph := init_graph [] [].
Definition w13 : stmt := SCreate [(1, CInt 1); (2, CInt 2); (3, CBad); (4, CInt 4)].

Lemma w13_fails : fails db0 (gnext db0) w13 = true.
Proof. vm_compute. reflexivity. Qed.
Lemma w13_effect : dump_eqb (M_txn db0 [w13]) db0 = false.
Proof. vm_compute. reflexivity. Qed.
Lemma w13_dump : dump_nodes (M_txn db0 [w13]) = [(1, [0%N], [(0%N, 1)]); (2, [0%N], [(0%N, 2)]); (3, [0%N], [])].
Proof. vm_compute. reflexivity. Qed.

Definition w24a : stmt := SCreate [(10, CInt 0)].
Definition w24b : stmt := SSet 1%N [(10, CInt 7)].
Lemma w24_ok : statuses false false db0 [] [w24a; w24b] = [true; true].
Proof. vm_compute. reflexivity. Qed.
Lemma w24_differs : dump_eqb (M_txn db0 [w24a; w24b]) (S_txn db0 [w24a; w24b]) = false.
Proof. vm_compute. reflexivity. Qed.
Lemma w24_S : dump_nodes (S_txn db0 [w24a; w24b]) = [(10, [0%N], [(0%N, 0); (1%N, 7)])].
Proof. vm_compute. reflexivity. Qed.
Lemma w24_M : dump_nodes (M_txn db0 [w24a; w24b]) = [(10, [0%N], [(0%N, 0)])].
Proof. vm_compute. reflexivity. Qed.

(* non-vacuity: a transaction with a clean failure (refused DELETE) and with reads of committed data *)
Definition db1 : graph := init_graph [(1, Some 5); (2, None); (3, None)] [(0%N, 1%N)].
Definition ss_clean : list stmt := [SSet 1%N [(3, CInt 9)]; SDelete false 1; SSyntax; SLink 3 2].
Lemma ss_clean_not_dirty : some_dirty false false db1 [] ss_clean = false.
Proof. vm_compute. reflexivity. Qed.
Lemma ss_clean_statuses : statuses false false db1 [] ss_clean = [true; false; false; true].
Proof. vm_compute. reflexivity. Qed.

(* ---------- what works today: the unlabelled scan sees the nodes staged by earlier statements ---------- *)
(* label-less CREATE, then MATCH (n) SET / SET n:F1 / REMOVE n:F1 / CREATE (n)-[:R]->(n) in one transaction:
   the code's transaction equals the spec's *)
Definition db2 : graph := init_graph [(1, Some 5)] [].
Definition ss_scan : list stmt :=
  [SCreateNL [(2, CInt 0)]; SCreate [(3, CInt 1)]; SScanSet 1%N 7; SScanLabel true 1%N; SScanLabel true 2%N;
   SScanLabel false 1%N; SScanLoop].
Lemma ss_scan_agrees : dump_eqb (M_txn db2 ss_scan) (S_txn db2 ss_scan) = true.
Proof. vm_compute. reflexivity. Qed.
Lemma ss_scan_dump : dump_nodes (M_txn db2 ss_scan) =
  [(1, [0%N; 2%N], [(0%N, 5); (1%N, 7)]); (2, [2%N], [(0%N, 0); (1%N, 7)]); (3, [0%N; 2%N], [(0%N, 1); (1%N, 7)])].
Proof. vm_compute. reflexivity. Qed.
(* and what does not: a labelled scan on a label set earlier in the transaction (K-C24-snapshot) *)
Lemma labelled_scan_differs :
  dump_eqb (M_txn db2 [SScanLabel true 1%N; SLabelSet 1%N 1%N 9]) (S_txn db2 [SScanLabel true 1%N; SLabelSet 1%N 1%N 9]) = false.
Proof. vm_compute. reflexivity. Qed.

(* a refused DELETE — single target, several targets of which a later one is connected, DELETE r, a where a has
   another relationship — emits nothing: it is a clean failure, outside K-C13-buffer, also inside a transaction *)
Definition db3 : graph := init_graph [(1, None); (2, None); (3, None); (4, None)] [(2%N, 3%N); (1%N, 2%N); (3%N, 2%N)].
Definition ss_refused : list stmt := [SDeleteIn false [1; 2; 3]; SDeleteRel 3; SDelete false 4; SSet 1%N [(1, CInt 5)]].
Lemma ss_refused_clean :
  some_dirty false false db3 [] ss_refused = false /\
  statuses false false db3 [] ss_refused = [false; false; false; true] /\
  dump_eqb (M_txn db3 ss_refused) (M_txn db3 [SSet 1%N [(1, CInt 5)]]) = true.
Proof. vm_compute. auto. Qed.
