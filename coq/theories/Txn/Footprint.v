(* Txn/Footprint.v — read/write key footprints of a transaction and the theorem that the code's
   transaction (statements evaluated against the committed snapshot) equals the spec's (read your
   writes) whenever no statement reads a key that the buffer of the earlier statements touched.
   `touched` is computed along the run from the operations actually in the buffer (keys of the
   nodes an operation creates, updates, deletes or connects), `reads` from the statement text. *)
From Coq Require Import List ZArith NArith Bool Lia.
From NDB Require Import Txn.Model Txn.Proofs.
Import ListNotations.
Open Scope Z_scope.

(* ---- footprints ---- *)
Definition ids_keys (g : graph) (id : N) : list Z := map nkey (filter (fun n => N.eqb (nid n) id) (gnodes g)).
Definition touch (g : graph) (o : wop) : list Z :=
  match o with
  | WCreate _ k _ => [k]
  | WSetProp id _ _ => ids_keys g id
  | WDelNode id => ids_keys g id
  | WCreateEdge a b => ids_keys g a ++ ids_keys g b
  | WDelEdge a b => ids_keys g a ++ ids_keys g b
  | WAddLabel id _ => ids_keys g id
  | WDelLabel id _ => ids_keys g id
  end.
Fixpoint touched (g : graph) (ops : list wop) : list Z :=
  match ops with [] => [] | o :: t => touch g o ++ touched (apply_op g o) t end.
Definition disj (a b : list Z) : bool := forallb (fun x => negb (existsb (Z.eqb x) b)) a.
Definition simple_op (o : wop) : bool :=
  match o with WCreate _ _ _ | WSetProp _ _ _ | WAddLabel _ _ | WDelLabel _ _ => true | _ => false end.
(* keys a statement filters on; None: the statement reads every node (scans) *)
Definition reads (s : stmt) : option (list Z) :=
  match s with
  | SCreate _ => Some [] | SCreateNL _ => Some [] | SSyntax => Some []
  | SSet _ rows => Some (map fst rows)
  | SDelete _ k => Some [k] | SMerge k => Some [k] | SDeleteRel k => Some [k]
  | SDeleteIn _ ks => Some ks
  | SLink a b => Some [a; b]
  | SScanSet _ _ | SScanLabel _ _ | SScanLoop | SScanDelete _ | SLabelSet _ _ _ => None
  end.
Definition reads_ok (s : stmt) (db : graph) (buf : list wop) : bool :=
  match reads s with
  | Some ks => disj ks (touched db buf)
  | None =>
      (* the unlabelled scan sees staged creates: fine as long as the buffer holds only creates, property and
         label writes (no deletions, no relationship writes); a labelled scan needs an empty buffer *)
      (is_scan s && forallb simple_op buf) || match buf with [] => true | _ => false end
  end.
Fixpoint footprints_disjoint (atomic : bool) (db : graph) (buf : list wop) (ss : list stmt) : bool :=
  match ss with
  | [] => true
  | s :: t => reads_ok s db buf && footprints_disjoint atomic db (step false atomic db buf s) t
  end.

Lemma disj_spec : forall a b, disj a b = true -> forall x, In x a -> ~ In x b.
Proof.
  intros a b H x Hx Hb. unfold disj in H. rewrite forallb_forall in H. specialize (H x Hx).
  apply negb_true_iff in H. assert (existsb (Z.eqb x) b = true).
  { apply existsb_exists. exists x. split; auto. apply Z.eqb_refl. }
  congruence.
Qed.

Lemma filter_filter_keep {A} (p q : A -> bool) (l : list A) :
  (forall x, In x l -> p x = true -> q x = true) -> filter p (filter q l) = filter p l.
Proof.
  induction l as [|x l IH]; intros H; cbn; auto.
  destruct (q x) eqn:Q; cbn.
  - destruct (p x); [f_equal|]; apply IH; intros; apply H; cbn; auto.
  - destruct (p x) eqn:P.
    + rewrite (H x) in Q; cbn; auto. discriminate.
    + apply IH; intros; apply H; cbn; auto.
Qed.

Lemma filter_map_keep {A} (P : A -> bool) (f : A -> A) (l : list A) :
  (forall x, In x l -> f x = x \/ (P x = false /\ P (f x) = false)) -> filter P (map f l) = filter P l.
Proof.
  induction l as [|x l IH]; intros H; cbn; auto.
  destruct (H x (or_introl eq_refl)) as [E|[E1 E2]].
  - rewrite E. destruct (P x); [f_equal|]; apply IH; intros; apply H; cbn; auto.
  - rewrite E1, E2. apply IH; intros; apply H; cbn; auto.
Qed.

Lemma in_ids_keys : forall g n, In n (gnodes g) -> In (nkey n) (ids_keys g (nid n)).
Proof.
  intros g n H. unfold ids_keys. apply in_map. apply filter_In. split; auto. apply N.eqb_refl.
Qed.

(* one operation leaves untouched keys alone *)
Lemma op_untouched : forall g o k, ~ In k (touch g o) ->
  with_key k (apply_op g o) = with_key k g /\
  (forall n, In n (with_key k g) -> attached (apply_op g o) (nid n) = attached g (nid n)).
Proof.
  intros g o k H. destruct o as [id k' labs|id p v|id|a b|a b|id lab|id lab]; cbn [touch apply_op] in *.
  - (* create *) split.
    + unfold with_key. cbn [gnodes]. rewrite filter_app. cbn.
      destruct (Z.eqb k' k) eqn:E; [apply Z.eqb_eq in E; subst; exfalso; apply H; cbn; auto | cbn; apply app_nil_r].
    + reflexivity.
  - (* set prop *) split; [|reflexivity].
    unfold with_key. cbn [gnodes]. apply filter_map_keep. intros n Hn.
    destruct (N.eqb (nid n) id) eqn:E; [right|left; reflexivity].
    assert (K : Z.eqb (nkey n) k = false).
    { apply Z.eqb_neq. intro K. apply H. apply N.eqb_eq in E. subst. apply in_ids_keys; auto. }
    cbn [nkey]. now rewrite K.
  - (* delete node *) split; [|reflexivity].
    unfold with_key. cbn [gnodes]. apply filter_filter_keep.
    intros n Hn K. apply negb_true_iff. apply N.eqb_neq. intro E. apply H.
    apply andb_true_iff in K. destruct K as [K _]. apply Z.eqb_eq in K. subst. apply in_ids_keys; auto.
  - (* create edge *) split; [reflexivity|].
    intros n Hn. unfold attached. cbn [gedges]. rewrite filter_app. cbn [filter fst snd].
    unfold with_key in Hn. apply filter_In in Hn. destruct Hn as [Hn K]. apply andb_true_iff in K. destruct K as [K _]. apply Z.eqb_eq in K.
    assert (N.eqb a (nid n) = false).
    { apply N.eqb_neq. intro E. apply H. apply in_or_app. left. subst. apply in_ids_keys; auto. }
    assert (N.eqb b (nid n) = false).
    { apply N.eqb_neq. intro E. apply H. apply in_or_app. right. subst. apply in_ids_keys; auto. }
    rewrite H0, H1. cbn. apply app_nil_r.
  - (* delete edge *) split; [reflexivity|].
    intros n Hn. unfold attached. cbn [gedges]. apply filter_filter_keep.
    intros e _ He. apply negb_true_iff. unfold edge_eqb. cbn [fst snd].
    unfold with_key in Hn. apply filter_In in Hn. destruct Hn as [Hn K]. apply andb_true_iff in K. destruct K as [K _]. apply Z.eqb_eq in K.
    destruct (N.eqb (fst e) a) eqn:E1; cbn; auto. destruct (N.eqb (snd e) b) eqn:E2; auto.
    apply N.eqb_eq in E1, E2. exfalso. apply orb_true_iff in He. destruct He as [He|He]; apply N.eqb_eq in He; apply H; apply in_or_app.
    + left. rewrite <- E1, He, <- K. apply in_ids_keys; auto.
    + right. rewrite <- E2, He, <- K. apply in_ids_keys; auto.
  - (* add label *) split; [|reflexivity].
    unfold with_key. cbn [gnodes]. apply filter_map_keep. intros n Hn.
    destruct (N.eqb (nid n) id) eqn:E; [right|left; reflexivity].
    assert (K : Z.eqb (nkey n) k = false).
    { apply Z.eqb_neq. intro K. apply H. apply N.eqb_eq in E. subst. apply in_ids_keys; auto. }
    cbn [nkey]. now rewrite K.
  - (* remove label *) split; [|reflexivity].
    unfold with_key. cbn [gnodes]. apply filter_map_keep. intros n Hn.
    destruct (N.eqb (nid n) id) eqn:E; [right|left; reflexivity].
    assert (K : Z.eqb (nkey n) k = false).
    { apply Z.eqb_neq. intro K. apply H. apply N.eqb_eq in E. subst. apply in_ids_keys; auto. }
    cbn [nkey]. now rewrite K.
Qed.

Lemma ops_untouched : forall ops g k, ~ In k (touched g ops) ->
  with_key k (apply_ops g ops) = with_key k g /\
  (forall n, In n (with_key k g) -> attached (apply_ops g ops) (nid n) = attached g (nid n)).
Proof.
  induction ops as [|o ops IH]; intros g k H; [split; reflexivity|].
  cbn [touched] in H. unfold apply_ops; cbn [fold_left]. fold (apply_ops (apply_op g o) ops).
  assert (H1 : ~ In k (touch g o)) by (intro; apply H; apply in_or_app; auto).
  assert (H2 : ~ In k (touched (apply_op g o) ops)) by (intro; apply H; apply in_or_app; auto).
  destruct (op_untouched g o k H1) as [A1 A2]. destruct (IH (apply_op g o) k H2) as [B1 B2].
  split.
  - now rewrite B1.
  - intros n Hn. rewrite B2; [apply A2; auto | rewrite A1; auto].
Qed.

Lemma flat_map_ext_in {A B} (f g : A -> list B) (l : list A) :
  (forall x, In x l -> f x = g x) -> flat_map f l = flat_map g l.
Proof.
  induction l as [|x l IH]; intros H; cbn; auto. rewrite (H x), IH; cbn; auto. intros; apply H; cbn; auto.
Qed.

Lemma eval_delete_rel_ext : forall att1 att2 cands, (forall id, In id cands -> att1 id = att2 id) ->
  eval_delete_rel att1 cands = eval_delete_rel att2 cands.
Proof.
  intros att1 att2 cands H. unfold eval_delete_rel.
  assert (T : filter (fun id => negb match filter (fun e => N.eqb (snd e) id) (att1 id) with [] => true | _ => false end) cands =
              filter (fun id => negb match filter (fun e => N.eqb (snd e) id) (att2 id) with [] => true | _ => false end) cands).
  { apply filter_ext_in. intros id Hid. now rewrite (H id Hid). }
  rewrite T.
  set (targets := filter (fun id => negb match filter (fun e => N.eqb (snd e) id) (att2 id) with [] => true | _ => false end) cands).
  assert (Hin : forall id, In id targets -> In id cands) by (intros id Hid; apply filter_In in Hid; tauto).
  rewrite (flat_map_ext_in (fun id => filter (fun e => N.eqb (snd e) id) (att1 id)) (fun id => filter (fun e => N.eqb (snd e) id) (att2 id)) targets);
    [|intros id Hid; now rewrite (H id (Hin id Hid))].
  rewrite (flat_map_ext_in att1 att2 targets); [reflexivity|intros id Hid; apply H; auto].
Qed.

(* a statement whose read keys the buffer has not touched evaluates the same on both views *)
Lemma eval_untouched : forall db buf n s ks, reads s = Some ks ->
  (forall k, In k ks -> ~ In k (touched db buf)) ->
  eval (apply_ops db buf) n s = eval db n s.
Proof.
  intros db buf n s ks R H. destruct s as [rows|p rows|d k|k1 k2|k| |rows|p z|a lab| |d|lab p z|d kl|k]; cbn [eval reads] in *;
    try discriminate; injection R as <-; auto.
  - (* set *) f_equal. apply flat_map_ext_in. intros r Hr.
    destruct (ops_untouched buf db (fst r)) as [A _]; [apply H; apply in_map; auto|]. now rewrite A.
  - (* delete *)
    destruct (ops_untouched buf db k) as [A B]; [apply H; cbn; auto|]. rewrite A. unfold eval_delete.
    assert (E : flat_map (attached (apply_ops db buf)) (map nid (with_key k db)) = flat_map (attached db) (map nid (with_key k db))).
    { apply flat_map_ext_in. intros id Hid. apply in_map_iff in Hid. destruct Hid as (m & <- & Hm). apply B; auto. }
    now rewrite E.
  - (* link *)
    destruct (ops_untouched buf db k1) as [A _]; [apply H; cbn; auto|].
    destruct (ops_untouched buf db k2) as [B _]; [apply H; cbn; auto|]. now rewrite A, B.
  - (* merge *)
    destruct (ops_untouched buf db k) as [A _]; [apply H; cbn; auto|]. now rewrite A.
  - (* delete in *)
    assert (W : flat_map (fun k => with_key k (apply_ops db buf)) kl = flat_map (fun k => with_key k db) kl).
    { apply flat_map_ext_in. intros k Hk. destruct (ops_untouched buf db k) as [A _]; auto. }
    rewrite W. unfold eval_delete.
    assert (E : flat_map (attached (apply_ops db buf)) (map nid (flat_map (fun k => with_key k db) kl)) =
                flat_map (attached db) (map nid (flat_map (fun k => with_key k db) kl))).
    { apply flat_map_ext_in. intros id Hid. apply in_map_iff in Hid. destruct Hid as (m & <- & Hm).
      apply in_flat_map in Hm. destruct Hm as (k & Hk & Hm). destruct (ops_untouched buf db k) as [_ B]; auto. }
    now rewrite E.
  - (* delete r, a *)
    destruct (ops_untouched buf db k) as [A B]; [apply H; cbn; auto|]. rewrite A.
    apply eval_delete_rel_ext. intros id Hid. apply in_map_iff in Hid. destruct Hid as (m & <- & Hm). apply B; auto.
Qed.


(* ---- the staged scan view agrees with read-your-writes while the buffer is simple ---- *)
Lemma map_nid_map : forall (f : node -> node) l, (forall n, nid (f n) = nid n) -> map nid (map f l) = map nid l.
Proof. intros f l H. rewrite map_map. apply map_ext. exact H. Qed.

Lemma simple_op_ids : forall g o, simple_op o = true ->
  map nid (gnodes (apply_op g o)) = map nid (gnodes g) ++ map nid (staged [o]) /\ gedges (apply_op g o) = gedges g.
Proof.
  intros g o H. destruct o; try discriminate; cbn [apply_op gnodes gedges staged flat_map map app]; split; auto;
    try rewrite app_nil_r; try (apply map_nid_map; intros n; destruct (N.eqb (nid n) id); reflexivity).
  rewrite map_app. reflexivity.
Qed.

Lemma staged_cons : forall o buf, staged (o :: buf) = staged [o] ++ staged buf.
Proof. intros. unfold staged. cbn [flat_map]. now rewrite app_nil_r. Qed.

Lemma simple_buf_ids : forall buf g, forallb simple_op buf = true ->
  map nid (gnodes (apply_ops g buf)) = map nid (gnodes g) ++ map nid (staged buf) /\ gedges (apply_ops g buf) = gedges g.
Proof.
  induction buf as [|o buf IH]; intros g H.
  - cbn. now rewrite app_nil_r.
  - cbn [forallb] in H. apply andb_true_iff in H. destruct H as [H1 H2].
    unfold apply_ops. cbn [fold_left]. fold (apply_ops (apply_op g o) buf).
    destruct (IH (apply_op g o) H2) as [A B]. destruct (simple_op_ids g o H1) as [C D].
    split; [|congruence]. rewrite (staged_cons o buf), map_app, A, C, app_assoc. reflexivity.
Qed.

Lemma attached_edges : forall g h id, gedges g = gedges h -> attached g id = attached h id.
Proof. intros. unfold attached. now rewrite H. Qed.

Lemma scan_eval_agrees : forall db buf n s, is_scan s = true -> forallb simple_op buf = true ->
  eval (scan_view db buf) n s = eval (apply_ops db buf) n s.
Proof.
  intros db buf n s Hs Hb. destruct (simple_buf_ids buf db Hb) as [A B].
  assert (I : map nid (gnodes (scan_view db buf)) = map nid (gnodes (apply_ops db buf))).
  { unfold scan_view. cbn [gnodes]. now rewrite map_app, A. }
  assert (E : gedges (scan_view db buf) = gedges (apply_ops db buf)) by (unfold scan_view; cbn [gedges]; congruence).
  destruct s; try discriminate; cbn [eval].
  - (* scan set *) f_equal. rewrite <- (map_map nid (fun id => WSetProp id p z)), <- (map_map nid (fun id => WSetProp id p z) (gnodes (apply_ops db buf))). now rewrite I.
  - (* scan label *) f_equal.
    rewrite <- (map_map nid (fun id => if add then WAddLabel id lab else WDelLabel id lab)),
            <- (map_map nid (fun id => if add then WAddLabel id lab else WDelLabel id lab) (gnodes (apply_ops db buf))). now rewrite I.
  - (* scan loop *) f_equal. rewrite <- (map_map nid (fun id => WCreateEdge id id)), <- (map_map nid (fun id => WCreateEdge id id) (gnodes (apply_ops db buf))). now rewrite I.
  - (* scan delete *) rewrite I. unfold eval_delete.
    rewrite (flat_map_ext_in (attached (scan_view db buf)) (attached (apply_ops db buf))); auto.
    intros. apply attached_edges. exact E.
Qed.

Lemma scan_view_nil : forall db, scan_view db [] = db.
Proof. intros [n ns es]. unfold scan_view. cbn. now rewrite app_nil_r. Qed.

Lemma step_footprint_eq : forall atomic db buf s, reads_ok s db buf = true ->
  step false atomic db buf s = step true atomic db buf s.
Proof.
  intros atomic db buf s H. unfold step, reads_ok in *. destruct (reads s) as [ks|] eqn:R.
  - assert (V : view_of false db buf s = db).
    { unfold view_of. destruct s; cbn in R; try discriminate; reflexivity. }
    rewrite V. unfold view_of at 1.
    rewrite (eval_untouched db buf (next_of db buf) s ks R); auto. intros k Hk. eapply disj_spec; eauto.
  - apply orb_true_iff in H. destruct H as [H|H].
    + apply andb_true_iff in H. destruct H as [Hs Hb]. unfold view_of. rewrite Hs.
      now rewrite (scan_eval_agrees db buf (next_of db buf) s Hs Hb).
    + destruct buf; [|discriminate]. unfold view_of. cbn [apply_ops fold_left].
      rewrite scan_view_nil. destruct (is_scan s); reflexivity.
Qed.

Lemma run_footprint_eq : forall atomic db ss buf, footprints_disjoint atomic db buf ss = true ->
  fold_left (step false atomic db) ss buf = fold_left (step true atomic db) ss buf.
Proof.
  induction ss as [|s ss IH]; intros buf H; [reflexivity|].
  cbn [footprints_disjoint] in H. apply andb_true_iff in H. destruct H as [H1 H2].
  cbn [fold_left]. rewrite <- (step_footprint_eq atomic db buf s H1). apply IH. exact H2.
Qed.

Theorem txn_footprint_ryw : forall atomic db ss, footprints_disjoint atomic db [] ss = true ->
  txn false atomic db ss = txn true atomic db ss.
Proof. intros. unfold txn, run. now rewrite run_footprint_eq. Qed.

(* non-vacuity: reads of committed data interleaved with writes to other keys, a refused delete, a MERGE *)
Definition ss_fp : list stmt :=
  [SCreate [(7, CInt 1); (8, CInt 2)]; SSet 1%N [(3, CInt 9)]; SDelete false 1; SLink 1 2; SMerge 9; SSet 0%N [(5, CInt 4)]].
Lemma ss_fp_disjoint : footprints_disjoint false db1 [] ss_fp = true.
Proof. vm_compute. reflexivity. Qed.
Lemma ss_fp_statuses : statuses false false db1 [] ss_fp = [true; true; false; true; true; true].
Proof. vm_compute. reflexivity. Qed.
(* and the witness of the refutation is outside the class *)
Lemma w24_not_disjoint : footprints_disjoint false db0 [] [w24a; w24b] = false.
Proof. vm_compute. reflexivity. Qed.

(* non-vacuity for the scan part: label-less and labelled creates, then unlabelled scans that set a property,
   add two fresh labels, remove one of them and create relationships — inside the theorem *)
Lemma ss_scan_disjoint : footprints_disjoint false db2 [] ss_scan = true.
Proof. vm_compute. reflexivity. Qed.

(* ---- the code's commit (label removals after everything else) ---- *)
Definition no_label_removal (buf : list wop) : bool := forallb (fun o => negb (is_del_label o)) buf.
Lemma commit_order_id : forall buf, no_label_removal buf = true -> commit_order buf = buf.
Proof.
  intros buf H. unfold commit_order, no_label_removal in *.
  induction buf as [|o buf IH]; [reflexivity|].
  cbn [forallb] in H. apply andb_true_iff in H. destruct H as [H1 H2].
  cbn [filter]. rewrite H1. apply negb_true_iff in H1. rewrite H1. cbn [app]. f_equal. apply IH. exact H2.
Qed.

Theorem M_txn_footprint_ryw : forall db ss, footprints_disjoint false db [] ss = true ->
  no_label_removal (run false false db ss) = true -> M_txn db ss = txn true false db ss.
Proof.
  intros db ss H1 H2. unfold M_txn. rewrite (commit_order_id _ H2). apply (txn_footprint_ryw false db ss H1).
Qed.

(* label set after label removal in one transaction: the set is lost at commit *)
Definition ss_label_order : list stmt := [SScanLabel false 0%N; SScanLabel true 0%N].
Lemma label_order_differs :
  footprints_disjoint false db2 [] ss_label_order = true /\
  dump_nodes (M_txn db2 ss_label_order) = [(1, [], [(0%N, 5)])] /\
  dump_nodes (S_txn db2 ss_label_order) = [(1, [0%N], [(0%N, 5)])].
Proof. vm_compute. auto. Qed.
(* removals that are not followed by a re-add of the same label are harmless: ss_scan *)
Lemma ss_scan_M_agrees : dump_eqb (M_txn db2 ss_scan) (S_txn db2 ss_scan) = true /\ no_label_removal (run false false db2 ss_scan) = false.
Proof. vm_compute. auto. Qed.
