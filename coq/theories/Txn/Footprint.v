(* Txn/Footprint.v — read/write key footprints of a transaction and the theorem that the code's
   transaction (statements evaluated against the committed snapshot) equals the spec's (read your
   writes) whenever no statement reads a key that the buffer of the earlier statements touched.
   `touched` is computed along the run from the operations actually in the buffer (keys of the
   nodes an operation creates, updates, deletes or connects), `reads` from the statement text. *)
From Coq Require Import List ZArith NArith Bool Lia.
From NDB Require Import Txn.Model Txn.Proofs.
Import ListNotations.
Open Scope Z_scope.

(* ---- footprints ---- *)
Definition ids_keys (g : graph) (id : N) : list Z := map nkey (filter (fun n => N.eqb (nid n) id) (gnodes g)).
Definition touch (g : graph) (o : wop) : list Z :=
  match o with
  | WCreate _ k => [k]
  | WSetProp id _ _ => ids_keys g id
  | WDelNode id => ids_keys g id
  | WCreateEdge a b => ids_keys g a ++ ids_keys g b
  | WDelEdge a b => ids_keys g a ++ ids_keys g b
  end.
Fixpoint touched (g : graph) (ops : list wop) : list Z :=
  match ops with [] => [] | o :: t => touch g o ++ touched (apply_op g o) t end.
Definition reads (s : stmt) : list Z :=
  match s with
  | SCreate _ => [] | SSyntax => []
  | SSet _ rows => map fst rows
  | SDelete _ k => [k] | SMerge k => [k]
  | SLink a b => [a; b]
  end.
Definition disj (a b : list Z) : bool := forallb (fun x => negb (existsb (Z.eqb x) b)) a.
Fixpoint footprints_disjoint (atomic : bool) (db : graph) (buf : list wop) (ss : list stmt) : bool :=
  match ss with
  | [] => true
  | s :: t => disj (reads s) (touched db buf) && footprints_disjoint atomic db (step false atomic db buf s) t
  end.

Lemma disj_spec : forall a b, disj a b = true -> forall x, In x a -> ~ In x b.
Proof.
  intros a b H x Hx Hb. unfold disj in H. rewrite forallb_forall in H. specialize (H x Hx).
  apply negb_true_iff in H. assert (existsb (Z.eqb x) b = true).
  { apply existsb_exists. exists x. split; auto. apply Z.eqb_refl. }
  congruence.
Qed.

Lemma filter_filter_keep {A} (p q : A -> bool) (l : list A) :
  (forall x, In x l -> p x = true -> q x = true) -> filter p (filter q l) = filter p l.
Proof.
  induction l as [|x l IH]; intros H; cbn; auto.
  destruct (q x) eqn:Q; cbn.
  - destruct (p x); [f_equal|]; apply IH; intros; apply H; cbn; auto.
  - destruct (p x) eqn:P.
    + rewrite (H x) in Q; cbn; auto. discriminate.
    + apply IH; intros; apply H; cbn; auto.
Qed.

Lemma in_ids_keys : forall g n, In n (gnodes g) -> In (nkey n) (ids_keys g (nid n)).
Proof.
  intros g n H. unfold ids_keys. apply in_map. apply filter_In. split; auto. apply N.eqb_refl.
Qed.

(* one operation leaves untouched keys alone *)
Lemma op_untouched : forall g o k, ~ In k (touch g o) ->
  with_key k (apply_op g o) = with_key k g /\
  (forall n, In n (with_key k g) -> attached (apply_op g o) (nid n) = attached g (nid n)).
Proof.
  intros g o k H. destruct o as [id k'|id p v|id|a b|a b]; cbn [touch apply_op] in *.
  - (* create *) split.
    + unfold with_key. cbn [gnodes]. rewrite filter_app. cbn.
      destruct (Z.eqb k' k) eqn:E; [apply Z.eqb_eq in E; subst; exfalso; apply H; cbn; auto | apply app_nil_r].
    + reflexivity.
  - (* set prop *) split; [|reflexivity].
    unfold with_key. cbn [gnodes].
    assert (G : forall n, In n (gnodes g) -> N.eqb (nid n) id = true -> Z.eqb (nkey n) k = false).
    { intros n Hn E. apply Z.eqb_neq. intro K. apply H. apply N.eqb_eq in E. subst. apply in_ids_keys; auto. }
    induction (gnodes g) as [|n l IH]; cbn; auto.
    destruct (N.eqb (nid n) id) eqn:E; cbn [nkey].
    + rewrite (G n (or_introl eq_refl) E). apply IH. intros; apply G; cbn; auto.
    + destruct (Z.eqb (nkey n) k); [f_equal|]; apply IH; intros; apply G; cbn; auto.
  - (* delete node *) split; [|reflexivity].
    unfold with_key. cbn [gnodes]. apply filter_filter_keep.
    intros n Hn K. apply negb_true_iff. apply N.eqb_neq. intro E. apply H.
    apply Z.eqb_eq in K. subst. apply in_ids_keys; auto.
  - (* create edge *) split; [reflexivity|].
    intros n Hn. unfold attached. cbn [gedges]. rewrite filter_app. cbn [filter fst snd].
    unfold with_key in Hn. apply filter_In in Hn. destruct Hn as [Hn K]. apply Z.eqb_eq in K.
    assert (N.eqb a (nid n) = false).
    { apply N.eqb_neq. intro E. apply H. apply in_or_app. left. subst. apply in_ids_keys; auto. }
    assert (N.eqb b (nid n) = false).
    { apply N.eqb_neq. intro E. apply H. apply in_or_app. right. subst. apply in_ids_keys; auto. }
    rewrite H0, H1. cbn. apply app_nil_r.
  - (* delete edge *) split; [reflexivity|].
    intros n Hn. unfold attached. cbn [gedges]. apply filter_filter_keep.
    intros e _ He. apply negb_true_iff. unfold edge_eqb. cbn [fst snd].
    unfold with_key in Hn. apply filter_In in Hn. destruct Hn as [Hn K]. apply Z.eqb_eq in K.
    destruct (N.eqb (fst e) a) eqn:E1; cbn; auto. destruct (N.eqb (snd e) b) eqn:E2; auto.
    apply N.eqb_eq in E1, E2. exfalso. apply orb_true_iff in He. destruct He as [He|He]; apply N.eqb_eq in He; apply H; apply in_or_app.
    + left. rewrite <- E1, He, <- K. apply in_ids_keys; auto.
    + right. rewrite <- E2, He, <- K. apply in_ids_keys; auto.
Qed.

Lemma ops_untouched : forall ops g k, ~ In k (touched g ops) ->
  with_key k (apply_ops g ops) = with_key k g /\
  (forall n, In n (with_key k g) -> attached (apply_ops g ops) (nid n) = attached g (nid n)).
Proof.
  induction ops as [|o ops IH]; intros g k H; [split; reflexivity|].
  cbn [touched] in H. unfold apply_ops; cbn [fold_left]. fold (apply_ops (apply_op g o) ops).
  assert (H1 : ~ In k (touch g o)) by (intro; apply H; apply in_or_app; auto).
  assert (H2 : ~ In k (touched (apply_op g o) ops)) by (intro; apply H; apply in_or_app; auto).
  destruct (op_untouched g o k H1) as [A1 A2]. destruct (IH (apply_op g o) k H2) as [B1 B2].
  split.
  - now rewrite B1.
  - intros n Hn. rewrite B2; [apply A2; auto | rewrite A1; auto].
Qed.

Lemma flat_map_ext_in {A B} (f g : A -> list B) (l : list A) :
  (forall x, In x l -> f x = g x) -> flat_map f l = flat_map g l.
Proof.
  induction l as [|x l IH]; intros H; cbn; auto. rewrite (H x), IH; cbn; auto. intros; apply H; cbn; auto.
Qed.

(* a statement whose read keys the buffer has not touched evaluates the same on both views *)
Lemma eval_untouched : forall db buf n s,
  (forall k, In k (reads s) -> ~ In k (touched db buf)) ->
  eval (apply_ops db buf) n s = eval db n s.
Proof.
  intros db buf n s H. destruct s as [rows|p rows|d k|k1 k2|k|]; cbn [eval reads] in *; auto.
  - (* set *) f_equal. apply flat_map_ext_in. intros r Hr.
    destruct (ops_untouched buf db (fst r)) as [A _]; [apply H; apply in_map; auto|]. now rewrite A.
  - (* delete *)
    destruct (ops_untouched buf db k) as [A B]; [apply H; cbn; auto|]. rewrite A.
    assert (E : flat_map (attached (apply_ops db buf)) (map nid (with_key k db)) = flat_map (attached db) (map nid (with_key k db))).
    { apply flat_map_ext_in. intros id Hid. apply in_map_iff in Hid. destruct Hid as (m & <- & Hm). apply B; auto. }
    now rewrite E.
  - (* link *)
    destruct (ops_untouched buf db k1) as [A _]; [apply H; cbn; auto|].
    destruct (ops_untouched buf db k2) as [B _]; [apply H; cbn; auto|]. now rewrite A, B.
  - (* merge *)
    destruct (ops_untouched buf db k) as [A _]; [apply H; cbn; auto|]. now rewrite A.
Qed.

Lemma step_footprint_eq : forall atomic db buf s, disj (reads s) (touched db buf) = true ->
  step false atomic db buf s = step true atomic db buf s.
Proof.
  intros atomic db buf s H. unfold step.
  rewrite (eval_untouched db buf (next_of db buf) s); auto. intros k Hk. eapply disj_spec; eauto.
Qed.

Lemma run_footprint_eq : forall atomic db ss buf, footprints_disjoint atomic db buf ss = true ->
  fold_left (step false atomic db) ss buf = fold_left (step true atomic db) ss buf.
Proof.
  induction ss as [|s ss IH]; intros buf H; [reflexivity|].
  cbn [footprints_disjoint] in H. apply andb_true_iff in H. destruct H as [H1 H2].
  cbn [fold_left]. rewrite <- (step_footprint_eq atomic db buf s H1). apply IH. exact H2.
Qed.

Theorem txn_footprint_ryw : forall atomic db ss, footprints_disjoint atomic db [] ss = true ->
  txn false atomic db ss = txn true atomic db ss.
Proof. intros. unfold txn, run. now rewrite run_footprint_eq. Qed.

(* non-vacuity: reads of committed data interleaved with writes to other keys, a refused delete, a MERGE *)
Definition ss_fp : list stmt :=
  [SCreate [(7, CInt 1); (8, CInt 2)]; SSet 1%N [(3, CInt 9)]; SDelete false 1; SLink 1 2; SMerge 9; SSet 0%N [(5, CInt 4)]].
Lemma ss_fp_disjoint : footprints_disjoint false db1 [] ss_fp = true.
Proof. vm_compute. reflexivity. Qed.
Lemma ss_fp_statuses : statuses false false db1 [] ss_fp = [true; true; false; true; true; true].
Proof. vm_compute. reflexivity. Qed.
(* and the witness of the refutation is outside the class *)
Lemma w24_not_disjoint : footprints_disjoint false db0 [] [w24a; w24b] = false.
Proof. vm_compute. reflexivity. Qed.
