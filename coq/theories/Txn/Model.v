(* Txn/Model.v — MODEL of statement execution and transactions as seen through the C API
   (nervusdb-capi/src/lib.rs: execute_write_count, execute_write_in_txn, ndb_txn_commit) and
   the executor's row-at-a-time writers (create_delete_ops.rs execute_create_from_rows,
   execute_delete_on_rows; write_path.rs execute_set).  No proofs here.

   Database state: an abstract graph.  Nodes carry a model identity `nid` (allocation order;
   never observable), an integer key (the property `k`) and integer properties; all nodes have
   the label :L, all relationships the type :R.  Relationships have no identity in storage
   (EdgeKey = src,type,dst); parallel ones are kept with multiplicity, a tombstone removes all
   of one key.

   A statement is evaluated against a *view* graph and emits write operations one row at a
   time; evaluation can raise at some row, after earlier rows have already emitted.  What
   happens to the operations emitted by a failing statement, and which view a statement of an
   explicit transaction is evaluated against, are the two switches that distinguish the spec
   from what the code does:
     atomic : a failing statement's operations are discarded
     ryw    : the view is committed ⊕ buffer (read your writes)
   code, auto-commit      : view = committed, buffer dropped on error      (M_autocommit)
   code, explicit C API   : ryw = false (view_of: committed snapshot, plus the nodes staged by
                            earlier statements for the unlabelled scan), atomic = false    (M_txn)
   spec                   : ryw = true,  atomic = true                     (S_txn)            *)
From Coq Require Import List ZArith NArith Bool.
Import ListNotations.
Open Scope Z_scope.

(* labels: 0 = :L (every node of the initial databases), 1, 2 = :F1, :F2 (never in an initial database) *)
Record node := mkNode { nid : N; nkey : Z; nlabels : list N; nprops : list (N * Z) }.
Record graph := mkGraph { gnext : N; gnodes : list node; gedges : list (N * N) }.

Inductive wop :=
| WCreate (id : N) (k : Z) (labs : list N)
| WSetProp (id : N) (p : N) (v : Z)
| WDelNode (id : N)
| WCreateEdge (a b : N)
| WDelEdge (a b : N)
| WAddLabel (id : N) (lab : N)
| WDelLabel (id : N) (lab : N).

Fixpoint set_assoc (p : N) (v : Z) (l : list (N * Z)) : list (N * Z) :=
  match l with
  | [] => [(p, v)]
  | (q, w) :: t => if N.eqb p q then (p, v) :: t
                   else if N.ltb p q then (p, v) :: (q, w) :: t
                   else (q, w) :: set_assoc p v t
  end.

Fixpoint add_label (l : N) (ls : list N) : list N :=
  match ls with
  | [] => [l]
  | m :: t => if N.eqb l m then ls else if N.ltb l m then l :: ls else m :: add_label l t
  end.
Definition del_label (l : N) (ls : list N) : list N := filter (fun m => negb (N.eqb m l)) ls.

Definition edge_eqb (e f : N * N) : bool := N.eqb (fst e) (fst f) && N.eqb (snd e) (snd f).

Definition apply_op (g : graph) (o : wop) : graph :=
  match o with
  | WCreate id k labs => mkGraph (N.max (gnext g) (N.succ id)) (gnodes g ++ [mkNode id k labs []]) (gedges g)
  | WSetProp id p v =>
      mkGraph (gnext g)
        (map (fun n => if N.eqb (nid n) id then mkNode (nid n) (nkey n) (nlabels n) (set_assoc p v (nprops n)) else n) (gnodes g))
        (gedges g)
  | WDelNode id => mkGraph (gnext g) (filter (fun n => negb (N.eqb (nid n) id)) (gnodes g)) (gedges g)
  | WCreateEdge a b => mkGraph (gnext g) (gnodes g) (gedges g ++ [(a, b)])
  | WDelEdge a b => mkGraph (gnext g) (gnodes g) (filter (fun e => negb (edge_eqb e (a, b))) (gedges g))
  | WAddLabel id lab =>
      mkGraph (gnext g)
        (map (fun n => if N.eqb (nid n) id then mkNode (nid n) (nkey n) (add_label lab (nlabels n)) (nprops n) else n) (gnodes g))
        (gedges g)
  | WDelLabel id lab =>
      mkGraph (gnext g)
        (map (fun n => if N.eqb (nid n) id then mkNode (nid n) (nkey n) (del_label lab (nlabels n)) (nprops n) else n) (gnodes g))
        (gedges g)
  end.

Definition apply_ops (g : graph) (ops : list wop) : graph := fold_left apply_op ops g.

(* ---- statements (the family the harness generates; concrete Cypher in c13.rs/c24.rs) ---- *)

(* rest of an UNWIND row [k, v, 1]; the per-row expression is toInteger(r[1]) + 0 * size(range(1, r[2])):
   CInt z : v = z     -> z
   CBad   : v = true  -> "runtime error: InvalidArgumentValue"
   (a collection-size limit violation through r[2] was tried as a third kind of failing cell: the limit
   is not enforced for range() inside a CREATE / SET property expression — the statement succeeds —
   so there is no such cell) *)
Inductive cell := CInt (z : Z) | CBad.

Inductive stmt :=
| SCreate (rows : list (Z * cell))         (* UNWIND rows AS r CREATE (:L {k: r[0], v: <expr r>}) *)
| SSet (p : N) (rows : list (Z * cell))    (* UNWIND rows AS r MATCH (n:L) WHERE n.k = r[0] SET n.<p> = <expr r> *)
| SDelete (detach : bool) (k : Z)          (* MATCH (n:L) WHERE n.k = k [DETACH] DELETE n *)
| SLink (k1 k2 : Z)                        (* MATCH (a:L), (b:L) WHERE a.k = k1 AND b.k = k2 CREATE (a)-[:R]->(b) *)
| SMerge (k : Z)                           (* MERGE (n:L {k: k}) *)
| SSyntax                                  (* a statement the parser rejects *)
| SCreateNL (rows : list (Z * cell))       (* UNWIND rows AS r CREATE ({k: r[0], v: <expr r>}) : nodes without any label *)
(* statements driven by the unlabelled scan MATCH (n): every node the statement can see *)
| SScanSet (p : N) (z : Z)                 (* MATCH (n) SET n.<p> = z *)
| SScanLabel (add : bool) (lab : N)        (* MATCH (n) SET n:<lab>  /  MATCH (n) REMOVE n:<lab> *)
                                           (* domain: a label is removed only after the database interned it (the code skips
                                              REMOVE of a label name it has never seen: no buffered removal); the generator
                                              removes :L only from non-empty initial databases and :F1/:F2 only after a SET *)
| SScanLoop                                (* MATCH (n) CREATE (n)-[:R]->(n) *)
| SScanDelete (detach : bool)              (* MATCH (n) [DETACH] DELETE n *)
(* a labelled scan reading labels *)
| SLabelSet (lab : N) (p : N) (z : Z)      (* MATCH (n:<lab>) SET n.<p> = z *)
(* multi-target deletes: all targets are collected and checked before anything is tombstoned *)
| SDeleteIn (detach : bool) (ks : list Z)  (* MATCH (n:L) WHERE n.k IN ks [DETACH] DELETE n   (ks distinct) *)
| SDeleteRel (k : Z).                      (* MATCH ()-[r]->(a:L) WHERE a.k = k DELETE r, a : refused when a has a relationship not named by r *)

(* MATCH (n:L) WHERE n.k = k / MERGE (n:L {k: k}): the nodes carrying :L whose key is k *)
Definition has_label (l : N) (n : node) : bool := existsb (N.eqb l) (nlabels n).
Definition with_key (k : Z) (g : graph) : list node := filter (fun n => Z.eqb (nkey n) k && has_label 0%N n) (gnodes g).
Definition attached (g : graph) (id : N) : list (N * N) :=
  filter (fun e => N.eqb (fst e) id || N.eqb (snd e) id) (gedges g).

(* CREATE rows: the node and its key are written, then the value expression is evaluated *)
Fixpoint eval_create (labs : list N) (next : N) (rows : list (Z * cell)) : list wop * bool :=
  match rows with
  | [] => ([], true)
  | (k, CBad) :: _ => ([WCreate next k labs], false)
  | (k, CInt v) :: t =>
      let '(ops, ok) := eval_create labs (N.succ next) t in
      (WCreate next k labs :: WSetProp next 0%N v :: ops, ok)
  end.

(* SET rows (already joined with the matching nodes of the view): one write per row *)
Fixpoint eval_set (p : N) (rows : list (N * cell)) : list wop * bool :=
  match rows with
  | [] => ([], true)
  | (_, CBad) :: _ => ([], false)
  | (id, CInt v) :: t => let '(ops, ok) := eval_set p t in (WSetProp id p v :: ops, ok)
  end.

Definition dedup_edges (l : list (N * N)) : list (N * N) :=
  fold_left (fun acc e => if existsb (edge_eqb e) acc then acc else acc ++ [e]) l [].

(* DELETE of the target nodes: all targets are collected, the safety check runs against the view's
   relationships, then relationships (DETACH) and nodes are tombstoned *)
Definition eval_delete (view : graph) (detach : bool) (targets : list N) : list wop * bool :=
  let att := dedup_edges (flat_map (attached view) targets) in
  if detach then (map (fun e => WDelEdge (fst e) (snd e)) att ++ map WDelNode targets, true)
  else if negb (match att with [] => true | _ => false end) then ([], false)
  else (map WDelNode targets, true).

(* DELETE r, a over the rows of MATCH ()-[r]->(a): `att id` = relationships attached to id in the view *)
Definition eval_delete_rel (att : N -> list (N * N)) (cands : list N) : list wop * bool :=
  let incoming := fun id => filter (fun e => N.eqb (snd e) id) (att id) in
  let targets := filter (fun id => negb (match incoming id with [] => true | _ => false end)) cands in
  let explicit := dedup_edges (flat_map incoming targets) in
  let all := dedup_edges (flat_map att targets) in
  if forallb (fun e => existsb (edge_eqb e) explicit) all
  then (map (fun e => WDelEdge (fst e) (snd e)) explicit ++ map WDelNode targets, true)
  else ([], false).

(* evaluation of one statement against `view`, fresh ids from `next`:
   (operations emitted — up to the failure if any —, succeeded?) *)
Definition eval (view : graph) (next : N) (s : stmt) : list wop * bool :=
  match s with
  | SCreate rows => eval_create [0%N] next rows
  | SCreateNL rows => eval_create [] next rows
  | SSet p rows =>
      eval_set p (flat_map (fun r => map (fun n => (nid n, snd r)) (with_key (fst r) view)) rows)
  | SDelete detach k => eval_delete view detach (map nid (with_key k view))
  | SScanDelete detach => eval_delete view detach (map nid (gnodes view))
  | SDeleteIn detach ks => eval_delete view detach (map nid (flat_map (fun k => with_key k view) ks))
  | SDeleteRel k => eval_delete_rel (attached view) (map nid (with_key k view))
  | SScanSet p z => (map (fun n => WSetProp (nid n) p z) (gnodes view), true)
  | SScanLabel add lab => (map (fun n => if add then WAddLabel (nid n) lab else WDelLabel (nid n) lab) (gnodes view), true)
  | SScanLoop => (map (fun n => WCreateEdge (nid n) (nid n)) (gnodes view), true)
  | SLabelSet lab p z =>
      (map (fun n => WSetProp (nid n) p z) (filter (has_label lab) (gnodes view)), true)
  | SLink k1 k2 =>
      (flat_map (fun a => map (fun b => WCreateEdge (nid a) (nid b)) (with_key k2 view)) (with_key k1 view), true)
  | SMerge k =>
      match with_key k view with
      | [] => ([WCreate next k [0%N]], true)
      | _ => ([], true)
      end
  | SSyntax => ([], false)
  end.

Definition next_of (db : graph) (buf : list wop) : N := gnext (apply_ops db buf).

(* what a statement of an explicit transaction reads in the code:
   - the committed snapshot (execute_write_in_txn: db.snapshot()), except that
   - the unlabelled node scan MATCH (n) also returns the nodes created so far in the transaction
     (write_orchestration.rs execute_node_scan_with_staged_creates over
     WriteTxn::staged_created_nodes_with_labels: every created node, with or without labels,
     tombstoned or not); deletions, relationships and properties in the buffer are not seen *)
Definition is_scan (s : stmt) : bool :=
  match s with SScanSet _ _ | SScanLabel _ _ | SScanLoop | SScanDelete _ => true | _ => false end.
Definition staged (buf : list wop) : list node :=
  flat_map (fun o => match o with WCreate id k labs => [mkNode id k labs []] | _ => [] end) buf.
Definition scan_view (db : graph) (buf : list wop) : graph :=
  mkGraph (gnext db) (gnodes db ++ staged buf) (gedges db).
Definition view_of (ryw : bool) (db : graph) (buf : list wop) (s : stmt) : graph :=
  if ryw then apply_ops db buf else if is_scan s then scan_view db buf else db.

(* one statement of an explicit transaction; the state is the transaction's write buffer *)
Definition step (ryw atomic : bool) (db : graph) (buf : list wop) (s : stmt) : list wop :=
  let '(ops, ok) := eval (view_of ryw db buf s) (next_of db buf) s in
  if ok || negb atomic then buf ++ ops else buf.

Definition run (ryw atomic : bool) (db : graph) (ss : list stmt) : list wop :=
  fold_left (step ryw atomic db) ss [].
Definition txn (ryw atomic : bool) (db : graph) (ss : list stmt) : graph :=
  apply_ops db (run ryw atomic db ss).

(* commit of the code's transaction: label additions and removals are kept in two lists
   (engine.rs pending_label_additions / pending_label_removals) and all additions are applied before all
   removals, so SET n:X after REMOVE n:X in one transaction is lost (K-C24-label-order) *)
Definition is_del_label (o : wop) : bool := match o with WDelLabel _ _ => true | _ => false end.
Definition commit_order (buf : list wop) : list wop :=
  filter (fun o => negb (is_del_label o)) buf ++ filter is_del_label buf.
(* what the code does *)
Definition M_txn (db : graph) (ss : list stmt) : graph := apply_ops db (commit_order (run false false db ss)).
Definition M_autocommit (db : graph) (s : stmt) : graph :=
  let '(ops, ok) := eval db (gnext db) s in if ok then apply_ops db ops else db.
(* the spec *)
Definition S_txn := txn true true.

(* statuses returned to the caller, per statement (true = NDB_OK) *)
Fixpoint statuses (ryw atomic : bool) (db : graph) (buf : list wop) (ss : list stmt) : list bool :=
  match ss with
  | [] => []
  | s :: t =>
      snd (eval (view_of ryw db buf s) (next_of db buf) s) :: statuses ryw atomic db (step ryw atomic db buf s) t
  end.
Fixpoint auto_statuses (db : graph) (ss : list stmt) : list bool :=
  match ss with
  | [] => []
  | s :: t => snd (eval db (gnext db) s) :: auto_statuses (M_autocommit db s) t
  end.

Definition fails (view : graph) (next : N) (s : stmt) : bool := negb (snd (eval view next s)).
(* K-C13-buffer: the statement fails after having emitted at least one write *)
Definition fails_dirty (view : graph) (next : N) (s : stmt) : bool :=
  let '(ops, ok) := eval view next s in negb ok && negb (match ops with [] => true | _ => false end).

(* some statement of the run fails dirty (evaluated along the run, as the code runs it) *)
Fixpoint some_dirty (ryw atomic : bool) (db : graph) (buf : list wop) (ss : list stmt) : bool :=
  match ss with
  | [] => false
  | s :: t =>
      fails_dirty (view_of ryw db buf s) (next_of db buf) s || some_dirty ryw atomic db (step ryw atomic db buf s) t
  end.

(* ---- observable dump: identities erased; a relationship is shown when both ends are alive ---- *)
Definition alive (g : graph) (id : N) : bool := existsb (fun n => N.eqb (nid n) id) (gnodes g).
Definition key_of (g : graph) (id : N) : Z :=
  match find (fun n => N.eqb (nid n) id) (gnodes g) with Some n => nkey n | None => 0 end.
Definition dump_nodes (g : graph) : list (Z * list N * list (N * Z)) := map (fun n => (nkey n, nlabels n, nprops n)) (gnodes g).
Definition dump_edges (g : graph) : list (Z * Z) :=
  map (fun e => (key_of g (fst e), key_of g (snd e)))
      (filter (fun e => alive g (fst e) && alive g (snd e)) (gedges g)).

(* multiset equality of dumps *)
Fixpoint remove1 {A} (eqb : A -> A -> bool) (x : A) (l : list A) : option (list A) :=
  match l with
  | [] => None
  | y :: t => if eqb x y then Some t else option_map (cons y) (remove1 eqb x t)
  end.
Fixpoint ms_eqb {A} (eqb : A -> A -> bool) (a b : list A) : bool :=
  match a with
  | [] => match b with [] => true | _ => false end
  | x :: t => match remove1 eqb x b with Some b' => ms_eqb eqb t b' | None => false end
  end.
Fixpoint props_eqb (a b : list (N * Z)) : bool :=
  match a, b with
  | [], [] => true
  | (p, v) :: a', (q, w) :: b' => N.eqb p q && Z.eqb v w && props_eqb a' b'
  | _, _ => false
  end.
Fixpoint labels_eqb (a b : list N) : bool :=
  match a, b with [], [] => true | x :: a', y :: b' => N.eqb x y && labels_eqb a' b' | _, _ => false end.
Definition dnode_eqb (a b : Z * list N * list (N * Z)) : bool :=
  Z.eqb (fst (fst a)) (fst (fst b)) && labels_eqb (snd (fst a)) (snd (fst b)) && props_eqb (snd a) (snd b).
Definition dedge_eqb (a b : Z * Z) : bool := Z.eqb (fst a) (fst b) && Z.eqb (snd a) (snd b).
Definition dump_eqb (g h : graph) : bool :=
  ms_eqb dnode_eqb (dump_nodes g) (dump_nodes h) && ms_eqb dedge_eqb (dump_edges g) (dump_edges h).

(* initial databases of the correspondence: nodes (key, v) in creation order, edges by position *)
Definition init_graph (ns : list (Z * option Z)) (es : list (N * N)) : graph :=
  let nodes := map (fun '(i, (k, v)) => mkNode (N.of_nat i) k [0%N] (match v with Some z => [(0%N, z)] | None => [] end))
                   (combine (seq 0 (length ns)) ns) in
  mkGraph (N.of_nat (length ns)) nodes es.
