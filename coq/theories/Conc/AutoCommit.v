(* Conc/AutoCommit.v — MODEL of the C API auto-commit write statement
   (nervusdb-capi/src/lib.rs execute_write_count, used by ndb_execute_write and
   prepared write statements).

   A statement is a read-modify-write of one shared cell (the property the
   statement reads and SETs): the new value is computed from the value in the
   statement's READ SNAPSHOT.  Atomic steps, one per segment between two
   schedule points of the real code:
     OLock      GraphEngine::begin_write   (write_lock mutex; blocked while held)        [.. capi.write.locked]
     OSnap      Db::snapshot               (copies the published state)                  [.. capi.write.snapshot]
     OLog s     execute_mixed + WriteTxn::commit up to the WAL fsync: the new value is computed from the
                snapshot and made durable, not yet visible                              [.. commit.logged]
     OPublish s id map, node labels, publish_run: the new value becomes the published state [.. commit.run]
     OUnlock    drop of the write guard when commit returns                              [.. capi.write.done]
   Program orders:
     order_fixed         [OLock; OSnap; OLog; OPublish; OUnlock]   the code as it is
     order_old           [OSnap; OLock; OLog; OPublish; OUnlock]   the pinned tree (snapshot before lock)
     order_early_unlock  [OLock; OSnap; OLog; OUnlock; OPublish]   write guard dropped before the run is published *)
From Coq Require Import List ZArith Bool Arith.
From NDB Require Import Conc.Sched.
Import ListNotations.
Open Scope Z_scope.

Inductive stmt :=
| SAdd (d : Z)            (* SET n.c = n.c + d *)
| SCond (a b : Z).     (* SET n.c = CASE WHEN n.c = a THEN b ELSE n.c END *)

Definition eval (s : stmt) (v : Z) : Z :=
  match s with
  | SAdd d => v + d
  | SCond a b => if v =? a then b else v
  end.

Inductive op := OSnap | OLock | OLog (s : stmt) | OPublish (s : stmt) | OUnlock.

Inductive evkind := ESnap | ELock | ELog | EPublish | EUnlock.

Record shared := {
  cell : Z;                          (* committed value of the property *)
  lock : option nat;                 (* holder of the writer mutex *)
  hist : list (nat * stmt);          (* ghost: statements in commit order *)
  trace : list (nat * evkind)        (* ghost: executed steps, oldest first *)
}.

Definition sem (o : op) (t : nat) (sh : shared) (snap : Z) : option (shared * Z) :=
  match o with
  | OSnap => Some ({| cell := cell sh; lock := lock sh; hist := hist sh; trace := trace sh ++ [(t, ESnap)] |}, cell sh)
  | OLock =>
      match lock sh with
      | None => Some ({| cell := cell sh; lock := Some t; hist := hist sh; trace := trace sh ++ [(t, ELock)] |}, snap)
      | Some _ => None
      end
  | OLog s => Some ({| cell := cell sh; lock := lock sh; hist := hist sh; trace := trace sh ++ [(t, ELog)] |}, eval s snap)
  | OPublish s => Some ({| cell := snap; lock := lock sh; hist := hist sh ++ [(t, s)];
                           trace := trace sh ++ [(t, EPublish)] |}, snap)
  | OUnlock => Some ({| cell := cell sh; lock := None; hist := hist sh; trace := trace sh ++ [(t, EUnlock)] |}, snap)
  end.

Inductive order := order_fixed | order_old | order_early_unlock.

Definition group (o : order) (s : stmt) : list op :=
  match o with
  | order_fixed => [OLock; OSnap; OLog s; OPublish s; OUnlock]
  | order_old => [OSnap; OLock; OLog s; OPublish s; OUnlock]
  | order_early_unlock => [OLock; OSnap; OLog s; OUnlock; OPublish s]
  end.

Fixpoint prog (o : order) (ss : list stmt) : list op :=
  match ss with
  | [] => []
  | s :: r => group o s ++ prog o r
  end.

Definition kind_of (o : op) : evkind :=
  match o with OSnap => ESnap | OLock => ELock | OLog _ => ELog | OPublish _ => EPublish | OUnlock => EUnlock end.

Definition acfg := cfg shared Z op.

Definition init (o : order) (v0 : Z) (stmts : list (list stmt)) : acfg :=
  {| Sched.shared := {| cell := v0; lock := None; hist := []; trace := [] |};
     threads := pool 0 (map (prog o) stmts) |}.

Definition arun (sched : list nat) (c : acfg) : acfg := run sem sched c.

(* the specification side: statements applied one at a time *)
Definition seq_result (v0 : Z) (l : list stmt) : Z := fold_left (fun v s => eval s v) l v0.

Definition committed_by (t : nat) (h : list (nat * stmt)) : list stmt :=
  map snd (filter (fun p => Nat.eqb (fst p) t) h).

(* the order in which the code is currently written; Corr/C09 compares it with the
   event order observed at the schedule points of the real code *)
Definition current_order : order := order_fixed.
