(* Conc/AutoCommit.v — MODEL of the C API auto-commit write statement
   (nervusdb-capi/src/lib.rs execute_write_count, used by ndb_execute_write and
   prepared write statements).

   A statement is a read-modify-write of one shared cell (the property the
   statement reads and SETs): the new value is computed from the value in the
   statement's READ SNAPSHOT.  Atomic steps, one per segment between two
   schedule points of the real code:
     OLock     GraphEngine::begin_write   (write_lock mutex; blocked while held)
     OSnap     Db::snapshot               (copies the published state)
     OCommit s execute_mixed + WriteTxn::commit up to publish_run
     OUnlock   drop of the write guard at the end of commit
   Two program orders:
     order_fixed  [OLock; OSnap; OCommit; OUnlock]   the code after the repair
     order_old    [OSnap; OLock; OCommit; OUnlock]   the pinned tree (snapshot before lock) *)
From Coq Require Import List ZArith Bool Arith.
From NDB Require Import Conc.Sched.
Import ListNotations.
Open Scope Z_scope.

Inductive stmt :=
| SAdd (d : Z)            (* SET n.c = n.c + d *)
| SCond (a b : Z).     (* SET n.c = CASE WHEN n.c = a THEN b ELSE n.c END *)

Definition eval (s : stmt) (v : Z) : Z :=
  match s with
  | SAdd d => v + d
  | SCond a b => if v =? a then b else v
  end.

Inductive op := OSnap | OLock | OCommit (s : stmt) | OUnlock.

Inductive evkind := ESnap | ELock | ECommit | EUnlock.

Record shared := {
  cell : Z;                          (* committed value of the property *)
  lock : option nat;                 (* holder of the writer mutex *)
  hist : list (nat * stmt);          (* ghost: statements in commit order *)
  trace : list (nat * evkind)        (* ghost: executed steps, oldest first *)
}.

Definition sem (o : op) (t : nat) (sh : shared) (snap : Z) : option (shared * Z) :=
  match o with
  | OSnap => Some ({| cell := cell sh; lock := lock sh; hist := hist sh; trace := trace sh ++ [(t, ESnap)] |}, cell sh)
  | OLock =>
      match lock sh with
      | None => Some ({| cell := cell sh; lock := Some t; hist := hist sh; trace := trace sh ++ [(t, ELock)] |}, snap)
      | Some _ => None
      end
  | OCommit s => Some ({| cell := eval s snap; lock := lock sh; hist := hist sh ++ [(t, s)];
                          trace := trace sh ++ [(t, ECommit)] |}, snap)
  | OUnlock => Some ({| cell := cell sh; lock := None; hist := hist sh; trace := trace sh ++ [(t, EUnlock)] |}, snap)
  end.

Inductive order := order_fixed | order_old.

Definition group (o : order) (s : stmt) : list op :=
  match o with
  | order_fixed => [OLock; OSnap; OCommit s; OUnlock]
  | order_old => [OSnap; OLock; OCommit s; OUnlock]
  end.

Fixpoint prog (o : order) (ss : list stmt) : list op :=
  match ss with
  | [] => []
  | s :: r => group o s ++ prog o r
  end.

Definition kind_of (o : op) : evkind :=
  match o with OSnap => ESnap | OLock => ELock | OCommit _ => ECommit | OUnlock => EUnlock end.

Definition acfg := cfg shared Z op.

Definition init (o : order) (v0 : Z) (stmts : list (list stmt)) : acfg :=
  {| Sched.shared := {| cell := v0; lock := None; hist := []; trace := [] |};
     threads := pool 0 (map (prog o) stmts) |}.

Definition arun (sched : list nat) (c : acfg) : acfg := run sem sched c.

(* the specification side: statements applied one at a time *)
Definition seq_result (v0 : Z) (l : list stmt) : Z := fold_left (fun v s => eval s v) l v0.

Definition committed_by (t : nat) (h : list (nat * stmt)) : list stmt :=
  map snd (filter (fun p => Nat.eqb (fst p) t) h).

(* the order in which the code is currently written; Corr/C09 compares it with the
   event order observed at the schedule points of the real code *)
Definition current_order : order := order_fixed.
