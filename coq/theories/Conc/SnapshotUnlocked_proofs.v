(* Conc/SnapshotUnlocked_proofs.v — PROOFS for Conc/SnapshotUnlocked.v.
     quiescent_consistent        for EVERY history of whole writer operations, a snapshot acquired while
                                 no writer operation is in flight shows exactly the committed state
     stable_without_compaction   for EVERY schedule: while no compaction sink step remains to run, a
                                 held snapshot's view never changes (commits, other readers, reads)
     quiescent_snapshot_schedules  schedule level: after the writer ran j whole operations alone and reader r
                                 acquired alone, EVERY continuation schedule makes r observe exactly the state after
                                 those j operations, provided no compaction follows
     torn_* / inplace_*          witnesses (vm_compute) that consistency / stability fail otherwise *)
From Coq Require Import List ZArith Bool Arith Lia.
From NDB Require Import Conc.Sched Conc.SnapshotUnlocked.
Import ListNotations.

Lemma assoc_app : forall n a b, assoc n (a ++ b) = match assoc n a with Some v => Some v | None => assoc n b end.
Proof.
  intros n a b; induction a as [|[k v] a IH]; [reflexivity|].
  cbn. destruct (Nat.eqb k n); [reflexivity|exact IH].
Qed.

Definition Qinv (sh : sshared) (sp : spec) : Prop :=
  s_nodes sh = sp_nodes sp /\ s_nlabels sh = sp_nodes sp /\
  flat_map r_props (s_runs sh) ++ s_heap sh = sp_props sp /\
  flat_map r_edges (s_runs sh) ++ concat (s_segs sh) = sp_edges sp /\
  (s_root sh = false -> s_heap sh = []).

Lemma qinv0 : Qinv shared0 spec0.
Proof. repeat split. Qed.

Lemma commit_preserves : forall x sh l sp, Qinv sh sp ->
  Qinv (fst (exec_steps 0 (commit_steps x) (sh, l))) (apply_op sp (WCommit x)).
Proof.
  intros x sh l sp (Hn & Hl & Hp & He & Hr). cbn.
  repeat split; cbn.
  - rewrite Hn; reflexivity.
  - rewrite Hn; reflexivity.
  - rewrite <- app_assoc, Hp; reflexivity.
  - rewrite <- app_assoc, He; reflexivity.
  - exact Hr.
Qed.

Lemma compact_preserves : forall sh l sp, Qinv sh sp ->
  Qinv (fst (exec_steps 0 compact_steps (sh, l))) sp.
Proof.
  intros sh l sp (Hn & Hl & Hp & He & Hr). cbn.
  repeat split; cbn.
  - exact Hn.
  - exact Hl.
  - exact Hp.
  - rewrite <- He. reflexivity.
  - discriminate.
Qed.

Lemma exec_steps_app : forall t a b st, exec_steps t (a ++ b) st = exec_steps t b (exec_steps t a st).
Proof. intros; unfold exec_steps; apply fold_left_app. Qed.

Lemma history_preserves : forall h sh l sp, Qinv sh sp ->
  Qinv (fst (exec_steps 0 (writer_prog h) (sh, l))) (fold_left apply_op h sp).
Proof.
  induction h as [|o h IH]; intros sh l sp H; [exact H|].
  cbn [writer_prog flat_map fold_left]. rewrite exec_steps_app.
  destruct o as [x|].
  - pose proof (commit_preserves x sh l sp H) as H1.
    change (steps_of (WCommit x)) with (commit_steps x).
    destruct (exec_steps 0 (commit_steps x) (sh, l)) as [sh1 l1] eqn:E. apply IH. exact H1.
  - pose proof (compact_preserves sh l sp H) as H1.
    change (steps_of WCompact) with compact_steps.
    destruct (exec_steps 0 compact_steps (sh, l)) as [sh1 l1] eqn:E. apply IH. exact H1.
Qed.

Lemma acquire_view : forall r sh l sp, Qinv sh sp ->
  fst (exec_steps r acquire_steps (sh, l)) = sh /\
  view_of (snd (exec_steps r acquire_steps (sh, l))) (s_heap sh) = view_of_spec sp.
Proof.
  intros r sh l sp (Hn & Hl & Hp & He & Hr). cbn. split; [reflexivity|].
  unfold view_of, view_of_spec; cbn. rewrite Hn, Hl, He. f_equal.
  apply map_ext. intro n. unfold prop_of; cbn. rewrite <- Hp, assoc_app.
  destruct (assoc n (flat_map r_props (s_runs sh))); [reflexivity|].
  destruct (s_root sh) eqn:Er; [reflexivity|]. rewrite (Hr eq_refl). reflexivity.
Qed.

Theorem quiescent_consistent : forall (h : list wop) (r : nat) (l : local),
  let st := exec_steps 0 (writer_prog h) (shared0, local0) in
  view_of (snd (exec_steps r acquire_steps (fst st, l))) (s_heap (fst st)) = view_of_spec (spec_of h).
Proof.
  intros h r l st.
  exact (proj2 (acquire_view r (fst st) l (spec_of h) (history_preserves h shared0 local0 spec0 qinv0))).
Qed.

(* ---- stability for every schedule without a sink step ---- *)
Definition no_sink (c : scfg) : Prop := forall t, ~ In CSink (todo (threads c t)).
Definition only_reads (c : scfg) (r : nat) : Prop := forall a, In a (todo (threads c r)) -> a = RRead.

Definition SInv (h0 : list (nat * Z)) (l0 : local) (r : nat) (c : scfg) : Prop :=
  no_sink c /\ only_reads c r /\ s_heap (Sched.shared c) = h0 /\ loc (threads c r) = l0.

Lemma sstep_inv : forall h0 l0 r t c, SInv h0 l0 r c -> SInv h0 l0 r (step_thread ssem t c).
Proof.
  intros h0 l0 r t c (Hns & Hor & Hh & Hl). unfold step_thread.
  destruct (todo (threads c t)) as [|a rest] eqn:El; [repeat split; assumption|].
  assert (Hnot : a <> CSink) by (intro E; apply (Hns t); rewrite El, E; left; reflexivity).
  destruct (ssem a t (Sched.shared c) (loc (threads c t))) as [[s' l']|] eqn:Es; [|repeat split; assumption].
  assert (Hheap : s_heap s' = s_heap (Sched.shared c)) by (destruct a; cbn in Es; inversion Es; try reflexivity; exfalso; apply Hnot; reflexivity).
  unfold SInv, no_sink, only_reads; cbn [Sched.shared threads]. split; [|split; [|split]].
  - intro u. destruct (Nat.eq_dec u t) as [->|Hne].
    + rewrite upd_same. cbn. intro H. apply (Hns t). rewrite El. right. exact H.
    + rewrite (upd_other _ t _ u Hne). apply Hns.
  - intros b Hb. destruct (Nat.eq_dec r t) as [->|Hne].
    + rewrite upd_same in Hb. cbn in Hb. apply Hor. rewrite El. right. exact Hb.
    + rewrite (upd_other _ t _ r Hne) in Hb. apply Hor. exact Hb.
  - rewrite Hheap. exact Hh.
  - destruct (Nat.eq_dec r t) as [->|Hne].
    + rewrite upd_same. cbn.
      assert (Ea : a = RRead) by (apply Hor; rewrite El; left; reflexivity).
      subst a. cbn in Es. inversion Es. exact Hl.
    + rewrite (upd_other _ t _ r Hne). exact Hl.
Qed.

Theorem stable_without_compaction : forall (c : scfg) (r : nat) (sched : list nat),
  no_sink c -> only_reads c r ->
  let c' := srun sched c in
  view_of (loc (threads c' r)) (s_heap (Sched.shared c')) = view_of (loc (threads c r)) (s_heap (Sched.shared c)).
Proof.
  intros c r sched Hns Hor c'.
  assert (H : SInv (s_heap (Sched.shared c)) (loc (threads c r)) r c') by
    (apply (run_invariant ssem (SInv _ _ r) (sstep_inv _ _ r) sched c); repeat split; assumption).
  destruct H as (_ & _ & Hh & Hl). rewrite Hh, Hl. reflexivity.
Qed.

(* ---- lifting to schedules: quiescent acquisition, then EVERY schedule, no later compaction ---- *)

Lemma ssem_some : forall a t sh l, exists st, ssem a t sh l = Some st.
Proof. intros; destruct a; eexists; reflexivity. Qed.

Lemma run_alone : forall (l : list step) t rest (c : scfg),
  todo (threads c t) = l ++ rest ->
  let c' := srun (repeat t (length l)) c in
  Sched.shared c' = fst (exec_steps t l (Sched.shared c, loc (threads c t))) /\
  todo (threads c' t) = rest /\
  loc (threads c' t) = snd (exec_steps t l (Sched.shared c, loc (threads c t))) /\
  forall u, u <> t -> threads c' u = threads c u.
Proof.
  induction l as [|a l IH]; intros t rest c Hto.
  - cbn. repeat split; auto.
  - cbn [length repeat]. unfold srun. rewrite run_cons. fold (srun (repeat t (length l)) (step_thread ssem t c)).
    destruct (ssem_some a t (Sched.shared c) (loc (threads c t))) as ([s' l'] & Es).
    assert (Est : step_thread ssem t c = {| Sched.shared := s'; threads := upd (threads c) t {| todo := l ++ rest; loc := l' |} |}).
    { unfold step_thread. rewrite Hto. cbn [app]. rewrite Es. reflexivity. }
    rewrite Est.
    specialize (IH t rest {| Sched.shared := s'; threads := upd (threads c) t {| todo := l ++ rest; loc := l' |} |}).
    cbn [threads Sched.shared] in IH. rewrite upd_same in IH. cbn [todo loc] in IH.
    specialize (IH eq_refl). cbn zeta in IH. destruct IH as (A & B & C & D).
    assert (Ex : exec_steps t (a :: l) (Sched.shared c, loc (threads c t)) = exec_steps t l (s', l')).
    { unfold exec_steps. cbn [fold_left fst snd]. rewrite Es. reflexivity. }
    rewrite Ex. repeat split; try assumption.
    intros u Hne. rewrite (D u Hne). cbn. apply upd_other. exact Hne.
Qed.

Lemma ssem_obs : forall a t sh l sh' l', a <> RRead -> ssem a t sh l = Some (sh', l') -> s_obs sh' = s_obs sh.
Proof. intros a t sh l sh' l' Hne H. destruct a; cbn in H; inversion H; try reflexivity. exfalso. apply Hne. reflexivity. Qed.

Lemma exec_obs : forall t l st, Forall (fun a => a <> RRead) l -> s_obs (fst (exec_steps t l st)) = s_obs (fst st).
Proof.
  intros t l; induction l as [|a l IH]; intros [sh lo] H; [reflexivity|].
  inversion H as [|? ? Ha Hl]; subst.
  destruct (ssem_some a t sh lo) as ([s' l'] & Es).
  assert (Ex : exec_steps t (a :: l) (sh, lo) = exec_steps t l (s', l')).
  { unfold exec_steps. cbn [fold_left fst snd]. rewrite Es. reflexivity. }
  rewrite Ex, (IH (s', l') Hl). cbn. exact (ssem_obs a t sh lo s' l' Ha Es).
Qed.

Lemma writer_prog_app : forall a b, writer_prog (a ++ b) = writer_prog a ++ writer_prog b.
Proof. intros; unfold writer_prog; apply flat_map_app. Qed.

Lemma writer_prog_no_read : forall h, Forall (fun a => a <> RRead) (writer_prog h).
Proof.
  induction h as [|o h IH]; [constructor|]. cbn [writer_prog flat_map]. apply Forall_app. split; [|exact IH].
  destruct o; cbn; repeat constructor; discriminate.
Qed.

Lemma writer_prog_no_sink : forall h, (forall o, In o h -> o <> WCompact) -> ~ In CSink (writer_prog h).
Proof.
  induction h as [|o h IH]; intros Hn Hin; [exact Hin|].
  cbn [writer_prog flat_map] in Hin. apply in_app_or in Hin. destruct Hin as [Hin|Hin].
  - destruct o as [x|]; [|exact (Hn WCompact (or_introl eq_refl) eq_refl)].
    cbn in Hin. repeat (destruct Hin as [Hin|Hin]; [discriminate Hin|]). exact Hin.
  - apply IH; [|exact Hin]. intros o' Ho'. apply Hn. right. exact Ho'.
Qed.

Lemma reader_prog_no_sink : forall k, ~ In CSink (reader_prog k).
Proof.
  intros k Hin. unfold reader_prog in Hin. apply in_app_or in Hin. destruct Hin as [Hin|Hin].
  - cbn in Hin. repeat (destruct Hin as [Hin|Hin]; [discriminate Hin|]). exact Hin.
  - apply repeat_spec in Hin. discriminate Hin.
Qed.

Lemma reader_thread : forall h readers r, 1 <= r <= length readers ->
  todo (threads (sinit h readers) r) = reader_prog (nth (r - 1) readers 0).
Proof.
  intros h readers r [H1 H2]. cbn. destruct r as [|r']; [lia|]. cbn [nth].
  replace (S r' - 1) with r' by lia.
  rewrite (nth_indep (map reader_prog readers) [] (reader_prog 0)) by (rewrite map_length; lia).
  apply map_nth.
Qed.

(* observations of r all equal V *)
Definition OInv (V : view) (h0 : list (nat * Z)) (l0 : local) (r : nat) (c : scfg) : Prop :=
  SInv h0 l0 r c /\ forall v, In v (obs_of r (Sched.shared c)) -> v = V.

Lemma obs_of_snoc : forall r sh t v,
  obs_of r {| s_nodes := s_nodes sh; s_nlabels := s_nlabels sh; s_runs := s_runs sh; s_segs := s_segs sh; s_root := s_root sh;
              s_heap := s_heap sh; s_obs := s_obs sh ++ [(t, v)] |} = obs_of r sh ++ (if Nat.eqb t r then [v] else []).
Proof. intros. unfold obs_of. cbn [s_obs]. rewrite filter_app, map_app. cbn. destruct (Nat.eqb t r); reflexivity. Qed.

Lemma ostep_inv : forall V h0 l0 r t c, view_of l0 h0 = V -> OInv V h0 l0 r c -> OInv V h0 l0 r (step_thread ssem t c).
Proof.
  intros V h0 l0 r t c HV [HS HO]. split; [apply sstep_inv; exact HS|].
  destruct HS as (Hns & Hor & Hh & Hl).
  unfold step_thread. destruct (todo (threads c t)) as [|a rest] eqn:El; [exact HO|].
  destruct (ssem a t (Sched.shared c) (loc (threads c t))) as [[s' l']|] eqn:Es; [|exact HO].
  cbn [Sched.shared].
  destruct a; try (assert (E : s_obs s' = s_obs (Sched.shared c)) by (eapply ssem_obs; [|exact Es]; discriminate); unfold obs_of; rewrite E; exact HO).
  (* RRead *)
  cbn in Es. inversion Es; subst. intros v Hv. rewrite obs_of_snoc in Hv. apply in_app_or in Hv.
  destruct Hv as [Hv|Hv]; [apply HO; exact Hv|].
  destruct (Nat.eqb t r) eqn:E; [|destruct Hv].
  apply Nat.eqb_eq in E. subst t. destruct Hv as [<-|[]]. reflexivity.
Qed.

Theorem quiescent_snapshot_schedules : forall (h : list wop) (readers : list nat) (j r : nat) (sched' : list nat),
  1 <= r <= length readers ->
  (forall o, In o (skipn j h) -> o <> WCompact) ->
  let pre := repeat 0 (length (writer_prog (firstn j h))) ++ repeat r (length acquire_steps) in
  let c := srun (pre ++ sched') (sinit h readers) in
  forall v, In v (obs_of r (Sched.shared c)) -> v = view_of_spec (spec_of (firstn j h)).
Proof.
  intros h readers j r sched' Hr Hnc pre c. unfold c, pre, srun. rewrite !run_app.
  fold (srun (repeat 0 (length (writer_prog (firstn j h)))) (sinit h readers)).
  set (c0 := sinit h readers).
  assert (Hr0 : r <> 0) by lia.
  (* phase 1: the writer runs the first j operations alone *)
  assert (Hw0 : todo (threads c0 0) = writer_prog (firstn j h) ++ writer_prog (skipn j h)).
  { cbn. rewrite <- writer_prog_app, firstn_skipn. reflexivity. }
  destruct (run_alone _ 0 _ c0 Hw0) as (A1 & B1 & _ & D1). cbn zeta in A1, B1, D1.
  set (c1 := srun (repeat 0 (length (writer_prog (firstn j h)))) c0) in *.
  (* phase 2: reader r acquires alone *)
  assert (Hrt : todo (threads c1 r) = acquire_steps ++ repeat RRead (nth (r - 1) readers 0)).
  { rewrite (D1 r Hr0). unfold c0. rewrite (reader_thread h readers r Hr). reflexivity. }
  destruct (run_alone _ r _ c1 Hrt) as (A2 & B2 & C2 & D2). cbn zeta in A2, B2, C2, D2.
  fold (srun (repeat r (length acquire_steps)) c1).
  set (c2 := srun (repeat r (length acquire_steps)) c1) in *.
  pose proof (history_preserves (firstn j h) shared0 local0 spec0 qinv0) as HQ.
  change (Sched.shared c0) with shared0 in A1. change (loc (threads c0 0)) with local0 in A1.
  rewrite <- A1 in HQ. fold (spec_of (firstn j h)) in HQ.
  destruct (acquire_view r (Sched.shared c1) (loc (threads c1 r)) _ HQ) as (F1 & F2).
  rewrite F1 in A2. rewrite <- C2 in F2. rewrite <- A2 in F2.
  (* phase 3: every schedule *)
  assert (HO : OInv (view_of_spec (spec_of (firstn j h))) (s_heap (Sched.shared c2)) (loc (threads c2 r)) r c2).
  { split; [repeat split|].
    - intro t. destruct (Nat.eq_dec t r) as [->|Htr].
      + rewrite B2. intro Hin. apply repeat_spec in Hin. discriminate Hin.
      + rewrite (D2 t Htr). destruct (Nat.eq_dec t 0) as [->|Ht0].
        * rewrite B1. apply writer_prog_no_sink. exact Hnc.
        * rewrite (D1 t Ht0). unfold c0. cbn. destruct t as [|t']; [lia|]. cbn [nth].
          destruct (nth_in_or_default t' (map reader_prog readers) []) as [Hin|Hd].
          -- apply in_map_iff in Hin. destruct Hin as (k & <- & _). apply reader_prog_no_sink.
          -- rewrite Hd. intros [].
    - intros a Ha. rewrite B2 in Ha. apply repeat_spec in Ha. exact Ha.
    - intros v Hv. exfalso.
      assert (E : s_obs (Sched.shared c2) = []).
      { rewrite A2, A1. rewrite exec_obs by apply writer_prog_no_read. reflexivity. }
      unfold obs_of in Hv. rewrite E in Hv. exact Hv. }
  intros v Hv.
  exact (proj2 (run_invariant ssem (OInv _ _ _ r) (fun t c => ostep_inv _ _ _ r t c F2) sched' c2 HO) v Hv).
Qed.

(* ---- witnesses ---- *)
Definition tx1 : tx := {| t_nodes := [1]; t_props := [(1, 5%Z)]; t_edges := [(1, 1)] |}.

(* reader between the idmap update and the publication of the run: node without labels, property, relationship *)
Definition torn_commit_sched : list nat := [0;0; 1;1;1;1;1;1;1;1; 0;0].
Lemma torn_commit :
  let c := srun torn_commit_sched (sinit [WCommit tx1] [1]) in
  obs_of 1 (Sched.shared c) = [{| v_nodes := [1]; v_labeled := [false]; v_props := [None]; v_edges := [] |}] /\
  forallb (consistent_with [WCommit tx1]) (obs_of 1 (Sched.shared c)) = false.
Proof. vm_compute. split; reflexivity. Qed.

(* reader copies the runs after they were cleared and the segments before they were installed: relationship lost *)
Definition torn_compact_lost_sched : list nat := [0;0;0;0; 0;0;0;0;0;0; 1;1;1;1;1;1;1;1; 0].
Lemma torn_compact_lost :
  let c := srun torn_compact_lost_sched (sinit [WCommit tx1; WCompact] [1]) in
  map v_edges (obs_of 1 (Sched.shared c)) = [[]] /\
  forallb (consistent_with [WCommit tx1; WCompact]) (obs_of 1 (Sched.shared c)) = false.
Proof. vm_compute. split; reflexivity. Qed.

(* reader copies the runs before the compaction clears them and the segments after it installed them: relationship twice *)
Definition torn_compact_doubled_sched : list nat := [0;0;0;0; 1;1; 0;0;0;0;0;0;0; 1;1;1;1;1;1].
Lemma torn_compact_doubled :
  let c := srun torn_compact_doubled_sched (sinit [WCommit tx1; WCompact] [1]) in
  map v_edges (obs_of 1 (Sched.shared c)) = [[(1, 1); (1, 1)]] /\
  forallb (consistent_with [WCommit tx1; WCompact]) (obs_of 1 (Sched.shared c)) = false.
Proof. vm_compute. split; reflexivity. Qed.

(* a snapshot acquired at a quiescent point reads 5, 5 and then 6 for the same property: a later commit
   is invisible, the compaction after it rewrites the property tree the snapshot reads through *)
Definition tx2 : tx := {| t_nodes := []; t_props := [(1, 6%Z)]; t_edges := [] |}.
Definition inplace_history : list wop := [WCommit tx1; WCompact; WCommit tx2; WCompact].
Definition inplace_sched : list nat := repeat 0 11 ++ repeat 1 7 ++ [1] ++ repeat 0 4 ++ [1] ++ repeat 0 7 ++ [1].
Lemma inplace_unstable :
  let c := srun inplace_sched (sinit inplace_history [3]) in
  map v_props (obs_of 1 (Sched.shared c)) = [[Some 5%Z]; [Some 5%Z]; [Some 6%Z]] /\
  all_same (obs_of 1 (Sched.shared c)) = false.
Proof. vm_compute. split; reflexivity. Qed.

(* non-vacuity of the two positive theorems on the same history *)
Example quiescent_example :
  let c := srun (repeat 0 11 ++ repeat 1 8) (sinit inplace_history [1]) in
  obs_of 1 (Sched.shared c) = [view_of_spec (spec_of [WCommit tx1; WCompact])] /\
  v_props (view_of_spec (spec_of [WCommit tx1; WCompact])) = [Some 5%Z].
Proof. vm_compute. split; reflexivity. Qed.
