(* Conc/LockOrder_proofs.v — PROOFS for Conc/LockOrder.v.
     ranked_no_deadlock     every wait rank-increasing w.r.t. the locks held  ->  no deadlock
     checked_no_deadlock    check pats rank g = true, the state conforms to pats, g exclusive -> no deadlock *)
From Coq Require Import List Arith Bool Lia.
From NDB Require Import Conc.LockOrder.
Import ListNotations.

Lemma memb_In : forall l H, memb l H = true <-> In l H.
Proof.
  intros l H; unfold memb; rewrite existsb_exists. split.
  - intros (x & Hx & E). apply Nat.eqb_eq in E. subst x. exact Hx.
  - intro Hin. exists l. split; [exact Hin|apply Nat.eqb_refl].
Qed.

Lemma exists_max : forall (A : Type) (f : A -> nat) (l : list A), l <> [] ->
  exists x, In x l /\ forall y, In y l -> f y <= f x.
Proof.
  intros A f l; induction l as [|a r IH]; intro Hne; [contradiction|].
  destruct r as [|b r'].
  - exists a. split; [left; reflexivity|]. intros y [<-|[]]. apply Nat.le_refl.
  - destruct IH as (m & Hm & Hmax); [discriminate|].
    destruct (Nat.le_gt_cases (f m) (f a)) as [Hle|Hgt].
    + exists a. split; [left; reflexivity|]. intros y [<-|Hy]; [apply Nat.le_refl|].
      specialize (Hmax y Hy). lia.
    + exists m. split; [right; exact Hm|]. intros y [<-|Hy]; [lia|apply Hmax; exact Hy].
Qed.

(* the general theorem: a rank function that every wait respects excludes deadlock *)
Theorem ranked_no_deadlock : forall (rank : lock -> nat) (st : lstate),
  rank_increasing rank st -> ~ deadlocked st.
Proof.
  intros rank st Hri (S & Hne & Hcyc).
  set (f := fun t => match want (st t) with Some l => rank l | None => 0 end).
  destruct (exists_max nat f S Hne) as (t & Ht & Hmax).
  destruct (Hcyc t Ht) as (l & t' & Hw & Ht' & Hheld).
  destruct (Hcyc t' Ht') as (l' & t'' & Hw' & _ & _).
  pose proof (Hri t' l' Hw' l Hheld) as Hlt.
  specialize (Hmax t' Ht'). unfold f in Hmax. rewrite Hw, Hw' in Hmax. lia.
Qed.

Lemma check_pattern : forall pats rank g H l, check pats rank g = true -> In (H, l) pats ->
  ~ In l H /\ ((forall h, In h H -> rank h < rank l) \/ (In g H /\ leaf pats g l = true)).
Proof.
  intros pats rank g H l Hc Hin. unfold check in Hc. rewrite forallb_forall in Hc.
  specialize (Hc (H, l) Hin). cbn [fst snd] in Hc.
  apply andb_true_iff in Hc. destruct Hc as [Hre Hc]. split.
  - intro Hl. apply memb_In in Hl. rewrite Hl in Hre. discriminate.
  - apply orb_true_iff in Hc. destruct Hc as [Hr|Hg].
    + left. intros h Hh. rewrite forallb_forall in Hr. apply Nat.ltb_lt. apply Hr. exact Hh.
    + right. apply andb_true_iff in Hg. destruct Hg as [Hg Hleaf]. split; [apply memb_In; exact Hg|exact Hleaf].
Qed.

Lemma leaf_spec : forall pats g l H' l', leaf pats g l = true -> In (H', l') pats -> In l H' -> In g H'.
Proof.
  intros pats g l H' l' Hleaf Hin Hl. unfold leaf in Hleaf. rewrite forallb_forall in Hleaf.
  specialize (Hleaf (H', l') Hin). cbn [fst] in Hleaf.
  apply memb_In in Hl. rewrite Hl in Hleaf. cbn in Hleaf. apply memb_In. exact Hleaf.
Qed.

Theorem checked_no_deadlock : forall (pats : list pattern) (rank : lock -> nat) (g : lock) (st : lstate),
  check pats rank g = true -> conforms pats st -> gate_exclusive g st -> ~ deadlocked st.
Proof.
  intros pats rank g st Hc Hconf Hex Hdead.
  (* first: no member of a deadlocked set waits under the gate exemption *)
  assert (Hall : forall S, (forall t, In t S -> exists l t', want (st t) = Some l /\ In t' S /\ In l (held (st t'))) ->
                 forall t, In t S -> forall l, want (st t) = Some l -> forall h, In h (held (st t)) -> rank h < rank l).
  { intros S Hcyc t Ht l Hw h Hh.
    destruct (Hconf t l Hw) as (H & Hin & Hset).
    destruct (check_pattern pats rank g H l Hc Hin) as (Hnre & [Hr|[Hg Hleaf]]).
    - apply Hr. apply Hset. exact Hh.
    - exfalso.
      destruct (Hcyc t Ht) as (l0 & t' & Hw0 & Ht' & Hheld). rewrite Hw in Hw0. inversion Hw0. subst l0.
      destruct (Hcyc t' Ht') as (l' & t'' & Hw' & _ & _).
      destruct (Hconf t' l' Hw') as (H' & Hin' & Hset').
      assert (Hg' : In g H') by (apply (leaf_spec pats g l H' l' Hleaf Hin'); apply Hset'; exact Hheld).
      assert (Et : t = t') by (apply Hex; [apply Hset; exact Hg|apply Hset'; exact Hg']).
      subst t'. apply Hnre. apply Hset. exact Hheld. }
  destruct Hdead as (S & Hne & Hcyc).
  set (f := fun t => match want (st t) with Some l => rank l | None => 0 end).
  destruct (exists_max nat f S Hne) as (t & Ht & Hmax).
  destruct (Hcyc t Ht) as (l & t' & Hw & Ht' & Hheld).
  destruct (Hcyc t' Ht') as (l' & t'' & Hw' & _ & _).
  pose proof (Hall S Hcyc t' Ht' l' Hw' l Hheld) as Hlt.
  specialize (Hmax t' Ht'). unfold f in Hmax. rewrite Hw, Hw' in Hmax. lia.
Qed.

(* ---- non-vacuity ---- *)
(* the classic inversion is a deadlock in this semantics, and no rank passes the check for it *)
Definition abba_state : lstate :=
  fun t => match t with
           | 0 => {| held := [1]; want := Some 2 |}
           | 1 => {| held := [2]; want := Some 1 |}
           | _ => {| held := []; want := None |}
           end.
Example abba_deadlocked : deadlocked abba_state.
Proof.
  exists [0; 1]. split; [discriminate|].
  intros t [<-|[<-|[]]].
  - exists 2, 1. cbn. repeat split; auto.
  - exists 1, 0. cbn. repeat split; auto.
Qed.
Example abba_rejected : forall rank, check [([1], 2); ([2], 1)] rank 0 = false.
Proof.
  intro rank. unfold check. cbn -[Nat.ltb].
  destruct (Nat.ltb (rank 1) (rank 2)) eqn:E1; cbn -[Nat.ltb]; [|reflexivity].
  destruct (Nat.ltb (rank 2) (rank 1)) eqn:E2; cbn -[Nat.ltb]; [|reflexivity].
  apply Nat.ltb_lt in E1. apply Nat.ltb_lt in E2. lia.
Qed.
(* the same inversion under a common gate lock 9 passes (both inner locks only held under the gate) *)
Example gated_inversion_accepted : check [([9], 1); ([9], 2); ([9; 1], 2); ([9; 2], 1)] (rank_of [(9, 0); (1, 1); (2, 2)]) 9 = true.
Proof. vm_compute. reflexivity. Qed.
(* ... and is rejected as soon as one of the inner locks is also taken without the gate while holding the other *)
Example ungated_inversion_rejected : check [([9], 1); ([9; 1], 2); ([2], 1)] (rank_of [(9, 0); (1, 1); (2, 2)]) 9 = false.
Proof. vm_compute. reflexivity. Qed.
