(* Conc/LockOrder_proofs.v — PROOFS for Conc/LockOrder.v.
     ranked_no_deadlock     every wait rank-increasing w.r.t. the locks held  ->  no deadlock
     checked_no_deadlock    check pats rank g = true, the state conforms to pats, g exclusive -> no deadlock
   both for shared/exclusive modes with queued writers blocking new readers. *)
From Coq Require Import List Arith Bool Lia.
From NDB Require Import Conc.LockOrder.
Import ListNotations.

Lemma holds_In : forall l H, holds l H = true <-> exists m, In (l, m) H.
Proof.
  intros l H; unfold holds; rewrite existsb_exists. split.
  - intros ([l' m] & Hx & E). cbn in E. apply Nat.eqb_eq in E. subst l'. exists m. exact Hx.
  - intros (m & Hin). exists (l, m). split; [exact Hin|apply Nat.eqb_refl].
Qed.

Lemma exists_max : forall (A : Type) (f : A -> nat) (l : list A), l <> [] ->
  exists x, In x l /\ forall y, In y l -> f y <= f x.
Proof.
  intros A f l; induction l as [|a r IH]; intro Hne; [contradiction|].
  destruct r as [|b r'].
  - exists a. split; [left; reflexivity|]. intros y [<-|[]]. apply Nat.le_refl.
  - destruct IH as (m & Hm & Hmax); [discriminate|].
    destruct (Nat.le_gt_cases (f m) (f a)) as [Hle|Hgt].
    + exists a. split; [left; reflexivity|]. intros y [<-|Hy]; [apply Nat.le_refl|].
      specialize (Hmax y Hy). lia.
    + exists m. split; [right; exact Hm|]. intros y [<-|Hy]; [lia|apply Hmax; exact Hy].
Qed.

Definition wrank (rank : lock -> nat) (st : lstate) (t : nat) : nat :=
  match want (st t) with Some (l, _) => rank l | None => 0 end.

(* core argument: if every member of a set of mutually blocked threads waits rank-increasingly, contradiction *)
Lemma max_rank_contradiction : forall (rank : lock -> nat) (st : lstate) (S : list nat),
  S <> [] ->
  (forall t, In t S -> exists t', In t' S /\ blocked_by st t t') ->
  (forall t, In t S -> forall l m, want (st t) = Some (l, m) -> forall h mh, In (h, mh) (held (st t)) -> rank h < rank l) ->
  False.
Proof.
  intros rank st S Hne Hcyc Hri.
  destruct (exists_max nat (wrank rank st) S Hne) as (t & Ht & Hmax).
  destruct (Hcyc t Ht) as (t' & Ht' & l & m & Hw & Hb).
  assert (Hholder : forall u, In u S -> forall mu, In (l, mu) (held (st u)) -> False).
  { intros u Hu mu Hheld.
    destruct (Hcyc u Hu) as (u' & _ & l2 & m2 & Hw2 & _).
    pose proof (Hri u Hu l2 m2 Hw2 l mu Hheld) as Hlt.
    specialize (Hmax u Hu). unfold wrank in Hmax. rewrite Hw, Hw2 in Hmax. lia. }
  destruct Hb as [(m' & Hheld & _)|[-> Hw']].
  - exact (Hholder t' Ht' m' Hheld).
  - (* t' is a queued writer for l; it is blocked by a holder of l *)
    destruct (Hcyc t' Ht') as (t'' & Ht'' & l3 & m3 & Hw3 & Hb3).
    rewrite Hw' in Hw3. inversion Hw3. subst l3 m3.
    destruct Hb3 as [(m'' & Hheld & _)|[E _]]; [|discriminate E].
    exact (Hholder t'' Ht'' m'' Hheld).
Qed.

Theorem ranked_no_deadlock : forall (rank : lock -> nat) (st : lstate),
  rank_increasing rank st -> ~ deadlocked st.
Proof.
  intros rank st Hri (S & Hne & Hcyc).
  apply (max_rank_contradiction rank st S Hne Hcyc). intros t _. apply Hri.
Qed.

Lemma check_pattern : forall pats rank g H l m, check pats rank g = true -> In (H, (l, m)) pats -> m <> MTry ->
  holds l H = false /\
  ((forall h mh, In (h, mh) H -> rank h < rank l) \/ (holds g H = true /\ leaf pats g l m = true)).
Proof.
  intros pats rank g H l m Hc Hin Hm. unfold check in Hc. rewrite forallb_forall in Hc.
  specialize (Hc (H, (l, m)) Hin). cbn [fst snd] in Hc.
  apply orb_true_iff in Hc. destruct Hc as [Htry|Hc]; [destruct m; try discriminate Htry; exfalso; apply Hm; reflexivity|].
  apply andb_true_iff in Hc. destruct Hc as [Hre Hc]. split.
  - apply negb_true_iff in Hre. exact Hre.
  - apply orb_true_iff in Hc. destruct Hc as [Hr|Hg].
    + left. intros h mh Hh. rewrite forallb_forall in Hr. apply Nat.ltb_lt. exact (Hr (h, mh) Hh).
    + right. apply andb_true_iff in Hg. exact Hg.
Qed.

Lemma leaf_held : forall pats g l m H' r', leaf pats g l m = true -> In (H', r') pats -> holds l H' = true -> holds g H' = true.
Proof.
  intros pats g l m H' r' Hleaf Hin Hl. unfold leaf in Hleaf. apply andb_true_iff in Hleaf. destruct Hleaf as [Hleaf _].
  rewrite forallb_forall in Hleaf. specialize (Hleaf (H', r') Hin). cbn [fst] in Hleaf. rewrite Hl in Hleaf. exact Hleaf.
Qed.

Lemma leaf_writer : forall pats g l H', leaf pats g l MR = true -> In (H', (l, MW)) pats -> holds g H' = true.
Proof.
  intros pats g l H' Hleaf Hin. unfold leaf in Hleaf. apply andb_true_iff in Hleaf. destruct Hleaf as [_ Hw].
  rewrite forallb_forall in Hw. specialize (Hw (H', (l, MW)) Hin). cbn [fst snd] in Hw.
  rewrite Nat.eqb_refl in Hw. exact Hw.
Qed.

Theorem checked_no_deadlock : forall (pats : list pattern) (rank : lock -> nat) (g : lock) (st : lstate),
  check pats rank g = true -> conforms pats st -> gate_exclusive g st ->
  (forall t l, want (st t) <> Some (l, MTry)) ->
  ~ deadlocked st.
Proof.
  intros pats rank g st Hc Hconf Hex Hnotry (S & Hne & Hcyc).
  apply (max_rank_contradiction rank st S Hne Hcyc).
  intros t Ht l m Hw h mh Hh.
  destruct (Hconf t (l, m) Hw) as (H & Hin & Hset).
  assert (Hm : m <> MTry) by (intro E; subst m; exact (Hnotry t l Hw)).
  destruct (check_pattern pats rank g H l m Hc Hin Hm) as (Hnre & [Hr|[Hg Hleaf]]).
  - apply (Hr h mh). apply Hset. exact Hh.
  - exfalso.
    apply holds_In in Hg. destruct Hg as (mg & Hg). apply Hset in Hg.
    (* any member of S that holds g is t itself *)
    assert (Hgate : forall u H' r', In u S -> want (st u) = Some r' -> In (H', r') pats ->
                    (forall x, In x (held (st u)) <-> In x H') -> holds g H' = true -> u = t).
    { intros u H' r' _ _ _ Hset' Hg'. apply holds_In in Hg'. destruct Hg' as (mg' & Hg'). apply Hset' in Hg'.
      exact (Hex u t mg' mg Hg' Hg). }
    destruct (Hcyc t Ht) as (t' & Ht' & l0 & m0 & Hw0 & Hb). rewrite Hw in Hw0. inversion Hw0. subst l0 m0.
    destruct Hb as [(m' & Hheld & _)|[-> Hw']].
    + (* t' holds l; t' waits in a pattern that holds l, hence the gate, hence t' = t, which holds l itself *)
      destruct (Hcyc t' Ht') as (_ & _ & l2 & m2 & Hw2 & _).
      destruct (Hconf t' (l2, m2) Hw2) as (H' & Hin' & Hset').
      assert (Hl' : holds l H' = true) by (apply holds_In; exists m'; apply Hset'; exact Hheld).
      pose proof (leaf_held pats g l m H' (l2, m2) Hleaf Hin' Hl') as Hg'.
      pose proof (Hgate t' H' (l2, m2) Ht' Hw2 Hin' Hset' Hg') as E. subst t'.
      assert (Hl : holds l H = true) by (apply holds_In; exists m'; apply Hset; exact Hheld).
      rewrite Hl in Hnre. discriminate Hnre.
    + (* t' is a queued writer for l: its pattern is under the gate, so t' = t, but t wants to read *)
      destruct (Hconf t' (l, MW) Hw') as (H' & Hin' & Hset').
      pose proof (leaf_writer pats g l H' Hleaf Hin') as Hg'.
      pose proof (Hgate t' H' (l, MW) Ht' Hw' Hin' Hset' Hg') as E. subst t'.
      rewrite Hw in Hw'. discriminate Hw'.
Qed.

(* ---- non-vacuity and the mode semantics ---- *)
(* lock-order inversion *)
Definition abba_state : lstate :=
  fun t => match t with
           | 0 => {| held := [(1, MW)]; want := Some (2, MW) |}
           | 1 => {| held := [(2, MW)]; want := Some (1, MW) |}
           | _ => {| held := []; want := None |}
           end.
Example abba_deadlocked : deadlocked abba_state.
Proof.
  exists [0; 1]. split; [discriminate|].
  intros t [<-|[<-|[]]].
  - exists 1. split; [right; left; reflexivity|]. exists 2, MW. split; [reflexivity|]. left. exists MW. split; [left; reflexivity|reflexivity].
  - exists 0. split; [left; reflexivity|]. exists 1, MW. split; [reflexivity|]. left. exists MW. split; [left; reflexivity|reflexivity].
Qed.
Example abba_rejected : forall rank, check [([(1, MW)], (2, MW)); ([(2, MW)], (1, MW))] rank 0 = false.
Proof.
  intro rank. unfold check. cbn -[Nat.ltb].
  destruct (Nat.ltb (rank 1) (rank 2)) eqn:E1; cbn -[Nat.ltb]; [|reflexivity].
  destruct (Nat.ltb (rank 2) (rank 1)) eqn:E2; cbn -[Nat.ltb]; [|reflexivity].
  apply Nat.ltb_lt in E1. apply Nat.ltb_lt in E2. lia.
Qed.

(* the classic re-entrant read: thread 0 holds a read guard of lock 1 and asks for another one while
   thread 1 waits for the write lock - a deadlock; the same second read without a waiting writer is not blocked *)
Definition reentrant_read_state : lstate :=
  fun t => match t with
           | 0 => {| held := [(1, MR)]; want := Some (1, MR) |}
           | 1 => {| held := []; want := Some (1, MW) |}
           | _ => {| held := []; want := None |}
           end.
Example reentrant_read_deadlocked : deadlocked reentrant_read_state.
Proof.
  exists [0; 1]. split; [discriminate|].
  intros t [<-|[<-|[]]].
  - exists 1. split; [right; left; reflexivity|]. exists 1, MR. split; [reflexivity|]. right. split; reflexivity.
  - exists 0. split; [left; reflexivity|]. exists 1, MW. split; [reflexivity|]. left. exists MR. split; [left; reflexivity|reflexivity].
Qed.
Example reentrant_read_rejected : forall rank g, check [([(1, MR)], (1, MR))] rank g = false.
Proof. intros rank g. reflexivity. Qed.
Example readers_do_not_block_readers :
  let st : lstate := fun t => match t with 0 => {| held := [(1, MR)]; want := None |} | _ => {| held := []; want := Some (1, MR) |} end in
  ~ blocked_by st 1 0.
Proof.
  cbn. intros (l & m & Hw & [(m' & Hin & Hc)|[_ Hq]]).
  - inversion Hw; subst. destruct Hin as [E|[]]. inversion E; subst. discriminate Hc.
  - discriminate Hq.
Qed.
(* an inversion under a common gate lock 9 passes; it is rejected once an inner lock is also taken outside the gate *)
Example gated_inversion_accepted :
  check [([(9, MW)], (1, MW)); ([(9, MW)], (2, MW)); ([(9, MW); (1, MW)], (2, MW)); ([(9, MW); (2, MW)], (1, MW))]
        (rank_of [(9, 0); (1, 1); (2, 2)]) 9 = true.
Proof. vm_compute. reflexivity. Qed.
Example ungated_inversion_rejected :
  check [([(9, MW)], (1, MW)); ([(9, MW); (1, MW)], (2, MW)); ([(2, MW)], (1, MW))] (rank_of [(9, 0); (1, 1); (2, 2)]) 9 = false.
Proof. vm_compute. reflexivity. Qed.
(* a read under the gate of a lock whose writers also run outside the gate is not exempt (queued writer) *)
Example gated_read_with_ungated_writer_rejected :
  check [([(9, MW); (2, MW)], (1, MR)); ([], (1, MW)); ([(9, MW); (1, MR)], (2, MW))] (rank_of [(9, 0); (1, 1); (2, 2)]) 9 = false.
Proof. vm_compute. reflexivity. Qed.
