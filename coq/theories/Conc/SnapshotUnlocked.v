(* Conc/SnapshotUnlocked.v — the acquisition as it was BEFORE the publication lock (fix in /repo: snapshots copy
   the published state under publish_lock): kept for the regression witnesses of K-C03-torn.
   MODEL of snapshot acquisition and reads against the publication
   steps of commit and compaction (nervusdb-storage engine.rs / api.rs).
   One writer thread (thread 0; the engine's write_lock serialises writers) and any
   number of reader threads.  Each atomic step is the segment of real code between two
   schedule points (verif::point names in brackets).

   commit x      WLog [commit.logged]  WIdmap [commit.idmap]  WNodeLabels [commit.node_labels]  WRun [commit.run]
   compaction    CPersist [compact.persisted]  CSink [compact.sunk] (property B-tree rewritten IN PLACE)
                 CLog [compact.logged]  CRoot [compact.props_root]  CStats [compact.stats_root]
                 CClear [compact.runs_cleared]  CInstall [compact.segments]
   snapshot      RI2e [snap.i2e]  RRuns [snap.runs]  RSegs [snap.segments]  RLabels [snap.labels]
                 RNodeLabels [snap.node_labels]  RRoot [snap.props_root]  RStats (stats root, return)
   read          RRead: all nodes, label presence, property "p" of every node, all relationships,
                 evaluated from the fields copied at acquisition and the LIVE page heap.

   Restrictions of the model: transactions create nodes, set one property per node and
   create relationships (no deletes / label changes / index lookups); the label dictionary
   and statistics are not part of the view. *)
From Coq Require Import List ZArith Bool Arith.
From NDB Require Import Conc.Sched.
Import ListNotations.

Definition edge := (nat * nat)%type.

Record tx := { t_nodes : list nat; t_props : list (nat * Z); t_edges : list edge }.
Inductive wop := WCommit (x : tx) | WCompact.

Record l0run := { r_props : list (nat * Z); r_edges : list edge }.

Record view := {
  v_nodes : list nat;
  v_labeled : list bool;          (* per node of v_nodes: resolve_node_labels is Some *)
  v_props : list (option Z);      (* per node of v_nodes: node_property(n, "p") *)
  v_edges : list edge
}.

Record sshared := {
  s_nodes : list nat;             (* IdMap i2e (read directly under the idmap mutex) *)
  s_nlabels : list nat;           (* published_node_labels *)
  s_runs : list l0run;            (* published_runs, newest first *)
  s_segs : list (list edge);      (* published_segments, newest first *)
  s_root : bool;                  (* properties_root <> 0 *)
  s_heap : list (nat * Z);        (* property B-tree in the live page heap (first match wins) *)
  s_obs : list (nat * view)       (* ghost: views observed by RRead, oldest first *)
}.

Record local := {
  l_nodes : list nat; l_nlabels : list nat; l_runs : list l0run; l_segs : list (list edge); l_root : bool;
  l_cruns : list l0run            (* writer: the runs compaction captured at its start *)
}.

Inductive step :=
| WLog | WIdmap (ns : list nat) | WNodeLabels | WRun (r : l0run)
| CPersist | CSink | CLog | CRoot | CStats | CClear | CInstall
| RI2e | RRuns | RSegs | RLabels | RNodeLabels | RRoot | RStats | RRead.

Fixpoint assoc (n : nat) (l : list (nat * Z)) : option Z :=
  match l with
  | [] => None
  | (k, v) :: r => if Nat.eqb k n then Some v else assoc n r
  end.

Definition memb (n : nat) (l : list nat) : bool := existsb (Nat.eqb n) l.

Definition prop_of (l : local) (heap : list (nat * Z)) (n : nat) : option Z :=
  match assoc n (flat_map r_props (l_runs l)) with
  | Some v => Some v
  | None => if l_root l then assoc n heap else None
  end.

Definition view_of (l : local) (heap : list (nat * Z)) : view :=
  {| v_nodes := l_nodes l;
     v_labeled := map (fun n => memb n (l_nlabels l)) (l_nodes l);
     v_props := map (prop_of l heap) (l_nodes l);
     v_edges := flat_map r_edges (l_runs l) ++ concat (l_segs l) |}.

Definition set_sh (sh : sshared) nodes nlabels runs segs root heap : sshared :=
  {| s_nodes := nodes; s_nlabels := nlabels; s_runs := runs; s_segs := segs; s_root := root; s_heap := heap; s_obs := s_obs sh |}.

Definition ssem (a : step) (t : nat) (sh : sshared) (l : local) : option (sshared * local) :=
  let keep := Some (sh, l) in
  match a with
  | WLog => keep
  | WIdmap ns => Some (set_sh sh (s_nodes sh ++ ns) (s_nlabels sh) (s_runs sh) (s_segs sh) (s_root sh) (s_heap sh), l)
  | WNodeLabels => Some (set_sh sh (s_nodes sh) (s_nodes sh) (s_runs sh) (s_segs sh) (s_root sh) (s_heap sh), l)
  | WRun r => Some (set_sh sh (s_nodes sh) (s_nlabels sh) (r :: s_runs sh) (s_segs sh) (s_root sh) (s_heap sh), l)
  | CPersist => Some (sh, {| l_nodes := l_nodes l; l_nlabels := l_nlabels l; l_runs := l_runs l; l_segs := l_segs l; l_root := l_root l;
                            l_cruns := s_runs sh |})
  | CSink => Some (set_sh sh (s_nodes sh) (s_nlabels sh) (s_runs sh) (s_segs sh) (s_root sh)
                     (flat_map r_props (l_cruns l) ++ s_heap sh), l)
  | CLog => keep
  | CRoot => Some (set_sh sh (s_nodes sh) (s_nlabels sh) (s_runs sh) (s_segs sh) true (s_heap sh), l)
  | CStats => keep
  | CClear => Some (set_sh sh (s_nodes sh) (s_nlabels sh) [] (s_segs sh) (s_root sh) (s_heap sh), l)
  | CInstall => Some (set_sh sh (s_nodes sh) (s_nlabels sh) (s_runs sh) (flat_map r_edges (l_cruns l) :: s_segs sh) (s_root sh) (s_heap sh), l)
  | RI2e => Some (sh, {| l_nodes := s_nodes sh; l_nlabels := l_nlabels l; l_runs := l_runs l; l_segs := l_segs l; l_root := l_root l; l_cruns := l_cruns l |})
  | RRuns => Some (sh, {| l_nodes := l_nodes l; l_nlabels := l_nlabels l; l_runs := s_runs sh; l_segs := l_segs l; l_root := l_root l; l_cruns := l_cruns l |})
  | RSegs => Some (sh, {| l_nodes := l_nodes l; l_nlabels := l_nlabels l; l_runs := l_runs l; l_segs := s_segs sh; l_root := l_root l; l_cruns := l_cruns l |})
  | RLabels => keep
  | RNodeLabels => Some (sh, {| l_nodes := l_nodes l; l_nlabels := s_nlabels sh; l_runs := l_runs l; l_segs := l_segs l; l_root := l_root l; l_cruns := l_cruns l |})
  | RRoot => Some (sh, {| l_nodes := l_nodes l; l_nlabels := l_nlabels l; l_runs := l_runs l; l_segs := l_segs l; l_root := s_root sh; l_cruns := l_cruns l |})
  | RStats => keep
  | RRead => Some ({| s_nodes := s_nodes sh; s_nlabels := s_nlabels sh; s_runs := s_runs sh; s_segs := s_segs sh; s_root := s_root sh;
                      s_heap := s_heap sh; s_obs := s_obs sh ++ [(t, view_of l (s_heap sh))] |}, l)
  end.

Definition commit_steps (x : tx) : list step :=
  [WLog; WIdmap (t_nodes x); WNodeLabels; WRun {| r_props := t_props x; r_edges := t_edges x |}].
Definition compact_steps : list step := [CPersist; CSink; CLog; CRoot; CStats; CClear; CInstall].
Definition steps_of (o : wop) : list step := match o with WCommit x => commit_steps x | WCompact => compact_steps end.
Definition acquire_steps : list step := [RI2e; RRuns; RSegs; RLabels; RNodeLabels; RRoot; RStats].

Definition writer_prog (h : list wop) : list step := flat_map steps_of h.
Definition reader_prog (reads : nat) : list step := acquire_steps ++ repeat RRead reads.

Definition local0 : local := {| l_nodes := []; l_nlabels := []; l_runs := []; l_segs := []; l_root := false; l_cruns := [] |}.
Definition shared0 : sshared := {| s_nodes := []; s_nlabels := []; s_runs := []; s_segs := []; s_root := false; s_heap := []; s_obs := [] |}.

Definition scfg := cfg sshared local step.
(* thread 0 is the writer, threads 1.. are readers with the given numbers of reads *)
Definition sinit (h : list wop) (readers : list nat) : scfg :=
  {| Sched.shared := shared0; threads := pool local0 (writer_prog h :: map reader_prog readers) |}.
Definition srun (sched : list nat) (c : scfg) : scfg := run ssem sched c.

(* ---- specification: the committed state after a prefix of the history ---- *)
Record spec := { sp_nodes : list nat; sp_props : list (nat * Z); sp_edges : list edge }.
Definition spec0 : spec := {| sp_nodes := []; sp_props := []; sp_edges := [] |}.
Definition apply_op (s : spec) (o : wop) : spec :=
  match o with
  | WCommit x => {| sp_nodes := sp_nodes s ++ t_nodes x; sp_props := t_props x ++ sp_props s; sp_edges := t_edges x ++ sp_edges s |}
  | WCompact => s
  end.
Definition spec_of (h : list wop) : spec := fold_left apply_op h spec0.
Definition view_of_spec (s : spec) : view :=
  {| v_nodes := sp_nodes s;
     v_labeled := map (fun n => memb n (sp_nodes s)) (sp_nodes s);
     v_props := map (fun n => assoc n (sp_props s)) (sp_nodes s);
     v_edges := sp_edges s |}.

(* executing a list of steps of one thread with nobody else moving *)
Definition exec_steps (t : nat) (l : list step) (st : sshared * local) : sshared * local :=
  fold_left (fun st a => match ssem a t (fst st) (snd st) with Some st' => st' | None => st end) l st.

(* ---- decidable equality of views (used by the witnesses and by Corr/C03) ---- *)
Fixpoint list_beq {A} (e : A -> A -> bool) (a b : list A) : bool :=
  match a, b with
  | [], [] => true
  | x :: a', y :: b' => e x y && list_beq e a' b'
  | _, _ => false
  end.
Definition edge_eqb (a b : edge) : bool := Nat.eqb (fst a) (fst b) && Nat.eqb (snd a) (snd b).
Definition optz_eqb (a b : option Z) : bool :=
  match a, b with Some x, Some y => Z.eqb x y | None, None => true | _, _ => false end.
Definition view_eqb (a b : view) : bool :=
  list_beq Nat.eqb (v_nodes a) (v_nodes b) && list_beq Bool.eqb (v_labeled a) (v_labeled b) &&
  list_beq optz_eqb (v_props a) (v_props b) && list_beq edge_eqb (v_edges a) (v_edges b).

(* the view is the committed state after SOME prefix of the history *)
Definition consistent_with (h : list wop) (v : view) : bool :=
  existsb (fun j => view_eqb v (view_of_spec (spec_of (firstn j h)))) (seq 0 (S (length h))).

(* observations of reader r, oldest first *)
Definition obs_of (r : nat) (sh : sshared) : list view :=
  map snd (filter (fun p => Nat.eqb (fst p) r) (s_obs sh)).

Definition all_same (l : list view) : bool :=
  match l with [] => true | v :: rest => forallb (view_eqb v) rest end.
