(* Conc/Snapshot.v — MODEL of snapshot acquisition and reads under the publication lock
   (nervusdb-storage engine.rs / api.rs after the fix "snapshots copy the published state under a
   publication lock").  Commit and compaction hold publish_lock for writing across their publication
   steps; GraphStore::snapshot / GraphEngine::begin_read hold it for reading while they copy the fields.
   Hence a publication section and an acquisition never overlap and each is ONE atomic step here
   (that the lock really excludes the overlap is probed on the real code by the driver, see harness c03).
   One writer thread (thread 0; write_lock serialises writers), any number of readers.

   commit x      WLog       build + WAL append + fsync                           [.. commit.logged]
                 WPublish x publish_lock.write: id map, node labels, run          [.. commit.run]
   compaction    CPersist   segment pages written and synced                      [.. compact.persisted]
                 CSink      properties of the published runs sunk into the property B-tree IN PLACE [.. compact.sunk]
                 CLog       manifest + checkpoint records                         [.. compact.logged]
                 CPublish   publish_lock.write: property root, runs cleared, segments installed [.. compact.segments]
   snapshot      RAcquire   publish_lock.read: id map, runs, segments, labels, node labels, roots [r.start .. r.acquired]
   read          RRead      all nodes, label presence, property "p" of every node, all relationships, through the
                            copied fields and the LIVE page heap

   Ghost state (not in the code): s_hist = operations whose publication completed; s_sinks = number of sink
   steps so far; s_sunk = the heap already holds the properties of the published runs; every observation
   records the snapshot's s_hist and whether the read is SAFE = no sink step ran since the acquisition, or the
   snapshot has no property root (it never reads the heap).

   Restrictions: transactions create nodes, set one property per node and create relationships (no deletes,
   label changes, index lookups); label dictionary and statistics are not part of the view; compaction sinks
   the published runs (the code sinks its clone of them taken under write_lock - the same list). *)
From Coq Require Import List ZArith Bool Arith.
From NDB Require Import Conc.Sched.
Import ListNotations.

Definition edge := (nat * nat)%type.

Record tx := { t_nodes : list nat; t_props : list (nat * Z); t_edges : list edge }.
Inductive wop := WCommit (x : tx) | WCompact.

Record l0run := { r_props : list (nat * Z); r_edges : list edge }.
Definition run_of (x : tx) : l0run := {| r_props := t_props x; r_edges := t_edges x |}.

Record view := {
  v_nodes : list nat;
  v_labeled : list bool;
  v_props : list (option Z);
  v_edges : list edge
}.

Record obs := { o_t : nat; o_view : view; o_hist : list wop; o_safe : bool }.

Record sshared := {
  s_nodes : list nat; s_nlabels : list nat; s_runs : list l0run; s_segs : list (list edge);
  s_root : bool; s_heap : list (nat * Z);
  s_hist : list wop; s_sinks : nat; s_sunk : bool;
  s_obs : list obs
}.

Record local := {
  l_nodes : list nat; l_nlabels : list nat; l_runs : list l0run; l_segs : list (list edge); l_root : bool;
  l_hist : list wop; l_sinks : nat; l_acq : bool
}.

Inductive step := WLog | WPublish (x : tx) | CPersist | CSink | CLog | CPublish | RAcquire | RRead.

Fixpoint assoc (n : nat) (l : list (nat * Z)) : option Z :=
  match l with
  | [] => None
  | (k, v) :: r => if Nat.eqb k n then Some v else assoc n r
  end.

Definition memb (n : nat) (l : list nat) : bool := existsb (Nat.eqb n) l.

Definition prop_of (l : local) (heap : list (nat * Z)) (n : nat) : option Z :=
  match assoc n (flat_map r_props (l_runs l)) with
  | Some v => Some v
  | None => if l_root l then assoc n heap else None
  end.

Definition view_of (l : local) (heap : list (nat * Z)) : view :=
  {| v_nodes := l_nodes l;
     v_labeled := map (fun n => memb n (l_nlabels l)) (l_nodes l);
     v_props := map (prop_of l heap) (l_nodes l);
     v_edges := flat_map r_edges (l_runs l) ++ concat (l_segs l) |}.

Definition ssem (a : step) (t : nat) (sh : sshared) (l : local) : option (sshared * local) :=
  match a with
  | WLog | CPersist | CLog => Some (sh, l)
  | WPublish x =>
      Some ({| s_nodes := s_nodes sh ++ t_nodes x; s_nlabels := s_nodes sh ++ t_nodes x; s_runs := run_of x :: s_runs sh;
               s_segs := s_segs sh; s_root := s_root sh; s_heap := s_heap sh;
               s_hist := s_hist sh ++ [WCommit x]; s_sinks := s_sinks sh; s_sunk := false; s_obs := s_obs sh |}, l)
  | CSink =>
      Some ({| s_nodes := s_nodes sh; s_nlabels := s_nlabels sh; s_runs := s_runs sh; s_segs := s_segs sh; s_root := s_root sh;
               s_heap := flat_map r_props (s_runs sh) ++ s_heap sh;
               s_hist := s_hist sh; s_sinks := S (s_sinks sh); s_sunk := true; s_obs := s_obs sh |}, l)
  | CPublish =>
      Some ({| s_nodes := s_nodes sh; s_nlabels := s_nlabels sh; s_runs := [];
               s_segs := flat_map r_edges (s_runs sh) :: s_segs sh; s_root := true; s_heap := s_heap sh;
               s_hist := s_hist sh ++ [WCompact]; s_sinks := s_sinks sh; s_sunk := true; s_obs := s_obs sh |}, l)
  | RAcquire =>
      Some (sh, {| l_nodes := s_nodes sh; l_nlabels := s_nlabels sh; l_runs := s_runs sh; l_segs := s_segs sh; l_root := s_root sh;
                   l_hist := s_hist sh; l_sinks := s_sinks sh; l_acq := true |})
  | RRead =>
      Some ({| s_nodes := s_nodes sh; s_nlabels := s_nlabels sh; s_runs := s_runs sh; s_segs := s_segs sh; s_root := s_root sh;
               s_heap := s_heap sh; s_hist := s_hist sh; s_sinks := s_sinks sh; s_sunk := s_sunk sh;
               s_obs := s_obs sh ++ [{| o_t := t; o_view := view_of l (s_heap sh); o_hist := l_hist l;
                                        o_safe := l_acq l && (Nat.eqb (s_sinks sh) (l_sinks l) || negb (l_root l)) |}] |}, l)
  end.

Definition commit_steps (x : tx) : list step := [WLog; WPublish x].
Definition compact_steps : list step := [CPersist; CSink; CLog; CPublish].
Definition steps_of (o : wop) : list step := match o with WCommit x => commit_steps x | WCompact => compact_steps end.
Definition writer_prog (h : list wop) : list step := flat_map steps_of h.
Definition reader_prog (reads : nat) : list step := RAcquire :: repeat RRead reads.

Definition local0 : local :=
  {| l_nodes := []; l_nlabels := []; l_runs := []; l_segs := []; l_root := false; l_hist := []; l_sinks := 0; l_acq := false |}.
Definition shared0 : sshared :=
  {| s_nodes := []; s_nlabels := []; s_runs := []; s_segs := []; s_root := false; s_heap := [];
     s_hist := []; s_sinks := 0; s_sunk := true; s_obs := [] |}.

Definition scfg := cfg sshared local step.
Definition sinit (h : list wop) (readers : list nat) : scfg :=
  {| Sched.shared := shared0; threads := pool local0 (writer_prog h :: map reader_prog readers) |}.
Definition srun (sched : list nat) (c : scfg) : scfg := run ssem sched c.

(* ---- specification: the committed state after a prefix of the history ---- *)
Record spec := { sp_nodes : list nat; sp_props : list (nat * Z); sp_edges : list edge }.
Definition spec0 : spec := {| sp_nodes := []; sp_props := []; sp_edges := [] |}.
Definition apply_op (s : spec) (o : wop) : spec :=
  match o with
  | WCommit x => {| sp_nodes := sp_nodes s ++ t_nodes x; sp_props := t_props x ++ sp_props s; sp_edges := t_edges x ++ sp_edges s |}
  | WCompact => s
  end.
Definition spec_of (h : list wop) : spec := fold_left apply_op h spec0.
Definition view_of_spec (s : spec) : view :=
  {| v_nodes := sp_nodes s;
     v_labeled := map (fun n => memb n (sp_nodes s)) (sp_nodes s);
     v_props := map (fun n => assoc n (sp_props s)) (sp_nodes s);
     v_edges := sp_edges s |}.

(* ---- decidable equality of views ---- *)
Fixpoint list_beq {A} (e : A -> A -> bool) (a b : list A) : bool :=
  match a, b with
  | [], [] => true
  | x :: a', y :: b' => e x y && list_beq e a' b'
  | _, _ => false
  end.
Definition edge_eqb (a b : edge) : bool := Nat.eqb (fst a) (fst b) && Nat.eqb (snd a) (snd b).
Definition optz_eqb (a b : option Z) : bool :=
  match a, b with Some x, Some y => Z.eqb x y | None, None => true | _, _ => false end.
Definition view_eqb (a b : view) : bool :=
  list_beq Nat.eqb (v_nodes a) (v_nodes b) && list_beq Bool.eqb (v_labeled a) (v_labeled b) &&
  list_beq optz_eqb (v_props a) (v_props b) && list_beq edge_eqb (v_edges a) (v_edges b).

Definition obs_of (r : nat) (sh : sshared) : list obs := filter (fun o => Nat.eqb (o_t o) r) (s_obs sh).
