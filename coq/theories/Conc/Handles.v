(* Conc/Handles.v — MODEL of several database handles (Db::open / GraphEngine::open)
   on the same files, in the same process or in different processes.
   A handle is a thread of the common scheduler; its operations are atomic at this
   level (each is one public API call).  Shared: the lock state of the data file, the
   sequence of writes the files received (each tagged with the writing handle and the
   lock holder at that time) and the ghost trace of results.
     LockFirst   the code after the repair: GraphEngine::open takes an exclusive advisory OS lock
                 (on <ndb>.lock) BEFORE it touches the files and fails if it is taken; the lock is
                 released when the engine is dropped/closed.  A refused open has no effect at all.
     LockLate    a variant that opens the page file and the log and cuts the log's torn tail first and
                 takes the lock afterwards: every second open is still refused, but it has already
                 written to the files of the live handle (kept to show that the theorem sees it)
     NoLock      the pinned tree: no lock, every open succeeds *)
From Coq Require Import List ZArith Bool Arith.
From NDB Require Import Conc.Sched.
Import ListNotations.

(* HOffline: an offline tool (vacuum_in_place, BulkLoader::commit) run by this thread: it takes the
   database lock, rewrites the files and releases the lock within one call *)
Inductive hop := HOpen | HCommit (d : Z) | HCompact | HClose | HOffline.

Inductive wop := WCommit (d : Z) | WCompact | WClose | WOffline | WOpenScan.   (* WOpenScan: what open() itself writes (torn tail cut, header init) *)

Inductive lockmode := LockFirst | LockLate | NoLock.
Definition locks (m : lockmode) : bool := match m with NoLock => false | _ => true end.
Definition scan_first (m : lockmode) : bool := match m with LockLate => true | _ => false end.

Inductive hres :=
| ROpenOk | ROpenRefused | RAlreadyOpen     (* results of HOpen *)
| RWrote (w : wop)                          (* a write reached the files *)
| RClosed
| RNoHandle                                 (* operation on a handle that is not open *)
| ROffline | ROfflineRefused.               (* offline tool ran / was refused because the database is open *)

Record hshared := {
  lk : option nat;                               (* holder of the OS lock on the data file *)
  files : list (nat * option nat * wop);         (* writes: (writer, lock holder at that time, what) *)
  results : list (nat * hres)                    (* ghost: result of every executed operation *)
}.

Definition push (sh : hshared) (t : nat) (r : hres) : list (nat * hres) := results sh ++ [(t, r)].

(* thread-local: is this handle open *)
Definition hsem (m : lockmode) (o : hop) (t : nat) (sh : hshared) (opened : bool) : option (hshared * bool) :=
  match o with
  | HOpen =>
      if opened then Some ({| lk := lk sh; files := files sh; results := push sh t RAlreadyOpen |}, true)
      else if locks m then
        let fs := if scan_first m then files sh ++ [(t, lk sh, WOpenScan)] else files sh in
        match lk sh with
        | None => Some ({| lk := Some t; files := fs; results := push sh t ROpenOk |}, true)
        | Some _ => Some ({| lk := lk sh; files := fs; results := push sh t ROpenRefused |}, false)
        end
      else Some ({| lk := lk sh; files := files sh; results := push sh t ROpenOk |}, true)
  | HCommit d =>
      if opened then Some ({| lk := lk sh; files := files sh ++ [(t, lk sh, WCommit d)]; results := push sh t (RWrote (WCommit d)) |}, true)
      else Some ({| lk := lk sh; files := files sh; results := push sh t RNoHandle |}, false)
  | HCompact =>
      if opened then Some ({| lk := lk sh; files := files sh ++ [(t, lk sh, WCompact)]; results := push sh t (RWrote WCompact) |}, true)
      else Some ({| lk := lk sh; files := files sh; results := push sh t RNoHandle |}, false)
  | HClose =>
      if opened then Some ({| lk := if locks m then None else lk sh; files := files sh ++ [(t, lk sh, WClose)];
                              results := push sh t RClosed |}, false)
      else Some ({| lk := lk sh; files := files sh; results := push sh t RNoHandle |}, false)
  | HOffline =>
      if locks m then
        match lk sh with
        | None => Some ({| lk := None; files := files sh ++ [(t, Some t, WOffline)]; results := push sh t ROffline |}, opened)
        | Some _ => Some ({| lk := lk sh; files := files sh; results := push sh t ROfflineRefused |}, opened)
        end
      else Some ({| lk := lk sh; files := files sh ++ [(t, lk sh, WOffline)]; results := push sh t ROffline |}, opened)
  end.

Definition hcfg := cfg hshared bool hop.

Definition hinit (progs : list (list hop)) : hcfg :=
  {| Sched.shared := {| lk := None; files := []; results := [] |}; threads := pool false progs |}.

Definition hrun (locking : lockmode) (sched : list nat) (c : hcfg) : hcfg := run (hsem locking) sched c.

(* ---- the specification side: a single handle ----
   `scan` accepts exactly the result traces in which, ignoring refused / no-handle
   results, operations come in sessions  open_h  write_h*  close_h : the history of ONE
   handle that is opened and closed repeatedly.  It returns the handle open at the end. *)
Fixpoint scan (l : list (nat * hres)) (cur : option nat) : option (option nat) :=
  match l with
  | [] => Some cur
  | (t, r) :: rest =>
      match r, cur with
      | ROpenOk, None => scan rest (Some t)
      | ROpenOk, Some _ => None
      | RWrote _, Some h => if Nat.eqb h t then scan rest cur else None
      | RWrote _, None => None
      | RClosed, Some h => if Nat.eqb h t then scan rest None else None
      | RClosed, None => None
      | RAlreadyOpen, Some h => if Nat.eqb h t then scan rest cur else None
      | RAlreadyOpen, None => None
      | ROpenRefused, Some h => if Nat.eqb h t then None else scan rest cur   (* refused only while another handle holds it *)
      | ROpenRefused, None => None
      | RNoHandle, _ => scan rest cur
      | ROffline, None => scan rest cur               (* an offline tool runs only while no handle is open *)
      | ROffline, Some _ => None
      | ROfflineRefused, Some _ => scan rest cur
      | ROfflineRefused, None => None
      end
  end.

Definition single_handle_history (l : list (nat * hres)) : bool :=
  match scan l None with Some _ => true | None => false end.

Definition writes_by_holder (f : list (nat * option nat * wop)) : bool :=
  forallb (fun e => match e with (t, Some h, _) => Nat.eqb t h | (_, None, _) => false end) f.

(* the code as it is now *)
Definition current_locking : lockmode := LockFirst.
