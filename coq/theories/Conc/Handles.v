(* Conc/Handles.v — MODEL of several database handles (Db::open / GraphEngine::open)
   on the same files, in the same process or in different processes.
   A handle is a thread of the common scheduler; its operations are atomic at this
   level (each is one public API call).  Shared: the lock state of the data file, the
   sequence of writes the files received (each tagged with the writing handle and the
   lock holder at that time) and the ghost trace of results.
     locking = true    the code after the repair: GraphEngine::open takes an exclusive
                       advisory OS lock on the .ndb file and fails if it is taken;
                       the lock is released when the engine is dropped/closed
     locking = false   the pinned tree: no lock, every open succeeds *)
From Coq Require Import List ZArith Bool Arith.
From NDB Require Import Conc.Sched.
Import ListNotations.

Inductive hop := HOpen | HCommit (d : Z) | HCompact | HClose.

Inductive wop := WCommit (d : Z) | WCompact | WClose.

Inductive hres :=
| ROpenOk | ROpenRefused | RAlreadyOpen     (* results of HOpen *)
| RWrote (w : wop)                          (* a write reached the files *)
| RClosed
| RNoHandle.                                (* operation on a handle that is not open *)

Record hshared := {
  lk : option nat;                               (* holder of the OS lock on the data file *)
  files : list (nat * option nat * wop);         (* writes: (writer, lock holder at that time, what) *)
  results : list (nat * hres)                    (* ghost: result of every executed operation *)
}.

Definition push (sh : hshared) (t : nat) (r : hres) : list (nat * hres) := results sh ++ [(t, r)].

(* thread-local: is this handle open *)
Definition hsem (locking : bool) (o : hop) (t : nat) (sh : hshared) (opened : bool) : option (hshared * bool) :=
  match o with
  | HOpen =>
      if opened then Some ({| lk := lk sh; files := files sh; results := push sh t RAlreadyOpen |}, true)
      else if locking then
        match lk sh with
        | None => Some ({| lk := Some t; files := files sh; results := push sh t ROpenOk |}, true)
        | Some _ => Some ({| lk := lk sh; files := files sh; results := push sh t ROpenRefused |}, false)
        end
      else Some ({| lk := lk sh; files := files sh; results := push sh t ROpenOk |}, true)
  | HCommit d =>
      if opened then Some ({| lk := lk sh; files := files sh ++ [(t, lk sh, WCommit d)]; results := push sh t (RWrote (WCommit d)) |}, true)
      else Some ({| lk := lk sh; files := files sh; results := push sh t RNoHandle |}, false)
  | HCompact =>
      if opened then Some ({| lk := lk sh; files := files sh ++ [(t, lk sh, WCompact)]; results := push sh t (RWrote WCompact) |}, true)
      else Some ({| lk := lk sh; files := files sh; results := push sh t RNoHandle |}, false)
  | HClose =>
      if opened then Some ({| lk := if locking then None else lk sh; files := files sh ++ [(t, lk sh, WClose)];
                              results := push sh t RClosed |}, false)
      else Some ({| lk := lk sh; files := files sh; results := push sh t RNoHandle |}, false)
  end.

Definition hcfg := cfg hshared bool hop.

Definition hinit (progs : list (list hop)) : hcfg :=
  {| Sched.shared := {| lk := None; files := []; results := [] |}; threads := pool false progs |}.

Definition hrun (locking : bool) (sched : list nat) (c : hcfg) : hcfg := run (hsem locking) sched c.

(* ---- the specification side: a single handle ----
   `scan` accepts exactly the result traces in which, ignoring refused / no-handle
   results, operations come in sessions  open_h  write_h*  close_h : the history of ONE
   handle that is opened and closed repeatedly.  It returns the handle open at the end. *)
Fixpoint scan (l : list (nat * hres)) (cur : option nat) : option (option nat) :=
  match l with
  | [] => Some cur
  | (t, r) :: rest =>
      match r, cur with
      | ROpenOk, None => scan rest (Some t)
      | ROpenOk, Some _ => None
      | RWrote _, Some h => if Nat.eqb h t then scan rest cur else None
      | RWrote _, None => None
      | RClosed, Some h => if Nat.eqb h t then scan rest None else None
      | RClosed, None => None
      | RAlreadyOpen, Some h => if Nat.eqb h t then scan rest cur else None
      | RAlreadyOpen, None => None
      | ROpenRefused, Some h => if Nat.eqb h t then None else scan rest cur   (* refused only while another handle holds it *)
      | ROpenRefused, None => None
      | RNoHandle, _ => scan rest cur
      end
  end.

Definition single_handle_history (l : list (nat * hres)) : bool :=
  match scan l None with Some _ => true | None => false end.

Definition writes_by_holder (f : list (nat * option nat * wop)) : bool :=
  forallb (fun e => match e with (t, Some h, _) => Nat.eqb t h | (_, None, _) => false end) f.

(* the code as it is now *)
Definition current_locking : bool := true.
