(* Conc/Snapshot_proofs.v — PROOFS for Conc/Snapshot.v (acquisition under the publication lock).
     snapshot_consistent   for EVERY history, EVERY number of readers and EVERY schedule: every SAFE observation
                           (no sink step since the acquisition, or a snapshot without property root) is exactly the
                           committed state after the j operations whose publication had completed when the
                           snapshot was acquired; j <= length h and the prefix is firstn j h
     inplace_unstable      witness that an UNSAFE observation can differ (K-C03-inplace) *)
From Coq Require Import List ZArith Bool Arith Lia.
From NDB Require Import Conc.Sched Conc.Snapshot.
Import ListNotations.

Lemma assoc_app : forall n a b, assoc n (a ++ b) = match assoc n a with Some v => Some v | None => assoc n b end.
Proof.
  intros n a b; induction a as [|[k v] a IH]; [reflexivity|].
  cbn. destruct (Nat.eqb k n); [reflexivity|exact IH].
Qed.

Lemma spec_of_snoc : forall h o, spec_of (h ++ [o]) = apply_op (spec_of h) o.
Proof. intros; unfold spec_of; rewrite fold_left_app; reflexivity. Qed.

Definition prefix {A} (a b : list A) : Prop := exists c, b = a ++ c.
Lemma prefix_refl : forall A (a : list A), prefix a a.
Proof. intros; exists []; rewrite app_nil_r; reflexivity. Qed.
Lemma prefix_snoc : forall A (a b : list A) x, prefix a b -> prefix a (b ++ [x]).
Proof. intros A a b x [c ->]. exists (c ++ [x]). rewrite app_assoc. reflexivity. Qed.

Definition lookup (sh : sshared) (n : nat) : option Z :=
  match assoc n (flat_map r_props (s_runs sh)) with
  | Some v => Some v
  | None => if s_root sh then assoc n (s_heap sh) else None
  end.

Definition M1 (sh : sshared) : Prop :=
  s_nodes sh = sp_nodes (spec_of (s_hist sh)) /\
  s_nlabels sh = sp_nodes (spec_of (s_hist sh)) /\
  flat_map r_edges (s_runs sh) ++ concat (s_segs sh) = sp_edges (spec_of (s_hist sh)) /\
  (forall n, lookup sh n = assoc n (sp_props (spec_of (s_hist sh)))) /\
  (s_sunk sh = true -> forall n v, assoc n (flat_map r_props (s_runs sh)) = Some v -> assoc n (s_heap sh) = Some v) /\
  (s_root sh = false -> forall n, assoc n (flat_map r_props (s_runs sh)) = None -> assoc n (s_heap sh) = None).

Fixpoint wf (sunk : bool) (l : list step) : bool :=
  match l with
  | [] => true
  | a :: r =>
      match a with
      | CPublish => sunk && wf true r
      | CSink => wf true r
      | WPublish _ => wf false r
      | _ => wf sunk r
      end
  end.

Definition reader_step (a : step) : bool := match a with RAcquire | RRead => true | _ => false end.

Definition Rinv (sh : sshared) (l : local) : Prop :=
  l_acq l = true ->
  prefix (l_hist l) (s_hist sh) /\ l_sinks l <= s_sinks sh /\
  ((s_sinks sh = l_sinks l \/ l_root l = false) -> view_of l (s_heap sh) = view_of_spec (spec_of (l_hist l))).

Definition Oinv (sh : sshared) : Prop :=
  forall o, In o (s_obs sh) -> o_safe o = true ->
    o_view o = view_of_spec (spec_of (o_hist o)) /\ prefix (o_hist o) (s_hist sh).

Definition Inv (c : scfg) : Prop :=
  M1 (Sched.shared c) /\
  wf (s_sunk (Sched.shared c)) (todo (threads c 0)) = true /\
  (forall t, t <> 0 -> forallb reader_step (todo (threads c t)) = true) /\
  (forall t, Rinv (Sched.shared c) (loc (threads c t))) /\
  Oinv (Sched.shared c).

Lemma wf_writer_prog : forall h b, wf b (writer_prog h) = true.
Proof.
  induction h as [|o h IH]; intro b; [reflexivity|].
  destruct o as [x|]; cbn [writer_prog flat_map steps_of commit_steps compact_steps app wf]; fold (writer_prog h); apply IH.
Qed.

Lemma reader_prog_steps : forall k, forallb reader_step (reader_prog k) = true.
Proof. intro k. cbn. induction k; [reflexivity|exact IHk]. Qed.

Lemma init_inv : forall h readers, Inv (sinit h readers).
Proof.
  intros h readers. unfold Inv. cbn [Sched.shared sinit threads pool todo loc nth].
  split; [|split; [|split; [|split]]].
  - repeat split; try reflexivity; cbn; intros; discriminate.
  - cbn. apply wf_writer_prog.
  - intros t Ht. destruct t as [|t']; [contradiction|]. cbn [nth].
    destruct (nth_in_or_default t' (map reader_prog readers) []) as [Hin|Hd].
    + apply in_map_iff in Hin. destruct Hin as (k & <- & _). apply reader_prog_steps.
    + rewrite Hd. reflexivity.
  - intros t Hacq. discriminate Hacq.
  - intros o [].
Qed.

(* a view only depends on the heap through the root *)
Lemma view_of_rootless : forall l h1 h2, l_root l = false -> view_of l h1 = view_of l h2.
Proof.
  intros l h1 h2 Hr. unfold view_of. f_equal. apply map_ext. intro n. unfold prop_of. rewrite Hr. reflexivity.
Qed.

Lemma acquire_view : forall sh, M1 sh ->
  view_of {| l_nodes := s_nodes sh; l_nlabels := s_nlabels sh; l_runs := s_runs sh; l_segs := s_segs sh; l_root := s_root sh;
             l_hist := s_hist sh; l_sinks := s_sinks sh; l_acq := true |} (s_heap sh) = view_of_spec (spec_of (s_hist sh)).
Proof.
  intros sh (Hn & Hl & He & Hp & _ & _). unfold view_of, view_of_spec; cbn. rewrite Hn, Hl, He. f_equal.
  apply map_ext. intro n. rewrite <- Hp. reflexivity.
Qed.

(* shared changes that keep heap and sink count and only extend the history keep every reader invariant *)
Lemma Rinv_keep : forall sh sh' l, Rinv sh l ->
  s_heap sh' = s_heap sh -> s_sinks sh' = s_sinks sh -> prefix (s_hist sh) (s_hist sh') -> Rinv sh' l.
Proof.
  intros sh sh' l H Hh Hs [c Hc] Hacq. destruct (H Hacq) as ([c0 Hp] & Hle & Hv).
  rewrite Hh, Hs. split; [|split; [exact Hle|exact Hv]].
  exists (c0 ++ c). rewrite Hc, Hp, app_assoc. reflexivity.
Qed.

Lemma Oinv_keep : forall sh sh', Oinv sh -> s_obs sh' = s_obs sh -> prefix (s_hist sh) (s_hist sh') -> Oinv sh'.
Proof.
  intros sh sh' H Ho [c Hc] o Hin Hs. rewrite Ho in Hin. destruct (H o Hin Hs) as (Hv & [c0 Hp]).
  split; [exact Hv|]. exists (c0 ++ c). rewrite Hc, Hp, app_assoc. reflexivity.
Qed.

Lemma step_inv : forall t c, Inv c -> Inv (step_thread ssem t c).
Proof.
  intros t c (HM & Hwf & Hro & HR & HO). unfold step_thread.
  destruct (todo (threads c t)) as [|a rest] eqn:El; [exact (conj HM (conj Hwf (conj Hro (conj HR HO))))|].
  (* a writer step can only be executed by thread 0 *)
  assert (Ht0 : reader_step a = false -> t = 0).
  { intro Ha. destruct (Nat.eq_dec t 0) as [E|Hne]; [exact E|].
    specialize (Hro t Hne). rewrite El in Hro. cbn in Hro. rewrite Ha in Hro. discriminate Hro. }
  (* bookkeeping common to all cases: todo lists after popping the head of thread t *)
  assert (Hro' : forall l' u, u <> 0 -> forallb reader_step (todo (upd (threads c) t {| todo := rest; loc := l' |} u)) = true).
  { intros l' u Hu. destruct (Nat.eq_dec u t) as [->|Hne].
    - rewrite upd_same. cbn. specialize (Hro t Hu). rewrite El in Hro. cbn in Hro. apply andb_true_iff in Hro. apply Hro.
    - rewrite (upd_other _ t _ u Hne). apply Hro. exact Hu. }
  set (sh := Sched.shared c) in *.
  destruct a; cbn [ssem].
  - (* WLog *)
    assert (E : t = 0) by (apply Ht0; reflexivity). subst t.
    split; [exact HM|split; [|split; [apply Hro'|split; [|exact HO]]]]; cbn [Sched.shared threads].
    + rewrite upd_same. cbn. rewrite El in Hwf. exact Hwf.
    + intro u. destruct (Nat.eq_dec u 0) as [->|Hne]; [rewrite upd_same; cbn; apply HR|rewrite (upd_other _ 0 _ u Hne); apply HR].
  - (* WPublish x *)
    assert (E : t = 0) by (apply Ht0; reflexivity). subst t.
    destruct HM as (Hn & Hl & He & Hp & Hsk & Hrt).
    split; [|split; [|split; [apply Hro'|split]]]; cbn [Sched.shared threads s_nodes s_nlabels s_runs s_segs s_root s_heap s_hist s_sinks s_sunk s_obs].
    + unfold M1; cbn [s_nodes s_nlabels s_runs s_segs s_root s_heap s_hist s_sunk]. rewrite spec_of_snoc. cbn [apply_op sp_nodes sp_props sp_edges].
      fold sh. repeat split.
      * rewrite Hn. reflexivity.
      * rewrite Hn. reflexivity.
      * cbn [flat_map run_of r_edges]. rewrite <- app_assoc. fold sh in He. rewrite He. reflexivity.
      * intro n. unfold lookup; cbn [s_runs s_root s_heap flat_map run_of r_props]. rewrite !assoc_app.
        destruct (assoc n (t_props x)); [reflexivity|]. apply Hp.
      * discriminate.
      * intros Hr n Hnone. cbn [flat_map run_of r_props] in Hnone. rewrite assoc_app in Hnone.
        destruct (assoc n (t_props x)); [discriminate|]. apply Hrt; assumption.
    + rewrite upd_same. cbn. rewrite El in Hwf. exact Hwf.
    + intro u. eapply (Rinv_keep sh); [|reflexivity|reflexivity|apply prefix_snoc, prefix_refl].
      destruct (Nat.eq_dec u 0) as [->|Hne]; [rewrite upd_same; cbn; apply HR|rewrite (upd_other _ 0 _ u Hne); apply HR].
    + eapply (Oinv_keep sh); [exact HO|reflexivity|apply prefix_snoc, prefix_refl].
  - (* CPersist *)
    assert (E : t = 0) by (apply Ht0; reflexivity). subst t.
    split; [exact HM|split; [|split; [apply Hro'|split; [|exact HO]]]]; cbn [Sched.shared threads].
    + rewrite upd_same. cbn. rewrite El in Hwf. exact Hwf.
    + intro u. destruct (Nat.eq_dec u 0) as [->|Hne]; [rewrite upd_same; cbn; apply HR|rewrite (upd_other _ 0 _ u Hne); apply HR].
  - (* CSink *)
    assert (E : t = 0) by (apply Ht0; reflexivity). subst t.
    destruct HM as (Hn & Hl & He & Hp & Hsk & Hrt).
    split; [|split; [|split; [apply Hro'|split]]]; cbn [Sched.shared threads s_nodes s_nlabels s_runs s_segs s_root s_heap s_hist s_sinks s_sunk s_obs].
    + unfold M1; cbn [s_nodes s_nlabels s_runs s_segs s_root s_heap s_hist s_sunk]. fold sh. repeat split; try assumption.
      * intro n. rewrite <- Hp. unfold lookup; cbn [s_runs s_root s_heap]. fold sh.
        destruct (assoc n (flat_map r_props (s_runs sh))) eqn:Ea; [reflexivity|].
        rewrite assoc_app, Ea. reflexivity.
      * intros _ n v Ha. rewrite assoc_app, Ha. reflexivity.
      * intros Hr n Hnone. rewrite assoc_app, Hnone. apply Hrt; assumption.
    + rewrite upd_same. cbn. rewrite El in Hwf. exact Hwf.
    + intro u.
      assert (HRu : Rinv sh (loc (upd (threads c) 0 {| todo := rest; loc := loc (threads c 0) |} u))).
      { destruct (Nat.eq_dec u 0) as [->|Hne]; [rewrite upd_same; cbn; apply HR|rewrite (upd_other _ 0 _ u Hne); apply HR]. }
      intro Hacq. destruct (HRu Hacq) as (Hpre & Hle & Hv). cbn [s_hist s_sinks s_heap]. fold sh.
      split; [exact Hpre|split; [lia|]].
      intros [Heq|Hroot]; [lia|].
      rewrite (view_of_rootless _ _ (s_heap sh) Hroot). apply Hv. right. exact Hroot.
    + eapply (Oinv_keep sh); [exact HO|reflexivity|apply prefix_refl].
  - (* CLog *)
    assert (E : t = 0) by (apply Ht0; reflexivity). subst t.
    split; [exact HM|split; [|split; [apply Hro'|split; [|exact HO]]]]; cbn [Sched.shared threads].
    + rewrite upd_same. cbn. rewrite El in Hwf. exact Hwf.
    + intro u. destruct (Nat.eq_dec u 0) as [->|Hne]; [rewrite upd_same; cbn; apply HR|rewrite (upd_other _ 0 _ u Hne); apply HR].
  - (* CPublish *)
    assert (E : t = 0) by (apply Ht0; reflexivity). subst t.
    rewrite El in Hwf. cbn [wf] in Hwf. apply andb_true_iff in Hwf. destruct Hwf as [Hsunk Hwf].
    destruct HM as (Hn & Hl & He & Hp & Hsk & Hrt).
    split; [|split; [|split; [apply Hro'|split]]]; cbn [Sched.shared threads s_nodes s_nlabels s_runs s_segs s_root s_heap s_hist s_sinks s_sunk s_obs].
    + unfold M1; cbn [s_nodes s_nlabels s_runs s_segs s_root s_heap s_hist s_sunk]. rewrite spec_of_snoc. cbn [apply_op]. fold sh.
      repeat split; try assumption.
      * intro n. rewrite <- Hp. unfold lookup; cbn [s_runs s_root s_heap flat_map assoc]. fold sh.
        destruct (assoc n (flat_map r_props (s_runs sh))) eqn:Ea.
        -- apply (Hsk Hsunk n z Ea).
        -- destruct (s_root sh) eqn:Er; [reflexivity|]. apply (Hrt eq_refl n Ea).
      * intros _ n v Ha. cbn in Ha. discriminate Ha.
      * discriminate.
    + rewrite upd_same. cbn. exact Hwf.
    + intro u. eapply (Rinv_keep sh); [|reflexivity|reflexivity|apply prefix_snoc, prefix_refl].
      destruct (Nat.eq_dec u 0) as [->|Hne]; [rewrite upd_same; cbn; apply HR|rewrite (upd_other _ 0 _ u Hne); apply HR].
    + eapply (Oinv_keep sh); [exact HO|reflexivity|apply prefix_snoc, prefix_refl].
  - (* RAcquire *)
    split; [exact HM|split; [|split; [apply Hro'|split; [|exact HO]]]]; cbn [Sched.shared threads].
    + destruct (Nat.eq_dec t 0) as [->|Hne]; [rewrite upd_same; cbn; rewrite El in Hwf; exact Hwf|rewrite (upd_other _ t _ 0); [exact Hwf|intro E; apply Hne; symmetry; exact E]].
    + intro u. destruct (Nat.eq_dec u t) as [->|Hne]; [|rewrite (upd_other _ t _ u Hne); apply HR].
      rewrite upd_same. cbn [loc]. intros _. cbn [l_hist l_sinks l_root]. fold sh.
      split; [apply prefix_refl|split; [apply Nat.le_refl|]]. intros _. apply acquire_view. exact HM.
  - (* RRead *)
    split; [|split; [|split; [apply Hro'|split]]]; cbn [Sched.shared threads s_nodes s_nlabels s_runs s_segs s_root s_heap s_hist s_sinks s_sunk s_obs].
    + exact HM.
    + destruct (Nat.eq_dec t 0) as [->|Hne]; [rewrite upd_same; cbn; rewrite El in Hwf; exact Hwf|rewrite (upd_other _ t _ 0); [exact Hwf|intro E; apply Hne; symmetry; exact E]].
    + intro u. eapply (Rinv_keep sh); [|reflexivity|reflexivity|apply prefix_refl].
      destruct (Nat.eq_dec u t) as [->|Hne]; [rewrite upd_same; cbn; apply HR|rewrite (upd_other _ t _ u Hne); apply HR].
    + intros o Hin Hsafe. cbn [s_obs] in Hin. apply in_app_or in Hin. destruct Hin as [Hin|[<-|[]]].
      * exact (HO o Hin Hsafe).
      * cbn [o_safe o_view o_hist] in *. apply andb_true_iff in Hsafe. destruct Hsafe as [Hacq Hcond].
        destruct (HR t Hacq) as (Hpre & _ & Hv). fold sh in Hv, Hpre. split; [|exact Hpre].
        apply Hv. apply orb_true_iff in Hcond. destruct Hcond as [Heq|Hnr].
        -- left. apply Nat.eqb_eq. exact Heq.
        -- right. apply negb_true_iff. exact Hnr.
Qed.

(* ---- the history is exactly: published operations followed by the ones still in the writer's program ---- *)
Fixpoint pending (l : list step) : list wop :=
  match l with
  | [] => []
  | WPublish x :: r => WCommit x :: pending r
  | CPublish :: r => WCompact :: pending r
  | _ :: r => pending r
  end.

Lemma pending_writer_prog : forall h, pending (writer_prog h) = h.
Proof. induction h as [|o h IH]; [reflexivity|]. destruct o; cbn; fold (writer_prog h); rewrite IH; reflexivity. Qed.

Lemma pending_reader : forall l, forallb reader_step l = true -> pending l = [].
Proof.
  induction l as [|a l IH]; intro H; [reflexivity|]. cbn in H. apply andb_true_iff in H. destruct H as [Ha Hl].
  destruct a; try discriminate Ha; cbn; apply IH; exact Hl.
Qed.

Definition Pinv (h : list wop) (c : scfg) : Prop :=
  s_hist (Sched.shared c) ++ pending (todo (threads c 0)) = h /\
  (forall t, t <> 0 -> forallb reader_step (todo (threads c t)) = true).

Lemma step_pinv : forall h t c, Pinv h c -> Pinv h (step_thread ssem t c).
Proof.
  intros h t c (Hp & Hro). unfold step_thread.
  destruct (todo (threads c t)) as [|a rest] eqn:El; [split; assumption|].
  assert (Hro' : forall l' u, u <> 0 -> forallb reader_step (todo (upd (threads c) t {| todo := rest; loc := l' |} u)) = true).
  { intros l' u Hu. destruct (Nat.eq_dec u t) as [->|Hne].
    - rewrite upd_same. cbn. specialize (Hro t Hu). rewrite El in Hro. cbn in Hro. apply andb_true_iff in Hro. apply Hro.
    - rewrite (upd_other _ t _ u Hne). apply Hro. exact Hu. }
  destruct (Nat.eq_dec t 0) as [->|Hne].
  - rewrite El in Hp.
    destruct a; cbn [ssem]; (split; [|apply Hro']); cbn [Sched.shared threads s_hist]; rewrite upd_same; cbn [todo];
      cbn [pending] in Hp; try exact Hp; rewrite <- app_assoc; exact Hp.
  - pose proof (Hro t Hne) as Hrt. rewrite El in Hrt. cbn in Hrt. apply andb_true_iff in Hrt. destruct Hrt as [Ha _].
    destruct a; try discriminate Ha; cbn [ssem]; (split; [|apply Hro']); cbn [Sched.shared threads s_hist];
      (rewrite (upd_other _ t _ 0); [exact Hp|intro E; apply Hne; symmetry; exact E]).
Qed.

Lemma init_pinv : forall h readers, Pinv h (sinit h readers).
Proof.
  intros h readers. split.
  - cbn. apply pending_writer_prog.
  - intros t Ht. destruct t as [|t']; [contradiction|]. cbn [sinit threads pool todo nth].
    destruct (nth_in_or_default t' (map reader_prog readers) []) as [Hin|Hd].
    + apply in_map_iff in Hin. destruct Hin as (k & <- & _). apply reader_prog_steps.
    + rewrite Hd. reflexivity.
Qed.

Lemma prefix_firstn : forall A (a b c : list A), b ++ c = a -> forall p, prefix p b -> p = firstn (length p) a /\ length p <= length a.
Proof.
  intros A a b c <- p [d ->]. split.
  - rewrite <- !app_assoc. rewrite firstn_app, firstn_all, Nat.sub_diag. cbn. rewrite app_nil_r. reflexivity.
  - rewrite !app_length. lia.
Qed.

Theorem snapshot_consistent : forall (h : list wop) (readers : list nat) (sched : list nat) (o : obs),
  In o (s_obs (Sched.shared (srun sched (sinit h readers)))) -> o_safe o = true ->
  exists j, j <= length h /\ o_hist o = firstn j h /\ o_view o = view_of_spec (spec_of (firstn j h)).
Proof.
  intros h readers sched o Hin Hsafe.
  pose proof (run_invariant ssem Inv step_inv sched _ (init_inv h readers)) as (_ & _ & _ & _ & HO).
  pose proof (run_invariant ssem (Pinv h) (step_pinv h) sched _ (init_pinv h readers)) as (Hp & _).
  fold (srun sched (sinit h readers)) in HO, Hp.
  destruct (HO o Hin Hsafe) as (Hv & Hpre).
  destruct (prefix_firstn _ _ _ _ Hp _ Hpre) as (Hf & Hlen).
  exists (length (o_hist o)). split; [exact Hlen|split; [exact Hf|]]. rewrite <- Hf. exact Hv.
Qed.

(* ---- witnesses ---- *)
Definition tx1 : tx := {| t_nodes := [1]; t_props := [(1, 5%Z)]; t_edges := [(1, 1)] |}.
Definition tx2 : tx := {| t_nodes := []; t_props := [(1, 6%Z)]; t_edges := [] |}.
Definition inplace_history : list wop := [WCommit tx1; WCompact; WCommit tx2; WCompact].
(* writer: commit, compaction (6 steps); reader acquires and reads (5); writer commits (2); reader reads (5); writer
   sinks (2 steps); reader reads (6, unsafe) *)
Definition inplace_sched : list nat := repeat 0 6 ++ [1; 1] ++ repeat 0 2 ++ [1] ++ repeat 0 2 ++ [1].
Lemma inplace_unstable :
  let c := srun inplace_sched (sinit inplace_history [3]) in
  map (fun o => (v_props (o_view o), o_safe o)) (obs_of 1 (Sched.shared c)) =
    [([Some 5%Z], true); ([Some 5%Z], true); ([Some 6%Z], false)] /\
  map (fun o => length (o_hist o)) (obs_of 1 (Sched.shared c)) = [2; 2; 2].
Proof. vm_compute. split; reflexivity. Qed.

(* non-vacuity: interleaved acquisition points give different prefixes, all safe and consistent *)
Example consistent_example :
  let c := srun [0; 1; 0; 2; 2; 1; 0; 0; 0; 0; 3; 3; 0; 0; 3] (sinit inplace_history [1; 1; 2]) in
  map (fun o => (o_t o, length (o_hist o), v_props (o_view o), o_safe o)) (s_obs (Sched.shared c)) =
    [(2, 1, [Some 5%Z], true); (1, 0, [], true); (3, 2, [Some 5%Z], true); (3, 2, [Some 5%Z], true)].
Proof. vm_compute. reflexivity. Qed.
