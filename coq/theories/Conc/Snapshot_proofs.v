(* Conc/Snapshot_proofs.v — PROOFS for Conc/Snapshot.v.
     quiescent_consistent        for EVERY history of whole writer operations, a snapshot acquired while
                                 no writer operation is in flight shows exactly the committed state
     stable_without_compaction   for EVERY schedule: while no compaction sink step remains to run, a
                                 held snapshot's view never changes (commits, other readers, reads)
     torn_* / inplace_*          witnesses (vm_compute) that consistency / stability fail otherwise *)
From Coq Require Import List ZArith Bool Arith.
From NDB Require Import Conc.Sched Conc.Snapshot.
Import ListNotations.

Lemma assoc_app : forall n a b, assoc n (a ++ b) = match assoc n a with Some v => Some v | None => assoc n b end.
Proof.
  intros n a b; induction a as [|[k v] a IH]; [reflexivity|].
  cbn. destruct (Nat.eqb k n); [reflexivity|exact IH].
Qed.

Definition Qinv (sh : sshared) (sp : spec) : Prop :=
  s_nodes sh = sp_nodes sp /\ s_nlabels sh = sp_nodes sp /\
  flat_map r_props (s_runs sh) ++ s_heap sh = sp_props sp /\
  flat_map r_edges (s_runs sh) ++ concat (s_segs sh) = sp_edges sp /\
  (s_root sh = false -> s_heap sh = []).

Lemma qinv0 : Qinv shared0 spec0.
Proof. repeat split. Qed.

Lemma commit_preserves : forall x sh l sp, Qinv sh sp ->
  Qinv (fst (exec_steps 0 (commit_steps x) (sh, l))) (apply_op sp (WCommit x)).
Proof.
  intros x sh l sp (Hn & Hl & Hp & He & Hr). cbn.
  repeat split; cbn.
  - rewrite Hn; reflexivity.
  - rewrite Hn; reflexivity.
  - rewrite <- app_assoc, Hp; reflexivity.
  - rewrite <- app_assoc, He; reflexivity.
  - exact Hr.
Qed.

Lemma compact_preserves : forall sh l sp, Qinv sh sp ->
  Qinv (fst (exec_steps 0 compact_steps (sh, l))) sp.
Proof.
  intros sh l sp (Hn & Hl & Hp & He & Hr). cbn.
  repeat split; cbn.
  - exact Hn.
  - exact Hl.
  - exact Hp.
  - rewrite <- He. reflexivity.
  - discriminate.
Qed.

Lemma exec_steps_app : forall t a b st, exec_steps t (a ++ b) st = exec_steps t b (exec_steps t a st).
Proof. intros; unfold exec_steps; apply fold_left_app. Qed.

Lemma history_preserves : forall h sh l sp, Qinv sh sp ->
  Qinv (fst (exec_steps 0 (writer_prog h) (sh, l))) (fold_left apply_op h sp).
Proof.
  induction h as [|o h IH]; intros sh l sp H; [exact H|].
  cbn [writer_prog flat_map fold_left]. rewrite exec_steps_app.
  destruct o as [x|].
  - pose proof (commit_preserves x sh l sp H) as H1.
    change (steps_of (WCommit x)) with (commit_steps x).
    destruct (exec_steps 0 (commit_steps x) (sh, l)) as [sh1 l1] eqn:E. apply IH. exact H1.
  - pose proof (compact_preserves sh l sp H) as H1.
    change (steps_of WCompact) with compact_steps.
    destruct (exec_steps 0 compact_steps (sh, l)) as [sh1 l1] eqn:E. apply IH. exact H1.
Qed.

Lemma acquire_view : forall r sh l sp, Qinv sh sp ->
  fst (exec_steps r acquire_steps (sh, l)) = sh /\
  view_of (snd (exec_steps r acquire_steps (sh, l))) (s_heap sh) = view_of_spec sp.
Proof.
  intros r sh l sp (Hn & Hl & Hp & He & Hr). cbn. split; [reflexivity|].
  unfold view_of, view_of_spec; cbn. rewrite Hn, Hl, He. f_equal.
  apply map_ext. intro n. unfold prop_of; cbn. rewrite <- Hp, assoc_app.
  destruct (assoc n (flat_map r_props (s_runs sh))); [reflexivity|].
  destruct (s_root sh) eqn:Er; [reflexivity|]. rewrite (Hr eq_refl). reflexivity.
Qed.

Theorem quiescent_consistent : forall (h : list wop) (r : nat) (l : local),
  let st := exec_steps 0 (writer_prog h) (shared0, local0) in
  view_of (snd (exec_steps r acquire_steps (fst st, l))) (s_heap (fst st)) = view_of_spec (spec_of h).
Proof.
  intros h r l st.
  exact (proj2 (acquire_view r (fst st) l (spec_of h) (history_preserves h shared0 local0 spec0 qinv0))).
Qed.

(* ---- stability for every schedule without a sink step ---- *)
Definition no_sink (c : scfg) : Prop := forall t, ~ In CSink (todo (threads c t)).
Definition only_reads (c : scfg) (r : nat) : Prop := forall a, In a (todo (threads c r)) -> a = RRead.

Definition SInv (h0 : list (nat * Z)) (l0 : local) (r : nat) (c : scfg) : Prop :=
  no_sink c /\ only_reads c r /\ s_heap (Sched.shared c) = h0 /\ loc (threads c r) = l0.

Lemma sstep_inv : forall h0 l0 r t c, SInv h0 l0 r c -> SInv h0 l0 r (step_thread ssem t c).
Proof.
  intros h0 l0 r t c (Hns & Hor & Hh & Hl). unfold step_thread.
  destruct (todo (threads c t)) as [|a rest] eqn:El; [repeat split; assumption|].
  assert (Hnot : a <> CSink) by (intro E; apply (Hns t); rewrite El, E; left; reflexivity).
  destruct (ssem a t (Sched.shared c) (loc (threads c t))) as [[s' l']|] eqn:Es; [|repeat split; assumption].
  assert (Hheap : s_heap s' = s_heap (Sched.shared c)) by (destruct a; cbn in Es; inversion Es; try reflexivity; exfalso; apply Hnot; reflexivity).
  unfold SInv, no_sink, only_reads; cbn [Sched.shared threads]. split; [|split; [|split]].
  - intro u. destruct (Nat.eq_dec u t) as [->|Hne].
    + rewrite upd_same. cbn. intro H. apply (Hns t). rewrite El. right. exact H.
    + rewrite (upd_other _ t _ u Hne). apply Hns.
  - intros b Hb. destruct (Nat.eq_dec r t) as [->|Hne].
    + rewrite upd_same in Hb. cbn in Hb. apply Hor. rewrite El. right. exact Hb.
    + rewrite (upd_other _ t _ r Hne) in Hb. apply Hor. exact Hb.
  - rewrite Hheap. exact Hh.
  - destruct (Nat.eq_dec r t) as [->|Hne].
    + rewrite upd_same. cbn.
      assert (Ea : a = RRead) by (apply Hor; rewrite El; left; reflexivity).
      subst a. cbn in Es. inversion Es. exact Hl.
    + rewrite (upd_other _ t _ r Hne). exact Hl.
Qed.

Theorem stable_without_compaction : forall (c : scfg) (r : nat) (sched : list nat),
  no_sink c -> only_reads c r ->
  let c' := srun sched c in
  view_of (loc (threads c' r)) (s_heap (Sched.shared c')) = view_of (loc (threads c r)) (s_heap (Sched.shared c)).
Proof.
  intros c r sched Hns Hor c'.
  assert (H : SInv (s_heap (Sched.shared c)) (loc (threads c r)) r c') by
    (apply (run_invariant ssem (SInv _ _ r) (sstep_inv _ _ r) sched c); repeat split; assumption).
  destruct H as (_ & _ & Hh & Hl). rewrite Hh, Hl. reflexivity.
Qed.

(* ---- witnesses ---- *)
Definition tx1 : tx := {| t_nodes := [1]; t_props := [(1, 5%Z)]; t_edges := [(1, 1)] |}.

(* reader between the idmap update and the publication of the run: node without labels, property, relationship *)
Definition torn_commit_sched : list nat := [0;0; 1;1;1;1;1;1;1;1; 0;0].
Lemma torn_commit :
  let c := srun torn_commit_sched (sinit [WCommit tx1] [1]) in
  obs_of 1 (Sched.shared c) = [{| v_nodes := [1]; v_labeled := [false]; v_props := [None]; v_edges := [] |}] /\
  forallb (consistent_with [WCommit tx1]) (obs_of 1 (Sched.shared c)) = false.
Proof. vm_compute. split; reflexivity. Qed.

(* reader copies the runs after they were cleared and the segments before they were installed: relationship lost *)
Definition torn_compact_lost_sched : list nat := [0;0;0;0; 0;0;0;0;0;0; 1;1;1;1;1;1;1;1; 0].
Lemma torn_compact_lost :
  let c := srun torn_compact_lost_sched (sinit [WCommit tx1; WCompact] [1]) in
  map v_edges (obs_of 1 (Sched.shared c)) = [[]] /\
  forallb (consistent_with [WCommit tx1; WCompact]) (obs_of 1 (Sched.shared c)) = false.
Proof. vm_compute. split; reflexivity. Qed.

(* reader copies the runs before the compaction clears them and the segments after it installed them: relationship twice *)
Definition torn_compact_doubled_sched : list nat := [0;0;0;0; 1;1; 0;0;0;0;0;0;0; 1;1;1;1;1;1].
Lemma torn_compact_doubled :
  let c := srun torn_compact_doubled_sched (sinit [WCommit tx1; WCompact] [1]) in
  map v_edges (obs_of 1 (Sched.shared c)) = [[(1, 1); (1, 1)]] /\
  forallb (consistent_with [WCommit tx1; WCompact]) (obs_of 1 (Sched.shared c)) = false.
Proof. vm_compute. split; reflexivity. Qed.

(* a snapshot acquired at a quiescent point reads 5, 5 and then 6 for the same property: a later commit
   is invisible, the compaction after it rewrites the property tree the snapshot reads through *)
Definition tx2 : tx := {| t_nodes := []; t_props := [(1, 6%Z)]; t_edges := [] |}.
Definition inplace_history : list wop := [WCommit tx1; WCompact; WCommit tx2; WCompact].
Definition inplace_sched : list nat := repeat 0 11 ++ repeat 1 7 ++ [1] ++ repeat 0 4 ++ [1] ++ repeat 0 7 ++ [1].
Lemma inplace_unstable :
  let c := srun inplace_sched (sinit inplace_history [3]) in
  map v_props (obs_of 1 (Sched.shared c)) = [[Some 5%Z]; [Some 5%Z]; [Some 6%Z]] /\
  all_same (obs_of 1 (Sched.shared c)) = false.
Proof. vm_compute. split; reflexivity. Qed.

(* non-vacuity of the two positive theorems on the same history *)
Example quiescent_example :
  let c := srun (repeat 0 11 ++ repeat 1 8) (sinit inplace_history [1]) in
  obs_of 1 (Sched.shared c) = [view_of_spec (spec_of [WCommit tx1; WCompact])] /\
  v_props (view_of_spec (spec_of [WCommit tx1; WCompact])) = [Some 5%Z].
Proof. vm_compute. split; reflexivity. Qed.
