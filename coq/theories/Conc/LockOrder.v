(* Conc/LockOrder.v — MODEL for C35: locks, wait-for semantics, acquisition patterns.
   A lock is a number.  A thread state is the list of locks it holds and the lock it is
   blocked on (if any).  Holding is a relation: several threads may hold the same lock
   (RwLock read guards); only the gate lock is assumed exclusive (it is a Mutex).
   An acquisition pattern (H, l) says: some thread requested l while holding exactly the
   set H.  The harness records the patterns of the real code (verif::acquire events). *)
From Coq Require Import List Arith Bool.
Import ListNotations.

Definition lock := nat.
Definition pattern := (list lock * lock)%type.

Record tstate := { held : list lock; want : option lock }.
Definition lstate := nat -> tstate.

(* wait-for semantics: thread t is blocked by t' when t wants a lock that t' holds.
   A deadlock is a non-empty finite set of threads each of which is blocked by a member of the
   set (every cycle of the wait-for graph is such a set, and every such set contains a cycle).
   A waiting writer that blocks later readers of an RwLock is itself blocked by a holder, so the
   holder-based relation covers writer-preferring RwLocks as long as no thread re-acquires a lock
   it holds (patterns with l in H are rejected by `check`). *)
Definition deadlocked (st : lstate) : Prop :=
  exists S : list nat, S <> [] /\
    forall t, In t S -> exists l t', want (st t) = Some l /\ In t' S /\ In l (held (st t')).

Definition memb (l : lock) (H : list lock) : bool := existsb (Nat.eqb l) H.

(* every blocked thread is blocked in an observed pattern (same held set) *)
Definition conforms (pats : list pattern) (st : lstate) : Prop :=
  forall t l, want (st t) = Some l ->
    exists H, In (H, l) pats /\ forall h, In h (held (st t)) <-> In h H.

Definition gate_exclusive (g : lock) (st : lstate) : Prop :=
  forall t t', In g (held (st t)) -> In g (held (st t')) -> t = t'.

(* l is only ever held together with the gate *)
Definition leaf (pats : list pattern) (g l : lock) : bool :=
  forallb (fun p => implb (memb l (fst p)) (memb g (fst p))) pats.

(* the certificate check: every pattern is non-re-entrant and either rank-increasing w.r.t. every
   lock held, or taken under the gate for a lock that is only held under the gate *)
Definition check (pats : list pattern) (rank : lock -> nat) (g : lock) : bool :=
  forallb (fun p =>
    negb (memb (snd p) (fst p)) &&
    (forallb (fun h => Nat.ltb (rank h) (rank (snd p))) (fst p) || (memb g (fst p) && leaf pats g (snd p)))) pats.

Definition rank_increasing (rank : lock -> nat) (st : lstate) : Prop :=
  forall t l, want (st t) = Some l -> forall h, In h (held (st t)) -> rank h < rank l.

(* rank function from an association list (default 0) *)
Fixpoint rank_of (tbl : list (lock * nat)) (l : lock) : nat :=
  match tbl with
  | [] => 0
  | (k, r) :: rest => if Nat.eqb k l then r else rank_of rest l
  end.
