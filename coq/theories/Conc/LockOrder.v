(* Conc/LockOrder.v — MODEL for C35: locks with modes, wait-for semantics, acquisition patterns.
   A lock is a number; it is requested / held in a mode:
     MR   shared (RwLock::read)          MW   exclusive (Mutex::lock, RwLock::write)
     MTry non-blocking attempt (File::try_lock): may be held, is never waited for.
   A thread state is the list of (lock, mode) it holds and the request it is blocked on.
   Blocking (std::sync, writer-preferring RwLock):
     - a request is blocked by a thread HOLDING the lock in a conflicting mode (readers do not
       block readers);
     - a read request is also blocked by a thread that WAITS for the write lock (queued writer):
       this is what makes a second read by a thread that already holds a read guard deadlock.
   An acquisition pattern (H, (l, m)): some thread requested l in mode m while holding exactly H.
   The harness records the patterns of the real code (verif::acquire events). *)
From Coq Require Import List Arith Bool.
Import ListNotations.

Definition lock := nat.
Inductive mode := MR | MW | MTry.
Definition req := (lock * mode)%type.
Definition pattern := (list req * req)%type.

Record tstate := { held : list req; want : option req }.
Definition lstate := nat -> tstate.

Definition conflicts (m m' : mode) : bool :=
  match m, m' with
  | MTry, _ => false
  | MR, MR => false
  | _, _ => true
  end.

Definition mode_eqb (a b : mode) : bool :=
  match a, b with MR, MR | MW, MW | MTry, MTry => true | _, _ => false end.

Definition blocked_by (st : lstate) (t t' : nat) : Prop :=
  exists l m, want (st t) = Some (l, m) /\
    ((exists m', In (l, m') (held (st t')) /\ conflicts m m' = true) \/
     (m = MR /\ want (st t') = Some (l, MW))).

(* a deadlock: a non-empty finite set of threads each of which is blocked by a member of the set *)
Definition deadlocked (st : lstate) : Prop :=
  exists S : list nat, S <> [] /\ forall t, In t S -> exists t', In t' S /\ blocked_by st t t'.

Definition holds (l : lock) (H : list req) : bool := existsb (fun x => Nat.eqb (fst x) l) H.

Definition conforms (pats : list pattern) (st : lstate) : Prop :=
  forall t r, want (st t) = Some r ->
    exists H, In (H, r) pats /\ forall x, In x (held (st t)) <-> In x H.

Definition gate_exclusive (g : lock) (st : lstate) : Prop :=
  forall t t' m m', In (g, m) (held (st t)) -> In (g, m') (held (st t')) -> t = t'.

(* l is only ever held together with the gate; for a read request additionally every write request
   for l is made under the gate (so that a queued writer is a gate holder too) *)
Definition leaf (pats : list pattern) (g l : lock) (m : mode) : bool :=
  forallb (fun p => implb (holds l (fst p)) (holds g (fst p))) pats &&
  match m with
  | MR => forallb (fun p => implb (Nat.eqb (fst (snd p)) l && mode_eqb (snd (snd p)) MW) (holds g (fst p))) pats
  | _ => true
  end.

(* the certificate check: every blocking pattern is non-re-entrant and either rank-increasing w.r.t.
   every lock held, or made under the gate for a leaf lock *)
Definition check (pats : list pattern) (rank : lock -> nat) (g : lock) : bool :=
  forallb (fun p =>
    let l := fst (snd p) in let m := snd (snd p) in
    mode_eqb m MTry ||
    (negb (holds l (fst p)) &&
     (forallb (fun h => Nat.ltb (rank (fst h)) (rank l)) (fst p) || (holds g (fst p) && leaf pats g l m)))) pats.

Definition rank_increasing (rank : lock -> nat) (st : lstate) : Prop :=
  forall t l m, want (st t) = Some (l, m) -> forall h mh, In (h, mh) (held (st t)) -> rank h < rank l.

Fixpoint rank_of (tbl : list (lock * nat)) (l : lock) : nat :=
  match tbl with
  | [] => 0
  | (k, r) :: rest => if Nat.eqb k l then r else rank_of rest l
  end.
