(* Conc/Handles_proofs.v — PROOFS for Conc/Handles.v.
   With the open-time lock, for any number of handles, any operation lists and EVERY
   interleaving: at most one handle is open, every write reaches the files while the
   writer holds the lock, and the trace of results is a single-handle history.
   Without the lock a two-handle witness violates all three. *)
From Coq Require Import List ZArith Bool Arith.
From NDB Require Import Conc.Sched Conc.Handles.
Import ListNotations.

Lemma scan_app : forall l1 l2 cur,
  scan (l1 ++ l2) cur = match scan l1 cur with Some c' => scan l2 c' | None => None end.
Proof.
  induction l1 as [|[t r] l1 IH]; intros l2 cur; [reflexivity|].
  cbn [app scan]. destruct r, cur as [h|]; try reflexivity; try apply IH;
    destruct (Nat.eqb h t); try reflexivity; apply IH.
Qed.

Lemma writes_by_holder_app : forall a b, writes_by_holder (a ++ b) = writes_by_holder a && writes_by_holder b.
Proof. intros; unfold writes_by_holder; apply forallb_app. Qed.

Definition HInv (c : hcfg) : Prop :=
  (forall t, loc (threads c t) = true <-> lk (Sched.shared c) = Some t) /\
  scan (results (Sched.shared c)) None = Some (lk (Sched.shared c)) /\
  writes_by_holder (files (Sched.shared c)) = true.

Lemma hinit_inv : forall progs, HInv (hinit progs).
Proof.
  intro progs. split; [|split; reflexivity].
  intro t; cbn. split; discriminate.
Qed.

Ltac other_thread Hopen u t Hne :=
  rewrite (upd_other _ t _ u Hne); cbn [Sched.shared lk]; rewrite (Hopen u).

Lemma hstep_inv : forall t c, HInv c -> HInv (step_thread (hsem LockFirst) t c).
Proof.
  intros t c (Hopen & Hscan & Hw). unfold step_thread.
  destruct (todo (threads c t)) as [|o rest] eqn:El; [repeat split; try apply Hopen; assumption|].
  pose proof (Hopen t) as Ht.
  destruct (loc (threads c t)) eqn:Eo.
  - (* this handle is open: it holds the lock *)
    assert (Hl : lk (Sched.shared c) = Some t) by (apply Ht; reflexivity).
    destruct o; cbn [hsem locks scan_first]; [ | | | | rewrite Hl ]; (split; [|split]); cbn [Sched.shared lk files results threads]; unfold push.
    + intro u. destruct (Nat.eq_dec u t) as [->|Hne]; [rewrite upd_same; cbn; tauto|].
      rewrite (upd_other _ t _ u Hne). apply Hopen.
    + rewrite scan_app, Hscan, Hl. cbn. rewrite Nat.eqb_refl. reflexivity.
    + exact Hw.
    + intro u. destruct (Nat.eq_dec u t) as [->|Hne]; [rewrite upd_same; cbn; tauto|].
      rewrite (upd_other _ t _ u Hne). apply Hopen.
    + rewrite scan_app, Hscan, Hl. cbn. rewrite Nat.eqb_refl. reflexivity.
    + rewrite writes_by_holder_app, Hw, Hl. cbn. rewrite Nat.eqb_refl. reflexivity.
    + intro u. destruct (Nat.eq_dec u t) as [->|Hne]; [rewrite upd_same; cbn; tauto|].
      rewrite (upd_other _ t _ u Hne). apply Hopen.
    + rewrite scan_app, Hscan, Hl. cbn. rewrite Nat.eqb_refl. reflexivity.
    + rewrite writes_by_holder_app, Hw, Hl. cbn. rewrite Nat.eqb_refl. reflexivity.
    + intro u. destruct (Nat.eq_dec u t) as [->|Hne].
      * rewrite upd_same; cbn. split; discriminate.
      * rewrite (upd_other _ t _ u Hne). rewrite (Hopen u), Hl. split; [|discriminate].
        intro E. inversion E. exfalso. apply Hne. symmetry. assumption.
    + rewrite scan_app, Hscan, Hl. cbn. rewrite Nat.eqb_refl. reflexivity.
    + rewrite writes_by_holder_app, Hw, Hl. cbn. rewrite Nat.eqb_refl. reflexivity.
    + intro u. destruct (Nat.eq_dec u t) as [->|Hne]; [rewrite upd_same; cbn; tauto|].
      rewrite (upd_other _ t _ u Hne). rewrite <- Hl. apply Hopen.
    + rewrite scan_app, Hscan, Hl. reflexivity.
    + exact Hw.
  - (* this handle is not open *)
    assert (Hl : lk (Sched.shared c) <> Some t) by (intro E; apply Ht in E; discriminate).
    destruct o; cbn [hsem locks scan_first].
    + destruct (lk (Sched.shared c)) as [h|] eqn:Elk; (split; [|split]); cbn [Sched.shared lk files results threads]; unfold push.
      * intro u. destruct (Nat.eq_dec u t) as [->|Hne].
        -- rewrite upd_same; cbn. split; [discriminate|]. intro E. exfalso. apply Hl. exact E.
        -- rewrite (upd_other _ t _ u Hne). apply Hopen.
      * rewrite scan_app, Hscan. cbn.
        destruct (Nat.eqb h t) eqn:E; [|reflexivity].
        apply Nat.eqb_eq in E. subst h. exfalso. apply Hl. reflexivity.
      * exact Hw.
      * intro u. destruct (Nat.eq_dec u t) as [->|Hne].
        -- rewrite upd_same; cbn. tauto.
        -- rewrite (upd_other _ t _ u Hne). rewrite (Hopen u). split; [discriminate|].
           intro E. exfalso. apply Hne. inversion E. reflexivity.
      * rewrite scan_app, Hscan. reflexivity.
      * exact Hw.
    + (split; [|split]); cbn [Sched.shared lk files results threads]; unfold push.
      * intro u. destruct (Nat.eq_dec u t) as [->|Hne]; [rewrite upd_same; cbn; exact Ht|].
        rewrite (upd_other _ t _ u Hne). apply Hopen.
      * rewrite scan_app, Hscan. reflexivity.
      * exact Hw.
    + (split; [|split]); cbn [Sched.shared lk files results threads]; unfold push.
      * intro u. destruct (Nat.eq_dec u t) as [->|Hne]; [rewrite upd_same; cbn; exact Ht|].
        rewrite (upd_other _ t _ u Hne). apply Hopen.
      * rewrite scan_app, Hscan. reflexivity.
      * exact Hw.
    + (split; [|split]); cbn [Sched.shared lk files results threads]; unfold push.
      * intro u. destruct (Nat.eq_dec u t) as [->|Hne]; [rewrite upd_same; cbn; exact Ht|].
        rewrite (upd_other _ t _ u Hne). apply Hopen.
      * rewrite scan_app, Hscan. reflexivity.
      * exact Hw.
    + destruct (lk (Sched.shared c)) as [h|] eqn:Elk; (split; [|split]); cbn [Sched.shared lk files results threads]; unfold push.
      * intro u. destruct (Nat.eq_dec u t) as [->|Hne]; [rewrite upd_same; cbn; exact Ht|].
        rewrite (upd_other _ t _ u Hne). apply Hopen.
      * rewrite scan_app, Hscan. reflexivity.
      * exact Hw.
      * intro u. destruct (Nat.eq_dec u t) as [->|Hne]; [rewrite upd_same; cbn; exact Ht|].
        rewrite (upd_other _ t _ u Hne). apply Hopen.
      * rewrite scan_app, Hscan. reflexivity.
      * rewrite writes_by_holder_app, Hw. cbn. rewrite Nat.eqb_refl. reflexivity.
Qed.

Theorem locked_handles_exclusive : forall progs sched,
  let c := hrun LockFirst sched (hinit progs) in
  (forall t u, loc (threads c t) = true -> loc (threads c u) = true -> t = u) /\
  writes_by_holder (files (Sched.shared c)) = true /\
  single_handle_history (results (Sched.shared c)) = true.
Proof.
  intros progs sched c.
  assert (H : HInv c) by (apply (run_invariant (hsem LockFirst) HInv hstep_inv sched _ (hinit_inv progs))).
  destruct H as (Hopen & Hscan & Hw). split; [|split].
  - intros t u Ht Hu. apply Hopen in Ht. apply Hopen in Hu. rewrite Ht in Hu. inversion Hu. reflexivity.
  - exact Hw.
  - unfold single_handle_history. rewrite Hscan. reflexivity.
Qed.

(* the pinned tree (no lock): two handles are open at once and both write *)
Definition nolock_witness_progs : list (list hop) := [[HOpen; HCommit 1; HClose]; [HOpen; HCommit 2; HClose]].
Definition nolock_witness_sched : list nat := [0; 1; 0; 1; 0; 1].

Lemma nolock_two_writers :
  let c := hrun NoLock [0; 1] (hinit nolock_witness_progs) in
  loc (threads c 0) = true /\ loc (threads c 1) = true.
Proof. vm_compute. split; reflexivity. Qed.

Lemma nolock_not_single_handle :
  let c := hrun NoLock nolock_witness_sched (hinit nolock_witness_progs) in
  single_handle_history (results (Sched.shared c)) = false /\
  writes_by_holder (files (Sched.shared c)) = false /\
  length (files (Sched.shared c)) = 4.
Proof. vm_compute. repeat split. Qed.

(* non-vacuity: under the lock the same programs and schedule run; the second open is refused *)
Example locked_example :
  results (Sched.shared (hrun LockFirst nolock_witness_sched (hinit nolock_witness_progs))) =
  [(0, ROpenOk); (1, ROpenRefused); (0, RWrote (WCommit 1%Z)); (1, RNoHandle); (0, RClosed); (1, RNoHandle)].
Proof. vm_compute. reflexivity. Qed.

(* the pinned tree's offline tools (no lock): a vacuum runs while a handle is open *)
Lemma nolock_offline_under_open_handle :
  let c := hrun NoLock [0; 1; 0] (hinit [[HOpen; HCommit 1]; [HOffline]]) in
  single_handle_history (results (Sched.shared c)) = false.
Proof. vm_compute. reflexivity. Qed.
Example locked_offline_example :
  results (Sched.shared (hrun LockFirst [0; 1; 0; 0; 1] (hinit [[HOpen; HCommit 1; HClose]; [HOffline; HOffline]]))) =
  [(0, ROpenOk); (1, ROfflineRefused); (0, RWrote (WCommit 1%Z)); (0, RClosed); (1, ROffline)].
Proof. vm_compute. reflexivity. Qed.


(* the lock taken AFTER the files were opened and the log's tail was cut: every second open is refused, yet the
   files were written by a handle that does not hold the lock *)
Lemma locklate_refused_open_writes :
  let c := hrun LockLate [0; 0; 1] (hinit [[HOpen; HCommit 1]; [HOpen]]) in
  results (Sched.shared c) = [(0, ROpenOk); (0, RWrote (WCommit 1%Z)); (1, ROpenRefused)] /\
  single_handle_history (results (Sched.shared c)) = true /\
  writes_by_holder (files (Sched.shared c)) = false.
Proof. vm_compute. repeat split. Qed.
