(* Conc/AutoCommit_proofs.v — PROOFS for Conc/AutoCommit.v.
   Main results, for every number of threads, every list of statements per
   thread and EVERY schedule (induction over schedules):
     fixed_serializable   under order_fixed the cell always equals the sequential
                          result of the committed statements in commit order
     hist_per_thread      (both orders) each thread's committed statements followed by
                          its pending ones are its program, in program order
     old_order_loses_update   a concrete schedule on which order_old loses an update *)
From Coq Require Import List ZArith Bool Arith Lia.
From NDB Require Import Conc.Sched Conc.AutoCommit.
Import ListNotations.
Open Scope Z_scope.

Notation progF := (prog order_fixed).

Inductive tstate : list op -> nat -> Prop :=
| ts_idle : forall rest, tstate (progF rest) 0
| ts_locked : forall s rest, tstate (OSnap :: OLog s :: OPublish s :: OUnlock :: progF rest) 1
| ts_snapped : forall s rest, tstate (OLog s :: OPublish s :: OUnlock :: progF rest) 2
| ts_logged : forall s rest, tstate (OPublish s :: OUnlock :: progF rest) 3
| ts_published : forall rest, tstate (OUnlock :: progF rest) 4.

Definition thread_ok (c : acfg) (t : nat) : Prop :=
  exists ph, tstate (todo (threads c t)) ph /\
    (ph = 0%nat -> lock (Sched.shared c) <> Some t) /\
    (ph <> 0%nat -> lock (Sched.shared c) = Some t) /\
    (ph = 2%nat -> loc (threads c t) = cell (Sched.shared c)) /\
    (ph = 3%nat -> forall s r, todo (threads c t) = OPublish s :: r -> loc (threads c t) = eval s (cell (Sched.shared c))).

Definition Inv (v0 : Z) (c : acfg) : Prop :=
  (forall t, thread_ok c t) /\
  cell (Sched.shared c) = seq_result v0 (map snd (hist (Sched.shared c))).

Lemma seq_result_snoc : forall v0 l s, seq_result v0 (l ++ [s]) = eval s (seq_result v0 l).
Proof. intros; unfold seq_result; rewrite fold_left_app; reflexivity. Qed.

Lemma init_inv : forall v0 stmts, Inv v0 (init order_fixed v0 stmts).
Proof.
  intros v0 stmts; split; [|reflexivity].
  intro t. exists 0%nat. cbn. split; [|split; [|split; [|split]]]; try discriminate.
  - change (@nil op) with (progF []). rewrite map_nth. apply ts_idle.
  - intro H; exfalso; apply H; reflexivity.
Qed.

(* threads other than the stepping one keep their state when the new shared record is compatible *)
Lemma other_ok : forall (c c' : acfg) t u,
  u <> t -> threads c' u = threads c u -> thread_ok c u ->
  (lock (Sched.shared c) <> Some u -> lock (Sched.shared c') <> Some u) ->
  (lock (Sched.shared c) = Some u -> lock (Sched.shared c') = Some u /\ cell (Sched.shared c') = cell (Sched.shared c)) ->
  thread_ok c' u.
Proof.
  intros c c' t u Hne Hth (ph & Hts & H0 & H1 & H2 & H3) Hfree Hheld.
  exists ph. rewrite Hth. split; [exact Hts|split; [|split; [|split]]].
  - intro E. apply Hfree, H0, E.
  - intro E. apply Hheld, H1, E.
  - intro E. rewrite (H2 E). symmetry. apply Hheld. apply H1. rewrite E; discriminate.
  - intros E s r Htd. rewrite (H3 E s r Htd). f_equal. symmetry. apply Hheld. apply H1. rewrite E; discriminate.
Qed.

Lemma step_inv : forall v0 t c, Inv v0 c -> Inv v0 (step_thread sem t c).
Proof.
  intros v0 t c [Hth Hcell]. unfold step_thread.
  destruct (Hth t) as (ph & Hts & H0 & H1 & H2 & H3).
  remember (todo (threads c t)) as l eqn:El.
  destruct Hts as [rest | s rest | s rest | s rest | rest].
  - (* idle: next is OLock, or nothing *)
    destruct rest as [|s r]; cbn [prog group app]; [split; assumption|].
    cbn [sem]. destruct (lock (Sched.shared c)) as [h|] eqn:Elock; [split; assumption|].
    split; [|exact Hcell].
    intro u. destruct (Nat.eq_dec u t) as [->|Hne].
    + exists 1%nat. cbn. rewrite upd_same. cbn. split; [apply ts_locked|split; [|split; [|split]]]; try discriminate. reflexivity.
    + eapply (other_ok c _ t u Hne); [cbn; apply upd_other; exact Hne | apply Hth | |].
      * cbn. intros _ E. apply Hne. inversion E. reflexivity.
      * rewrite Elock. discriminate.
  - (* locked: OSnap *)
    cbn [sem]. split; [|exact Hcell].
    intro u. destruct (Nat.eq_dec u t) as [->|Hne].
    + exists 2%nat. cbn. rewrite upd_same. cbn. split; [apply ts_snapped|split; [|split; [|split]]]; try discriminate; try reflexivity.
      intros _. apply H1. discriminate.
    + eapply (other_ok c _ t u Hne); [cbn; apply upd_other; exact Hne | apply Hth | |]; cbn; auto.
  - (* snapped: OLog *)
    cbn [sem]. split; [|exact Hcell].
    intro u. destruct (Nat.eq_dec u t) as [->|Hne].
    + exists 3%nat. cbn. rewrite upd_same. cbn. split; [apply ts_logged|split; [|split; [|split]]]; try discriminate.
      * intros _. apply H1. discriminate.
      * intros _ s' r' E. inversion E. subst s' r'. rewrite (H2 eq_refl). reflexivity.
    + eapply (other_ok c _ t u Hne); [cbn; apply upd_other; exact Hne | apply Hth | |]; cbn; auto.
  - (* logged: OPublish *)
    cbn [sem]. assert (Hl : lock (Sched.shared c) = Some t) by (apply H1; discriminate).
    assert (Hloc : loc (threads c t) = eval s (cell (Sched.shared c))) by (apply (H3 eq_refl s (OUnlock :: progF rest)); reflexivity).
    split.
    + intro u. destruct (Nat.eq_dec u t) as [->|Hne].
      * exists 4%nat. cbn. rewrite upd_same. cbn. split; [apply ts_published|split; [|split; [|split]]]; try discriminate.
        intros _. exact Hl.
      * eapply (other_ok c _ t u Hne); [cbn; apply upd_other; exact Hne | apply Hth | |]; cbn; auto.
        rewrite Hl. intro E. inversion E. exfalso. apply Hne. symmetry. assumption.
    + cbn [Sched.shared cell hist]. rewrite map_app. cbn [map snd]. rewrite seq_result_snoc, <- Hcell, Hloc. reflexivity.
  - (* published: OUnlock *)
    cbn [sem]. assert (Hl : lock (Sched.shared c) = Some t) by (apply H1; discriminate).
    split; [|exact Hcell].
    intro u. destruct (Nat.eq_dec u t) as [->|Hne].
    + exists 0%nat. cbn. rewrite upd_same. cbn. split; [apply ts_idle|split; [|split; [|split]]]; try discriminate.
      intro E; exfalso; apply E; reflexivity.
    + eapply (other_ok c _ t u Hne); [cbn; apply upd_other; exact Hne | apply Hth | |]; cbn.
      * discriminate.
      * rewrite Hl. intro E. inversion E. exfalso. apply Hne. symmetry. assumption.
Qed.

(* every schedule, every number of threads, every statement list *)
Theorem fixed_serializable : forall v0 stmts sched,
  let c := arun sched (init order_fixed v0 stmts) in
  cell (Sched.shared c) = seq_result v0 (map snd (hist (Sched.shared c))).
Proof.
  intros v0 stmts sched. cbn zeta. unfold arun.
  apply (run_invariant sem (Inv v0) (step_inv v0) sched _ (init_inv v0 stmts)).
Qed.

(* ---- per-thread program order of the commit history (any order of the steps) ---- *)

Fixpoint pending (l : list op) : list stmt :=
  match l with
  | [] => []
  | OPublish s :: r => s :: pending r
  | _ :: r => pending r
  end.

Lemma pending_prog : forall o ss, pending (prog o ss) = ss.
Proof. intros o ss; induction ss as [|s r IH]; [reflexivity|]. destruct o; cbn; rewrite IH; reflexivity. Qed.

Definition InvP (stmts : list (list stmt)) (c : acfg) : Prop :=
  forall t, committed_by t (hist (Sched.shared c)) ++ pending (todo (threads c t)) = nth t stmts [].

Lemma committed_by_snoc : forall t h u s,
  committed_by t (h ++ [(u, s)]) = committed_by t h ++ (if Nat.eqb u t then [s] else []).
Proof.
  intros. unfold committed_by. rewrite filter_app, map_app. cbn. destruct (Nat.eqb u t); reflexivity.
Qed.

Lemma init_invP : forall o v0 stmts, InvP stmts (init o v0 stmts).
Proof.
  intros o v0 stmts t. cbn. change (@nil op) with (prog o []). rewrite map_nth. apply pending_prog.
Qed.

Lemma step_invP : forall stmts t c, InvP stmts c -> InvP stmts (step_thread sem t c).
Proof.
  intros stmts t c H. unfold step_thread.
  destruct (todo (threads c t)) as [|a rest] eqn:El; [exact H|].
  assert (Hkeep : forall sh' l', hist sh' = hist (Sched.shared c) -> pending rest = pending (a :: rest) ->
            InvP stmts {| Sched.shared := sh'; threads := upd (threads c) t {| todo := rest; loc := l' |} |}).
  { intros sh' l' Hh Hp u. cbn [Sched.shared threads]. rewrite Hh. specialize (H u).
    destruct (Nat.eq_dec u t) as [->|Hne].
    - rewrite upd_same. cbn [todo]. rewrite Hp. rewrite El in H. exact H.
    - rewrite upd_other by exact Hne. exact H. }
  destruct a; cbn [sem].
  - apply Hkeep; reflexivity.
  - destruct (lock (Sched.shared c)); [exact H|]. apply Hkeep; reflexivity.
  - apply Hkeep; reflexivity.
  - intro u. cbn [Sched.shared hist threads]. specialize (H u). rewrite committed_by_snoc.
    destruct (Nat.eq_dec u t) as [->|Hne].
    + rewrite upd_same, Nat.eqb_refl. cbn. rewrite El in H. cbn in H. rewrite <- app_assoc. exact H.
    + rewrite upd_other by exact Hne.
      assert (E : Nat.eqb t u = false) by (apply Nat.eqb_neq; intro; apply Hne; symmetry; assumption).
      rewrite E, app_nil_r. exact H.
  - apply Hkeep; reflexivity.
Qed.

Theorem hist_per_thread : forall o v0 stmts sched t,
  let c := arun sched (init o v0 stmts) in
  committed_by t (hist (Sched.shared c)) ++ pending (todo (threads c t)) = nth t stmts [].
Proof.
  intros o v0 stmts sched t. cbn zeta. unfold arun.
  exact (run_invariant sem (InvP stmts) (step_invP stmts) sched _ (init_invP o v0 stmts) t).
Qed.

(* when every thread has finished, the history contains exactly each thread's statements in its order *)
Corollary hist_complete : forall o v0 stmts sched,
  let c := arun sched (init o v0 stmts) in
  done_upto (length stmts) c = true ->
  forall t, committed_by t (hist (Sched.shared c)) = nth t stmts [].
Proof.
  intros o v0 stmts sched c Hd t.
  pose proof (hist_per_thread o v0 stmts sched t) as H. cbn zeta in H. fold c in H.
  destruct (Nat.lt_ge_cases t (length stmts)) as [Hlt|Hge].
  - rewrite (done_upto_spec _ _ Hd t Hlt) in H. cbn in H. rewrite app_nil_r in H. exact H.
  - rewrite (nth_overflow stmts [] Hge) in *.
    destruct (committed_by t (hist (Sched.shared c))); [reflexivity|discriminate H].
Qed.

(* counters: no increment is lost *)
Lemma seq_result_adds : forall l v0, Forall (fun s => exists d, s = SAdd d) l ->
  seq_result v0 l = v0 + fold_right (fun s acc => match s with SAdd d => d | _ => 0 end + acc) 0 l.
Proof.
  induction l as [|s r IH]; intros v0 H; cbn; [lia|].
  inversion H as [|? ? [d ->] Hr]; subst. cbn. unfold seq_result in IH. rewrite (IH _ Hr). lia.
Qed.

Lemma seq_result_incs : forall l v0, Forall (fun s => s = SAdd 1) l -> seq_result v0 l = v0 + Z.of_nat (length l).
Proof.
  induction l as [|s r IH]; intros v0 H; [cbn; lia|].
  inversion H as [|? ? -> Hr]; subst. change (seq_result v0 (SAdd 1 :: r)) with (seq_result (v0 + 1) r).
  rewrite (IH _ Hr). cbn [length]. lia.
Qed.

Lemma in_hist_in_prog : forall o v0 stmts sched t s,
  In (t, s) (hist (Sched.shared (arun sched (init o v0 stmts)))) -> In s (nth t stmts []).
Proof.
  intros o v0 stmts sched t s H.
  pose proof (hist_per_thread o v0 stmts sched t) as E. cbn zeta in E. rewrite <- E.
  apply in_or_app. left. unfold committed_by.
  apply (in_map snd _ (t, s)). apply filter_In. split; [exact H|]. cbn. apply Nat.eqb_refl.
Qed.

Lemma fixed_no_lost_increment : forall v0 stmts sched,
  Forall (Forall (fun s => s = SAdd 1)) stmts ->
  let c := arun sched (init order_fixed v0 stmts) in
  cell (Sched.shared c) = v0 + Z.of_nat (length (hist (Sched.shared c))).
Proof.
  intros v0 stmts sched Hall c.
  pose proof (fixed_serializable v0 stmts sched) as E. cbn zeta in E. fold c in E.
  rewrite E, seq_result_incs, map_length; [reflexivity|].
  apply Forall_forall. intros s Hs. apply in_map_iff in Hs. destruct Hs as ([t s'] & <- & Hin). cbn.
  pose proof (in_hist_in_prog order_fixed v0 stmts sched t s' Hin) as Hp.
  destruct (Nat.lt_ge_cases t (length stmts)) as [Hlt|Hge].
  - rewrite Forall_forall in Hall. specialize (Hall _ (nth_In stmts [] Hlt)).
    rewrite Forall_forall in Hall. exact (Hall _ Hp).
  - rewrite (nth_overflow stmts [] Hge) in Hp. destruct Hp.
Qed.

(* ---- the pinned order loses an update (two increments) ---- *)
Definition witness_old_sched : list nat := [0; 1; 0; 0; 0; 0; 1; 1; 1; 1]%nat.

Lemma old_order_loses_update :
  let c := arun witness_old_sched (init order_old 0 [[SAdd 1]; [SAdd 1]]) in
  done_upto 2 c = true /\ length (hist (Sched.shared c)) = 2%nat /\ cell (Sched.shared c) = 1 /\
  cell (Sched.shared c) <> seq_result 0 (map snd (hist (Sched.shared c))).
Proof. vm_compute. split; [reflexivity|split; [reflexivity|split; [reflexivity|discriminate]]]. Qed.

(* the hypotheses of fixed_serializable are met non-trivially: 3 threads x 2 increments, interleaved *)
Example fixed_example :
  let c := arun (concat (repeat [0;1;2;2;1]%nat 20)) (init order_fixed 5 [[SAdd 1; SAdd 1]; [SAdd 1; SAdd 1]; [SAdd 1; SAdd 1]]) in
  done_upto 3 c = true /\ cell (Sched.shared c) = 11.
Proof. vm_compute. split; reflexivity. Qed.


(* the write guard dropped before the run is published: the next statement takes the lock and its snapshot in
   the window and one of two increments is lost *)
Definition witness_early_unlock_sched : list nat := [0; 0; 0; 0; 1; 1; 1; 0; 1; 1]%nat.
Lemma early_unlock_loses_update :
  let c := arun witness_early_unlock_sched (init order_early_unlock 0 [[SAdd 1]; [SAdd 1]]) in
  done_upto 2 c = true /\ length (hist (Sched.shared c)) = 2%nat /\ cell (Sched.shared c) = 1 /\
  cell (Sched.shared c) <> seq_result 0 (map snd (hist (Sched.shared c))).
Proof. vm_compute. split; [reflexivity|split; [reflexivity|split; [reflexivity|discriminate]]]. Qed.
