(* Conc/Sched.v — common interleaving model (MODEL, a few generic lemmas at the end).
   A thread is a list of atomic steps (operations of type Op) still to run plus a
   thread-local value; all threads share one record.  A schedule is a list of
   thread ids; `step_thread t` runs the next operation of thread t if it is
   enabled (an operation whose semantics returns None is blocked: the thread does
   not move, the schedule entry is spent).  `run` folds a schedule.  Theorems about
   "all interleavings" are inductions over ALL schedules through `run_invariant`. *)
From Coq Require Import List Arith Bool.
Import ListNotations.

Section Sched.
  Variables Sh Lo Op : Type.
  (* semantics of one atomic operation: thread id, shared record, local -> new shared, new local *)
  Variable sem : Op -> nat -> Sh -> Lo -> option (Sh * Lo).

  Record thread := { todo : list Op; loc : Lo }.
  Record cfg := { shared : Sh; threads : nat -> thread }.

  Definition upd (f : nat -> thread) (t : nat) (th : thread) : nat -> thread :=
    fun u => if Nat.eqb u t then th else f u.

  Definition step_thread (t : nat) (c : cfg) : cfg :=
    let th := threads c t in
    match todo th with
    | [] => c
    | a :: rest =>
        match sem a t (shared c) (loc th) with
        | None => c
        | Some (s', l') => {| shared := s'; threads := upd (threads c) t {| todo := rest; loc := l' |} |}
        end
    end.

  Definition run (sched : list nat) (c : cfg) : cfg := fold_left (fun c t => step_thread t c) sched c.

  (* thread pool from a list of programs; ids beyond the list have nothing to do *)
  Definition pool (l0 : Lo) (progs : list (list Op)) : nat -> thread :=
    fun t => {| todo := nth t progs []; loc := l0 |}.

  Definition done_upto (n : nat) (c : cfg) : bool :=
    forallb (fun t => match todo (threads c t) with [] => true | _ => false end) (seq 0 n).

  Lemma run_app : forall s1 s2 c, run (s1 ++ s2) c = run s2 (run s1 c).
  Proof. intros; unfold run; apply fold_left_app. Qed.

  Lemma run_cons : forall t s c, run (t :: s) c = run s (step_thread t c).
  Proof. reflexivity. Qed.

  (* induction over all schedules *)
  Lemma run_invariant (Inv : cfg -> Prop) :
    (forall t c, Inv c -> Inv (step_thread t c)) ->
    forall sched c, Inv c -> Inv (run sched c).
  Proof.
    intros Hs sched; induction sched as [|t s IH]; intros c Hc; [exact Hc|].
    rewrite run_cons. apply IH, Hs, Hc.
  Qed.

  Lemma upd_same : forall f t th, upd f t th t = th.
  Proof. intros; unfold upd; rewrite Nat.eqb_refl; reflexivity. Qed.

  Lemma upd_other : forall f t th u, u <> t -> upd f t th u = f u.
  Proof. intros f t th u H; unfold upd. apply Nat.eqb_neq in H; rewrite H; reflexivity. Qed.

  Lemma done_upto_spec : forall n c, done_upto n c = true -> forall t, t < n -> todo (threads c t) = [].
  Proof.
    intros n c H t Ht. unfold done_upto in H. rewrite forallb_forall in H.
    specialize (H t). rewrite in_seq in H.
    destruct (todo (threads c t)); [reflexivity|]. discriminate H. split; [apply Nat.le_0_l|exact Ht].
  Qed.
End Sched.

Arguments todo {Lo Op} _.
Arguments loc {Lo Op} _.
Arguments shared {Sh Lo Op} _.
Arguments threads {Sh Lo Op} _ _.
Arguments Build_thread {Lo Op} _ _.
Arguments Build_cfg {Sh Lo Op} _ _.
Arguments upd {Lo Op} _ _ _ _.
Arguments step_thread {Sh Lo Op} _ _ _.
Arguments run {Sh Lo Op} _ _ _.
Arguments pool {Lo Op} _ _ _.
Arguments done_upto {Sh Lo Op} _ _.
Arguments run_invariant {Sh Lo Op} _ _ _ _ _ _.
Arguments run_app {Sh Lo Op} _ _ _ _.
Arguments upd_same {Lo Op} _ _ _.
Arguments upd_other {Lo Op} _ _ _ _ _.
Arguments done_upto_spec {Sh Lo Op} _ _ _ _ _.
