(* Query/Rows.v — the row-stream operators of the executor.
   Model file: executable definitions only.

   A plan node of the executor is an iterator of `Result<Row>`: a row that
   fails at runtime is an `Err` item *in the stream*, the stream goes on after
   it, and the caller's `collect::<Result<Vec<_>>>()` reports the first `Err`.
   A stream is therefore `list (result row)`.  Transcribed from
     plan_iterators.rs  FilterIter                      -> op_filter
     plan_mid.rs        execute_project                 -> op_project
                        execute_order_by                -> op_orderby
     plan_tail.rs       execute_distinct/union/skip/limit/unwind
                                                        -> op_distinct op_union op_skip op_limit op_unwind
     projection_sort.rs execute_aggregate               -> op_aggregate
   as they are after the repair `fix: ... propagate upstream errors` (see
   known/C22.json): DISTINCT, UNION and SKIP pass `Err` items through, ORDER BY
   returns the first `Err` it collected. *)
From NDB Require Export Query.Expr.
Open Scope N_scope.

Definition rrow := result row.
Definition stream := list rrow.

(* collect::<Result<Vec<_>>>(): the first error wins *)
Fixpoint collect (s : stream) : result (list row) :=
  match s with
  | [] => Ok []
  | Err e :: _ => Err e
  | Ok r :: t => match collect t with Ok l => Ok (r :: l) | Err e => Err e end
  end.

Definition oks (l : list row) : stream := map Ok l.

Fixpoint first_err (s : stream) : option rerr :=
  match s with
  | [] => None
  | Err e :: _ => Some e
  | Ok _ :: t => first_err t
  end.

(* ---------- WHERE ---------- *)
Definition filter_item (E : env) (p : expr) (it : rrow) : stream :=
  match it with
  | Err e => [Err e]
  | Ok r => match eval E r p with
            | Err e => [Err e]
            | Ok v => if truthy v then [Ok r] else []
            end
  end.
Definition op_filter (E : env) (p : expr) (s : stream) : stream := flat_map (filter_item E p) s.

(* on plain rows: what WHERE p keeps *)
Definition filter_where (E : env) (p : expr) (rows : list row) : stream := op_filter E p (oks rows).

(* ---------- projection (WITH / RETURN items) ---------- *)
Fixpoint project_row (E : env) (r : row) (items : list (var * expr)) (acc : row) : rrow :=
  match items with
  | [] => Ok acc
  | (x, e) :: t => match eval E r e with
                   | Ok v => project_row E r t (row_with acc x v)
                   | Err x => Err x
                   end
  end.
Definition op_project (E : env) (items : list (var * expr)) (s : stream) : stream :=
  map (fun it => match it with Err e => Err e | Ok r => project_row E r items [] end) s.

(* ---------- UNWIND ---------- *)
Definition unwind_item (E : env) (e : expr) (x : var) (it : rrow) : stream :=
  match it with
  | Err er => [Err er]
  | Ok r => match eval E r e with
            | Err er => [Err er]
            | Ok (VList l) =>
                match check_coll E (Z.of_nat (length l)) with
                | Err er => [Err er]
                | Ok _ => map (fun v => Ok (row_with r x v)) l
                end
            | Ok VNull => []
            | Ok v => [Ok (row_with r x v)]
            end
  end.
Definition op_unwind (E : env) (e : expr) (x : var) (s : stream) : stream :=
  flat_map (unwind_item E e x) s.

(* ---------- DISTINCT / UNION ----------
   key = Debug rendering of the column values: structural identity, every NaN
   one value, +0.0 and -0.0 different, 1 and 1.0 different; names are ignored *)
Fixpoint vals_same (a b : list value) : bool :=
  match a, b with
  | [], [] => true
  | x :: a', y :: b' => value_same x y && vals_same a' b'
  | _, _ => false
  end.
Definition row_same (a b : row) : bool := vals_same (map snd a) (map snd b).

Fixpoint distinct_go (seen : list row) (s : stream) : stream :=
  match s with
  | [] => []
  | Err e :: t => Err e :: distinct_go seen t
  | Ok r :: t => if existsb (row_same r) seen then distinct_go seen t
                 else Ok r :: distinct_go (r :: seen) t
  end.
Definition op_distinct (s : stream) : stream := distinct_go [] s.
Definition op_union (all : bool) (a b : stream) : stream :=
  if all then a ++ b else op_distinct (a ++ b).

(* ---------- SKIP / LIMIT ---------- *)
Fixpoint op_skip (n : nat) (s : stream) : stream :=
  match n, s with
  | O, _ => s
  | _, [] => []
  | S n', Ok _ :: t => op_skip n' t
  | S _, Err e :: t => Err e :: op_skip n t
  end.
(* Iterator::take: counts items, rows after the limit are never pulled *)
Definition op_limit (n : nat) (s : stream) : stream := firstn n s.

(* ---------- ORDER BY ---------- *)
Fixpoint insert_by {A} (cmp : A -> A -> comparison) (x : A) (l : list A) : list A :=
  match l with
  | [] => [x]
  | y :: t => match cmp x y with Lt => x :: l | _ => y :: insert_by cmp x t end
  end.
(* stable: an element goes after the elements it is equal to *)
Definition stable_sort {A} (cmp : A -> A -> comparison) (l : list A) : list A :=
  fold_left (fun acc x => insert_by cmp x acc) l [].

Fixpoint sort_keys (E : env) (r : row) (items : list (expr * bool)) : result (list (value * bool)) :=
  match items with
  | [] => Ok []
  | (e, asc) :: t =>
      match eval E r e with
      | Err x => Err x
      | Ok v => match sort_keys E r t with Ok ks => Ok ((v, asc) :: ks) | Err x => Err x end
      end
  end.
Fixpoint keyed (E : env) (items : list (expr * bool)) (rows : list row) : result (list (list (value * bool) * row)) :=
  match rows with
  | [] => Ok []
  | r :: t =>
      match sort_keys E r items with
      | Err x => Err x
      | Ok ks => match keyed E items t with Ok l => Ok ((ks, r) :: l) | Err x => Err x end
      end
  end.
Definition op_orderby (E : env) (items : list (expr * bool)) (s : stream) : stream :=
  match collect s with
  | Err e => [Err e]
  | Ok rows =>
      match keyed E items rows with
      | Err e => [Err e]
      | Ok l => oks (map snd (stable_sort (fun a b => keys_cmp no_temporal (fst a) (fst b)) l))
      end
  end.

(* ---------- aggregation ---------- *)
Inductive agg :=
| ACountStar
| ACount (e : expr)
| ASum (e : expr)
| AMin (e : expr)
| AMax (e : expr)
| ACollect (e : expr).

Definition agg_expr (a : agg) : option expr :=
  match a with ACountStar => None | ACount e | ASum e | AMin e | AMax e | ACollect e => Some e end.

(* grouping equality: HashMap<Vec<Value>, _> with derive(PartialEq) *)
Fixpoint keys_deq (a b : list value) : bool :=
  match a, b with
  | [], [] => true
  | x :: a', y :: b' => deq x y && keys_deq a' b'
  | _, _ => false
  end.

Fixpoint group_add (k : list value) (r : row) (gs : list (list value * list row)) : list (list value * list row) :=
  match gs with
  | [] => [(k, [r])]
  | (k', rs) :: t => if keys_deq k k' then (k', rs ++ [r]) :: t else (k', rs) :: group_add k r t
  end.

Definition non_null (l : list value) : list value := filter (fun v => negb (is_null v)) l.

(* sum: exact integer sum while no float was seen (wraps to i64 at the end), else f64 sum left to right *)
Definition sum_values (vs : list value) : value :=
  let saw_float := existsb (fun v => match v with VFloat _ => true | _ => false end) vs in
  if saw_float then
    VFloat (fold_left (fun acc v => match v with
                                    | VInt z => PrimFloat.add acc (f_of_int z)
                                    | VFloat f => PrimFloat.add acc f
                                    | _ => acc end) vs 0%float)
  else
    VInt (i64_of_u64 (u64_of_i64 (fold_left (fun acc v => match v with VInt z => (acc + z)%Z | _ => acc end) vs 0%Z))).

(* Iterator::min_by keeps the first of equal minima; max_by the last of equal maxima *)
Definition min_value (vs : list value) : value :=
  match vs with
  | [] => VNull
  | x :: t => fold_left (fun m v => match order_cmp no_temporal m v with Gt => v | _ => m end) t x
  end.
Definition max_value (vs : list value) : value :=
  match vs with
  | [] => VNull
  | x :: t => fold_left (fun m v => match order_cmp no_temporal m v with Gt => m | _ => v end) t x
  end.

Definition agg_value (E : env) (a : agg) (rows : list row) : value :=
  match a with
  | ACountStar => VInt (Z.of_nat (length rows))
  | ACount e => VInt (Z.of_nat (length (non_null (map (fun r => ev E r e) rows))))
  | ASum e => sum_values (map (fun r => ev E r e) rows)
  | AMin e => min_value (non_null (map (fun r => ev E r e) rows))
  | AMax e => max_value (non_null (map (fun r => ev E r e) rows))
  | ACollect e => VList (non_null (map (fun r => ev E r e) rows))
  end.

(* validate_aggregate_runtime_expressions on one input row *)
Fixpoint agg_check (E : env) (r : row) (aggs : list (var * agg)) : result unit :=
  match aggs with
  | [] => ok_unit
  | (_, a) :: t =>
      match agg_expr a with
      | None => agg_check E r t
      | Some e => bind (check E r e) (fun _ => agg_check E r t)
      end
  end.

Fixpoint agg_collect (E : env) (keys : list var) (aggs : list (var * agg)) (s : stream)
         (gs : list (list value * list row)) : result (list (list value * list row)) :=
  match s with
  | [] => Ok gs
  | Err e :: _ => Err e
  | Ok r :: t =>
      match agg_check E r aggs with
      | Err e => Err e
      | Ok _ =>
          (* group key: the values of the grouping columns that are present in the row *)
          let k := flat_map (fun x => match row_get r x with Some v => [v] | None => [] end) keys in
          agg_collect E keys aggs t (group_add k r gs)
      end
  end.

Fixpoint key_row (keys : list var) (k : list value) (acc : row) : row :=
  match keys, k with
  | x :: keys', v :: k' => key_row keys' k' (row_with acc x v)
  | _, _ => acc
  end.

Definition group_row (E : env) (keys : list var) (aggs : list (var * agg)) (g : list value * list row) : row :=
  fold_left (fun acc xa => row_with acc (fst xa) (agg_value E (snd xa) (snd g))) aggs (key_row keys (fst g) []).

(* the groups come out in HashMap order: the result is defined up to permutation *)
Definition op_aggregate (E : env) (keys : list var) (aggs : list (var * agg)) (s : stream) : stream :=
  match agg_collect E keys aggs s [] with
  | Err e => [Err e]
  | Ok gs =>
      let gs' := match gs, keys with [], [] => [([], [])] | _, _ => gs end in
      oks (map (group_row E keys aggs) gs')
  end.

(* ---------- EXISTS { subquery } ----------
   evaluator.rs, Expression::Exists(Subquery) via exists_subquery_has_rows: only
   the first item of the subquery's stream is pulled; `Ok(has_rows)` becomes a
   boolean, and an error becomes NULL (`Err(_) => Value::Null`), because
   evaluate_expression_value returns a Value and cannot fail.  This is the code
   as it is (known finding K-C22-exists): the enclosing WHERE then drops the row. *)
Definition exists_subquery_value (sub : stream) : value :=
  match sub with
  | [] => VBool false
  | Ok _ :: _ => VBool true
  | Err _ :: _ => VNull
  end.
