(* Query/Clauses_proofs.v — facts about the reference semantics (C11). *)
From Coq Require Import Lia.
From NDB Require Import Query.Clauses Query.Rows_proofs.
Open Scope N_scope.

(* OPTIONAL MATCH returns at least one row per input row, in both modes *)
Theorem optional_match_nonempty : forall md E ps w r, match_item md E true ps w (Ok r) <> [].
Proof.
  intros md E ps w r. cbn [match_item].
  destruct (opt_filter E w (oks (match_patterns md (e_g E) ps r))); discriminate.
Qed.

(* LIMIT n returns at most n items, SKIP never adds items *)
Theorem limit_length : forall n s, (length (op_limit n s) <= n)%nat.
Proof. intros n s. unfold op_limit. apply firstn_le_length. Qed.

Theorem skip_length : forall n s, (length (op_skip n s) <= length s)%nat.
Proof.
  intros n s. revert n. induction s as [|[r|e] s IH]; intros n; destruct n; cbn [op_skip length]; try lia.
  - specialize (IH n). lia.
  - specialize (IH (S n)). lia.
Qed.
