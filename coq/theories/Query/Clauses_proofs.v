(* Query/Clauses_proofs.v — facts about the reference semantics (C11). *)
From Coq Require Import Lia.
From NDB Require Import Query.Clauses Query.Rows_proofs.
Open Scope N_scope.

(* OPTIONAL MATCH returns at least one row per input row, in both modes *)
Theorem optional_match_nonempty : forall md E ps w r, match_item md E true ps w (Ok r) <> [].
Proof.
  intros md E ps w r. cbn [match_item].
  destruct (opt_filter E w (oks (match_patterns md (e_g E) ps r))); discriminate.
Qed.

(* LIMIT n returns at most n items, SKIP never adds items *)
Theorem limit_length : forall n s, (length (op_limit n s) <= n)%nat.
Proof. intros n s. unfold op_limit. apply firstn_le_length. Qed.

Theorem skip_length : forall n s, (length (op_skip n s) <= length s)%nat.
Proof.
  intros n s. revert n. induction s as [|[r|e] s IH]; intros n; destruct n; cbn [op_skip length]; try lia.
  - specialize (IH n). lia.
  - specialize (IH (S n)). lia.
Qed.

(* ================= relationship uniqueness of the reference =================
   Every match the Reference semantics returns for one MATCH clause (all its
   comma-separated patterns together) uses pairwise distinct relationships of
   the graph (positions in g_rels), exactly one per hop. *)
Definition valid_use (g : graph) (u : nat * rkey) : Prop := nth_error (g_rels g) (fst u) = Some (snd u).
Definition uses_ok (g : graph) (used : list (nat * rkey)) : Prop :=
  NoDup (map fst used) /\ Forall (valid_use g) used.

Lemma bind_node_snd g np id m m' : In m' (bind_node g np id m) -> snd m' = snd m.
Proof.
  unfold bind_node. destruct (node_has_labels g id (np_labels np)); [|intros []].
  destruct (row_get (fst m) (np_var np)) as [v|].
  - destruct v; try (intros []). destruct (id =? id0); [|intros []]. intros [<-|[]]. reflexivity.
  - intros [<-|[]]. reflexivity.
Qed.

Lemma start_nodes_snd g np m m' : In m' (start_nodes g np m) -> snd m' = snd m.
Proof.
  unfold start_nodes. destruct (row_get (fst m) (np_var np)) as [v|].
  - destruct v; try (intros []). apply bind_node_snd.
  - intros H. apply in_flat_map in H. destruct H as (id & _ & H). eapply bind_node_snd. exact H.
Qed.

Lemma indexed_from_nth {A} (l : list A) k i (e : A) :
  In (i, e) (indexed_from k l) -> (k <= i)%nat /\ nth_error l (i - k) = Some e.
Proof.
  revert k. induction l as [|x l IH]; intros k H; [destruct H|]. cbn [indexed_from] in H. destruct H as [H|H].
  - inversion H; subst. split; [lia|]. replace (i - i)%nat with 0%nat by lia. reflexivity.
  - destruct (IH (S k) H) as (Hle & Hn). split; [lia|].
    replace (i - k)%nat with (S (i - S k)) by lia. exact Hn.
Qed.

Lemma existsb_fst_false (used : list (nat * rkey)) i :
  existsb (fun u => Nat.eqb (fst u) i) used = false -> ~ In i (map fst used).
Proof.
  induction used as [|u used IH]; intros H Hin; [exact Hin|]. cbn [existsb] in H.
  apply Bool.orb_false_iff in H. destruct H as (H1 & H2). destruct Hin as [Hin|Hin].
  - rewrite Hin, PeanoNat.Nat.eqb_refl in H1. discriminate.
  - exact (IH H2 Hin).
Qed.

Lemma hop_reference_step g from rp np m m' :
  In m' (hop Reference g from rp np m) ->
  exists i e, snd m' = (i, e) :: snd m /\ ~ In i (map fst (snd m)) /\ valid_use g (i, e).
Proof.
  unfold hop. destruct (node_of m from) as [n|]; [|intros []].
  intros H. apply in_flat_map in H. destruct H as ((i, e) & Hie & H).
  destruct (blocked Reference g (snd m) i e || negb (type_ok (rp_types rp) e)) eqn:Hb; [destruct H|].
  apply Bool.orb_false_iff in Hb. destruct Hb as (Hb & _).
  apply in_flat_map in H. destruct H as (d & _ & H). apply bind_node_snd in H. cbn [snd] in H.
  exists i, e. split; [exact H|]. split.
  - apply existsb_fst_false. exact Hb.
  - unfold valid_use, indexed_rels in *. cbn [fst snd]. apply indexed_from_nth in Hie.
    destruct Hie as (_ & Hn). replace (i - 0)%nat with i in Hn by lia. exact Hn.
Qed.

Lemma hop_reference_inv g from rp np m m' :
  uses_ok g (snd m) -> In m' (hop Reference g from rp np m) ->
  uses_ok g (snd m') /\ length (snd m') = S (length (snd m)).
Proof.
  intros (Hnd & Hv) H. destruct (hop_reference_step _ _ _ _ _ _ H) as (i & e & -> & Hni & Hval).
  split; [|reflexivity]. split.
  - cbn [map fst]. constructor; assumption.
  - constructor; assumption.
Qed.

Lemma hops_reference_inv g hs : forall from ms m',
  (forall m, In m ms -> exists n, uses_ok g (snd m) /\ length (snd m) = n) ->
  In m' (hops Reference g from hs ms) ->
  exists m, In m ms /\ uses_ok g (snd m') /\ length (snd m') = (length hs + length (snd m))%nat /\
            (uses_ok g (snd m)).
Proof.
  induction hs as [|(rp, np) hs IH]; intros from ms m' Hall H.
  - cbn [hops] in H. exists m'. destruct (Hall m' H) as (n & Hok & _).
    split; [exact H|]. split; [exact Hok|]. split; [reflexivity | exact Hok].
  - cbn [hops] in H.
    assert (Hall' : forall m, In m (flat_map (hop Reference g from rp np) ms) -> exists n, uses_ok g (snd m) /\ length (snd m) = n).
    { intros m Hm. apply in_flat_map in Hm. destruct Hm as (m0 & Hm0 & Hm). destruct (Hall m0 Hm0) as (n & Hok & _).
      destruct (hop_reference_inv _ _ _ _ _ _ Hok Hm) as (Hok' & _). eexists. split; [exact Hok'|reflexivity]. }
    destruct (IH (np_var np) _ m' Hall' H) as (m1 & Hm1 & Hok' & Hlen & _).
    apply in_flat_map in Hm1. destruct Hm1 as (m0 & Hm0 & Hm1). destruct (Hall m0 Hm0) as (n & Hok0 & _).
    destruct (hop_reference_inv _ _ _ _ _ _ Hok0 Hm1) as (_ & Hl1).
    exists m0. split; [exact Hm0|]. split; [exact Hok'|]. split; [|exact Hok0].
    rewrite Hlen, Hl1. cbn [length]. lia.
Qed.

Lemma match_pattern_reference_inv g p m m' :
  uses_ok g (snd m) -> In m' (match_pattern Reference g p m) ->
  uses_ok g (snd m') /\ length (snd m') = (length (p_hops p) + length (snd m))%nat.
Proof.
  intros Hok H. unfold match_pattern in H.
  assert (Hall : forall m0, In m0 (start_nodes g (p_start p) m) -> exists n, uses_ok g (snd m0) /\ length (snd m0) = n).
  { intros m0 Hm0. rewrite (start_nodes_snd _ _ _ _ Hm0). eexists. split; [exact Hok|reflexivity]. }
  destruct (hops_reference_inv g (p_hops p) _ _ m' Hall H) as (m0 & Hm0 & Hok' & Hlen & _).
  split; [exact Hok'|]. rewrite Hlen, (start_nodes_snd _ _ _ _ Hm0). reflexivity.
Qed.

Definition total_hops (ps : list pattern) : nat := fold_right (fun p n => (length (p_hops p) + n)%nat) 0%nat ps.

Lemma total_hops_cons p ps : total_hops (p :: ps) = (length (p_hops p) + total_hops ps)%nat.
Proof. reflexivity. Qed.

Lemma fold_patterns_reference_inv g ps : forall ms k m',
  (forall m, In m ms -> uses_ok g (snd m) /\ length (snd m) = k) ->
  In m' (fold_left (fun ms p => flat_map (fun m => match_pattern Reference g p m) ms) ps ms) ->
  uses_ok g (snd m') /\ length (snd m') = (total_hops ps + k)%nat.
Proof.
  induction ps as [|p ps IH]; intros ms k m' Hall H.
  - cbn [fold_left] in H. destruct (Hall m' H) as (Hok & Hl). split; [exact Hok | exact Hl].
  - cbn [fold_left] in H.
    assert (Hall' : forall m, In m (flat_map (fun m0 => match_pattern Reference g p m0) ms) ->
                              uses_ok g (snd m) /\ length (snd m) = (length (p_hops p) + k)%nat).
    { intros m Hm. apply in_flat_map in Hm. destruct Hm as (m0 & Hm0 & Hm). destruct (Hall m0 Hm0) as (Hok0 & Hl0).
      destruct (match_pattern_reference_inv _ _ _ _ Hok0 Hm) as (Hok' & Hl'). split; [exact Hok'|]. rewrite Hl', Hl0. reflexivity. }
    destruct (IH _ _ m' Hall' H) as (Hok & Hl). split; [exact Hok|]. rewrite Hl, total_hops_cons. lia.
Qed.

Theorem reference_match_unique : forall g ps r m,
  In m (match_pms Reference g ps r) ->
  NoDup (map fst (snd m)) /\ Forall (valid_use g) (snd m) /\ length (snd m) = total_hops ps.
Proof.
  intros g ps r m H. unfold match_pms in H.
  assert (Hall : forall m0 : pm, In m0 [(r, [])] -> uses_ok g (snd m0) /\ length (snd m0) = 0%nat).
  { intros m0 [<-|[]]. split; [split; constructor | reflexivity]. }
  destruct (fold_patterns_reference_inv g ps _ _ m Hall H) as ((Hnd & Hv) & Hl).
  repeat split; [exact Hnd | exact Hv |]. rewrite Hl. lia.
Qed.
