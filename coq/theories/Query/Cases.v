(* Query/Cases.v — helpers shared by the correspondence files of C19, C22,
   C33 and C11: the implementation's outcome of a query as the harness records
   it, and its comparison with the model's outcome.  Executable definitions only. *)
From NDB Require Export Query.Rows Corr.Common.
Open Scope N_scope.

(* outcome of prepare + execute_streaming + collect::<Result<Vec<_>>>():
   rows (column values in RETURN order) or an error class
   1 InvalidArgumentType, 2 InvalidArgumentValue, 3 resource limit, 4 other runtime error *)
Inductive iout := IRows (l : list row) | IErr (c : N).

Definition err_code (e : rerr) : N :=
  match e with
  | RTypeError => 1
  | RArgValue => 2
  | RLimit _ => 3
  | ROther => 4
  | RUnmodelled => 0          (* never equal to an implementation outcome: reported as a mismatch *)
  end.

Fixpoint remove_first (r : row) (l : list row) : option (list row) :=
  match l with
  | [] => None
  | x :: t => if row_same r x then Some t
              else match remove_first r t with Some t' => Some (x :: t') | None => None end
  end.
(* equal as multisets of rows (values compared structurally, column names ignored) *)
Fixpoint rows_perm_eqb (a b : list row) : bool :=
  match a with
  | [] => match b with [] => true | _ => false end
  | r :: a' => match remove_first r b with Some b' => rows_perm_eqb a' b' | None => false end
  end.
Definition rows_seq_eqb (a b : list row) : bool := list_eqb row_same a b.

Definition out_same (ordered : bool) (m : result (list row)) (i : iout) : bool :=
  match m, i with
  | Ok a, IRows b => if ordered then rows_seq_eqb a b else rows_perm_eqb a b
  | Err e, IErr c => err_code e =? c
  | _, _ => false
  end.
