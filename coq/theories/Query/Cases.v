(* Query/Cases.v — helpers shared by the correspondence files of C19, C22,
   C33 and C11: the implementation's outcome of a query as the harness records
   it, and its comparison with the model's outcome.  Executable definitions only. *)
From NDB Require Export Query.Rows Corr.Common.
Open Scope N_scope.

(* outcome of prepare + execute_streaming + collect::<Result<Vec<_>>>():
   rows (column values in RETURN order) or an error class
   1 InvalidArgumentType, 2 InvalidArgumentValue, 3 resource limit, 4 other runtime error *)
Inductive iout := IRows (l : list row) | IErr (c : N).

Definition err_code (e : rerr) : N :=
  match e with
  | RTypeError => 1
  | RArgValue => 2
  | RLimit _ => 3
  | ROther => 4
  | RUnmodelled => 0          (* never equal to an implementation outcome: reported as a mismatch *)
  end.

Fixpoint remove_first (r : row) (l : list row) : option (list row) :=
  match l with
  | [] => None
  | x :: t => if row_same r x then Some t
              else match remove_first r t with Some t' => Some (x :: t') | None => None end
  end.
(* equal as multisets of rows (values compared structurally, column names ignored) *)
Fixpoint rows_perm_eqb (a b : list row) : bool :=
  match a with
  | [] => match b with [] => true | _ => false end
  | r :: a' => match remove_first r b with Some b' => rows_perm_eqb a' b' | None => false end
  end.
Definition rows_seq_eqb (a b : list row) : bool := list_eqb row_same a b.

Definition out_same (ordered : bool) (m : result (list row)) (i : iout) : bool :=
  match m, i with
  | Ok a, IRows b => if ordered then rows_seq_eqb a b else rows_perm_eqb a b
  | Err e, IErr c => err_code e =? c
  | _, _ => false
  end.

(* ---------- comparison that ignores the element order of top-level lists ----------
   `collect(e)` without ORDER BY has no defined element order (it is the row
   enumeration order of the plan): for queries that use collect the columns that
   are lists are compared as multisets.  Other queries keep the ordered comparison. *)
Fixpoint remove_first_value (v : value) (l : list value) : option (list value) :=
  match l with
  | [] => None
  | x :: t => if value_same v x then Some t
              else match remove_first_value v t with Some t' => Some (x :: t') | None => None end
  end.
Fixpoint values_perm_eqb (a b : list value) : bool :=
  match a with
  | [] => match b with [] => true | _ => false end
  | v :: a' => match remove_first_value v b with Some b' => values_perm_eqb a' b' | None => false end
  end.
Definition value_same_ul (a b : value) : bool :=
  match a, b with
  | VList l, VList r => values_perm_eqb l r
  | _, _ => value_same a b
  end.
Fixpoint vals_same_ul (a b : list value) : bool :=
  match a, b with
  | [], [] => true
  | x :: a', y :: b' => value_same_ul x y && vals_same_ul a' b'
  | _, _ => false
  end.
Definition row_same_ul (a b : row) : bool := vals_same_ul (map snd a) (map snd b).
Fixpoint remove_first_ul (r : row) (l : list row) : option (list row) :=
  match l with
  | [] => None
  | x :: t => if row_same_ul r x then Some t
              else match remove_first_ul r t with Some t' => Some (x :: t') | None => None end
  end.
Fixpoint rows_perm_eqb_ul (a b : list row) : bool :=
  match a with
  | [] => match b with [] => true | _ => false end
  | r :: a' => match remove_first_ul r b with Some b' => rows_perm_eqb_ul a' b' | None => false end
  end.
(* `unordered_lists` = the query collects without fixing the order *)
Definition out_same_ul (unordered_lists ordered : bool) (m : result (list row)) (i : iout) : bool :=
  if unordered_lists then
    match m, i with
    | Ok a, IRows b => if ordered then list_eqb row_same_ul a b else rows_perm_eqb_ul a b
    | Err e, IErr c => err_code e =? c
    | _, _ => false
    end
  else out_same ordered m i.
