(* Query/Rows_proofs.v — laws of the row-stream operators.
   C19: WHERE p / WHERE NOT p / WHERE p IS NULL partition the rows.
   C22: every operator reports an upstream error. *)
From Coq Require Import Lia Permutation.
From NDB Require Import Query.Rows.
Open Scope N_scope.

(* ================= generic list facts ================= *)
Inductive subseq {A} : list A -> list A -> Prop :=
| ss_nil : subseq [] []
| ss_skip : forall x l m, subseq l m -> subseq l (x :: m)
| ss_keep : forall x l m, subseq l m -> subseq (x :: l) (x :: m).

Lemma filter_subseq {A} (f : A -> bool) (l : list A) : subseq (filter f l) l.
Proof.
  induction l as [|x l IH]; cbn [filter]; [constructor|].
  destruct (f x); [apply ss_keep | apply ss_skip]; exact IH.
Qed.

Definition exactly_one (a b c : bool) : Prop :=
  (a = true /\ b = false /\ c = false) \/
  (a = false /\ b = true /\ c = false) \/
  (a = false /\ b = false /\ c = true).

Lemma partition3_perm {A} (f1 f2 f3 : A -> bool) (l : list A) :
  (forall x, In x l -> exactly_one (f1 x) (f2 x) (f3 x)) ->
  Permutation (filter f1 l ++ filter f2 l ++ filter f3 l) l.
Proof.
  induction l as [|x l IH]; intros H; cbn [filter app]; [constructor|].
  assert (Hx : exactly_one (f1 x) (f2 x) (f3 x)) by (apply H; left; reflexivity).
  assert (IH' : Permutation (filter f1 l ++ filter f2 l ++ filter f3 l) l)
    by (apply IH; intros y Hy; apply H; right; exact Hy).
  destruct Hx as [(E1 & E2 & E3) | [(E1 & E2 & E3) | (E1 & E2 & E3)]]; rewrite E1, E2, E3.
  - cbn [app]. constructor. exact IH'.
  - apply Permutation_sym. eapply Permutation_trans.
    2: { apply Permutation_middle. }
    constructor. apply Permutation_sym. exact IH'.
  - apply Permutation_sym. rewrite app_assoc. eapply Permutation_trans.
    2: { apply Permutation_middle. }
    constructor. rewrite <- app_assoc. apply Permutation_sym. exact IH'.
Qed.

(* ================= evaluation of NOT p and p IS NULL ================= *)
Lemma eval_not E r p :
  eval E r (e_not p) = match eval E r p with Ok v => Ok (v_not v) | Err e => Err e end.
Proof. unfold eval, e_not. cbn [check ev apply_un]. destruct (check E r p); reflexivity. Qed.

Lemma eval_is_null E r p :
  eval E r (e_is_null p) = match eval E r p with Ok v => Ok (VBool (is_null v)) | Err e => Err e end.
Proof. unfold eval, e_is_null. cbn [check ev apply_un]. destruct (check E r p); reflexivity. Qed.

(* ================= C19 ================= *)
Definition tri_value (v : value) : Prop := v = VBool true \/ v = VBool false \/ v = VNull.
(* p evaluates on r to true, false or null (no runtime error, no other type) *)
Definition tri_valued (E : env) (p : expr) (r : row) : Prop :=
  exists v, eval E r p = Ok v /\ tri_value v.

(* the row passes WHERE q *)
Definition keeps (E : env) (q : expr) (r : row) : bool :=
  match eval E r q with Ok v => truthy v | Err _ => false end.

Lemma keeps_exactly_one E p r :
  tri_valued E p r -> exactly_one (keeps E p r) (keeps E (e_not p) r) (keeps E (e_is_null p) r).
Proof.
  intros (v & Hv & Ht). unfold keeps. rewrite eval_not, eval_is_null, Hv.
  destruct Ht as [-> | [-> | ->]]; cbn; unfold exactly_one; tauto.
Qed.

Lemma collect_oks l : collect (oks l) = Ok l.
Proof. induction l as [|x l IH]; cbn; [reflexivity|]. unfold oks in IH. rewrite IH. reflexivity. Qed.

Lemma collect_ok_inv s l : collect s = Ok l -> s = oks l.
Proof.
  revert l. induction s as [|[r|e] s IH]; intros l H; cbn in H.
  - inversion H. reflexivity.
  - destruct (collect s) eqn:Hc; [|discriminate]. inversion H; subst. cbn. f_equal. apply IH. reflexivity.
  - discriminate.
Qed.

Definition no_error (E : env) (q : expr) (r : row) : Prop := exists v, eval E r q = Ok v.

Lemma filter_where_filter E q rows :
  (forall r, In r rows -> no_error E q r) ->
  filter_where E q rows = oks (filter (keeps E q) rows).
Proof.
  unfold filter_where, op_filter. induction rows as [|r rows IH]; intros H; [reflexivity|].
  cbn [oks map flat_map filter]. fold (oks rows). rewrite IH by (intros; apply H; right; assumption).
  destruct (H r (or_introl eq_refl)) as (v & Hv). unfold keeps. cbn [filter_item]. rewrite Hv.
  destruct (truthy v); reflexivity.
Qed.

Lemma tri_no_error_not E p r : tri_valued E p r -> no_error E (e_not p) r.
Proof. intros (v & Hv & _). exists (v_not v). rewrite eval_not, Hv. reflexivity. Qed.
Lemma tri_no_error_null E p r : tri_valued E p r -> no_error E (e_is_null p) r.
Proof. intros (v & Hv & _). exists (VBool (is_null v)). rewrite eval_is_null, Hv. reflexivity. Qed.
Lemma tri_no_error E p r : tri_valued E p r -> no_error E p r.
Proof. intros (v & Hv & _). exists v. exact Hv. Qed.

(* the three filtered results, as row lists *)
Definition part_true E p rows := filter (keeps E p) rows.
Definition part_false E p rows := filter (keeps E (e_not p)) rows.
Definition part_null E p rows := filter (keeps E (e_is_null p)) rows.

Theorem where_partition :
  forall (E : env) (p : expr) (rows : list row),
    (forall r, In r rows -> tri_valued E p r) ->
    collect (filter_where E p rows) = Ok (part_true E p rows) /\
    collect (filter_where E (e_not p) rows) = Ok (part_false E p rows) /\
    collect (filter_where E (e_is_null p) rows) = Ok (part_null E p rows) /\
    Permutation (part_true E p rows ++ part_false E p rows ++ part_null E p rows) rows /\
    subseq (part_true E p rows) rows /\ subseq (part_false E p rows) rows /\ subseq (part_null E p rows) rows /\
    (forall r, In r rows -> exactly_one (keeps E p r) (keeps E (e_not p) r) (keeps E (e_is_null p) r)).
Proof.
  intros E p rows H.
  repeat split.
  - rewrite filter_where_filter by (intros; apply tri_no_error, H; assumption). apply collect_oks.
  - rewrite filter_where_filter by (intros; apply tri_no_error_not, H; assumption). apply collect_oks.
  - rewrite filter_where_filter by (intros; apply tri_no_error_null, H; assumption). apply collect_oks.
  - apply partition3_perm. intros r Hr. apply keeps_exactly_one, H, Hr.
  - apply filter_subseq.
  - apply filter_subseq.
  - apply filter_subseq.
  - intros r Hr. apply keeps_exactly_one, H, Hr.
Qed.

(* the same for the rows of any query: a stream that collects to `rows` *)
Theorem where_partition_stream :
  forall (E : env) (p : expr) (s : stream) (rows : list row),
    collect s = Ok rows ->
    (forall r, In r rows -> tri_valued E p r) ->
    exists l1 l2 l3,
      collect (op_filter E p s) = Ok l1 /\
      collect (op_filter E (e_not p) s) = Ok l2 /\
      collect (op_filter E (e_is_null p) s) = Ok l3 /\
      Permutation (l1 ++ l2 ++ l3) rows /\
      subseq l1 rows /\ subseq l2 rows /\ subseq l3 rows.
Proof.
  intros E p s rows Hc H. apply collect_ok_inv in Hc. subst s.
  destruct (where_partition E p rows H) as (H1 & H2 & H3 & H4 & H5 & H6 & H7 & _).
  exists (part_true E p rows), (part_false E p rows), (part_null E p rows).
  repeat split; assumption.
Qed.

(* rows on which p is neither boolean nor null are in none of the three results *)
Theorem where_ill_typed_lost :
  forall E p r v, eval E r p = Ok v -> ~ tri_value v ->
    keeps E p r = false /\ keeps E (e_not p) r = false /\ keeps E (e_is_null p) r = false.
Proof.
  intros E p r v Hv Hn. unfold keeps. rewrite eval_not, eval_is_null, Hv.
  unfold tri_value in Hn.
  destruct v as [|[|]| | | | | | | |]; cbn; try tauto; exfalso; apply Hn; tauto.
Qed.

(* a stream that contains an error item collects to an error *)
Lemma collect_in_err s e : In (Err e) s -> is_err (collect s) = true.
Proof.
  induction s as [|[r|e'] s IH]; intros H; [destruct H| |reflexivity].
  destruct H as [H|H]; [discriminate|]. cbn [collect]. specialize (IH H).
  destruct (collect s); [discriminate IH | reflexivity].
Qed.

(* a row on which p raises a runtime error makes all three queries fail *)
Theorem where_error_reported :
  forall E p rows r e, In r rows -> eval E r p = Err e ->
    is_err (collect (filter_where E p rows)) = true /\
    is_err (collect (filter_where E (e_not p) rows)) = true /\
    is_err (collect (filter_where E (e_is_null p) rows)) = true.
Proof.
  intros E p rows r e Hin He.
  assert (G : forall q, eval E r q = Err e -> is_err (collect (filter_where E q rows)) = true).
  { intros q Hq. apply collect_in_err with (e := e). unfold filter_where, op_filter.
    apply in_flat_map. exists (Ok r). split; [apply in_map, Hin|].
    cbn [filter_item]. rewrite Hq. left. reflexivity. }
  repeat split; apply G.
  - exact He.
  - rewrite eval_not, He. reflexivity.
  - rewrite eval_is_null, He. reflexivity.
Qed.

(* ================= C22: operators report upstream errors ================= *)
Definition reports_error (s : stream) : Prop := is_err (collect s) = true.

Lemma in_err_collect s e : In (Err e) s -> exists e', collect s = Err e'.
Proof.
  intros H. apply collect_in_err in H. destruct (collect s) as [l|e']; [discriminate|]. exists e'. reflexivity.
Qed.

Theorem filter_propagates E p s e : In (Err e) s -> reports_error (op_filter E p s).
Proof.
  intros H. apply collect_in_err with (e := e). unfold op_filter. apply in_flat_map.
  exists (Err e). split; [exact H | left; reflexivity].
Qed.

Theorem project_propagates E items s e : In (Err e) s -> reports_error (op_project E items s).
Proof.
  intros H. apply collect_in_err with (e := e). unfold op_project.
  change (Err e : rrow) with ((fun it : rrow => match it with Err x => Err x | Ok r => project_row E r items [] end) (Err e)).
  apply in_map. exact H.
Qed.

Theorem unwind_propagates E ex x s e : In (Err e) s -> reports_error (op_unwind E ex x s).
Proof.
  intros H. apply collect_in_err with (e := e). unfold op_unwind. apply in_flat_map.
  exists (Err e). split; [exact H | left; reflexivity].
Qed.

Lemma distinct_go_keeps_err seen s e : In (Err e) s -> In (Err e) (distinct_go seen s).
Proof.
  revert seen. induction s as [|[r|e'] s IH]; intros seen H; [destruct H| |].
  - destruct H as [H|H]; [discriminate|]. cbn [distinct_go].
    destruct (existsb (row_same r) seen); [apply IH, H | right; apply IH, H].
  - cbn [distinct_go]. destruct H as [H|H]; [left; exact H | right; apply IH, H].
Qed.

Theorem distinct_propagates s e : In (Err e) s -> reports_error (op_distinct s).
Proof. intros H. apply collect_in_err with (e := e). apply distinct_go_keeps_err, H. Qed.

Theorem union_propagates all a b e : In (Err e) a \/ In (Err e) b -> reports_error (op_union all a b).
Proof.
  intros H. assert (Hab : In (Err e) (a ++ b)) by (apply in_or_app; exact H).
  unfold op_union. destruct all.
  - apply collect_in_err with (e := e). exact Hab.
  - apply distinct_propagates with (e := e). exact Hab.
Qed.

Lemma skip_keeps_err n s e : In (Err e) s -> In (Err e) (op_skip n s).
Proof.
  revert n. induction s as [|[r|e'] s IH]; intros n H; [destruct H| |].
  - destruct H as [H|H]; [discriminate|]. destruct n; cbn [op_skip]; [right; exact H | apply IH, H].
  - destruct n; cbn [op_skip]; [exact H|]. destruct H as [H|H]; [left; exact H | right; apply IH, H].
Qed.

Theorem skip_propagates n s e : In (Err e) s -> reports_error (op_skip n s).
Proof. intros H. apply collect_in_err with (e := e). apply skip_keeps_err, H. Qed.

(* LIMIT n pulls n items: an error among the items it pulls is reported (later rows are never evaluated) *)
Theorem limit_propagates n s e : In (Err e) (firstn n s) -> reports_error (op_limit n s).
Proof. intros H. apply collect_in_err with (e := e). exact H. Qed.

Theorem orderby_propagates E items s e : In (Err e) s -> reports_error (op_orderby E items s).
Proof.
  intros H. destruct (in_err_collect s e H) as (e' & He'). unfold reports_error, op_orderby. rewrite He'. reflexivity.
Qed.

Lemma agg_collect_err E keys aggs s e :
  In (Err e) s -> forall gs, exists e', agg_collect E keys aggs s gs = Err e'.
Proof.
  induction s as [|[r|e0] s IH]; intros H gs; [destruct H| |].
  - destruct H as [H|H]; [discriminate|]. cbn [agg_collect].
    destruct (agg_check E r aggs) as [u|e1]; [apply IH, H | exists e1; reflexivity].
  - exists e0. reflexivity.
Qed.

Theorem aggregate_propagates E keys aggs s e : In (Err e) s -> reports_error (op_aggregate E keys aggs s).
Proof.
  intros H. destruct (agg_collect_err E keys aggs s e H []) as (e' & He').
  unfold reports_error, op_aggregate. rewrite He'. reflexivity.
Qed.

(* errors the operators raise themselves on a row they consume *)
Theorem project_error_reported E items s r e :
  In (Ok r) s -> project_row E r items [] = Err e -> reports_error (op_project E items s).
Proof.
  intros H He. apply collect_in_err with (e := e). unfold op_project. rewrite <- He.
  change (project_row E r items []) with ((fun it : rrow => match it with Err x => Err x | Ok r0 => project_row E r0 items [] end) (Ok r)).
  apply in_map. exact H.
Qed.

Theorem unwind_error_reported E ex x s r e :
  In (Ok r) s -> eval E r ex = Err e -> reports_error (op_unwind E ex x s).
Proof.
  intros H He. apply collect_in_err with (e := e). unfold op_unwind. apply in_flat_map.
  exists (Ok r). split; [exact H|]. cbn [unwind_item]. rewrite He. left. reflexivity.
Qed.

Lemma keyed_err E items rows r e :
  In r rows -> sort_keys E r items = Err e -> exists e', keyed E items rows = Err e'.
Proof.
  induction rows as [|x rows IH]; intros H He; [destruct H|]. cbn [keyed].
  destruct H as [->|H].
  - rewrite He. exists e. reflexivity.
  - destruct (sort_keys E x items) as [ks|e1]; [|exists e1; reflexivity].
    destruct (IH H He) as (e' & ->). exists e'. reflexivity.
Qed.

Theorem orderby_key_error_reported E items s r e :
  In (Ok r) s -> sort_keys E r items = Err e -> reports_error (op_orderby E items s).
Proof.
  intros H He. unfold reports_error, op_orderby. destruct (collect s) as [rows|e0] eqn:Hc; [|reflexivity].
  apply collect_ok_inv in Hc. subst s. apply in_map_iff in H. destruct H as (r' & Hr' & Hin). inversion Hr'; subst r'.
  destruct (keyed_err E items rows r e Hin He) as (e' & ->). reflexivity.
Qed.

Lemma agg_collect_check_err E keys aggs s r e :
  In (Ok r) s -> agg_check E r aggs = Err e -> forall gs, exists e', agg_collect E keys aggs s gs = Err e'.
Proof.
  induction s as [|[x|e0] s IH]; intros H He gs; [destruct H| |].
  - cbn [agg_collect]. destruct H as [H|H].
    + inversion H; subst x. rewrite He. exists e. reflexivity.
    + destruct (agg_check E x aggs) as [u|e1]; [apply IH; assumption | exists e1; reflexivity].
  - exists e0. reflexivity.
Qed.

Theorem aggregate_arg_error_reported E keys aggs s r e :
  In (Ok r) s -> agg_check E r aggs = Err e -> reports_error (op_aggregate E keys aggs s).
Proof.
  intros H He. destruct (agg_collect_check_err E keys aggs s r e H He []) as (e' & He').
  unfold reports_error, op_aggregate. rewrite He'. reflexivity.
Qed.

(* K-C22-exists: the EXISTS-subquery expression turns a consumed error into NULL *)
Theorem exists_subquery_swallows :
  exists (sub : stream) (e : rerr), In (Err e) (firstn 1 sub) /\ exists_subquery_value sub = VNull.
Proof. exists [Err RArgValue], RArgValue. split; [left; reflexivity | reflexivity]. Qed.
