(* Query/Clauses.v — clauses of the read fragment as stream transformers.
   Model file: executable definitions only.

   One definition serves two purposes, selected by `mode`:
     Faithful  — the plans the engine builds (query_api/return_with.rs,
                 match_compile.rs): relationship uniqueness is enforced per
                 pattern chain only and by key multiplicity (path_usage.rs),
                 not across the comma-separated patterns of one MATCH;
     Reference — openCypher: no relationship is used twice within one MATCH clause.
   Inside one WITH/RETURN the order is Project, Distinct, OrderBy, Skip, Limit,
   Filter in both modes (the engine planned Distinct after Limit until b18a8dc).
   Everything else is common.  Relationships are the entries of `g_rels`
   (one per stored relationship, so a key of multiplicity m is m
   relationships), identified by their position; a relationship variable is
   bound to the key (VRel), so parallel relationships give equal rows.

   Not modelled: variable-length patterns, named paths, pattern predicates,
   relationship variables that are already bound, CALL, subqueries. *)
From NDB Require Export Query.Rows.
Open Scope N_scope.

Inductive mode := Faithful | Reference.

Inductive dir := DOut | DIn | DBoth.
Record npat := mk_npat { np_var : var; np_labels : list N }.
Record rpat := mk_rpat { rp_var : var; rp_types : list N; rp_dir : dir }.
Record pattern := mk_pattern { p_start : npat; p_hops : list (rpat * npat) }.

Record proj := mk_proj {
  pj_items : list (var * expr);
  pj_distinct : bool;
  pj_order : list (expr * bool);        (* over the projected columns; true = ascending *)
  pj_skip : option nat;
  pj_limit : option nat
}.

Inductive clause :=
| CMatch (optional : bool) (pats : list pattern) (where_ : option expr)
| CUnwind (e : expr) (x : var)
| CWith (p : proj) (where_ : option expr)
| CAgg (keys : list (var * expr)) (aggs : list (var * agg)) (p : proj) (where_ : option expr)
    (* WITH/RETURN with aggregates: group keys and aggregates are computed, then `p` (whose items
       range over the key and aggregate columns) is applied *)
| CReturn (p : proj).

Inductive query :=
| QSingle (cs : list clause)
| QUnion (all : bool) (a b : query).

(* ---------- pattern matching ---------- *)
Fixpoint indexed_from {A} (i : nat) (l : list A) : list (nat * A) :=
  match l with [] => [] | x :: t => (i, x) :: indexed_from (S i) t end.
Definition indexed_rels (g : graph) : list (nat * rkey) := indexed_from 0 (g_rels g).
Definition mem_nat (x : nat) (l : list nat) : bool := existsb (Nat.eqb x) l.

(* a partial match: the row so far and the relationships it uses (position in g_rels and key) *)
Definition pm := (row * list (nat * rkey))%type.

(* may relationship i (with key e) not be used again?
   Reference: it was used (instance identity).
   Faithful (path_usage.rs path_alias_contains_edge): the *key* was used at least as often as its
   multiplicity - while every parallel entry of the key is still enumerated, so a chain that comes
   back over a key of multiplicity m > 1 is counted more than once per relationship. *)
Definition blocked (md : mode) (g : graph) (used : list (nat * rkey)) (i : nat) (e : rkey) : bool :=
  match md with
  | Reference => existsb (fun u => Nat.eqb (fst u) i) used
  | Faithful =>
      let c := length (filter (fun u => n3_eqb (snd u) e) used) in
      negb (Nat.eqb c 0) && Nat.leb (multiplicity g e) c
  end.

(* binding a node variable: consistent with an existing binding, labels satisfied *)
Definition bind_node (g : graph) (np : npat) (id : N) (m : pm) : list pm :=
  if node_has_labels g id (np_labels np) then
    match row_get (fst m) (np_var np) with
    | None => [(row_with (fst m) (np_var np) (VNode id), snd m)]
    | Some (VNode id') => if id =? id' then [m] else []
    | Some _ => []
    end
  else [].

Definition start_nodes (g : graph) (np : npat) (m : pm) : list pm :=
  match row_get (fst m) (np_var np) with
  | Some (VNode id) => bind_node g np id m
  | Some _ => []                                   (* null from an OPTIONAL MATCH: no match *)
  | None => flat_map (fun id => bind_node g np id m) (node_ids g)
  end.

(* the node the pattern currently stands on *)
Definition node_of (m : pm) (x : var) : option N :=
  match row_get (fst m) x with Some (VNode id) => Some id | _ => None end.

Definition hop (md : mode) (g : graph) (from : var) (rp : rpat) (np : npat) (m : pm) : list pm :=
  match node_of m from with
  | None => []
  | Some n =>
      flat_map (fun ie : nat * rkey =>
        let '(i, e) := ie in
        if blocked md g (snd m) i e || negb (type_ok (rp_types rp) e) then [] else
        let ends :=
          match rp_dir rp with
          | DOut => if rk_src e =? n then [rk_dst e] else []
          | DIn => if rk_dst e =? n then [rk_src e] else []
          | DBoth => (if rk_src e =? n then [rk_dst e] else []) ++
                     (if (rk_dst e =? n) && negb (rk_src e =? rk_dst e) then [rk_src e] else [])
          end in
        flat_map (fun d =>
          bind_node g np d (row_with (fst m) (rp_var rp) (value_of_rkey e), (i, e) :: snd m)) ends)
      (indexed_rels g)
  end.

Fixpoint hops (md : mode) (g : graph) (from : var) (hs : list (rpat * npat)) (ms : list pm) : list pm :=
  match hs with
  | [] => ms
  | (rp, np) :: t => hops md g (np_var np) t (flat_map (hop md g from rp np) ms)
  end.

Definition match_pattern (md : mode) (g : graph) (p : pattern) (m : pm) : list pm :=
  hops md g (np_var (p_start p)) (p_hops p) (start_nodes g (p_start p) m).

(* Faithful: each comma-separated pattern starts with no relationship blocked *)
Definition match_pms (md : mode) (g : graph) (ps : list pattern) (r : row) : list pm :=
  fold_left (fun ms p =>
               flat_map (fun m => match_pattern md g p (match md with Faithful => (fst m, []) | Reference => m end)) ms)
            ps [(r, [])].
Definition match_patterns (md : mode) (g : graph) (ps : list pattern) (r : row) : list row :=
  map fst (match_pms md g ps r).

Definition pattern_vars (ps : list pattern) : list var :=
  flat_map (fun p => np_var (p_start p) :: flat_map (fun h => [rp_var (fst h); np_var (snd h)]) (p_hops p)) ps.

Definition opt_filter (E : env) (w : option expr) (s : stream) : stream :=
  match w with Some p => op_filter E p s | None => s end.

Definition match_item (md : mode) (E : env) (optional : bool) (ps : list pattern) (w : option expr) (it : rrow) : stream :=
  match it with
  | Err e => [Err e]
  | Ok r =>
      let found := opt_filter E w (oks (match_patterns md (e_g E) ps r)) in
      if optional then
        match found with
        | [] => [Ok (fold_left (fun acc x => match row_get acc x with Some _ => acc | None => row_with acc x VNull end)
                               (pattern_vars ps) r)]
        | _ => found
        end
      else found
  end.

(* ---------- projections ---------- *)
Definition opt_skip (n : option nat) (s : stream) : stream := match n with Some k => op_skip k s | None => s end.
Definition opt_limit (n : option nat) (s : stream) : stream := match n with Some k => op_limit k s | None => s end.
Definition opt_order (E : env) (o : list (expr * bool)) (s : stream) : stream :=
  match o with [] => s | _ => op_orderby E o s end.

(* query_api/return_with.rs after the repair b18a8dc: Project, Distinct, OrderBy, Skip, Limit
   in both modes (before it the engine planned Distinct after Limit) *)
Definition run_proj (md : mode) (E : env) (p : proj) (s : stream) : stream :=
  let projected := op_project E (pj_items p) s in
  let d := if pj_distinct p then op_distinct projected else projected in
  opt_limit (pj_limit p) (opt_skip (pj_skip p) (opt_order E (pj_order p) d)).

(* the Project below an Aggregate keeps what the aggregate arguments read and adds the
   grouping columns: the row extended by the key columns (aliases are fresh in the generator) *)
Definition extend_keys (E : env) (keys : list (var * expr)) (s : stream) : stream :=
  map (fun it => match it with Err e => Err e | Ok r => project_row E r keys r end) s.

Definition run_clause (md : mode) (E : env) (c : clause) (s : stream) : stream :=
  match c with
  | CMatch optional ps w => flat_map (match_item md E optional ps w) s
  | CUnwind e x => op_unwind E e x s
  | CWith p w => opt_filter E w (run_proj md E p s)
  | CAgg keys aggs p w =>
      opt_filter E w (run_proj md E p (op_aggregate E (map fst keys) aggs (extend_keys E keys s)))
  | CReturn p => run_proj md E p s
  end.

Definition run_clauses (md : mode) (E : env) (cs : list clause) : stream :=
  fold_left (fun s c => run_clause md E c s) cs [Ok []].

Fixpoint run_query (md : mode) (E : env) (q : query) : stream :=
  match q with
  | QSingle cs => run_clauses md E cs
  | QUnion all a b => op_union all (run_query md E a) (run_query md E b)
  end.

Definition result_of (md : mode) (E : env) (q : query) : result (list row) := collect (run_query md E q).
