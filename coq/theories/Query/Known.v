(* Query/Known.v — executable predicates of the known-finding classes of C11
   (mirrored in harness/hx_query/src/bin/c11.rs). *)
From NDB Require Export Query.Clauses.
Open Scope N_scope.

(* K-C11-crosspattern: a MATCH with two or more comma-separated patterns that contain a relationship *)
Definition has_rel (p : pattern) : bool := match p_hops p with [] => false | _ => true end.
Definition crosspattern_clause (c : clause) : bool :=
  match c with CMatch _ ps _ => Nat.leb 2 (length (filter has_rel ps)) | _ => false end.

(* K-C11-parallel: a pattern chain with two or more hops on a graph that has a relationship key of multiplicity >= 2 *)
Definition has_parallel (g : graph) : bool := existsb (fun e => Nat.leb 2 (multiplicity g e)) (g_rels g).
Definition parallel_clause (g : graph) (c : clause) : bool :=
  match c with CMatch _ ps _ => has_parallel g && existsb (fun p => Nat.leb 2 (length (p_hops p))) ps | _ => false end.

Definition known_clause (g : graph) (c : clause) : bool :=
  crosspattern_clause c || parallel_clause g c.
Fixpoint in_known_class (g : graph) (q : query) : bool :=
  match q with
  | QSingle cs => existsb (known_clause g) cs
  | QUnion _ a b => in_known_class g a || in_known_class g b
  end.
