(* Query/Expr.v — expressions of the read fragment and their evaluation with
   runtime errors as values.  Model file: executable definitions only; kept
   small and stable (imported by the Update area).

   Transcribed from nervusdb-query:
     evaluator.rs               evaluate_expression_value            -> ev
     executor/plan_mid.rs       ensure_runtime_expression_compatible -> check
   The engine evaluates an expression on a row in two passes: a *check* pass
   that walks the whole expression tree (every CASE branch, both sides of
   AND/OR) and raises `runtime error: InvalidArgumentType/Value` or a
   collection-size limit error for certain function calls, and a *value* pass
   that cannot fail (anything ill-typed becomes null).  `eval` = check, then ev.

   Anything the model does not cover (float remainder, string->number parsing
   beyond plain integers, toString) is the explicit error `RUnmodelled`, never
   a silently wrong value. *)
From NDB Require Export Cypher.Value Cypher.Compare Cypher.Logic Cypher.Arith Query.Graph.
Open Scope N_scope.

(* ---------- errors and results ---------- *)
Inductive limit_kind := LRows | LCollection | LApply | LTimeout.
Inductive rerr :=
| RTypeError            (* runtime error: InvalidArgumentType *)
| RArgValue             (* runtime error: InvalidArgumentValue *)
| RLimit (k : limit_kind)   (* execution error: ResourceLimitExceeded *)
| ROther                (* any other error of the executor *)
| RUnmodelled.          (* outside the model *)

Inductive result (A : Type) : Type := Ok (a : A) | Err (e : rerr).
Arguments Ok {A} a.
Arguments Err {A} e.

Definition bind {A B} (r : result A) (f : A -> result B) : result B :=
  match r with Ok a => f a | Err e => Err e end.
Definition is_err {A} (r : result A) : bool := match r with Err _ => true | Ok _ => false end.

(* ---------- rows ---------- *)
Definition var := N.
Definition row := list (var * value).

Fixpoint row_get (r : row) (x : var) : option value :=
  match r with
  | [] => None
  | (y, v) :: t => if x =? y then Some v else row_get t x
  end.
(* Row::with: replace in place or append *)
Fixpoint row_with (r : row) (x : var) (v : value) : row :=
  match r with
  | [] => [(x, v)]
  | (y, w) :: t => if x =? y then (y, v) :: t else (y, w) :: row_with t x v
  end.

(* ---------- syntax ---------- *)
Inductive unop := UNot | UNeg | UIsNull | UIsNotNull.
Inductive binop :=
| BEq | BNeq | BLt | BLe | BGt | BGe
| BAnd | BOr | BXor
| BAdd | BSub | BMul | BDiv | BMod
| BIn | BStartsWith | BEndsWith | BContains.
Inductive fn :=
| FToInteger | FToBoolean | FToFloat
| FSize | FCoalesce | FAbs | FSign | FHead | FLast | FTail | FReverse
| FRange | FIndex | FLabelsCount | FId | FLength.
(* FIndex is `container[index]`; FLabelsCount is size(labels(x)) (label names are not in the model) *)

Inductive expr :=
| ELit (v : value)
| EVar (x : var)
| EParam (x : var)
| EProp (x : var) (k : bytes)                 (* x.k *)
| EHasLabel (e : expr) (l : N)                (* e:Label, label by id (an id no node carries = unknown label) *)
| EList (es : list expr)
| EUn (o : unop) (e : expr)
| EBin (o : binop) (l r : expr)
| ECase (whens : list (expr * expr)) (els : expr)   (* searched CASE; no ELSE = ELit VNull *)
| EFn (f : fn) (args : list expr).

(* ---------- environment ---------- *)
Record env := mk_env {
  e_g : graph;              (* only nodes and relationship properties are read *)
  e_params : row;
  e_coll : option N         (* max_collection_items as it applies to Function(range); None = unlimited *)
}.

(* ---------- helpers on strings (UTF-8 bytes) ---------- *)
Fixpoint containsb (s sub : bytes) : bool :=
  prefixb sub s || match s with [] => false | _ :: t => containsb t sub end.
Definition ends_withb (s suf : bytes) : bool := prefixb (rev suf) (rev s).
Definition char_count (s : bytes) : N :=
  N.of_nat (length (filter (fun b => negb (N.land b 192 =? 128)) s)).
Definition ascii_lower (b : N) : N := if (65 <=? b) && (b <=? 90) then b + 32 else b.
Definition eq_ignore_case (s t : bytes) : bool := bytes_eqb (map ascii_lower s) (map ascii_lower t).
Definition s_true : bytes := [116; 114; 117; 101].
Definition s_false : bytes := [102; 97; 108; 115; 101].
Definition is_digit (b : N) : bool := (48 <=? b) && (b <=? 57).

(* str::parse::<i64>: optional sign, then one or more digits, value in range *)
Definition parse_digits (s : bytes) : option Z :=
  match s with
  | [] => None
  | _ => if forallb is_digit s
         then Some (fold_left (fun acc b => acc * 10 + Z.of_N (b - 48))%Z s 0%Z) else None
  end.
Definition parse_i64 (s : bytes) : option Z :=
  let r := match s with
           | 45 :: t => option_map Z.opp (parse_digits t)
           | 43 :: t => parse_digits t
           | _ => parse_digits s
           end in
  match r with Some z => if in_i64 z then Some z else None | None => None end.
(* a string that str::parse::<f64> certainly rejects: a float literal needs a
   digit unless it is (a signed, case-insensitive) inf / infinity / nan *)
Definition strip_sign (s : bytes) : bytes :=
  match s with 43 :: t => t | 45 :: t => t | _ => s end.
Definition s_inf : bytes := [105; 110; 102].
Definition s_infinity : bytes := [105; 110; 102; 105; 110; 105; 116; 121].
Definition s_nan : bytes := [110; 97; 110].
Definition surely_not_float (s : bytes) : bool :=
  forallb (fun b => negb (is_digit b)) s &&
  (let t := map ascii_lower (strip_sign s) in
   negb (bytes_eqb t s_inf || bytes_eqb t s_infinity || bytes_eqb t s_nan)).

(* ---------- casts ---------- *)
Definition two63z : Z := 9223372036854775808.
Definition trunc_key (k : Z) : Z := Z.quot k (Z.pow 2 fscale).
Definition cast_int_of_float (f : float) : value :=
  match fkey f with
  | None => VNull
  | Some k =>
      if (Z.abs k =? finf_key)%Z then VNull else
      let t := trunc_key k in
      if (t <? - two63z)%Z || (two63z <? t)%Z then VNull
      else VInt (Z.min t (two63z - 1))          (* `as i64` saturates at 2^63 *)
  end.
(* None = outside the model *)
Definition cast_to_integer (v : value) : option value :=
  match v with
  | VInt z => Some (VInt z)
  | VFloat f => Some (cast_int_of_float f)
  | VStr s =>
      match parse_i64 s with
      | Some z => Some (VInt z)
      | None => if surely_not_float s then Some VNull else None
      end
  | _ => Some VNull
  end.
Definition cast_to_boolean (v : value) : value :=
  match v with
  | VBool b => VBool b
  | VStr s => if eq_ignore_case s s_true then VBool true
              else if eq_ignore_case s s_false then VBool false else VNull
  | _ => VNull
  end.
Definition f_is_finite (f : float) : bool :=
  match fkey f with Some k => negb (Z.abs k =? finf_key)%Z | None => false end.
Definition cast_to_float (v : value) : option value :=
  match v with
  | VInt z => Some (VFloat (f_of_int z))
  | VFloat f => Some (if f_is_finite f then VFloat f else VNull)
  | VStr s => if surely_not_float s then Some VNull else None
  | _ => Some VNull
  end.

(* ---------- list helpers ---------- *)
Definition in_list (tpv : value) (r : value) : value :=
  match r with
  | VNull => VNull
  | VList items =>
      (fix go (items : list value) (saw_null : bool) : value :=
         match items with
         | [] => if saw_null then VNull else VBool false
         | x :: t => match cy_eq tpv x with
                     | Some true => VBool true
                     | Some false => go t saw_null
                     | None => go t true
                     end
         end) items false
  | _ => VNull
  end.

Definition str_pred (p : bytes -> bytes -> bool) (l r : value) : value :=
  match l, r with VStr a, VStr b => VBool (p a b) | _, _ => VNull end.

(* estimate_range_len / evaluate_range; lengths as Z *)
Definition range_len (s e st : Z) : Z :=
  if (0 <? st)%Z then (if (e <? s)%Z then 0 else (e - s) / st + 1)%Z
  else (if (s <? e)%Z then 0 else (s - e) / (- st) + 1)%Z.
Definition range_list (s e st : Z) : list value :=
  map (fun i => VInt (s + st * Z.of_nat i)%Z) (seq 0 (Z.to_nat (range_len s e st))).

Definition index_value (g : graph) (c i : value) : value :=
  match c, i with
  | VList items, VInt z =>
      let len := Z.of_nat (length items) in
      let idx := if (z <? 0)%Z then (len + z)%Z else z in
      if (idx <? 0)%Z || (len <=? idx)%Z then VNull else nth (Z.to_nat idx) items VNull
  | VMap m, VStr k => prop_get k m
  | VNode id, VStr k => node_prop g id k
  | VRel s t d, VStr k => rel_prop g (s, t, d) k
  | _, _ => VNull                 (* (String, Int) is rejected by the check pass before *)
  end.

Definition apply_fn (g : graph) (f : fn) (args : list value) : value :=
  let a0 := nth 0 args VNull in
  match f with
  | FToInteger => match cast_to_integer a0 with Some v => v | None => VNull end
  | FToBoolean => cast_to_boolean a0
  | FToFloat => match cast_to_float a0 with Some v => v | None => VNull end
  | FSize => match a0 with
             | VList l => VInt (Z.of_nat (length l))
             | VStr s => VInt (Z.of_N (char_count s))
             | VMap m => VInt (Z.of_nat (length m))
             | _ => VNull
             end
  | FCoalesce => (fix go (l : list value) : value :=
                    match l with [] => VNull | VNull :: t => go t | v :: _ => v end) args
  | FAbs => v_abs a0
  | FSign => match a0 with
             | VInt z => VInt (Z.sgn z)
             | VFloat f => match fkey f with Some k => VInt (Z.sgn k) | None => VInt 0 end
             | _ => VNull
             end
  | FHead => match a0 with VList (x :: _) => x | _ => VNull end
  | FLast => match a0 with VList l => last l VNull | _ => VNull end
  | FTail => match a0 with VList (_ :: t) => VList t | VList [] => VList [] | _ => VNull end
  | FReverse => match a0 with VList l => VList (rev l) | _ => VNull end   (* strings: check pass says unmodelled *)
  | FRange =>
      match args with
      | [VInt s; VInt e] => VList (range_list s e 1)
      | [VInt s; VInt e; VInt st] => if (st =? 0)%Z then VNull else VList (range_list s e st)
      | _ => VNull
      end
  | FIndex => match args with [c; i] => index_value g c i | _ => VNull end
  | FLabelsCount => match a0 with
                    | VNode id => if node_exists g id then VInt (Z.of_nat (length (node_labels g id))) else VNull
                    | _ => VNull
                    end
  | FId => match a0 with VNode id => VInt (Z.of_N id) | VRel s _ _ => VInt (Z.of_N s) | _ => VNull end
  | FLength => match a0 with VPath _ es => VInt (Z.of_nat (length es)) | _ => VNull end
  end.

Definition apply_un (o : unop) (v : value) : value :=
  match o with
  | UNot => v_not v
  | UNeg => v_neg v
  | UIsNull => VBool (is_null v)
  | UIsNotNull => VBool (negb (is_null v))
  end.

Definition apply_bin (o : binop) (l r : value) : value :=
  match o with
  | BEq => v_of_tri (cy_eq l r)
  | BNeq => v_of_tri (cy_neq l r)
  | BLt => v_of_tri (cy_lt no_temporal l r)
  | BLe => v_of_tri (cy_le no_temporal l r)
  | BGt => v_of_tri (cy_gt no_temporal l r)
  | BGe => v_of_tri (cy_ge no_temporal l r)
  | BAnd => v_and l r
  | BOr => v_or l r
  | BXor => v_xor l r
  | BAdd => v_add l r
  | BSub => v_sub l r
  | BMul => v_mul l r
  | BDiv => v_div l r
  | BMod => match v_mod l r with Some v => v | None => VNull end
  | BIn => in_list l r
  | BStartsWith => str_pred (fun a b => prefixb b a) l r
  | BEndsWith => str_pred (fun a b => ends_withb a b) l r
  | BContains => str_pred containsb l r
  end.

(* ---------- the value pass ---------- *)
Definition prop_of (g : graph) (v : option value) (k : bytes) : value :=
  match v with
  | Some (VNode id) => node_prop g id k
  | Some (VRel s t d) => rel_prop g (s, t, d) k
  | Some (VMap m) => prop_get k m
  | _ => VNull
  end.

Definition lookup_var (E : env) (r : row) (x : var) : value :=
  match row_get r x with
  | Some v => v
  | None => match row_get (e_params E) x with Some v => v | None => VNull end
  end.

Definition has_label_value (g : graph) (v : value) (l : N) : value :=
  match v with
  | VNode id => VBool (node_has_label g id l)
  | VNull => VNull
  | _ => VBool false
  end.

Fixpoint ev (E : env) (r : row) (e : expr) {struct e} : value :=
  match e with
  | ELit v => v
  | EVar x => lookup_var E r x
  | EParam x => match row_get (e_params E) x with Some v => v | None => VNull end
  | EProp x k => prop_of (e_g E) (row_get r x) k
  | EHasLabel a l => has_label_value (e_g E) (ev E r a) l
  | EList es => VList ((fix go (es : list expr) : list value :=
                          match es with [] => [] | x :: t => ev E r x :: go t end) es)
  | EUn o a => apply_un o (ev E r a)
  | EBin o a b => apply_bin o (ev E r a) (ev E r b)
  | ECase whens els =>
      (fix go (ws : list (expr * expr)) : value :=
         match ws with
         | [] => ev E r els
         | (c, t) :: ws' => match ev E r c with VBool true => ev E r t | _ => go ws' end
         end) whens
  | EFn f args =>
      apply_fn (e_g E) f ((fix go (es : list expr) : list value :=
                             match es with [] => [] | x :: t => ev E r x :: go t end) args)
  end.

(* ---------- the check pass ---------- *)
Definition ok_unit : result unit := Ok tt.

Definition check_coll (E : env) (observed : Z) : result unit :=
  match e_coll E with
  | Some lim => if (Z.of_N lim <? observed)%Z then Err (RLimit LCollection) else ok_unit
  | None => ok_unit
  end.

(* ensure_runtime_function_call_compatible, given the argument values *)
Definition check_fn (E : env) (f : fn) (args : list value) : result unit :=
  let a0 := nth 0 args VNull in
  match f with
  | FToBoolean => match a0 with VNull | VBool _ | VStr _ => ok_unit | _ => Err RArgValue end
  | FToInteger =>
      match a0 with
      | VNull | VInt _ | VFloat _ => ok_unit
      | VStr _ => match cast_to_integer a0 with Some _ => ok_unit | None => Err RUnmodelled end
      | _ => Err RArgValue
      end
  | FToFloat =>
      match a0 with
      | VNull | VInt _ | VFloat _ => ok_unit
      | VStr _ => match cast_to_float a0 with Some _ => ok_unit | None => Err RUnmodelled end
      | _ => Err RArgValue
      end
  | FIndex =>
      match args with
      | [c; i] =>
          match c, i with
          | VNull, _ | _, VNull => ok_unit
          | VList _, VInt _ | VMap _, VStr _ | VNode _, VStr _ | VRel _ _ _, VStr _ => ok_unit
          | _, _ => Err RTypeError
          end
      | _ => ok_unit
      end
  | FLabelsCount => match a0 with VNull | VNode _ => ok_unit | _ => Err RArgValue end
  | FRange =>
      match args with
      | [VInt s; VInt e] => check_coll E (range_len s e 1)
      | [VInt s; VInt e; VInt st] => if (st =? 0)%Z then ok_unit else check_coll E (range_len s e st)
      | _ => ok_unit
      end
  | FReverse => match a0 with VStr _ => Err RUnmodelled | _ => ok_unit end
  | _ => ok_unit
  end.

Definition check_bin (o : binop) (l r : value) : result unit :=
  match o with
  | BMod => match v_mod l r with Some _ => ok_unit | None => Err RUnmodelled end
  | _ => ok_unit
  end.

Fixpoint check (E : env) (r : row) (e : expr) {struct e} : result unit :=
  match e with
  | ELit _ | EVar _ | EParam _ | EProp _ _ => ok_unit
  | EHasLabel a _ =>
      bind (check E r a) (fun _ => match ev E r a with VRel _ _ _ => Err RUnmodelled | _ => ok_unit end)
  | EList es =>
      (fix go (es : list expr) : result unit :=
         match es with [] => ok_unit | x :: t => bind (check E r x) (fun _ => go t) end) es
  | EUn _ a => check E r a
  | EBin o a b =>
      bind (check E r a) (fun _ => bind (check E r b) (fun _ => check_bin o (ev E r a) (ev E r b)))
  | ECase whens els =>
      bind ((fix go (ws : list (expr * expr)) : result unit :=
               match ws with
               | [] => ok_unit
               | (c, t) :: ws' => bind (check E r c) (fun _ => bind (check E r t) (fun _ => go ws'))
               end) whens)
           (fun _ => check E r els)
  | EFn f args =>
      bind ((fix go (es : list expr) : result unit :=
               match es with [] => ok_unit | x :: t => bind (check E r x) (fun _ => go t) end) args)
           (fun _ => check_fn E f (map (ev E r) args))
  end.

(* ---------- evaluation ---------- *)
Definition eval (E : env) (r : row) (e : expr) : result value :=
  match check E r e with
  | Ok _ => Ok (ev E r e)
  | Err x => Err x
  end.

(* FilterIter: a row passes iff the predicate is the boolean true *)
Definition truthy (v : value) : bool := match v with VBool true => true | _ => false end.

Definition e_not (p : expr) : expr := EUn UNot p.
Definition e_is_null (p : expr) : expr := EUn UIsNull p.
