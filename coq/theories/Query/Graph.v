(* Query/Graph.v — the property graph a read query runs on, as the executor
   sees it through GraphSnapshot (nodes(), neighbors(), incoming_neighbors(),
   resolve_node_labels, node_property, edge_property).
   Model file: executable definitions only; kept small and stable (imported by
   the Update area).

   Labels and relationship types are their numeric ids (LabelId / RelTypeId);
   the harness resolves names to ids.  Storage identifies a relationship by
   its key (src, type, dst): `g_rels` holds one entry per stored relationship,
   so a key created m times occurs m times (the executor's
   `edge_multiplicity`), and relationship properties hang off the key
   (`g_rprops`), shared by all parallel relationships of that key. *)
From NDB Require Export Cypher.Value.
Open Scope N_scope.

Definition props := list (bytes * value).
Definition rkey := (N * N * N)%type.              (* src, type, dst *)

Record node := mk_node { n_id : N; n_labels : list N; n_props : props }.

Record graph := mk_graph {
  g_nodes : list node;                             (* in nodes() order *)
  g_rels : list rkey;                              (* one entry per relationship, in creation order *)
  g_rprops : list (rkey * props)                   (* properties of a relationship key *)
}.

Definition empty_graph : graph := mk_graph [] [] [].

Fixpoint assoc_bytes {A} (k : bytes) (m : list (bytes * A)) : option A :=
  match m with
  | [] => None
  | (k', v) :: t => if bytes_eqb k k' then Some v else assoc_bytes k t
  end.

Definition prop_get (k : bytes) (m : props) : value :=
  match assoc_bytes k m with Some v => v | None => VNull end.

Fixpoint find_node (ns : list node) (id : N) : option node :=
  match ns with
  | [] => None
  | n :: t => if n_id n =? id then Some n else find_node t id
  end.

Definition node_ids (g : graph) : list N := map n_id (g_nodes g).
Definition node_exists (g : graph) (id : N) : bool :=
  match find_node (g_nodes g) id with Some _ => true | None => false end.

Definition node_labels (g : graph) (id : N) : list N :=
  match find_node (g_nodes g) id with Some n => n_labels n | None => [] end.
Definition mem_N (x : N) (l : list N) : bool := existsb (N.eqb x) l.
Definition node_has_label (g : graph) (id l : N) : bool := mem_N l (node_labels g id).
Definition node_has_labels (g : graph) (id : N) (ls : list N) : bool :=
  forallb (node_has_label g id) ls.

Definition node_prop (g : graph) (id : N) (k : bytes) : value :=
  match find_node (g_nodes g) id with Some n => prop_get k (n_props n) | None => VNull end.

Fixpoint find_rprops (m : list (rkey * props)) (e : rkey) : props :=
  match m with
  | [] => []
  | (e', p) :: t => if n3_eqb e e' then p else find_rprops t e
  end.
Definition rel_prop (g : graph) (e : rkey) (k : bytes) : value :=
  prop_get k (find_rprops (g_rprops g) e).

Definition rk_src (e : rkey) : N := let '(s, _, _) := e in s.
Definition rk_typ (e : rkey) : N := let '(_, t, _) := e in t.
Definition rk_dst (e : rkey) : N := let '(_, _, d) := e in d.

(* an empty type list means any type *)
Definition type_ok (ts : list N) (e : rkey) : bool :=
  match ts with [] => true | _ => mem_N (rk_typ e) ts end.

(* relationships leaving / entering a node, one per stored relationship *)
Definition out_rels (g : graph) (id : N) : list rkey :=
  filter (fun e => rk_src e =? id) (g_rels g).
Definition in_rels (g : graph) (id : N) : list rkey :=
  filter (fun e => rk_dst e =? id) (g_rels g).

(* how many relationships share the key *)
Definition multiplicity (g : graph) (e : rkey) : nat :=
  length (filter (n3_eqb e) (g_rels g)).

Definition value_of_rkey (e : rkey) : value := let '(s, t, d) := e in VRel s t d.

(* what the storage layer guarantees *)
Definition wf_props (p : props) : bool :=
  forallb (fun kv => wf_bytes (fst kv) && wf_value (snd kv)) p.
Definition wf_graph (g : graph) : bool :=
  forallb (fun n => is_u32 (n_id n) && wf_props (n_props n)) (g_nodes g) &&
  forallb (fun e => node_exists g (rk_src e) && node_exists g (rk_dst e)) (g_rels g) &&
  forallb (fun ep => wf_props (snd ep)) (g_rprops g).
