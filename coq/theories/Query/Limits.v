(* Query/Limits.v — execution limits at the code's check sites.
   Model file: executable definitions only.

   runtime_limits.rs wraps every plan node in a RuntimeGuardIter: each Ok row
   the node emits bumps one query-wide counter (Params::note_emitted_row); once
   the counter exceeds max_intermediate_rows the row is replaced by
   Err(ResourceLimitExceeded) - the stream goes on, the caller's collect stops
   at that error.  `guard budget s` is one such node whose remaining budget is
   `budget` rows (whatever the query-wide counter leaves it).
   Collection limits (Params::check_collection_size at Function(range) and
   Unwind.list) are `check_coll` in Query/Expr.v / Query/Rows.v, driven by
   `e_coll`.  Time limits (check_timeout) are wall-clock behaviour and are not
   in the model. *)
From NDB Require Export Query.Clauses.
Open Scope N_scope.

Fixpoint guard (budget : nat) (s : stream) : stream :=
  match s with
  | [] => []
  | Err e :: t => Err e :: guard budget t
  | Ok r :: t =>
      match budget with
      | O => Err (RLimit LRows) :: guard O t
      | S b => Ok r :: guard b t
      end
  end.

Definition ok_count (s : stream) : nat := length (filter (fun it => negb (is_err it)) s).

(* a pipeline with a guard after every clause; the budgets are whatever the
   shared counter leaves each node (any list: the theorems do not depend on it) *)
Fixpoint run_clauses_limited (budgets : list nat) (E : env) (cs : list clause) (s : stream) : stream :=
  match cs with
  | [] => s
  | c :: t =>
      match budgets with
      | [] => run_clauses_limited [] E t (run_clause Faithful E c s)
      | b :: bs => run_clauses_limited bs E t (guard b (run_clause Faithful E c s))
      end
  end.

(* ExecuteOptions as the harness sets them: explicit limits (never the defaults, so
   the stage-dependent relaxations of query_api.rs do not apply) *)
Definition limited_env (g : graph) (params : row) (max_collection_items : N) : env :=
  mk_env g params (Some max_collection_items).
