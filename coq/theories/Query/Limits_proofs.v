(* Query/Limits_proofs.v — C33: a limit guard never truncates silently, and the
   caller stops at the first limit error. *)
From Coq Require Import Lia.
From NDB Require Import Query.Limits Query.Rows_proofs.
Open Scope N_scope.

(* a guarded stream that collects successfully is the complete unguarded stream *)
Theorem guard_sound : forall n s l, collect (guard n s) = Ok l -> collect s = Ok l.
Proof.
  intros n s. revert n. induction s as [|[r|e] s IH]; intros n l H.
  - exact H.
  - destruct n; cbn [guard collect] in H; [discriminate|].
    cbn [collect]. destruct (collect (guard n s)) as [l'|e'] eqn:Hg; [|discriminate].
    rewrite (IH n l' Hg). exact H.
  - cbn [guard collect] in H. discriminate.
Qed.

(* what a guard reports is the limit error or an error that was already in its input *)
Theorem guard_error_kind : forall n s e,
  collect (guard n s) = Err e -> e = RLimit LRows \/ collect s = Err e.
Proof.
  intros n s. revert n. induction s as [|[r|e0] s IH]; intros n e H.
  - discriminate.
  - destruct n; cbn [guard collect] in H.
    + inversion H. left. reflexivity.
    + destruct (collect (guard n s)) as [l'|e'] eqn:Hg; [discriminate|]. inversion H; subst e'.
      destruct (IH n e Hg) as [->|Hs]; [left; reflexivity | right; cbn [collect]; rewrite Hs; reflexivity].
  - cbn [guard collect] in H. inversion H. right. reflexivity.
Qed.

(* a guard lets at most `budget` rows through *)
Theorem guard_bounded : forall n s, (ok_count (guard n s) <= n)%nat.
Proof.
  intros n s. revert n. unfold ok_count. induction s as [|[r|e] s IH]; intros n; cbn [guard filter is_err negb length]; [lia| |apply IH].
  destruct n; cbn [filter is_err negb length]; [apply IH | specialize (IH n); lia].
Qed.

(* the caller's collect never looks behind the first error: what follows it is never pulled *)
Theorem collect_stops_at_first_error : forall a e b b', collect (oks a ++ Err e :: b) = collect (oks a ++ Err e :: b').
Proof.
  induction a as [|r a IH]; intros e b b'; cbn [oks map app collect]; [reflexivity|].
  fold (oks a). rewrite (IH e b b'). reflexivity.
Qed.

(* the guard at the top of a query: a limited run that succeeds returns the complete result *)
Theorem limited_sound_top : forall n E q r,
  collect (guard n (run_query Faithful E q)) = Ok r -> result_of Faithful E q = Ok r.
Proof. intros n E q r H. unfold result_of. apply guard_sound with (n := n). exact H. Qed.

(* Unwind.list / Function(range): a collection check that passes under a limit bounds the size *)
Theorem check_coll_bounds : forall g ps lim n u, check_coll (mk_env g ps (Some lim)) n = Ok u -> (n <= Z.of_N lim)%Z.
Proof.
  intros g ps lim n u H. unfold check_coll in H. cbn in H.
  destruct (Z.of_N lim <? n)%Z eqn:Hc; [discriminate|]. apply Z.ltb_ge in Hc. exact Hc.
Qed.
