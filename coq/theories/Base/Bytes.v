(* Base/Bytes.v — bytes as N, fixed-width integer encodings, lexicographic order.
   Model file: executable definitions only (proofs are in Bytes_proofs.v). *)
From Coq Require Export List NArith ZArith Bool.
Export ListNotations.
Open Scope N_scope.

Definition bytes := list N.

Definition is_byte (b : N) : bool := b <? 256.
Definition wf_bytes (l : bytes) : bool := forallb is_byte l.

(* little-endian, n bytes *)
Fixpoint le (n : nat) (x : N) : bytes :=
  match n with
  | O => []
  | S k => x mod 256 :: le k (x / 256)
  end.

(* big-endian, n bytes: most significant first *)
Definition be (n : nat) (x : N) : bytes := rev (le n x).

(* decode little-endian *)
Fixpoint unle (l : bytes) : N :=
  match l with
  | [] => 0
  | b :: t => b + 256 * unle t
  end.

(* decode big-endian *)
Definition unbe (l : bytes) : N := fold_left (fun acc b => acc * 256 + b) l 0.

(* Rust's Ord on [u8] / Vec<u8>: lexicographic, a proper prefix is smaller *)
Fixpoint lex_cmp (a b : bytes) : comparison :=
  match a, b with
  | [], [] => Eq
  | [], _ :: _ => Lt
  | _ :: _, [] => Gt
  | x :: a', y :: b' =>
      match x ?= y with
      | Eq => lex_cmp a' b'
      | c => c
      end
  end.

Definition lex_lt (a b : bytes) : Prop := lex_cmp a b = Lt.

Fixpoint prefixb (a b : bytes) : bool :=
  match a, b with
  | [], _ => true
  | _ :: _, [] => false
  | x :: a', y :: b' => (x =? y) && prefixb a' b'
  end.

Definition proper_prefix (a b : bytes) : Prop := exists t, t <> [] /\ b = a ++ t.

Fixpoint bytes_eqb (a b : bytes) : bool :=
  match a, b with
  | [], [] => true
  | x :: a', y :: b' => (x =? y) && bytes_eqb a' b'
  | _, _ => false
  end.

(* two's complement views *)
Definition two64 : N := 18446744073709551616.
Definition two63 : N := 9223372036854775808.
Definition u64_of_i64 (z : Z) : N := Z.to_N (z mod 18446744073709551616)%Z.
Definition i64_of_u64 (u : N) : Z :=
  if u <? two63 then Z.of_N u else (Z.of_N u - 18446744073709551616)%Z.
Definition in_i64 (z : Z) : bool :=
  ((-9223372036854775808 <=? z) && (z <? 9223372036854775808))%Z.
Definition two32 : N := 4294967296.
Definition u32_of_i32 (z : Z) : N := Z.to_N (z mod 4294967296)%Z.
Definition i32_of_u32 (u : N) : Z :=
  if u <? 2147483648 then Z.of_N u else (Z.of_N u - 4294967296)%Z.

Definition cmp_eqb (a b : comparison) : bool :=
  match a, b with Eq, Eq | Lt, Lt | Gt, Gt => true | _, _ => false end.
