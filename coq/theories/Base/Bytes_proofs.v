(* Base/Bytes_proofs.v — lemmas about Bytes.v *)
From NDB Require Import Base.Bytes.
From Coq Require Import Lia ZifyBool ZifyN ZifyNat.
Ltac Zify.zify_post_hook ::= Z.div_mod_to_equations.
Open Scope N_scope.

Lemma lex_cmp_refl a : lex_cmp a a = Eq.
Proof. induction a as [|x a IH]; cbn; [reflexivity|]. now rewrite N.compare_refl. Qed.

Lemma lex_cmp_eq a b : lex_cmp a b = Eq <-> a = b.
Proof.
  split; [|intros ->; apply lex_cmp_refl].
  revert b; induction a as [|x a IH]; intros [|y b]; cbn; try congruence.
  destruct (x ?= y) eqn:E; try congruence.
  apply N.compare_eq in E; subst. intros H. f_equal. now apply IH.
Qed.

Lemma lex_cmp_antisym a b : lex_cmp b a = CompOpp (lex_cmp a b).
Proof.
  revert b; induction a as [|x a IH]; intros [|y b]; cbn; try reflexivity.
  rewrite (N.compare_antisym x y). destruct (x ?= y); cbn; auto.
Qed.

Lemma lex_lt_irrefl a : ~ lex_lt a a.
Proof. unfold lex_lt. rewrite lex_cmp_refl. congruence. Qed.

Lemma lex_lt_trans a b c : lex_lt a b -> lex_lt b c -> lex_lt a c.
Proof.
  unfold lex_lt. revert b c; induction a as [|x a IH]; intros [|y b] [|z c]; cbn; try congruence.
  destruct (x ?= y) eqn:E1; destruct (y ?= z) eqn:E2; try congruence; intros H1 H2.
  - apply N.compare_eq in E1, E2; subst. rewrite N.compare_refl. eapply IH; eauto.
  - apply N.compare_eq in E1; subst. now rewrite E2.
  - apply N.compare_eq in E2; subst. now rewrite E1.
  - rewrite N.compare_lt_iff in *. assert (x < z) by lia.
    apply N.compare_lt_iff in H. now rewrite H.
Qed.

Lemma lex_cmp_app_same p a b : lex_cmp (p ++ a) (p ++ b) = lex_cmp a b.
Proof. induction p as [|x p IH]; cbn; [reflexivity|]. now rewrite N.compare_refl. Qed.

Lemma lex_cmp_snoc a b p q :
  length a = length b ->
  lex_cmp (a ++ [p]) (b ++ [q]) =
  match lex_cmp a b with Eq => p ?= q | c => c end.
Proof.
  revert b; induction a as [|x a IH]; intros [|y b]; cbn; try discriminate.
  - intros _. destruct (p ?= q); reflexivity.
  - intros H. injection H as H. destruct (x ?= y); auto.
Qed.

Lemma le_length n x : length (le n x) = n.
Proof. revert x; induction n as [|n IH]; intros x; cbn; auto. Qed.

Lemma be_length n x : length (be n x) = n.
Proof. unfold be. now rewrite rev_length, le_length. Qed.

Lemma be_S n x : be (S n) x = be n (x / 256) ++ [x mod 256].
Proof. reflexivity. Qed.

Lemma pow256_S n : 256 ^ N.of_nat (S n) = 256 * 256 ^ N.of_nat n.
Proof. rewrite Nat2N.inj_succ, N.pow_succ_r'. reflexivity. Qed.

Lemma be_lt_mono n x y :
  x < y -> y < 256 ^ N.of_nat n -> lex_cmp (be n x) (be n y) = Lt.
Proof.
  revert x y; induction n as [|n IH]; intros x y Hxy Hy.
  - cbn in Hy. lia.
  - rewrite pow256_S in Hy. rewrite !be_S, lex_cmp_snoc by now rewrite !be_length.
    destruct (N.eq_dec (x / 256) (y / 256)) as [E|E].
    + rewrite E, lex_cmp_refl. apply N.compare_lt_iff. lia.
    + set (P := 256 ^ N.of_nat n) in *. clearbody P. rewrite IH; auto.
      * lia.
      * lia.
Qed.

Lemma be_inj n x y :
  x < 256 ^ N.of_nat n -> y < 256 ^ N.of_nat n -> be n x = be n y -> x = y.
Proof.
  intros Hx Hy E. destruct (N.lt_total x y) as [H|[H|H]]; auto.
  - pose proof (be_lt_mono n x y H Hy) as L. rewrite E, lex_cmp_refl in L. discriminate.
  - pose proof (be_lt_mono n y x H Hx) as L. rewrite E, lex_cmp_refl in L. discriminate.
Qed.

Lemma unle_le n x : unle (le n x) = x mod 256 ^ N.of_nat n.
Proof.
  revert x; induction n as [|n IH]; intros x.
  - cbn. now rewrite N.mod_1_r.
  - cbn [le unle]. rewrite IH, pow256_S.
    pose proof (N.pow_nonzero 256 (N.of_nat n) ltac:(lia)).
    rewrite N.mod_mul_r by lia. lia.
Qed.

Lemma wf_le n x : wf_bytes (le n x) = true.
Proof.
  revert x; induction n as [|n IH]; intros x; cbn; auto.
  rewrite IH, andb_true_r. unfold is_byte. lia.
Qed.

Lemma wf_app a b : wf_bytes (a ++ b) = wf_bytes a && wf_bytes b.
Proof. unfold wf_bytes. apply forallb_app. Qed.

Lemma wf_rev a : wf_bytes (rev a) = wf_bytes a.
Proof.
  induction a as [|x a IH]; cbn; auto.
  rewrite wf_app, IH. cbn. rewrite andb_true_r. apply andb_comm.
Qed.

Lemma wf_be n x : wf_bytes (be n x) = true.
Proof. unfold be. now rewrite wf_rev, wf_le. Qed.

Lemma prefixb_spec a b : prefixb a b = true <-> exists t, b = a ++ t.
Proof.
  revert b; induction a as [|x a IH]; intros b; cbn.
  - split; eauto.
  - destruct b as [|y b]; [split; [discriminate|intros [t H]; discriminate]|].
    rewrite andb_true_iff, N.eqb_eq, IH. split.
    + intros [-> [t ->]]. eauto.
    + intros [t H]. injection H as -> ->. eauto.
Qed.

Lemma bytes_eqb_eq a b : bytes_eqb a b = true <-> a = b.
Proof.
  revert b; induction a as [|x a IH]; intros [|y b]; cbn; try (split; congruence).
  rewrite andb_true_iff, N.eqb_eq, IH. split; [intros [-> ->]; auto|intros H; injection H; auto].
Qed.

Lemma proper_prefix_same_length a b : length a = length b -> ~ proper_prefix a b.
Proof.
  intros L [t [Ht E]]. subst b. rewrite app_length in L.
  destruct t; [congruence|cbn in L; lia].
Qed.

Lemma proper_prefix_cons x a y b :
  proper_prefix (x :: a) (y :: b) -> x = y /\ proper_prefix a b.
Proof. intros [t [Ht E]]. cbn in E. injection E as -> ->. split; auto. exists t; auto. Qed.

Lemma land_two63_low u : u < two63 -> N.land u two63 = 0.
Proof.
  intros H. apply N.bits_inj. intros m. rewrite N.land_spec, N.bits_0.
  change two63 with (2 ^ 63). rewrite N.pow2_bits_eqb.
  destruct (N.eqb_spec 63 m) as [<-|]; [|apply andb_false_r].
  rewrite andb_true_r. apply N.testbit_false. rewrite N.div_small; auto.
Qed.

Lemma lxor_two63_low u : u < two63 -> N.lxor u two63 = u + two63.
Proof. intros H. symmetry. apply N.add_nocarry_lxor. now apply land_two63_low. Qed.

Lemma lxor_two63_high u : two63 <= u -> u < two64 -> N.lxor u two63 = u - two63.
Proof.
  intros H1 H2. assert (E : u = (u - two63) + two63) by lia.
  rewrite E at 1. rewrite <- lxor_two63_low by (unfold two63, two64 in *; lia).
  now rewrite N.lxor_assoc, N.lxor_nilpotent, N.lxor_0_r.
Qed.

Lemma lnot64 u : u < two64 -> N.lxor u (N.ones 64) = two64 - 1 - u.
Proof.
  intros H. change (N.lxor u (N.ones 64)) with (N.lnot u 64).
  rewrite N.lnot_sub_low.
  - reflexivity.
  - destruct (N.eq_dec u 0) as [->|Hn]; [cbn; lia|].
    apply N.log2_lt_pow2; [lia|exact H].
Qed.

Lemma u64_of_i64_nonneg z : (0 <= z < 9223372036854775808)%Z -> u64_of_i64 z = Z.to_N z.
Proof. intros H. unfold u64_of_i64. rewrite Z.mod_small by lia. reflexivity. Qed.

Lemma u64_of_i64_neg z :
  (-9223372036854775808 <= z < 0)%Z -> u64_of_i64 z = Z.to_N (z + 18446744073709551616).
Proof.
  intros H. unfold u64_of_i64. f_equal.
  rewrite <- (Z.mod_add z 1) by lia. rewrite Z.mod_small by lia. lia.
Qed.

(* the sign-flip used by ordered keys: (i as u64) ^ 2^63 = i + 2^63 *)
Lemma u64_of_i64_shift z :
  in_i64 z = true ->
  N.lxor (u64_of_i64 z) two63 = Z.to_N (z + 9223372036854775808).
Proof.
  unfold in_i64. intros H.
  destruct (Z.ltb_spec z 0) as [Hn|Hp].
  - rewrite u64_of_i64_neg by lia. rewrite lxor_two63_high; unfold two63, two64; lia.
  - rewrite u64_of_i64_nonneg by lia. rewrite lxor_two63_low; unfold two63; lia.
Qed.

Lemma i64_u64_roundtrip z : in_i64 z = true -> i64_of_u64 (u64_of_i64 z) = z.
Proof.
  unfold in_i64, i64_of_u64. intros H.
  destruct (Z.ltb_spec z 0) as [Hn|Hp].
  - rewrite u64_of_i64_neg by lia. unfold two63.
    destruct (N.ltb_spec (Z.to_N (z + 18446744073709551616)) 9223372036854775808); lia.
  - rewrite u64_of_i64_nonneg by lia. unfold two63.
    destruct (N.ltb_spec (Z.to_N z) 9223372036854775808); lia.
Qed.

Lemma u64_of_i64_lt z : u64_of_i64 z < two64.
Proof. unfold u64_of_i64, two64. pose proof (Z.mod_pos_bound z 18446744073709551616 ltac:(lia)). lia. Qed.
