(* Props/C31.v — Vector search is sound and durable.
   Only statements, `exact`, and Print Assumptions. *)
From NDB Require Import Vector.Hnsw Vector.Hnsw_proofs.

(* Soundness, for EVERY state reachable by any history (inserts with any drawn
   levels, deletions, reopens), every query and every k: at most k results, distinct
   nodes, non-decreasing distance, each node has a vector that was set and the
   reported squared distance is exact for a vector set for that node. *)
Definition C31_search_sound_statement : Prop :=
  forall pr ops ix q k ix' r,
    run pr empty_index ops = Ok ix ->
    search pr ix q k = Ok (ix', r) ->
    length r <= k /\ NoDup (map fst r) /\ sorted_by_dist r /\
    (forall id d, In (id, d) r -> exists v, inserted ops id v /\ d = dist2 q v).
Theorem C31_search_sound : C31_search_sound_statement.
Proof. exact search_sound. Qed.
Print Assumptions C31_search_sound.

(* the same guarantees hold for a search issued after another search (searching only
   fills the vector cache) *)
Definition C31_search_keeps_sound_statement : Prop :=
  forall pr ops ix q k ix' r q2 k2 ix2 r2,
    run pr empty_index ops = Ok ix ->
    search pr ix q k = Ok (ix', r) ->
    search pr ix' q2 k2 = Ok (ix2, r2) ->
    length r2 <= k2 /\ NoDup (map fst r2) /\ sorted_by_dist r2 /\
    (forall id d, In (id, d) r2 -> exists v, inserted ops id v /\ d = dist2 q2 v).
Theorem C31_search_keeps_sound : C31_search_keeps_sound_statement.
Proof. exact search_keeps_sound. Qed.
Print Assumptions C31_search_keeps_sound.

(* "existing nodes" is refuted (K-C31-deleted): a deleted node is still returned *)
Definition C31_deleted_refuted_statement : Prop :=
  exists pr ops q k ids id,
    result_ids pr ops q k = Some ids /\ In (ODelete id) ops /\ In id ids.
Theorem C31_deleted_refuted : C31_deleted_refuted_statement.
Proof. exact deleted_refuted. Qed.
Print Assumptions C31_deleted_refuted.

(* ... and holds for histories outside the class (no deletion) *)
Definition C31_search_existing_statement : Prop :=
  forall pr ops q k ids,
    (forall id, ~ In (ODelete id) ops) ->
    result_ids pr ops q k = Some ids ->
    forall id, In id ids -> (exists v, inserted ops id v) /\ ~ In (ODelete id) ops.
Theorem C31_search_existing : C31_search_existing_statement.
Proof. exact search_existing. Qed.
Print Assumptions C31_search_existing.

(* Full statements of the two remaining parts of the property (NOT proved here; the
   check samples them on the implementation and ties the model by correspondence):
   exactness for small indexes, and invariance under reopen. *)
Definition distinct_ids (ops : list op) : Prop :=
  NoDup (flat_map (fun o => match o with OInsert id _ _ => [id] | _ => [] end) ops).
Definition C31_small_exact_full_statement : Prop :=
  forall pr ops ix q k ix' r,
    run pr empty_index ops = Ok ix ->
    distinct_ids ops ->
    length (stored ops []) <= 2 * p_m pr + 1 -> length (stored ops []) <= p_efs pr ->
    1 <= p_m pr -> 1 <= p_efc pr ->
    length (pages (gt (i_env ix))) = 1 ->          (* the graph tree has not split *)
    search pr ix q k = Ok (ix', r) ->
    r = brute_force (stored ops []) q k.
Definition C31_reopen_same_full_statement : Prop :=
  forall pr ops ix ix2 q k ix' r,
    run pr empty_index ops = Ok ix ->
    distinct_ids ops ->
    reopen ix = Ok ix2 ->
    search pr ix q k = Ok (ix', r) ->
    exists ix2', search pr ix2 q k = Ok (ix2', r).
