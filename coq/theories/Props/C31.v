(* Props/C31.v — Vector search is sound and durable.
   Only statements, `exact`, and Print Assumptions. *)
From NDB Require Import Vector.Hnsw Vector.Hnsw_proofs Vector.Hnsw_exact Vector.Hnsw_reopen Vector.Hnsw_small Vector.Hnsw_vector.

(* Soundness, for EVERY state reachable by any history (inserts with any drawn
   levels, deletions, reopens), every query and every k: at most k results, distinct
   nodes, non-decreasing distance, each node has a vector that was set and the
   reported squared distance is exact for a vector set for that node. *)
Definition C31_search_sound_statement : Prop :=
  forall pr ops ix q k ix' r,
    run pr empty_index ops = Ok ix ->
    search pr ix q k = Ok (ix', r) ->
    length r <= k /\ NoDup (map fst r) /\ sorted_by_dist r /\
    (forall id d, In (id, d) r -> exists v, inserted ops id v /\ d = dist2 q v).
Theorem C31_search_sound : C31_search_sound_statement.
Proof. exact search_sound. Qed.
Print Assumptions C31_search_sound.

(* the same guarantees hold for a search issued after another search (searching only
   fills the vector cache) *)
Definition C31_search_keeps_sound_statement : Prop :=
  forall pr ops ix q k ix' r q2 k2 ix2 r2,
    run pr empty_index ops = Ok ix ->
    search pr ix q k = Ok (ix', r) ->
    search pr ix' q2 k2 = Ok (ix2, r2) ->
    length r2 <= k2 /\ NoDup (map fst r2) /\ sorted_by_dist r2 /\
    (forall id d, In (id, d) r2 -> exists v, inserted ops id v /\ d = dist2 q2 v).
Theorem C31_search_keeps_sound : C31_search_keeps_sound_statement.
Proof. exact search_keeps_sound. Qed.
Print Assumptions C31_search_keeps_sound.

(* The engine-level search (GraphEngine::search_vector: all candidates of the index search, the
   deleted nodes left out, the first k), for EVERY reachable state, every set `del` of deleted
   nodes, every query and k: the guarantees above and no returned node is deleted.
   (Repaired defect K-C31-deleted: the index search itself still returns deleted nodes.) *)
Definition C31_search_vector_sound_statement : Prop :=
  forall pr ops ix del q k ix' r,
    run pr empty_index ops = Ok ix ->
    search_vector pr ix del q k = Ok (ix', r) ->
    length r <= k /\ NoDup (map fst r) /\ sorted_by_dist r /\
    (forall id d, In (id, d) r -> (exists v, inserted ops id v /\ d = dist2 q v) /\ ~ In id del).
Theorem C31_search_vector_sound : C31_search_vector_sound_statement.
Proof. exact search_vector_sound. Qed.
Print Assumptions C31_search_vector_sound.

(* with the nodes the history deleted: only existing nodes are returned *)
Definition C31_search_vector_live_statement : Prop :=
  forall pr ops ix q k ix' r,
    run pr empty_index ops = Ok ix ->
    search_vector pr ix (deleted ops) q k = Ok (ix', r) ->
    forall id d, In (id, d) r -> ~ In (ODelete id) ops.
Theorem C31_search_vector_live : C31_search_vector_live_statement.
Proof. exact search_vector_live. Qed.
Print Assumptions C31_search_vector_live.

(* "unchanged by reopening" is refuted (K-C31-stale-vector): 509 vectors, node 254 gets a new
   vector, one more insert splits the full leaf of the vector tree between the two cells of
   node 254; after reopen the node is ranked by its old vector. *)
Definition C31_reopen_refuted_statement : Prop :=
  exists pr ops q k r1 r2,
    result_ids pr ops q k = Some r1 /\ result_ids pr (ops ++ [OReopen]) q k = Some r2 /\ r1 <> r2.
Theorem C31_reopen_refuted : C31_reopen_refuted_statement.
Proof. exact reopen_refuted. Qed.
Print Assumptions C31_reopen_refuted.

(* Exactness on small indexes, PARTIAL: for every state that passes the executable check
   `small_check` (all ids of S have their vector cached, neighbour lists on all layers stay
   inside S, entry point in S, |S| <= ef_search, layer 0 connects S from every start) a search
   that answers returns exactly the brute-force k nearest by (distance, id).  That reachable
   states of small clean histories pass the check is evaluated by the correspondence on every
   generated case (Corr.C31.small_state_ok), not proved. *)
Definition C31_small_exact_checked_statement : Prop :=
  forall pr ix S q k ix' r,
    small_check pr ix S = true ->
    search pr ix q k = Ok (ix', r) ->
    r = brute_force (map (fun i => (i, vec_of (i_env ix) i)) S) q k.
Theorem C31_small_exact_checked : C31_small_exact_checked_statement.
Proof. exact small_exact_checked. Qed.
Print Assumptions C31_small_exact_checked.

(* Unchanged by reopening, PARTIAL: for every state that passes the executable check
   `reopen_check` (the meta record read back equals the in-memory entry point / max layer, and
   for every cached id the vector tree returns the cached vector) reopening succeeds and every
   search that answered before returns the same list afterwards.  That the states of histories
   without re-inserted ids pass the check is evaluated by the correspondence at every reopen
   (Corr.C31.go), not proved; with re-inserted ids it can fail (C31_reopen_refuted). *)
Definition C31_reopen_same_checked_statement : Prop :=
  forall pr ix q k ix' r,
    reopen_check ix = true ->
    search pr ix q k = Ok (ix', r) ->
    exists ix2 ix2', reopen ix = Ok ix2 /\ search pr ix2 q k = Ok (ix2', r).
Theorem C31_reopen_same_checked : C31_reopen_same_checked_statement.
Proof. exact reopen_same_checked. Qed.
Print Assumptions C31_reopen_same_checked.

(* Exactness on small indexes, FULL for clean histories: every history in which no node gets a
   vector twice and no reopen happens (deletions allowed; ids are u32), as long as the graph tree
   has not split into several pages: if the index holds at most 2m+1 vectors (and at most
   ef_search), a search that answers returns exactly the brute-force k nearest by (distance, id)
   of the stored vectors.  Proof: layer 0 stays connected and is never truncated below 2m+1
   (invariant Hnsw_small.Good, preserved by insert), the search is exhaustive on a connected
   layer (Hnsw_exact). *)
Definition distinct_ids (ops : list op) : Prop :=
  NoDup (flat_map (fun o => match o with OInsert id _ _ => [id] | _ => [] end) ops).
Definition ids_u32 (ops : list op) : Prop :=
  forall id, In id (flat_map (fun o => match o with OInsert id _ _ => [id] | _ => [] end) ops) -> (id < 4294967296)%N.
Definition C31_small_exact_full_statement : Prop :=
  forall pr ops ix q k ix' r,
    run pr empty_index ops = Ok ix ->
    distinct_ids ops -> ids_u32 ops -> ~ In OReopen ops ->
    length (stored ops []) <= 2 * p_m pr + 1 -> length (stored ops []) <= p_efs pr ->
    1 <= p_m pr -> 1 <= p_efc pr ->
    length (pages (gt (i_env ix))) = 1 ->          (* the graph tree has not split *)
    search pr ix q k = Ok (ix', r) ->
    r = brute_force (stored ops []) q k.
Theorem C31_small_exact_full : C31_small_exact_full_statement.
Proof. exact small_exact_full. Qed.
Print Assumptions C31_small_exact_full.

(* Unchanged by reopening, FULL for small clean histories: no node gets a vector twice, no
   earlier reopen, at most 2m+1 vectors, and neither B-tree has split into several pages: reopen
   succeeds and every search that answered returns the same list afterwards.  (Beyond one page
   the statement is not expected to hold in general even without re-insertion: the meta record
   is written once per insert under ONE key, and a split triggered by such a write places the
   new record behind the older ones, which would leave a stale entry point -- no witness was
   constructed; with re-inserted vectors see C31_reopen_refuted.) *)
Definition C31_reopen_same_small_statement : Prop :=
  forall pr ops ix q k ix' r,
    run pr empty_index ops = Ok ix ->
    distinct_ids ops -> ids_u32 ops -> ~ In OReopen ops ->
    length (stored ops []) <= 2 * p_m pr + 1 -> 1 <= p_m pr -> 1 <= p_efc pr ->
    length (pages (gt (i_env ix))) = 1 -> length (pages (vt (i_env ix))) = 1 ->
    search pr ix q k = Ok (ix', r) ->
    exists ix2 ix2', reopen ix = Ok ix2 /\ search pr ix2 q k = Ok (ix2', r).
Theorem C31_reopen_same_small : C31_reopen_same_small_statement.
Proof. exact reopen_same_small. Qed.
Print Assumptions C31_reopen_same_small.

(* Statement that is NOT proved in this generality (see above): *)
Definition C31_reopen_same_full_statement : Prop :=
  forall pr ops ix ix2 q k ix' r,
    run pr empty_index ops = Ok ix ->
    distinct_ids ops ->
    reopen ix = Ok ix2 ->
    search pr ix q k = Ok (ix', r) ->
    exists ix2', search pr ix2 q k = Ok (ix2', r).
