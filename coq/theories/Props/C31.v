(* Props/C31.v — Vector search is sound and durable.
   Only statements, `exact`, and Print Assumptions. *)
From NDB Require Import Vector.Hnsw Vector.Hnsw_proofs Vector.Hnsw_exact Vector.Hnsw_reopen.

(* Soundness, for EVERY state reachable by any history (inserts with any drawn
   levels, deletions, reopens), every query and every k: at most k results, distinct
   nodes, non-decreasing distance, each node has a vector that was set and the
   reported squared distance is exact for a vector set for that node. *)
Definition C31_search_sound_statement : Prop :=
  forall pr ops ix q k ix' r,
    run pr empty_index ops = Ok ix ->
    search pr ix q k = Ok (ix', r) ->
    length r <= k /\ NoDup (map fst r) /\ sorted_by_dist r /\
    (forall id d, In (id, d) r -> exists v, inserted ops id v /\ d = dist2 q v).
Theorem C31_search_sound : C31_search_sound_statement.
Proof. exact search_sound. Qed.
Print Assumptions C31_search_sound.

(* the same guarantees hold for a search issued after another search (searching only
   fills the vector cache) *)
Definition C31_search_keeps_sound_statement : Prop :=
  forall pr ops ix q k ix' r q2 k2 ix2 r2,
    run pr empty_index ops = Ok ix ->
    search pr ix q k = Ok (ix', r) ->
    search pr ix' q2 k2 = Ok (ix2, r2) ->
    length r2 <= k2 /\ NoDup (map fst r2) /\ sorted_by_dist r2 /\
    (forall id d, In (id, d) r2 -> exists v, inserted ops id v /\ d = dist2 q2 v).
Theorem C31_search_keeps_sound : C31_search_keeps_sound_statement.
Proof. exact search_keeps_sound. Qed.
Print Assumptions C31_search_keeps_sound.

(* "existing nodes" is refuted (K-C31-deleted): a deleted node is still returned *)
Definition C31_deleted_refuted_statement : Prop :=
  exists pr ops q k ids id,
    result_ids pr ops q k = Some ids /\ In (ODelete id) ops /\ In id ids.
Theorem C31_deleted_refuted : C31_deleted_refuted_statement.
Proof. exact deleted_refuted. Qed.
Print Assumptions C31_deleted_refuted.

(* ... and holds for histories outside the class (no deletion) *)
Definition C31_search_existing_statement : Prop :=
  forall pr ops q k ids,
    (forall id, ~ In (ODelete id) ops) ->
    result_ids pr ops q k = Some ids ->
    forall id, In id ids -> (exists v, inserted ops id v) /\ ~ In (ODelete id) ops.
Theorem C31_search_existing : C31_search_existing_statement.
Proof. exact search_existing. Qed.
Print Assumptions C31_search_existing.

(* "unchanged by reopening" is refuted (K-C31-stale-vector): 509 vectors, node 254 gets a new
   vector, one more insert splits the full leaf of the vector tree between the two cells of
   node 254; after reopen the node is ranked by its old vector. *)
Definition C31_reopen_refuted_statement : Prop :=
  exists pr ops q k r1 r2,
    result_ids pr ops q k = Some r1 /\ result_ids pr (ops ++ [OReopen]) q k = Some r2 /\ r1 <> r2.
Theorem C31_reopen_refuted : C31_reopen_refuted_statement.
Proof. exact reopen_refuted. Qed.
Print Assumptions C31_reopen_refuted.

(* Exactness on small indexes, PARTIAL: for every state that passes the executable check
   `small_check` (all ids of S have their vector cached, neighbour lists on all layers stay
   inside S, entry point in S, |S| <= ef_search, layer 0 connects S from every start) a search
   that answers returns exactly the brute-force k nearest by (distance, id).  That reachable
   states of small clean histories pass the check is evaluated by the correspondence on every
   generated case (Corr.C31.small_state_ok), not proved. *)
Definition C31_small_exact_checked_statement : Prop :=
  forall pr ix S q k ix' r,
    small_check pr ix S = true ->
    search pr ix q k = Ok (ix', r) ->
    r = brute_force (map (fun i => (i, vec_of (i_env ix) i)) S) q k.
Theorem C31_small_exact_checked : C31_small_exact_checked_statement.
Proof. exact small_exact_checked. Qed.
Print Assumptions C31_small_exact_checked.

(* Unchanged by reopening, PARTIAL: for every state that passes the executable check
   `reopen_check` (the meta record read back equals the in-memory entry point / max layer, and
   for every cached id the vector tree returns the cached vector) reopening succeeds and every
   search that answered before returns the same list afterwards.  That the states of histories
   without re-inserted ids pass the check is evaluated by the correspondence at every reopen
   (Corr.C31.go), not proved; with re-inserted ids it can fail (C31_reopen_refuted). *)
Definition C31_reopen_same_checked_statement : Prop :=
  forall pr ix q k ix' r,
    reopen_check ix = true ->
    search pr ix q k = Ok (ix', r) ->
    exists ix2 ix2', reopen ix = Ok ix2 /\ search pr ix2 q k = Ok (ix2', r).
Theorem C31_reopen_same_checked : C31_reopen_same_checked_statement.
Proof. exact reopen_same_checked. Qed.
Print Assumptions C31_reopen_same_checked.

(* Full statements of the parts of the property that are NOT proved in this form: *)
Definition distinct_ids (ops : list op) : Prop :=
  NoDup (flat_map (fun o => match o with OInsert id _ _ => [id] | _ => [] end) ops).
Definition C31_small_exact_full_statement : Prop :=
  forall pr ops ix q k ix' r,
    run pr empty_index ops = Ok ix ->
    distinct_ids ops -> ~ In OReopen ops ->
    length (stored ops []) <= 2 * p_m pr + 1 -> length (stored ops []) <= p_efs pr ->
    1 <= p_m pr -> 1 <= p_efc pr ->
    length (pages (gt (i_env ix))) = 1 ->          (* the graph tree has not split *)
    search pr ix q k = Ok (ix', r) ->
    r = brute_force (stored ops []) q k.
Definition C31_reopen_same_full_statement : Prop :=
  forall pr ops ix ix2 q k ix' r,
    run pr empty_index ops = Ok ix ->
    distinct_ids ops ->
    reopen ix = Ok ix2 ->
    search pr ix q k = Ok (ix', r) ->
    exists ix2', search pr ix2 q k = Ok (ix2', r).
