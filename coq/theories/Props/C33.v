(* Props/C33.v — execution limits fail cleanly (partial).
   Only statements, `exact`, and Print Assumptions.

   Proved: the per-node row-limit guard never truncates (a guarded stream that
   collects successfully is the complete stream; what it reports is the limit
   error or an upstream error; it lets at most `budget` rows through), the guard
   at the top of a query, the caller never pulls behind the first error, a
   passed collection check bounds the size.
   NOT proved (kept as C33_full_statement, checked only on generated queries):
   the same for a guard after *every* clause of a pipeline.  Time limits are
   wall-clock behaviour and are only observed. *)
From NDB Require Import Query.Limits Query.Limits_proofs.

Definition C33_full_statement : Prop :=
  forall (budgets : list nat) (E : env) (cs : list clause) (r : list row),
    collect (run_clauses_limited budgets E cs [Ok []]) = Ok r ->
    collect (run_clauses Faithful E cs) = Ok r.

Definition C33_guard_partial_statement : Prop :=
  (forall n s l, collect (guard n s) = Ok l -> collect s = Ok l) /\
  (forall n s e, collect (guard n s) = Err e -> e = RLimit LRows \/ collect s = Err e) /\
  (forall n s, (ok_count (guard n s) <= n)%nat) /\
  (forall n E q r, collect (guard n (run_query Faithful E q)) = Ok r -> result_of Faithful E q = Ok r).
Theorem C33_guard_partial : C33_guard_partial_statement.
Proof.
  repeat split.
  - exact guard_sound.
  - exact guard_error_kind.
  - exact guard_bounded.
  - exact limited_sound_top.
Qed.
Print Assumptions C33_guard_partial.

(* "a failing query stops within a bounded amount of extra work", at the observation point:
   collect's result does not depend on anything behind the first error (it is never pulled) *)
Definition C33_stops_partial_statement : Prop :=
  forall a e b b', collect (oks a ++ Err e :: b) = collect (oks a ++ Err e :: b').
Theorem C33_stops_partial : C33_stops_partial_statement.
Proof. exact collect_stops_at_first_error. Qed.
Print Assumptions C33_stops_partial.

Definition C33_collection_partial_statement : Prop :=
  forall g ps lim n u, check_coll (mk_env g ps (Some lim)) n = Ok u -> (n <= Z.of_N lim)%Z.
Theorem C33_collection_partial : C33_collection_partial_statement.
Proof. exact check_coll_bounds. Qed.
Print Assumptions C33_collection_partial.

(* non-vacuity: a guard with budget 2 on three rows reports the limit error; with budget 3 it is the identity *)
Example C33_nonvacuous :
  collect (guard 2 (oks [[]; []; []])) = Err (RLimit LRows) /\ collect (guard 3 (oks [[]; []; []])) = Ok [[]; []; []].
Proof. split; reflexivity. Qed.
