(* Props/C23.v — Expression evaluation obeys Cypher laws.
   Only statements, `exact`, and Print Assumptions. *)
From NDB Require Import Base.Bytes Cypher.Value Cypher.Compare Cypher.Logic Cypher.Arith Cypher.Eval
  Cypher.Logic_proofs Cypher.Compare_proofs Cypher.Arith_proofs Cypher.Order_proofs Cypher.Equality_proofs Cypher.ListCompare_proofs.

(* AND/OR/NOT are Kleene's connectives (false < null < true: AND = min, OR = max, NOT = flip),
   XOR is strict; for ALL values (anything that is not a boolean counts as null), hence in
   particular on the 3 x 3 truth-value domain `tvl` *)
Definition C23_truth_tables_statement : Prop :=
  forall a b : value,
    v_and a b = k_of (Nat.min (k_rank a) (k_rank b)) /\
    v_or a b = k_of (Nat.max (k_rank a) (k_rank b)) /\
    v_not a = k_of (2 - k_rank a) /\
    v_xor a b = match a, b with VBool x, VBool y => VBool (xorb x y) | _, _ => VNull end.
Theorem C23_truth_tables : C23_truth_tables_statement.
Proof. exact (fun a b => conj (and_is_min a b) (conj (or_is_max a b) (conj (not_is_flip a) (xor_spec a b)))). Qed.
Print Assumptions C23_truth_tables.

Definition C23_de_morgan_statement : Prop :=
  forall a b : value,
    v_not (v_and a b) = v_or (v_not a) (v_not b) /\ v_not (v_or a b) = v_and (v_not a) (v_not b).
Theorem C23_de_morgan : C23_de_morgan_statement.
Proof. exact (fun a b => conj (de_morgan_and a b) (de_morgan_or a b)). Qed.
Print Assumptions C23_de_morgan.

(* null propagates through every comparison and arithmetic operator, both sides, all operands *)
Definition C23_null_propagates_statement : Prop :=
  (forall tp o a, strict_binop o = true ->
     apply_bin tp o VNull a = Some VNull /\ apply_bin tp o a VNull = Some VNull) /\
  (forall a, v_xor VNull a = VNull /\ v_xor a VNull = VNull) /\
  (v_not VNull = VNull /\ v_neg VNull = VNull /\ v_abs VNull = VNull).
Theorem C23_null_propagates : C23_null_propagates_statement.
Proof. exact (conj null_propagates_bin (conj null_propagates_xor null_propagates_un)). Qed.
Print Assumptions C23_null_propagates.

(* = is an equivalence (and never null) on non-null, non-NaN scalars: booleans, all integers,
   all non-NaN doubles (mixed with integers), byte strings *)
Definition C23_eq_equivalence_statement : Prop :=
  (forall a, scalar_ok a = true -> cy_eq a a = Some true) /\
  (forall a b, scalar_ok a = true -> scalar_ok b = true -> cy_eq a b = cy_eq b a) /\
  (forall a b c, scalar_ok a = true -> scalar_ok b = true -> scalar_ok c = true ->
     cy_eq a b = Some true -> cy_eq b c = Some true -> cy_eq a c = Some true) /\
  (forall a b, scalar_ok a = true -> scalar_ok b = true -> cy_eq a b <> None).
Theorem C23_eq_equivalence : C23_eq_equivalence_statement.
Proof. exact (conj eq_refl_scalar (conj eq_sym_scalar (conj eq_trans_scalar eq_total_scalar))). Qed.
Print Assumptions C23_eq_equivalence.

(* < <= > >= agree with each other for every temporal oracle, and with = outside the known class *)
Definition C23_cmp_consistent_statement : Prop :=
  (forall tp a b, scalar_ok a = true -> scalar_ok b = true ->
     cy_lt tp a b = cy_gt tp b a /\ cy_le tp a b = cy_ge tp b a) /\
  (forall tp a b, scalar_ok a = true -> scalar_ok b = true ->
     cy_lt tp a b = t_not (cy_ge tp a b) /\ cy_gt tp a b = t_not (cy_le tp a b)) /\
  (forall tp a b, scalar_ok a = true -> scalar_ok b = true -> temporal_pair tp a b = false ->
     cy_le tp a b = t_or (cy_lt tp a b) (cy_eq a b) /\ cy_ge tp a b = t_or (cy_gt tp a b) (cy_eq a b)) /\
  (forall tp a b, scalar_ok a = true -> scalar_ok b = true -> temporal_pair tp a b = false ->
     cy_le tp a b <> None ->
     (cy_eq a b = Some true <-> cy_le tp a b = Some true /\ cy_ge tp a b = Some true)) /\
  (forall tp a b c, scalar_ok a = true -> scalar_ok b = true -> scalar_ok c = true ->
     tp_clean tp a = true -> tp_clean tp b = true -> tp_clean tp c = true ->
     cy_lt tp a b = Some true -> cy_lt tp b c = Some true -> cy_lt tp a c = Some true).
Theorem C23_cmp_consistent : C23_cmp_consistent_statement.
Proof.
  exact (conj cmp_flip_scalar (conj cmp_neg_scalar (conj cmp_eq_consistent_scalar
          (conj eq_iff_le_ge_scalar lt_trans_scalar)))).
Qed.
Print Assumptions C23_cmp_consistent.

(* integer vs float (every i64, every non-NaN double with exact value k / 2^1074) and integer
   vs integer comparisons are the exact mathematical ones *)
Definition C23_numeric_exact_statement : Prop :=
  (forall tp x f k, fkey f = Some k ->
     cy_eq (VInt x) (VFloat f) = Some (ikey x =? k)%Z /\
     cy_lt tp (VInt x) (VFloat f) = Some (ikey x <? k)%Z /\
     cy_le tp (VInt x) (VFloat f) = Some (ikey x <=? k)%Z /\
     cy_gt tp (VInt x) (VFloat f) = Some (k <? ikey x)%Z /\
     cy_ge tp (VInt x) (VFloat f) = Some (k <=? ikey x)%Z) /\
  (forall tp x y,
     cy_eq (VInt x) (VInt y) = Some (x =? y)%Z /\
     cy_lt tp (VInt x) (VInt y) = Some (x <? y)%Z /\
     cy_le tp (VInt x) (VInt y) = Some (x <=? y)%Z) /\
  (forall z, ikey z = (z * 2 ^ 1074)%Z).
Theorem C23_numeric_exact : C23_numeric_exact_statement.
Proof. exact (conj int_float_exact (conj int_int_exact ikey_mul)). Qed.
Print Assumptions C23_numeric_exact.

(* known finding K-C23-temporal: strings that parse as the same temporal value are <= and >=
   but not = *)
Definition C23_temporal_refuted_statement : Prop :=
  exists tp a b, scalar_ok a = true /\ scalar_ok b = true /\
    cy_le tp a b = Some true /\ cy_ge tp a b = Some true /\ cy_eq a b = Some false.
Theorem C23_temporal_refuted : C23_temporal_refuted_statement.
Proof. exact temporal_refuted. Qed.
Print Assumptions C23_temporal_refuted.

(* one overflow rule for + - * unary- abs: exact if the result is an i64, else the float
   operation on the converted operands; an integer result is never a wrapped one; reduce over
   integers with + is exact while all prefix sums fit and a float afterwards *)
Definition C23_overflow_rule_statement : Prop :=
  (forall x y,
     v_add (VInt x) (VInt y) = ovf_rule (x + y) (PrimFloat.add (f_of_int x) (f_of_int y)) /\
     v_sub (VInt x) (VInt y) = ovf_rule (x - y) (PrimFloat.sub (f_of_int x) (f_of_int y)) /\
     v_mul (VInt x) (VInt y) = ovf_rule (x * y) (PrimFloat.mul (f_of_int x) (f_of_int y)) /\
     v_neg (VInt x) = ovf_rule (- x) (PrimFloat.opp (f_of_int x)) /\
     v_abs (VInt x) = ovf_rule (Z.abs x) (PrimFloat.abs (f_of_int x)))%Z /\
  (forall x y z,
     (v_add (VInt x) (VInt y) = VInt z <-> (z = x + y /\ in_i64 (x + y) = true)) /\
     (v_sub (VInt x) (VInt y) = VInt z <-> (z = x - y /\ in_i64 (x - y) = true)) /\
     (v_mul (VInt x) (VInt y) = VInt z <-> (z = x * y /\ in_i64 (x * y) = true)))%Z /\
  (forall a xs,
     (prefixes_fit a xs = true -> sum_fold (VInt a) xs = VInt (fold_left Z.add xs a)) /\
     (prefixes_fit a xs = false -> exists g, sum_fold (VInt a) xs = VFloat g)) /\
  (forall tp env a xs,
     eval tp env (EReduce (EVal a) (EVal (VList (map VInt xs))) (EBin BAdd (EVar 0) (EVar 1)))
     = Some (sum_fold a xs)).
Theorem C23_overflow_rule : C23_overflow_rule_statement.
Proof. exact (conj overflow_rule (conj int_result_exact (conj reduce_sum_rule eval_reduce_add))). Qed.
Print Assumptions C23_overflow_rule.

(* = is an equivalence (and never null) on ALL values without null and NaN at any depth:
   nested lists and maps of booleans, integers, floats (mixed), strings, ids and paths *)
Definition C23_eq_equivalence_all_statement : Prop :=
  (forall a, eo a -> cy_eq a a = Some true) /\
  (forall a b, eo a -> eo b -> cy_eq a b = cy_eq b a) /\
  (forall a b c, eo a -> eo b -> eo c -> cy_eq a b = Some true -> cy_eq b c = Some true -> cy_eq a c = Some true) /\
  (forall a b, eo a -> eo b -> cy_eq a b <> None).
Theorem C23_eq_equivalence_all : C23_eq_equivalence_all_statement.
Proof. exact eq_equivalence_all. Qed.
Print Assumptions C23_eq_equivalence_all.

(* < <= > >= on lists and nested values: a < b is b > a and a <= b is b >= a for ALL values
   without temporal strings (lists nested arbitrarily, nulls and NaN included); on lists < is the
   negation of >= and > of <= (three-valued); and for lists without null/NaN/temporal strings
   <= is (< or =), >= is (> or =), = holds exactly when <= and >= hold, and the ORDER BY order
   says Equal exactly when = says true *)
Definition C23_cmp_consistent_lists_statement : Prop :=
  (forall tp a b, og tp a -> og tp b ->
     cy_lt tp a b = cy_gt tp b a /\ cy_le tp a b = cy_ge tp b a) /\
  (forall tp l r,
     cy_lt tp (VList l) (VList r) = t_not (cy_ge tp (VList l) (VList r)) /\
     cy_gt tp (VList l) (VList r) = t_not (cy_le tp (VList l) (VList r))) /\
  (forall tp l r, both tp (VList l) -> both tp (VList r) ->
     cy_le tp (VList l) (VList r) = t_or (cy_lt tp (VList l) (VList r)) (cy_eq (VList l) (VList r)) /\
     cy_ge tp (VList l) (VList r) = t_or (cy_gt tp (VList l) (VList r)) (cy_eq (VList l) (VList r)) /\
     (cy_eq (VList l) (VList r) = Some true <->
        cy_le tp (VList l) (VList r) = Some true /\ cy_ge tp (VList l) (VList r) = Some true)) /\
  (forall tp a b, both tp a -> both tp b -> (order_cmp tp a b = Eq <-> cy_eq a b = Some true)).
Theorem C23_cmp_consistent_lists : C23_cmp_consistent_lists_statement.
Proof.
  exact (conj cmp_flip_all (conj cmp_neg_lists (conj cmp_eq_consistent_lists order_eq_iff_cy_eq))).
Qed.
Print Assumptions C23_cmp_consistent_lists.
