(* Props/C26.v — The on-disk B-tree behaves as a sorted multimap.
   Only statements, `exact`, and Print Assumptions.

   M = BTree/BTree.v (page heap, byte accounting, the code's three binary searches, cursor),
   S = BTree/Spec.v  (list sorted by key, newest first among equal keys).

   The pinned code does NOT satisfy the property: refutations for K-C26-dups (witnesses evaluated in
   the faithful model; the same histories are corpus cases 0, 1 of the harness, where the real code gives
   the same answers).  Two further defects were repaired in /repo (scan stopping at an emptied leaf,
   ff9d0a3; median split by cell count overflowing a page, 0fc5a58); their witnesses are regressions
   (the fixed_ lemmas of BTree/Witness.v).  The refinement statement for histories outside the known classes is
   C26_full_statement; it is PROVED for every history in which the tree stays within height 2
   (C26_height2_partial: an internal root over leaves, any number of leaf splits); for deeper trees it
   is sampled by the correspondence. *)
From NDB Require Import Base.Bytes BTree.BTree BTree.Spec BTree.Witness BTree.Leaf_proofs BTree.SingleLeaf_proofs BTree.Delete_proofs BTree.Chain_proofs BTree.Insert_proofs BTree.Inv BTree.Inv_proofs BTree.Height2_proofs.

(* ---- the full statement (NOT proved; see the _partial theorems and the manifest) ---- *)
(* for every history outside the known classes: every operation (insert, delete, lookup, seek+scan,
   reopen) returns what the sorted multimap returns, and the final full scan is the multimap *)
Definition C26_full_statement : Prop :=
  forall ops, known_class ops = false ->
    snd (run ops) = snd (s_run ops) /\ scan_all (fst (run ops)) = inl (fst (s_run ops)).

(* ---- refutations on the pinned code ---- *)
(* K-C26-dups, delete: a stored pair that delete does not remove (three equal keys in one leaf) *)
Definition C26_refuted_delete_statement : Prop :=
  exists ops k v, In (k, v) (fst (s_run ops)) /\ snd (delete (fst (run ops)) k v) = RBool false.
Theorem C26_refuted_delete : C26_refuted_delete_statement.
Proof. exact refuted_delete. Qed.
Print Assumptions C26_refuted_delete.

(* K-C26-dups, lookup and seek: nine inserts of one 900-byte key; lookup returns payload 4, not the
   newest (9), and the seek from the key sees 5 of the 9 entries *)
Definition C26_refuted_lookup_statement : Prop :=
  exists ops k,
    lookup (fst (run ops)) k = inl (Some 4) /\ s_lookup k (fst (s_run ops)) = Some 9 /\
    (exists l, scan_from (fst (run ops)) k = inl l /\ length l = 5%nat /\ length (s_from k (fst (s_run ops))) = 9%nat).
Theorem C26_refuted_lookup : C26_refuted_lookup_statement.
Proof. exact refuted_lookup. Qed.
Print Assumptions C26_refuted_lookup.

(* ---- proved for all inputs (parts of C26_full_statement) ---- *)

(* HEIGHT 2: every history outside the known classes (no key is ever stored twice, no operation fails)
   in which the root is split at most once — the tree is one leaf and then an internal root over leaves,
   with any number of leaf splits (the new root of the first root split is page first+2; a second root
   split would allocate a larger root id), deletes that empty leaves, dead bytes, seeks, reopens:
   every insert, delete, lookup, seek+scan and reopen returns what the sorted multimap returns, and the
   final full scan is the multimap.  This is C26_full_statement restricted by `st_root <= first + 2`.
   Proved by induction over the history with a representation invariant over the page heap (leaves in
   key order = children of the root = sibling chain, separators bound the leaves, pages distinct and
   below the allocator).  Non-vacuous: BTree/Height2_proofs.v height2_nonvacuous (7 leaves, 6 splits). *)
Definition C26_height2_partial_statement : Prop :=
  forall ops, has_dup ops = false -> has_failed_op ops = false ->
    st_root (fst (run ops)) <= bt_first_data_page + 2 ->
    snd (run ops) = snd (s_run ops) /\ scan_all (fst (run ops)) = inl (fst (s_run ops)).
Theorem C26_height2_partial : C26_height2_partial_statement.
Proof. exact height2_refines. Qed.
Print Assumptions C26_height2_partial.

(* every history in which no key is ever stored twice and which never allocates a page (the tree stays
   one leaf, any number of operations, any keys, deletes leaving dead bytes): every insert, delete,
   lookup, seek+scan and reopen returns what the sorted multimap returns, and the final full scan is the
   multimap.  Non-vacuous: BTree/SingleLeaf_proofs.v single_leaf_nonvacuous. *)
Definition C26_single_leaf_partial_statement : Prop :=
  forall ops, has_dup ops = false -> has_failed_op ops = false -> st_next (fst (run ops)) = bt_first_data_page + 1 ->
    snd (run ops) = snd (s_run ops) /\ scan_all (fst (run ops)) = inl (fst (s_run ops)).
Theorem C26_single_leaf_partial : C26_single_leaf_partial_statement.
Proof. exact single_leaf_refines. Qed.
Print Assumptions C26_single_leaf_partial.

(* equal keys allowed: a history without delete that never allocates a page (one leaf) — every insert,
   lookup (newest entry of the key), seek+scan and reopen returns what the sorted multimap returns.
   So inside one leaf K-C26-dups needs a delete; beyond one leaf it needs equal keys around a split.
   Non-vacuous: single_leaf_dups_nonvacuous. *)
Definition C26_single_leaf_dups_partial_statement : Prop :=
  forall ops, existsb is_delete ops = false -> has_failed_op ops = false -> st_next (fst (run ops)) = bt_first_data_page + 1 ->
    snd (run ops) = snd (s_run ops) /\ scan_all (fst (run ops)) = inl (fst (s_run ops)).
Theorem C26_single_leaf_dups_partial : C26_single_leaf_dups_partial_statement.
Proof. exact single_leaf_dups_no_delete. Qed.
Print Assumptions C26_single_leaf_dups_partial.

(* for EVERY state of the page heap (any shape, equal keys or not, any history): a delete that reports
   true removed exactly one cell, that cell is the pair (k, v) in a leaf, its bytes became dead bytes of
   that leaf, and no other page, the root and the allocator did not change; any other outcome changed
   nothing.  (The converse — a stored pair is always found — is what K-C26-dups refutes.) *)
Definition C26_delete_exact_statement : Prop :=
  forall st k v,
    match delete st k v with
    | (st', RBool true) =>
        exists p cells r d i,
          hget (st_heap st) p = Some (Leaf cells r d) /\ nth_error cells i = Some (k, v) /\
          st' = {| st_heap := hset (st_heap st) p (Leaf (remove_at i cells) r (d + leaf_cell_len k));
                   st_next := st_next st; st_root := st_root st |}
    | (st', _) => st' = st
    end.
Theorem C26_delete_exact : C26_delete_exact_statement.
Proof. exact delete_exact. Qed.
Print Assumptions C26_delete_exact.

(* the sibling-walking cursor, for EVERY heap and any tree depth: if the right-sibling pointers from the
   leaf the descent reached form a finite chain of leaves, seek + the callers' scan loop return the rest
   of that leaf from the lower-bound slot followed by the cells of every following leaf (empty leaves
   are passed, /repo ff9d0a3), and lookup is the head of that sequence if its key is the key.
   Non-vacuous: BTree/Chain_proofs.v chain_nonvacuous (7 leaves, one of them empty). *)
Definition C26_cursor_chain_partial_statement : Prop :=
  forall st k p cells r d rest,
    find_leaf depth_fuel (st_heap st) (st_root st) k = inl (Some (p, cells, r, d)) ->
    chain (st_heap st) r rest -> (length rest <= page_fuel st)%nat ->
    scan_from st k = inl (skipn (lower_bound cells k) cells ++ concat rest) /\
    lookup st k = inl (match skipn (lower_bound cells k) cells ++ concat rest with
                       | (k', v) :: _ => if bytes_eqb k' k then Some v else None
                       | [] => None
                       end).
Theorem C26_cursor_chain_partial : C26_cursor_chain_partial_statement.
Proof. exact cursor_chain. Qed.
Print Assumptions C26_cursor_chain_partial.

(* for EVERY heap and any tree depth: an insert whose target leaf (the leaf the descent reaches) has
   room writes exactly that leaf page, the pair at the lower-bound slot (= the multimap's position when
   the leaf is sorted, C26_leaf_insert_partial), allocates nothing, keeps the root and every other page *)
Definition C26_insert_fits_exact_partial_statement : Prop :=
  forall st k v p cells r d,
    find_leaf depth_fuel (st_heap st) (st_root st) k = inl (Some (p, cells, r, d)) ->
    leaf_can_insert cells d k = true ->
    insert st k v =
      ({| st_heap := hset (st_heap st) p (Leaf (insert_at (lower_bound cells k) (k, v) cells) r d);
          st_next := st_next st; st_root := st_root st |}, RUnit).
Theorem C26_insert_fits_exact_partial : C26_insert_fits_exact_partial_statement.
Proof. exact insert_fits_exact. Qed.
Print Assumptions C26_insert_fits_exact_partial.

(* the executable invariant BTree/Inv.v wf_state (leaves strictly sorted inside their separator bounds,
   sibling pointers = in-order, byte accounting, no page twice; evaluated by the correspondence on every
   generated history outside the known classes) implies, for EVERY state: the first in-order leaf is a
   leaf page of the heap and the sibling chain from it runs through exactly the remaining leaves, so that
   the in-order contents are that leaf's cells followed by the chain's cells.  With
   C26_cursor_chain_partial: a scan positioned on the first leaf returns the in-order contents. *)
Definition C26_invariant_chain_partial_statement : Prop :=
  forall st, wf_state st = true ->
    exists p c r d rest,
      hget (st_heap st) p = Some (Leaf c r d) /\ chain (st_heap st) r rest /\ contents st = c ++ concat rest.
Theorem C26_invariant_chain_partial : C26_invariant_chain_partial_statement.
Proof. exact wf_state_chain. Qed.
Print Assumptions C26_invariant_chain_partial.

(* the insert position in a leaf (the code's lower-bound loop) is the multimap's: in front of every
   entry with key >= k, hence newest first among equal keys — for every sorted leaf, equal keys allowed *)
Definition C26_leaf_insert_partial_statement : Prop :=
  forall l k v, wsorted l -> insert_at (lower_bound l k) (k, v) l = s_insert k v l.
Theorem C26_leaf_insert_partial : C26_leaf_insert_partial_statement.
Proof. exact leaf_insert_refines. Qed.
Print Assumptions C26_leaf_insert_partial.

(* delete's slice::binary_search_by on (key, payload), in a leaf without equal keys: reports found iff
   the pair is stored and removes exactly that cell *)
Definition C26_leaf_delete_partial_statement : Prop :=
  forall l k v, ssorted l ->
    let (found, idx) := bsearch (map (fun c : cell => cell_cmp c k v) l) in
    found = fst (s_delete k v l) /\ (if found then remove_at idx l else l) = snd (s_delete k v l).
Theorem C26_leaf_delete_partial : C26_leaf_delete_partial_statement.
Proof. exact leaf_delete_refines. Qed.
Print Assumptions C26_leaf_delete_partial.

(* the split of a full leaf without equal keys, at the split point the code chooses (closest to the median
   such that both halves fit a page): the halves are the multimap's list cut there and fit a page, the right
   half is not empty, both stay sorted, the separator (first key of the right half) is strictly above every
   key of the left half and at most every key of the right half *)
Definition C26_leaf_split_partial_statement : Prop :=
  forall l k v mid, ssorted l -> has_key k l = false ->
    leaf_split_point (leaf_entries l k v) = Some mid ->
    let a := firstn mid (leaf_entries l k v) in let b := skipn mid (leaf_entries l k v) in
    a ++ b = s_insert k v l /\ b <> [] /\ ssorted a /\ ssorted b /\ leaf_fits a = true /\ leaf_fits b = true /\
    Forall (fun c : cell => lex_lt (fst c) (fst (hd ([], 0) b))) a /\
    Forall (fun c : cell => lex_cmp (fst (hd ([], 0) b)) (fst c) <> Gt) b.
Theorem C26_leaf_split_partial : C26_leaf_split_partial_statement.
Proof. exact leaf_split_separator. Qed.
Print Assumptions C26_leaf_split_partial.

(* the descent rule on sorted separators (the code's upper-bound loop): right child of the last
   separator <= k, else the leftmost child *)
Definition C26_descent_partial_statement : Prop :=
  forall lm l k, wsorted l ->
    child_for_key lm l k =
      match rev (le_prefix k l) with
      | [] => (lm, O)
      | c :: _ => (snd c, length (le_prefix k l))
      end.
Theorem C26_descent_partial : C26_descent_partial_statement.
Proof. exact descent_rule. Qed.
Print Assumptions C26_descent_partial.

(* the model of core::slice::binary_search_by on any monotone comparison list Lt^a Eq^b Gt^c:
   Ok(last Equal index) if b > 0, else Err(a) *)
Definition C26_binary_search_partial_statement : Prop :=
  forall la le lg, Forall (eq Lt) la -> Forall (eq Eq) le -> Forall (eq Gt) lg ->
    bsearch (la ++ le ++ lg) =
      if Nat.ltb 0 (length le) then (true, pred (length la + length le)) else (false, length la).
Theorem C26_binary_search_partial : C26_binary_search_partial_statement.
Proof. exact bsearch_blocks. Qed.
Print Assumptions C26_binary_search_partial.

(* K-C26-dups for every key: three entries of one key, written newest-first with payloads increasing
   in time, the oldest of them is stored but delete's binary search does not find it *)
Definition C26_dups_delete_general_statement : Prop :=
  forall (k : key) (v1 v2 v3 : N), v1 < v2 -> v1 < v3 ->
    In (k, v1) [(k, v3); (k, v2); (k, v1)] /\
    fst (bsearch (map (fun c : cell => cell_cmp c k v1) [(k, v3); (k, v2); (k, v1)])) = false.
Theorem C26_dups_delete_general : C26_dups_delete_general_statement.
Proof. exact dups_delete_misses_oldest. Qed.
Print Assumptions C26_dups_delete_general.
