(* Props/C26.v — The on-disk B-tree behaves as a sorted multimap.
   Only statements, `exact`, and Print Assumptions.

   M = BTree/BTree.v (page heap, byte accounting, the code's three binary searches, cursor),
   S = BTree/Spec.v  (list sorted by key, newest first among equal keys).

   The pinned code does NOT satisfy the property: four refutations (witnesses evaluated in
   the faithful model; the same histories are corpus cases 0-3 of the harness, where the
   real code gives the same answers).  The full refinement statement for histories outside
   the three known classes is kept as C26_full_statement; what is proved of it is listed
   below (theorems named _partial). *)
From NDB Require Import Base.Bytes BTree.BTree BTree.Spec BTree.Witness.

(* ---- the full statement (NOT proved; see the _partial theorems and the manifest) ---- *)
(* for every history outside the known classes: every operation (insert, delete, lookup, seek+scan,
   reopen) returns what the sorted multimap returns, and the final full scan is the multimap *)
Definition C26_full_statement : Prop :=
  forall ops, known_class ops = false ->
    snd (run ops) = snd (s_run ops) /\ scan_all (fst (run ops)) = inl (fst (s_run ops)).

(* ---- refutations on the pinned code ---- *)
(* K-C26-dups, delete: a stored pair that delete does not remove (three equal keys in one leaf) *)
Definition C26_refuted_delete_statement : Prop :=
  exists ops k v, In (k, v) (fst (s_run ops)) /\ snd (delete (fst (run ops)) k v) = RBool false.
Theorem C26_refuted_delete : C26_refuted_delete_statement.
Proof. exact refuted_delete. Qed.
Print Assumptions C26_refuted_delete.

(* K-C26-dups, lookup and seek: nine inserts of one 900-byte key; lookup returns payload 4, not the
   newest (9), and the seek from the key sees 5 of the 9 entries; no leaf is empty *)
Definition C26_refuted_lookup_statement : Prop :=
  exists ops k, has_gap ops = false /\
    lookup (fst (run ops)) k = inl (Some 4) /\ s_lookup k (fst (s_run ops)) = Some 9 /\
    (exists l, scan_from (fst (run ops)) k = inl l /\ length l = 5%nat /\ length (s_from k (fst (s_run ops))) = 9%nat).
Theorem C26_refuted_lookup : C26_refuted_lookup_statement.
Proof. exact refuted_lookup. Qed.
Print Assumptions C26_refuted_lookup.

(* K-C26-emptyleaf: no key is ever stored twice, yet a full scan returns 4 of the 26 stored entries *)
Definition C26_refuted_scan_statement : Prop :=
  exists ops l, has_dup ops = false /\ has_failed_op ops = false /\
    scan_all (fst (run ops)) = inl l /\ length l = 4%nat /\ length (fst (s_run ops)) = 26%nat.
Theorem C26_refuted_scan : C26_refuted_scan_statement.
Proof. exact refuted_scan. Qed.
Print Assumptions C26_refuted_scan.

(* K-C26-splitfit: 17 inserts of distinct keys (2 and 900 bytes), nothing deleted; the last insert panics *)
Definition C26_refuted_insert_statement : Prop :=
  exists ops, has_dup ops = false /\ has_gap ops = false /\
    (forall o, In o ops -> exists k v, o = OInsert k v /\ (length k <= 900)%nat) /\
    last (snd (run ops)) RUnit = RPanic.
Theorem C26_refuted_insert : C26_refuted_insert_statement.
Proof. exact refuted_insert. Qed.
Print Assumptions C26_refuted_insert.
