(* Props/C07.v — Uncommitted transactions leave no trace.
   Only statements, `exact`, and Print Assumptions. *)
From NDB Require Import Engine.Graph Engine.Model Engine.Known Engine.Abandon_proofs.

(* the property over the faithful model: erasing the abandoned transactions changes no read
   (dump = nodes, labels, properties, both edge views, vector-search ids) *)
Definition C07_full_statement : Prop :=
  forall h, wf_hist h = true -> m_dump (run h) = m_dump (run (erase_abandoned h)).

(* refuted on the pinned code: K-C07-vector *)
Definition C07_refuted_statement : Prop :=
  exists h, wf_hist h = true /\ no_reopen h = true /\ m_dump (run h) <> m_dump (run (erase_abandoned h)).
Theorem C07_refuted : C07_refuted_statement.
Proof. exact erase_refuted. Qed.
Print Assumptions C07_refuted.

(* an abandoned transaction whose calls are all buffered ones (anything except set_vector and the
   registration of a new label / relationship-type name) changes nothing but the txid counter *)
Definition C07_abandon_state_statement : Prop :=
  forall s ops, forallb (quiet_op s) ops = true -> run_txn s ops false = bump s.
Theorem C07_abandon_state : C07_abandon_state_statement.
Proof. exact abandon_state. Qed.
Print Assumptions C07_abandon_state.

(* conditional theorem, all histories without reopen steps: outside K-C07-vector (and new-name
   registration inside abandoned transactions) erasure changes no read *)
Definition C07_erase_partial_statement : Prop :=
  forall h, no_reopen h = true -> quiet_hist s0 h = true ->
    m_dump (run h) = m_dump (run (erase_abandoned h)).
Theorem C07_erase_partial : C07_erase_partial_statement.
Proof. exact erase_abandoned_dump. Qed.
Print Assumptions C07_erase_partial.
