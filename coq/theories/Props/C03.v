(* Props/C03.v — Snapshots are consistent and stable.
   Only statements, `exact`, and Print Assumptions.  Model: Conc/Snapshot.v. *)
From Coq Require Import List ZArith Bool.
From NDB Require Import Conc.Sched Conc.Snapshot Conc.Snapshot_proofs.
Import ListNotations.

(* The property as stated (for the record; REFUTED on the pinned tree by the two witnesses below):
   under every schedule every view a reader observes is the committed state after some prefix of the
   history, and all views of one snapshot are equal. *)
Definition C03_full_statement : Prop :=
  forall (h : list wop) (readers : list nat) (sched : list nat) (r : nat),
    let sh := Sched.shared (srun sched (sinit h readers)) in
    forallb (consistent_with h) (obs_of r sh) = true /\ all_same (obs_of r sh) = true.

(* K-C03-torn: snapshot acquisition is not atomic w.r.t. the publication steps of commit/compaction *)
Definition C03_torn_refuted_statement : Prop :=
  exists h readers sched r,
    forallb (consistent_with h) (obs_of r (Sched.shared (srun sched (sinit h readers)))) = false.
Theorem C03_torn_refuted : C03_torn_refuted_statement.
Proof. exists [WCommit tx1], [1], torn_commit_sched, 1. exact (proj2 torn_commit). Qed.
Print Assumptions C03_torn_refuted.

(* the two compaction variants of the same class: relationship lost / relationship doubled *)
Definition C03_torn_compaction_refuted_statement : Prop :=
  (exists sched, map v_edges (obs_of 1 (Sched.shared (srun sched (sinit [WCommit tx1; WCompact] [1])))) = [[]]) /\
  (exists sched, map v_edges (obs_of 1 (Sched.shared (srun sched (sinit [WCommit tx1; WCompact] [1])))) = [[(1, 1); (1, 1)]]).
Theorem C03_torn_compaction_refuted : C03_torn_compaction_refuted_statement.
Proof.
  split; [exists torn_compact_lost_sched; exact (proj1 torn_compact_lost)
         |exists torn_compact_doubled_sched; exact (proj1 torn_compact_doubled)].
Qed.
Print Assumptions C03_torn_compaction_refuted.

(* K-C03-inplace: a snapshot acquired at a quiescent point changes when a later compaction rewrites
   the property tree in place *)
Definition C03_inplace_refuted_statement : Prop :=
  exists h readers sched r,
    all_same (obs_of r (Sched.shared (srun sched (sinit h readers)))) = false.
Theorem C03_inplace_refuted : C03_inplace_refuted_statement.
Proof. exists inplace_history, [3], inplace_sched, 1. exact (proj2 inplace_unstable). Qed.
Print Assumptions C03_inplace_refuted.

(* Conditional 1 (outside K-C03-torn): for EVERY history of whole writer operations (commits and
   compactions in any order and number), a snapshot acquired while no writer step is in flight shows
   exactly the committed state: every transaction completely, nothing else. *)
Definition C03_quiescent_consistent_statement : Prop :=
  forall (h : list wop) (r : nat) (l : local),
    let st := exec_steps 0 (writer_prog h) (shared0, local0) in
    view_of (snd (exec_steps r acquire_steps (fst st, l))) (s_heap (fst st)) = view_of_spec (spec_of h).
Theorem C03_quiescent_consistent : C03_quiescent_consistent_statement.
Proof. exact quiescent_consistent. Qed.
Print Assumptions C03_quiescent_consistent.

(* Conditional 2 (outside K-C03-inplace): from any reachable or unreachable configuration and for EVERY
   schedule, as long as no compaction sink step remains to be run by any thread, the view of a reader
   that has finished acquiring never changes - whatever commits, label publications, other readers and
   reads are interleaved. *)
Definition C03_stable_without_compaction_statement : Prop :=
  forall (c : scfg) (r : nat) (sched : list nat),
    no_sink c -> only_reads c r ->
    let c' := srun sched c in
    view_of (loc (threads c' r)) (s_heap (Sched.shared c')) = view_of (loc (threads c r)) (s_heap (Sched.shared c)).
Theorem C03_stable_without_compaction : C03_stable_without_compaction_statement.
Proof. exact stable_without_compaction. Qed.
Print Assumptions C03_stable_without_compaction.

(* Conditional 3 (schedule level, outside both classes): for every history h, every j, every reader r: run the
   writer's first j operations, let r acquire with no writer step in between, then continue with ANY schedule
   (the remaining commits step by step, other readers acquiring and reading, r reading whenever it is scheduled):
   if no compaction is among the remaining operations, every view r ever observes is exactly the committed
   state after the first j operations. *)
Definition C03_quiescent_snapshot_schedules_statement : Prop :=
  forall (h : list wop) (readers : list nat) (j r : nat) (sched' : list nat),
    1 <= r <= length readers ->
    (forall o, In o (skipn j h) -> o <> WCompact) ->
    let pre := repeat 0 (length (writer_prog (firstn j h))) ++ repeat r (length acquire_steps) in
    let c := srun (pre ++ sched') (sinit h readers) in
    forall v, In v (obs_of r (Sched.shared c)) -> v = view_of_spec (spec_of (firstn j h)).
Theorem C03_quiescent_snapshot_schedules : C03_quiescent_snapshot_schedules_statement.
Proof. exact quiescent_snapshot_schedules. Qed.
Print Assumptions C03_quiescent_snapshot_schedules.
