(* Props/C03.v — Snapshots are consistent and stable.
   Only statements, `exact`, and Print Assumptions.
   Model of the code as it is now (acquisition under the publication lock): Conc/Snapshot.v.
   Model of the acquisition before that repair (regression witnesses): Conc/SnapshotUnlocked.v. *)
From Coq Require Import List ZArith Bool.
From NDB Require Import Conc.Sched Conc.Snapshot Conc.Snapshot_proofs.
From NDB Require Conc.SnapshotUnlocked Conc.SnapshotUnlocked_proofs.
Import ListNotations.

(* The property as stated (for the record; still REFUTED by K-C03-inplace below): under every schedule every
   view a reader observes is the committed state after the operations published when its snapshot was taken. *)
Definition C03_full_statement : Prop :=
  forall (h : list wop) (readers : list nat) (sched : list nat) (o : obs),
    In o (s_obs (Sched.shared (srun sched (sinit h readers)))) ->
    o_view o = view_of_spec (spec_of (o_hist o)).

(* Consistency for ALL histories, ALL numbers of readers, ALL schedules (no quiescence hypothesis any more):
   every observation made while no compaction sink step ran since the snapshot was acquired (or through a
   snapshot that has no property root, which never reads the page heap) is exactly the committed state after the
   j operations whose publication had completed at the acquisition - each of them completely, nothing else;
   the j operations are a prefix of the history (j <= length h). *)
Definition C03_snapshot_consistent_statement : Prop :=
  forall (h : list wop) (readers : list nat) (sched : list nat) (o : obs),
    In o (s_obs (Sched.shared (srun sched (sinit h readers)))) -> o_safe o = true ->
    exists j, j <= length h /\ o_hist o = firstn j h /\ o_view o = view_of_spec (spec_of (firstn j h)).
Theorem C03_snapshot_consistent : C03_snapshot_consistent_statement.
Proof. exact snapshot_consistent. Qed.
Print Assumptions C03_snapshot_consistent.

(* K-C03-inplace (recorded, not repaired): a held snapshot reads 5, 5 and then 6 for the same property: the
   commit after its acquisition is invisible, the compaction after that rewrites the property tree it reads
   through.  The model flags exactly the third read as unsafe. *)
Definition C03_inplace_refuted_statement : Prop :=
  exists h readers sched,
    let obs := obs_of 1 (Sched.shared (srun sched (sinit h readers))) in
    map (fun o => (v_props (o_view o), o_safe o)) obs = [([Some 5%Z], true); ([Some 5%Z], true); ([Some 6%Z], false)] /\
    map (fun o => length (o_hist o)) obs = [2; 2; 2].
Theorem C03_inplace_refuted : C03_inplace_refuted_statement.
Proof. exists inplace_history, [3], inplace_sched. exact inplace_unstable. Qed.
Print Assumptions C03_inplace_refuted.

(* Regression witnesses of the repaired defect K-C03-torn (acquisition WITHOUT the publication lock, fields copied
   one after the other): a node without labels, property and relationship; a relationship lost; a relationship twice. *)
Definition C03_unlocked_torn_refuted_statement : Prop :=
  (exists h readers sched r,
     forallb (SnapshotUnlocked.consistent_with h)
       (SnapshotUnlocked.obs_of r (Sched.shared (SnapshotUnlocked.srun sched (SnapshotUnlocked.sinit h readers)))) = false) /\
  (exists sched, map SnapshotUnlocked.v_edges (SnapshotUnlocked.obs_of 1 (Sched.shared (SnapshotUnlocked.srun sched
       (SnapshotUnlocked.sinit [SnapshotUnlocked.WCommit SnapshotUnlocked_proofs.tx1; SnapshotUnlocked.WCompact] [1])))) = [[]]) /\
  (exists sched, map SnapshotUnlocked.v_edges (SnapshotUnlocked.obs_of 1 (Sched.shared (SnapshotUnlocked.srun sched
       (SnapshotUnlocked.sinit [SnapshotUnlocked.WCommit SnapshotUnlocked_proofs.tx1; SnapshotUnlocked.WCompact] [1])))) = [[(1, 1); (1, 1)]]).
Theorem C03_unlocked_torn_refuted : C03_unlocked_torn_refuted_statement.
Proof.
  split; [|split].
  - exists [SnapshotUnlocked.WCommit SnapshotUnlocked_proofs.tx1], [1], SnapshotUnlocked_proofs.torn_commit_sched, 1.
    exact (proj2 SnapshotUnlocked_proofs.torn_commit).
  - exists SnapshotUnlocked_proofs.torn_compact_lost_sched. exact (proj1 SnapshotUnlocked_proofs.torn_compact_lost).
  - exists SnapshotUnlocked_proofs.torn_compact_doubled_sched. exact (proj1 SnapshotUnlocked_proofs.torn_compact_doubled).
Qed.
Print Assumptions C03_unlocked_torn_refuted.
