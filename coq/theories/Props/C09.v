(* Props/C09.v — Concurrent auto-commit writes lose no updates.
   Only statements, `exact`, and Print Assumptions.  Model: Conc/AutoCommit.v
   (program order of the code as it is now = current_order = order_fixed).
   A "statement" is an auto-commit write (ndb_execute_write, prepared write statements) or an explicit
   transaction holding one statement (ndb_begin_write, ndb_txn_query, ndb_txn_commit): both run the five
   steps lock, snapshot, log, publish, unlock in this order on the real code (calibrated by the harness and
   compared in Corr/C09.v). *)
From Coq Require Import List ZArith.
From NDB Require Import Conc.Sched Conc.AutoCommit Conc.AutoCommit_proofs.
Import ListNotations.
Open Scope Z_scope.

(* For any number of threads, any read-modify-write statements per thread, and EVERY
   schedule (prefixes included): the stored value is the result of running the
   committed statements one at a time in commit order (= writer-lock order). *)
Definition C09_serializable_statement : Prop :=
  forall (v0 : Z) (stmts : list (list stmt)) (sched : list nat),
    let c := arun sched (init current_order v0 stmts) in
    cell (Sched.shared c) = seq_result v0 (map snd (hist (Sched.shared c))).
Theorem C09_serializable : C09_serializable_statement.
Proof. exact fixed_serializable. Qed.
Print Assumptions C09_serializable.

(* the commit order is an interleaving of the threads' programs: once every thread has
   finished, each thread's statements appear in the history exactly once, in its order *)
Definition C09_history_complete_statement : Prop :=
  forall (v0 : Z) (stmts : list (list stmt)) (sched : list nat),
    let c := arun sched (init current_order v0 stmts) in
    done_upto (length stmts) c = true ->
    forall t, committed_by t (hist (Sched.shared c)) = nth t stmts [].
Theorem C09_history_complete : C09_history_complete_statement.
Proof. exact (hist_complete current_order). Qed.
Print Assumptions C09_history_complete.

(* counters: with only increments, the value is the initial value plus the number of commits *)
Definition C09_no_lost_increment_statement : Prop :=
  forall (v0 : Z) (stmts : list (list stmt)) (sched : list nat),
    Forall (Forall (fun s => s = SAdd 1)) stmts ->
    let c := arun sched (init current_order v0 stmts) in
    cell (Sched.shared c) = v0 + Z.of_nat (length (hist (Sched.shared c))).
Theorem C09_no_lost_increment : C09_no_lost_increment_statement.
Proof. exact fixed_no_lost_increment. Qed.
Print Assumptions C09_no_lost_increment.

(* regression witness of the repaired defect: with the snapshot taken BEFORE the writer
   lock (the pinned tree's order) two increments can yield 1 *)
Definition C09_old_order_refuted_statement : Prop :=
  exists sched,
    let c := arun sched (init order_old 0 [[SAdd 1]; [SAdd 1]]) in
    done_upto 2 c = true /\ length (hist (Sched.shared c)) = 2%nat /\
    cell (Sched.shared c) <> seq_result 0 (map snd (hist (Sched.shared c))).
Theorem C09_old_order_refuted : C09_old_order_refuted_statement.
Proof.
  exists witness_old_sched. destruct old_order_loses_update as (A & B & _ & D). exact (conj A (conj B D)).
Qed.
Print Assumptions C09_old_order_refuted.

(* the writer lock must cover the publication of the committed state: if the write guard is dropped after the
   log record is durable but before the run is published, the next statement can take the lock and its
   snapshot in that window and an increment is lost *)
Definition C09_early_unlock_refuted_statement : Prop :=
  exists sched,
    let c := arun sched (init order_early_unlock 0 [[SAdd 1]; [SAdd 1]]) in
    done_upto 2 c = true /\ length (hist (Sched.shared c)) = 2%nat /\
    cell (Sched.shared c) <> seq_result 0 (map snd (hist (Sched.shared c))).
Theorem C09_early_unlock_refuted : C09_early_unlock_refuted_statement.
Proof.
  exists witness_early_unlock_sched. destruct early_unlock_loses_update as (A & B & _ & D). exact (conj A (conj B D)).
Qed.
Print Assumptions C09_early_unlock_refuted.
