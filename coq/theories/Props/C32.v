(* Props/C32.v — Node identities are unique and allocation never fails.
   Only statements, `exact`, and Print Assumptions. *)
From NDB Require Import IdAlloc.Model IdAlloc.Model_proofs.
Open Scope N_scope.

(* Uniqueness, for EVERY history and EVERY clock behaviour (stalled, backwards, ...):
   the committed nodes have pairwise different external ids and pairwise different
   internal ids. *)
Definition C32_ids_unique_statement : Prop :=
  forall h, let s := fst (run empty h) in
    NoDup (map snd (nodes s)) /\ NoDup (map fst (nodes s)).
Theorem C32_ids_unique : C32_ids_unique_statement.
Proof. exact ids_unique. Qed.
Print Assumptions C32_ids_unique.

(* Stability: a node keeps its (internal id, external id) through any continuation
   (further statements, commits, abandoned transactions, compaction, reopen). *)
Definition C32_ids_stable_statement : Prop :=
  forall h1 h2 p,
    In p (nodes (fst (run empty h1))) ->
    In p (nodes (fst (run (fst (run empty h1)) h2))).
Theorem C32_ids_stable : C32_ids_stable_statement.
Proof. exact ids_stable. Qed.
Print Assumptions C32_ids_stable.

(* "Allocation never fails regardless of the clock" is REFUTED (K-C32-clock):
   a stalled clock across two statements; a clock stepping back inside a statement;
   even a strictly increasing clock (10,11,12 then 14). *)
Definition C32_refuted_statement : Prop :=
  exists h, snd (run empty h) = false.
Theorem C32_refuted : C32_refuted_statement.
Proof. exists [OStmt one [5]; OCommit; OStmt one [5]]. exact alloc_fails_stalled. Qed.
Print Assumptions C32_refuted.

Definition C32_refuted_backwards_statement : Prop := snd (run empty [OStmt one [5; 4]]) = false.
Theorem C32_refuted_backwards : C32_refuted_backwards_statement.
Proof. exact alloc_fails_backwards. Qed.
Print Assumptions C32_refuted_backwards.

Definition C32_refuted_increasing_statement : Prop :=
  snd (run empty [OStmt one [10; 11; 12]; OCommit; OStmt one [14]]) = false.
Theorem C32_refuted_increasing : C32_refuted_increasing_statement.
Proof. exact alloc_fails_increasing. Qed.
Print Assumptions C32_refuted_increasing.

(* Exact characterisation: a statement fails iff it is in the class K-C32-clock (it asks
   for an id in use, or twice for the same id) ... *)
Definition C32_stmt_ok_iff_statement : Prop :=
  forall s sh clocks, snd (stmt s sh clocks) = negb (collides s sh clocks).
Theorem C32_stmt_ok_iff : C32_stmt_ok_iff_statement.
Proof. exact stmt_ok_iff. Qed.
Print Assumptions C32_stmt_ok_iff.

(* ... and the conditional theorem on the clock: samples that never decrease inside the
   statement and start above every id in use (committed or pending) never fail. *)
Definition C32_stmt_ok_spaced_statement : Prop :=
  forall s sh clocks,
    nondecreasing clocks ->
    (forall t, hd_error clocks = Some t -> forall u, In u (committed s ++ pending s) -> u < t) ->
    snd (stmt s sh clocks) = true.
Theorem C32_stmt_ok_spaced : C32_stmt_ok_spaced_statement.
Proof. exact stmt_ok_spaced. Qed.
Print Assumptions C32_stmt_ok_spaced.
