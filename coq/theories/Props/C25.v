(* Props/C25.v — Value and log encodings round-trip safely.
   Only statements, `exact`, and Print Assumptions. *)
From NDB Require Import Base.Bytes Codec.Utf8 Codec.Crc32 Codec.PropValue Codec.PropValue_proofs Codec.WalRecord Codec.WalLog Codec.WalLog_proofs Codec.WalRecord_proofs.
Open Scope N_scope.

(* every well-formed property value (nested lists and maps, floats as 64-bit
   patterns incl. NaN payloads and signed zeros, strings = valid UTF-8 byte
   strings incl. empty / non-ASCII, blobs, maps in key order, lengths < 2^32)
   whose lists/maps are nested at most MAX_PROPERTY_NESTING deep — the values the engine
   accepts (commit, bulk load and the WAL encoder refuse deeper ones) — is decoded to exactly
   what was encoded, whatever follows it, and the decoder consumes exactly the encoding *)
Definition C25_pv_roundtrip_statement : Prop :=
  forall v rest, wf v = true -> cdepth v <= pv_max_nesting ->
    dec_top (encode v ++ rest) = Ok (v, len (encode v)) /\ decode (encode v ++ rest) = Ok v.
Theorem C25_pv_roundtrip : C25_pv_roundtrip_statement.
Proof. exact roundtrip. Qed.
Print Assumptions C25_pv_roundtrip.

(* decoding any byte string yields a value or an error: never the panic outcome
   (out-of-range slice), never out of fuel, and a success consumed between 1
   and |b| bytes *)
Definition C25_decode_safe_statement : Prop :=
  forall b : bytes,
    dec_top b <> Panic /\ dec_top b <> NoFuel /\
    forall v c, dec_top b = Ok (v, c) -> 1 <= c <= len b.
Theorem C25_decode_safe : C25_decode_safe_statement.
Proof. exact dec_top_good. Qed.
Print Assumptions C25_decode_safe.

(* container elements the decoder holds (reserved up front + pushed into vectors +
   inserted into maps, summed over the whole call) never exceed the input length:
   nothing is reserved on the word of a length field *)
Definition C25_alloc_bounded_statement : Prop := forall b : bytes, alloc_request b <= len b.
Theorem C25_alloc_bounded : C25_alloc_bounded_statement.
Proof. exact alloc_bounded. Qed.
Print Assumptions C25_alloc_bounded.

(* recursion depth: for EVERY byte string at most MAX_PROPERTY_NESTING + 1 nested calls
   (a constant), and at most one level per 5 input bytes *)
Definition C25_depth_bounded_statement : Prop :=
  forall b : bytes, depth b <= pv_max_nesting + 1 /\ 5 * depth b <= len b + 5.
Theorem C25_depth_bounded : C25_depth_bounded_statement.
Proof. exact (fun b => conj (depth_limited b) (depth_bounded b)). Qed.
Print Assumptions C25_depth_bounded.

(* the bound is reached: k nested one-element list headers have depth k + 1 for every
   k <= MAX_PROPERTY_NESTING; for every larger k decoding is the error TooDeep (on the pinned
   tree: unbounded recursion, stack overflow at 209000 levels) *)
Definition C25_depth_reached_statement : Prop :=
  (forall k, N.of_nat k <= pv_max_nesting -> depth (nest k) = N.of_nat k + 1) /\
  (forall k, pv_max_nesting < N.of_nat k -> decode (nest k) = Err ETooDeep).
Theorem C25_depth_reached : C25_depth_reached_statement.
Proof. exact (conj depth_nest decode_nest_deep). Qed.
Print Assumptions C25_depth_reached.

(* log framing: a record body of 1..MAX bytes written as len|crc32|body is read back
   exactly, whatever follows it *)
Definition C25_frame_roundtrip_statement : Prop :=
  forall body rest, 1 <= len body <= wal_max_record_len ->
    next_frame (frame_body body ++ rest) = NRec body rest.
Theorem C25_frame_roundtrip : C25_frame_roundtrip_statement.
Proof. exact next_frame_frame. Qed.
Print Assumptions C25_frame_roundtrip.

(* every well-formed log record of every kind (17 kinds; field widths u32/u64, names and
   keys valid UTF-8 < 2^32 bytes, pages of PAGE_SIZE bytes, well-formed property values) is
   decoded to exactly what was encoded *)
Definition C25_wal_roundtrip_statement : Prop :=
  forall r, wf_rec r = true -> decode_body (encode_body r) = WOk r.
Theorem C25_wal_roundtrip : C25_wal_roundtrip_statement.
Proof. exact wal_roundtrip. Qed.
Print Assumptions C25_wal_roundtrip.
(* the hypotheses are met by a record of each kind *)
Example C25_wal_roundtrip_each_kind :
  forallb (fun r => wf_rec r && match decode_body (encode_body r) with WOk r' => wrec_eqb r r' | _ => false end)
    [WBegin 7; WCommit 18446744073709551615; WPageWrite 3 (repeat 171 8192); WPageFree 0;
     WCreateLabel [66; 195; 169] 4294967295; WCreateNode 5 0 1; WAddNodeLabel 1 2; WRemoveNodeLabel 1 2;
     WCreateEdge 1 2 3; WTombstoneNode 9; WTombstoneEdge 3 2 1;
     WManifestSwitch 4 [(1, 2); (3, 4)] 5 6; WManifestSwitch 0 [] 0 0; WCheckpoint 1 2 3 4;
     WSetNodeProp 1 [107] (PMap [([], PNull); ([97], PList [PFloat 18444492273895866368; PStr [240; 159; 152; 128]])]);
     WSetEdgeProp 1 2 3 [] (PBlob [0; 255]); WRemoveNodeProp 1 [107]; WRemoveEdgeProp 1 2 3 [229; 144; 141]] = true.
Proof. vm_compute. reflexivity. Qed.
