(* Props/C25.v — Value and log encodings round-trip safely.
   Only statements, `exact`, and Print Assumptions. *)
From NDB Require Import Base.Bytes Codec.Utf8 Codec.PropValue Codec.PropValue_proofs.
Open Scope N_scope.

(* every well-formed property value (nested lists and maps, floats as 64-bit
   patterns incl. NaN payloads and signed zeros, strings = valid UTF-8 byte
   strings incl. empty / non-ASCII, blobs, maps in key order, lengths < 2^32)
   is decoded to exactly what was encoded, whatever follows it, and the decoder
   consumes exactly the encoding *)
Definition C25_pv_roundtrip_statement : Prop :=
  forall v rest, wf v = true ->
    dec_top (encode v ++ rest) = Ok (v, len (encode v)) /\ decode (encode v ++ rest) = Ok v.
Theorem C25_pv_roundtrip : C25_pv_roundtrip_statement.
Proof. exact roundtrip. Qed.
Print Assumptions C25_pv_roundtrip.

(* decoding any byte string yields a value or an error: never the panic outcome
   (out-of-range slice), never out of fuel, and a success consumed between 1
   and |b| bytes *)
Definition C25_decode_safe_statement : Prop :=
  forall b : bytes,
    dec_top b <> Panic /\ dec_top b <> NoFuel /\
    forall v c, dec_top b = Ok (v, c) -> 1 <= c <= len b.
Theorem C25_decode_safe : C25_decode_safe_statement.
Proof. exact dec_top_good. Qed.
Print Assumptions C25_decode_safe.
