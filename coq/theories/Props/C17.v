(* Props/C17.v — Any log tail is tolerated on open.
   Only statements, `exact`, and Print Assumptions (plus one Example showing the
   hypotheses are met by a concrete log). *)
From NDB Require Import Base.Bytes Codec.Crc32 Codec.PropValue Codec.WalRecord Codec.WalLog Codec.WalLog_proofs Codec.WalLog_corollaries.
Open Scope N_scope.

(* a complete frame with a body of 1..MAX bytes is read back, whatever follows it *)
Definition C17_frame_read_statement : Prop :=
  forall body rest, 1 <= len body <= wal_max_record_len ->
    next_frame (frame_body body ++ rest) = NRec body rest.
Theorem C17_frame_read : C17_frame_read_statement.
Proof. exact next_frame_frame. Qed.
Print Assumptions C17_frame_read.

(* what ends the scan: every proper prefix of a frame (every truncation point); a complete
   frame whose checksum field is wrong; a length field of 0 or above the limit followed by
   anything; zero-filled space of any length *)
Definition C17_stops_statement : Prop :=
  (forall body p t, len body < 4294967296 -> frame_body body = p ++ t -> t <> [] -> next_frame p = NStop) /\
  (forall body c rest, len body < 4294967296 -> c < 4294967296 -> c <> crc32 body ->
     next_frame (le 4 (len body) ++ le 4 c ++ body ++ rest) = NStop) /\
  (forall n t, n < 4294967296 -> n = 0 \/ wal_max_record_len < n -> next_frame (le 4 n ++ t) = NStop) /\
  (forall k, next_frame (repeat 0 k) = NStop).
Theorem C17_stops : C17_stops_statement.
Proof. exact (conj prefix_stops (conj crc_stops (conj len_field_stops zeros_stop))). Qed.
Print Assumptions C17_stops.

(* whatever follows a valid log — provided it does not begin with a complete checksummed
   frame of 1..MAX bytes (such a frame is a record, not a tail) — open succeeds, hands
   recovery exactly the log's committed transactions and leaves exactly the valid log in
   the file *)
Definition C17_tail_tolerated_statement : Prop :=
  forall l rs t txs, valid_log l rs -> next_frame t = NStop -> replay rs None [] [] = Some txs ->
    open_log (l ++ t) = inl (l, txs) /\ replay_file (l ++ t) = inl txs /\ replay_file l = inl txs.
Theorem C17_tail_tolerated : C17_tail_tolerated_statement.
Proof. exact tail_tolerated. Qed.
Print Assumptions C17_tail_tolerated.

(* a transaction committed after such an open is appended to the valid log; the result is
   again a valid log, so the statement iterates over any number of rounds: the next open —
   again under any tail t2 — recovers the old transactions followed by the new one *)
Definition C17_commit_after_tail_statement : Prop :=
  forall l rs t txs (newtx : tx) t2,
    valid_log l rs -> next_frame t = NStop -> replay rs None [] [] = Some txs ->
    forallb (fun r => negb (is_marker r)) (snd newtx) = true ->
    Forall rec_ok (commit_records newtx) ->
    next_frame t2 = NStop ->
    exists l1 l2,
      open_log (l ++ t) = inl (l1, txs) /\
      append_all l1 (commit_records newtx) = Some l2 /\
      valid_log l2 (rs ++ commit_records newtx) /\
      open_log (l2 ++ t2) = inl (l2, txs ++ [newtx]).
Theorem C17_commit_after_tail : C17_commit_after_tail_statement.
Proof. exact commit_after_tail. Qed.
Print Assumptions C17_commit_after_tail.

(* the same with the hypothesis on the appended records discharged by the record-level round
   trip (C25): they only have to be well-formed and within the size limit append enforces *)
Definition C17_commit_after_tail_wf_statement : Prop :=
  forall l rs t txs (newtx : tx) t2,
    valid_log l rs -> next_frame t = NStop -> replay rs None [] [] = Some txs ->
    forallb (fun r => negb (is_marker r)) (snd newtx) = true ->
    Forall (fun r => wf_rec r = true /\ len (encode_body r) <= wal_max_record_len) (commit_records newtx) ->
    next_frame t2 = NStop ->
    exists l1 l2,
      open_log (l ++ t) = inl (l1, txs) /\
      append_all l1 (commit_records newtx) = Some l2 /\
      valid_log l2 (rs ++ commit_records newtx) /\
      open_log (l2 ++ t2) = inl (l2, txs ++ [newtx]).
Theorem C17_commit_after_tail_wf : C17_commit_after_tail_wf_statement.
Proof. exact commit_after_tail_wf. Qed.
Print Assumptions C17_commit_after_tail_wf.

(* every log written record by record (well-formed records within the size limit) is a valid log *)
Definition C17_written_log_valid_statement : Prop :=
  forall rs, Forall (fun r => wf_rec r = true /\ len (encode_body r) <= wal_max_record_len) rs ->
    valid_log (log_of (map encode_body rs)) rs.
Theorem C17_written_log_valid : C17_written_log_valid_statement.
Proof. exact written_log_valid. Qed.
Print Assumptions C17_written_log_valid.

(* any number of rounds of (arbitrary tail, open, commit): every open succeeds, the log is a
   valid log after every round and the open after the last round — again under any tail —
   recovers exactly the transactions of the original log followed by all transactions committed
   in the rounds, in order.  (Every prefix of the rounds is itself a list of rounds, so the
   statement holds after every round.) *)
Definition C17_rounds_statement : Prop :=
  forall (rounds : list (bytes * tx)) l recs txs,
    valid_log l recs -> replay recs None [] [] = Some txs -> Forall round_ok rounds ->
    exists l' recs',
      run_rounds l rounds = Some l' /\
      valid_log l' recs' /\
      replay recs' None [] [] = Some (txs ++ map snd rounds) /\
      forall t, next_frame t = NStop -> open_log (l' ++ t) = inl (l', txs ++ map snd rounds).
Theorem C17_rounds : C17_rounds_statement.
Proof. exact rounds_tolerated. Qed.
Print Assumptions C17_rounds.

(* the hypotheses are met: a log of one committed transaction, a zero-filled tail, a new
   commit, a torn tail behind it *)
Definition ex_rs : list wrec := [WBegin 1; WCreateNode 10 0 0; WSetNodeProp 0 [112] (PList [PInt (-1); PFloat 9221120237041090561]); WCommit 1].
Definition ex_log : bytes := log_of (map encode_body ex_rs).
Definition ex_new : tx := (2, [WCreateEdge 0 1 0; WRemoveNodeProp 0 [112]]).
Example C17_example :
  open_log (ex_log ++ repeat 0 64) = inl (ex_log, [(1, [WCreateNode 10 0 0; WSetNodeProp 0 [112] (PList [PInt (-1); PFloat 9221120237041090561])])]) /\
  forallb (fun r => match decode_body (encode_body r) with WOk r' => wrec_eqb r r' | _ => false end) (ex_rs ++ commit_records ex_new) = true /\
  match append_all ex_log (commit_records ex_new) with
  | Some l2 => match open_log (l2 ++ [9; 0; 0]) with inl (l3, txs) => bytes_eqb l2 l3 && (len txs =? 2) | inr _ => false end
  | None => false
  end = true.
Proof. vm_compute. repeat split. Qed.
