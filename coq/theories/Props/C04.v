(* Props/C04.v — Reopen preserves logical content.
   Only statements, `exact`, and Print Assumptions. *)
From NDB Require Import Engine.Graph Engine.Model Engine.Known Engine.Witness.

Definition C04_full_statement : Prop :=
  forall h, wf_hist h = true ->
    m_dump (open (close (run h))) = m_dump (run h) /\ m_dump (open (run h)) = m_dump (run h).

(* refuted on the pinned code: K-C04-labels *)
Definition C04_refuted_statement : Prop :=
  exists h, wf_hist h = true /\ (classes (h ++ [HCloseReopen])).(k_labels) = true /\
    m_dump (open (close (run h))) <> m_dump (run h).
Theorem C04_refuted : C04_refuted_statement.
Proof. exists h_lab. destruct w_labels as (A & _ & _ & D & E). repeat split; assumption. Qed.
Print Assumptions C04_refuted.

(* repaired (060a936, WAL record order): delete-then-recreate of a relationship in one transaction
   survives drop + reopen in the model of the repaired code *)
Definition C04_order_fixed_statement : Prop := m_dump (open (run h_rec)) = m_dump (run h_rec).
Theorem C04_order_fixed : C04_order_fixed_statement.
Proof. exact w_order_fixed. Qed.
Print Assumptions C04_order_fixed.
