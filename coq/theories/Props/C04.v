(* Props/C04.v — Reopen preserves logical content.
   Only statements, `exact`, and Print Assumptions. *)
From NDB Require Import Engine.Graph Engine.Model Engine.Known Engine.Witness Engine.Refine_proofs Engine.Reopen_proofs.

Definition C04_full_statement : Prop :=
  forall h, wf_hist h = true ->
    m_dump (open (close (run h))) = m_dump (run h) /\ m_dump (open (run h)) = m_dump (run h).

(* refuted on the pinned code: K-C04-labels *)
Definition C04_refuted_statement : Prop :=
  exists h, wf_hist h = true /\ (classes (h ++ [HCloseReopen])).(k_labels) = true /\
    m_dump (open (close (run h))) <> m_dump (run h).
Theorem C04_refuted : C04_refuted_statement.
Proof. exists h_lab. destruct w_labels as (A & _ & _ & D & E). repeat split; assumption. Qed.
Print Assumptions C04_refuted.

(* repaired (060a936, WAL record order): delete-then-recreate of a relationship in one transaction
   survives drop + reopen in the model of the repaired code *)
Definition C04_order_fixed_statement : Prop := m_dump (open (run h_rec)) = m_dump (run h_rec).
Theorem C04_order_fixed : C04_order_fixed_statement.
Proof. exact w_order_fixed. Qed.
Print Assumptions C04_order_fixed.

(* conditional theorem over ALL histories of the fragment `grow_hist` (see Props/C06.v): close + reopen
   and drop + reopen leave the canonical dump unchanged (no compaction in the fragment; the fragment
   contains no label change, hence not K-C04-labels) *)
Definition C04_reopen_partial_statement : Prop :=
  forall h, grow_hist h = true -> wf_hist h = true ->
    m_dump (open (close (run h))) = m_dump (run h) /\ m_dump (open (run h)) = m_dump (run h).
Theorem C04_reopen_partial : C04_reopen_partial_statement.
Proof. exact reopen_grow. Qed.
Print Assumptions C04_reopen_partial.

(* the core of it, for any transaction: replaying the records of a commit rebuilds its memtable *)
Definition C04_replay_commit_statement : Prop :=
  forall t l, nolab t -> notomb (tx_mem t) -> mem_wf (tx_mem t) ->
    fold_left replay_rec (commit_records t) (l, mem0) = (l, tx_mem t).
Theorem C04_replay_commit : C04_replay_commit_statement.
Proof. exact replay_commit. Qed.
Print Assumptions C04_replay_commit.
