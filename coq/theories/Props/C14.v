(* Props/C14.v — No dangling relationships (storage half; the query half — DELETE without DETACH —
   is observed on the implementation only, see checks/C14.py).
   Only statements, `exact`, and Print Assumptions. *)
From NDB Require Import Engine.Graph Engine.Model Engine.Known Engine.Witness Engine.Dangling_proofs.

Definition no_dangling_in (s : state) : Prop :=
  forall n e, In e (m_out s n) \/ In e (m_in s n) ->
    In (e_src e) (m_nodes s) /\ In (e_dst e) (m_nodes s).

Definition C14_full_statement : Prop := forall h, wf_hist h = true -> no_dangling_in (run h).

(* refuted on the pinned code: K-C14-samerun (a relationship and the deletion of one endpoint in
   one transaction: visible from the live end, the two views disagree) *)
Definition C14_refuted_statement : Prop :=
  exists h, commits_only h = true /\ wf_hist h = true /\
    In (2, 1, 1) (m_in (run h) 1) /\ ~ In 2 (m_nodes (run h)) /\ m_out (run h) 2 = [].
Theorem C14_refuted : C14_refuted_statement.
Proof.
  exists h_samerun. destruct w_samerun as (A & B & C & D & E & _). repeat split; assumption.
Qed.
Print Assumptions C14_refuted.

(* conditional theorem: all histories of transactions (committed or abandoned), compactions and
   checkpoints whose committing transactions pass the guard `txn_clean` (no relationship shares
   a run with the tombstone of one of its endpoints; endpoints exist and are not tombstoned) *)
Definition C14_no_dangling_partial_statement : Prop :=
  forall h, clean_hist s0 h = true -> no_dangling_in (run h).
Theorem C14_no_dangling_partial : C14_no_dangling_partial_statement.
Proof. exact no_dangling. Qed.
Print Assumptions C14_no_dangling_partial.

(* the state invariant behind it, usable for any state *)
Definition C14_invariant_statement : Prop :=
  forall s, wf_s s -> no_dangling_in s.
Theorem C14_invariant : C14_invariant_statement.
Proof.
  intros s Hw n e [H | H]; [exact (out_endpoints s n e Hw H) | exact (in_endpoints s n e Hw H)].
Qed.
Print Assumptions C14_invariant.
