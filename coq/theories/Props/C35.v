(* Props/C35.v — Concurrent use never deadlocks (PARTIAL: see C35_full_statement).
   Only statements, `exact`, and Print Assumptions.  Model: Conc/LockOrder.v. *)
From Coq Require Import List Arith.
From NDB Require Import Conc.LockOrder Conc.LockOrder_proofs.
Import ListNotations.

(* The property as stated: no reachable state of the engine's threads is deadlocked.  "Reachable" needs
   a model of every public operation's lock usage; it is NOT proved.  What is proved is the reduction
   below: no state whose blocked threads all wait in one of the acquisition patterns OBSERVED on the
   real code can be deadlocked, given the certificate check that Coq evaluates on the observed set. *)
Definition C35_full_statement : Prop :=
  forall (reachable : lstate -> Prop) (st : lstate), reachable st -> ~ deadlocked st.

(* general lock-order theorem: any number of threads and locks, shared / exclusive / try modes, queued
   writers blocking new readers *)
Definition C35_ranked_no_deadlock_statement : Prop :=
  forall (rank : lock -> nat) (st : lstate), rank_increasing rank st -> ~ deadlocked st.
Theorem C35_ranked_no_deadlock : C35_ranked_no_deadlock_statement.
Proof. exact ranked_no_deadlock. Qed.
Print Assumptions C35_ranked_no_deadlock.

(* certificate theorem used on the observed patterns: rank-increasing, or taken under the (exclusive)
   gate lock for a lock that is only ever held under the gate (and, for a read request, whose write requests are
   all made under the gate); never re-entrant; try-acquisitions never wait *)
Definition C35_observed_patterns_partial_statement : Prop :=
  forall (pats : list pattern) (rank : lock -> nat) (g : lock) (st : lstate),
    check pats rank g = true -> conforms pats st -> gate_exclusive g st ->
    (forall t l, want (st t) <> Some (l, MTry)) ->
    ~ deadlocked st.
Theorem C35_observed_patterns_partial : C35_observed_patterns_partial_statement.
Proof. exact checked_no_deadlock. Qed.
Print Assumptions C35_observed_patterns_partial.

(* the semantics is not vacuous: a lock-order inversion is a deadlock and is rejected by the check *)
Definition C35_inversion_detected_statement : Prop :=
  deadlocked abba_state /\ forall rank, check [([(1, MW)], (2, MW)); ([(2, MW)], (1, MW))] rank 0 = false.
Theorem C35_inversion_detected : C35_inversion_detected_statement.
Proof. exact (conj abba_deadlocked abba_rejected). Qed.
Print Assumptions C35_inversion_detected.

(* read/write modes: a second read guard requested by a thread that already holds one deadlocks as soon as
   a writer waits (std's writer-preferring RwLock), and every pattern of this shape is rejected by the check;
   two different threads reading do not block each other *)
Definition C35_reentrant_read_detected_statement : Prop :=
  deadlocked reentrant_read_state /\ forall rank g, check [([(1, MR)], (1, MR))] rank g = false.
Theorem C35_reentrant_read_detected : C35_reentrant_read_detected_statement.
Proof. exact (conj reentrant_read_deadlocked reentrant_read_rejected). Qed.
Print Assumptions C35_reentrant_read_detected.
