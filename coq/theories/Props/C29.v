(* Props/C29.v — Backups restore a consistent committed state.  Statements, `exact`, Print Assumptions. *)
From NDB Require Import Store.Backup Store.Backup_proofs.
Open Scope N_scope.

(* quiescent case (no writer step between the two copies), for every history before and after: the restored
   database opens, equals the source at that moment, and shows every transaction committed before the backup *)
Definition C29_quiescent_statement : Prop :=
  forall before after steps1 s1 steps2 s2,
    plan wstate_new before = (steps1, s1) -> plan s1 after = (steps2, s2) ->
    let steps := steps1 ++ steps2 in let i := length steps1 in
    content (restore (backup steps i i)) = Some (committed s1) /\
    content (restore (backup steps i i)) = content (apply_steps disk_empty (firstn i steps)).
Theorem C29_quiescent : C29_quiescent_statement.
Proof. exact backup_quiescent. Qed.
Print Assumptions C29_quiescent.

(* at any step index (also in the middle of a compaction) a copy of both files at the same moment is the source *)
Definition C29_quiescent_files_statement : Prop :=
  forall steps i, restore (backup steps i i) = apply_steps disk_empty (firstn i steps).
Theorem C29_quiescent_files : C29_quiescent_files_statement.
Proof. exact backup_quiescent_files. Qed.
Print Assumptions C29_quiescent_files.

(* full statement: for every history and every i <= j the restored database equals the source at some moment in [i, j] *)
Definition C29_full_statement : Prop :=
  forall ops i j, (i <= j)%nat -> (j <= length (fst (plan wstate_new ops)))%nat ->
    consistent_at_some_moment (fst (plan wstate_new ops)) i j = true.

(* refuted (K-C29-concurrent): a compaction between the two copies: the copied log's manifest names segment pages
   the copied page file does not have; the restored database does not even open *)
Definition C29_concurrent_refuted_statement : Prop :=
  exists ops i j, (i <= j)%nat /\ (j <= length (fst (plan wstate_new ops)))%nat /\
    consistent_at_some_moment (fst (plan wstate_new ops)) i j = false /\
    content (restore (backup (fst (plan wstate_new ops)) i j)) = None.
Theorem C29_concurrent_refuted : C29_concurrent_refuted_statement.
Proof.
  exists [WCommit; WCompact 0; WCommit; WCompact 0], 4%nat, 8%nat.
  split; [repeat constructor|]. split; [vm_compute; repeat constructor|].
  split; [exact (proj1 (proj2 backup_concurrent_refuted))|exact (proj1 backup_concurrent_refuted)].
Qed.
Print Assumptions C29_concurrent_refuted.

(* conditional: outside the class (commits, label creations and close-time log rewrites, but no compaction, run
   between the copies) the backup restores the source as of the moment the log was copied, including every
   transaction committed and every label created until then (hence all of them from before the start) *)
Definition C29_concurrent_nocompact_statement : Prop :=
  forall before between steps1 s1 steps2 s2,
    plan wstate_new before = (steps1, s1) -> plan s1 between = (steps2, s2) -> no_compaction between = true ->
    let steps := steps1 ++ steps2 in
    content (restore (backup steps (length steps1) (length steps))) = Some (committed s2) /\
    content (restore (backup steps (length steps1) (length steps))) = content (apply_steps disk_empty steps).
Theorem C29_concurrent_nocompact : C29_concurrent_nocompact_statement.
Proof. exact backup_concurrent_nocompact. Qed.
Print Assumptions C29_concurrent_nocompact.

(* the in-place rewrite of the property-tree root during a compaction, seen by a backup whose two copies fall
   inside that compaction (after the in-place write, before the manifest): still the source at that moment;
   with the page copy before it and the log copy after the manifest: the known class *)
Definition C29_inplace_statement : Prop :=
  consistent_at_some_moment concurrent_witness 7 7 = true /\
  content (restore (backup concurrent_witness 7 7)) = Some ([1; 2], [], 2)%N /\
  content (restore (backup concurrent_witness 5 8)) = None.
Theorem C29_inplace : C29_inplace_statement.
Proof. exact backup_mid_compaction_inplace. Qed.
Print Assumptions C29_inplace.
