(* Props/C34.v — C API results match the Rust API: the parts a model can carry (statement
   classification of the read/write entry points; value -> JSON conversion).  Row/value/error
   parity itself is the correspondence run (harness c34).  Statements, `exact`, Print Assumptions. *)
From Coq Require Import List NArith ZArith Bool.
From NDB Require Import CApi.Classifier CApi.Classifier_proofs CApi.Json CApi.Json_proofs.
Import ListNotations.

(* the statement DESIGN asks for: classifier = "some clause, at any nesting, is an update" *)
Definition C34_classifier_full_statement : Prop :=
  forall q, parser_ok_q q = true -> cls_q q = upd_q q.

(* refuted: an update below EXISTS { } (accepted by the parser) is not seen — K-C34-exists-nested *)
Definition C34_classifier_refuted_statement : Prop :=
  exists q, parser_ok_q q = true /\ cls_q q = false /\ upd_q q = true.
Theorem C34_classifier_refuted : C34_classifier_refuted_statement.
Proof. exists w_exists. exact w_exists_facts. Qed.
Print Assumptions C34_classifier_refuted.

(* never refuses a statement without updating clauses through ndb_query / never accepts one through ndb_execute_write *)
Definition C34_classifier_sound_statement : Prop := forall q, cls_q q = true -> upd_q q = true.
Theorem C34_classifier_sound : C34_classifier_sound_statement.
Proof. exact cls_sound. Qed.
Print Assumptions C34_classifier_sound.

(* for every AST without an updating clause below an expression, at any nesting of CALL { },
   UNION and FOREACH, the classifier is exactly "contains an updating clause" *)
Definition C34_classifier_correct_statement : Prop :=
  forall q, expr_free_q q = true -> cls_q q = upd_q q.
Theorem C34_classifier_correct : C34_classifier_correct_statement.
Proof. exact cls_correct_expr_free. Qed.
Print Assumptions C34_classifier_correct.

Example C34_classifier_correct_not_vacuous : expr_free_q q_nested = true /\ cls_q q_nested = true.
Proof. exact q_nested_facts. Qed.

(* value -> JSON: the statement DESIGN asks for *)
Definition C34_json_full_statement : Prop := forall v1 v2, to_json v1 = to_json v2 -> v1 = v2.

Definition C34_json_refuted_statement : Prop :=
  (exists v1 v2, to_json v1 = to_json v2 /\ v1 <> v2 /\ plain v2 = true) /\   (* non-finite double vs null: K-C34-nonfinite *)
  (exists v1 v2, to_json v1 = to_json v2 /\ v1 <> v2 /\ plain v1 = false /\ plain v2 = true).  (* tagged object vs map: K-C34-tagged-map *)
Theorem C34_json_refuted : C34_json_refuted_statement.
Proof.
  split.
  - exists (VFloat nan_bits), VNull. destruct nonfinite_collide as (A & _ & C). repeat split; auto.
  - exists (VDateTime 5), (VMap [(s_type, VStr s_datetime); (s_value, VInt 5)]).
    destruct datetime_collides_with_map as (A & B). repeat split; auto.
Qed.
Print Assumptions C34_json_refuted.

(* injective on plain values: null, booleans, integers, finite doubles, strings, lists, maps *)
Definition C34_json_injective_plain_statement : Prop :=
  forall v1, plain v1 = true -> forall v2, plain v2 = true -> to_json v1 = to_json v2 -> v1 = v2.
Theorem C34_json_injective_plain : C34_json_injective_plain_statement.
Proof. exact to_json_inj_plain. Qed.
Print Assumptions C34_json_injective_plain.
