(* Props/C05.v — Compaction and checkpoint are invisible.
   Only statements, `exact`, and Print Assumptions. *)
From Coq Require Import Permutation.
From NDB Require Import Engine.Graph Engine.Model Engine.Known Engine.Witness Engine.Compact_proofs Engine.Compact_reads_proofs.

(* compaction / checkpoint changes no read now ... *)
Definition C05_now_statement : Prop :=
  forall h, wf_hist h = true -> m_dump (compact (run h)) = m_dump (run h).
(* ... and no later read *)
Definition C05_later_statement : Prop :=
  forall h1 h2, wf_hist (h1 ++ HCompact :: h2) = true ->
    m_dump (run (h1 ++ HCompact :: h2)) = m_dump (run (h1 ++ h2)).
Definition C05_full_statement : Prop := C05_now_statement /\ C05_later_statement.

(* refuted on the pinned code, four ways *)
Definition C05_refuted_statement : Prop :=
  (exists h, wf_hist h = true /\ (classes (h ++ [HCompact])).(k_tomb) = true /\ m_dump (compact (run h)) <> m_dump (run h)) /\
  (exists h, wf_hist h = true /\ (classes (h ++ [HCompact])).(k_dups) = true /\ m_dump (compact (run h)) <> m_dump (run h)) /\
  (exists h, wf_hist h = true /\ (classes (h ++ [HCompact])).(k_recreate) = true /\ m_dump (compact (run h)) <> m_dump (run h)) /\
  (exists h1 h2, wf_hist (h1 ++ HCompact :: h2) = true /\ (classes (h1 ++ HCompact :: h2)).(k_remove) = true /\
                 m_dump (run (h1 ++ HCompact :: h2)) <> m_dump (run (h1 ++ h2))).
Theorem C05_refuted : C05_refuted_statement.
Proof.
  repeat split.
  - exists h_tomb. destruct w_tomb as (A & _ & _ & D & E). repeat split; assumption.
  - exists h_dups. destruct w_dups as (A & _ & _ & _ & D & E). repeat split; assumption.
  - exists h_rec. destruct w_recreate as (A & _ & _ & D & E). repeat split; assumption.
  - exists h_rem, [t_rem]. destruct w_remove as (A & _ & _ & D & E). repeat split; assumption.
Qed.
Print Assumptions C05_refuted.

(* proved part (small): node enumeration is unchanged by a compaction when no published run holds a
   node tombstone; labels, external ids and external-id lookup are never changed by compaction *)
Definition C05_nodes_partial_statement : Prop :=
  forall s, (forall m, In m s.(runs) -> m.(me_tn) = []) ->
    m_nodes (compact s) = m_nodes s /\
    forall n ext, m_labels (compact s) n = m_labels s n /\ m_ext (compact s) n = m_ext s n /\ m_lookup (compact s) ext = m_lookup s ext.
Theorem C05_nodes_partial : C05_nodes_partial_statement.
Proof. intros s H; split; [exact (compact_nodes s H) | intros n ext; exact (compact_labels_ids s n ext)]. Qed.
Print Assumptions C05_nodes_partial.

(* conditional theorem over ALL engine states (reachable or not) whose published runs hold no node /
   relationship tombstone and no property-removal marker — the executable `compactable_b`, i.e. no
   committed delete / removal since the last compaction: compaction (= checkpoint) changes no read
   except possibly the two whole-map reads *)
Definition C05_compact_partial_statement : Prop :=
  forall s, compactable_b s = true ->
    m_nodes (compact s) = m_nodes s /\
    (forall n, Permutation (m_out (compact s) n) (m_out s n)) /\
    (forall n, Permutation (m_in (compact s) n) (m_in s n)) /\
    (forall n k, m_nprop (compact s) n k = m_nprop s n k) /\
    (forall e k, m_eprop (compact s) e k = m_eprop s e k) /\
    (forall n, m_labels (compact s) n = m_labels s n) /\ (forall n, m_ext (compact s) n = m_ext s n) /\
    (forall ext, m_lookup (compact s) ext = m_lookup s ext).
Theorem C05_compact_partial : C05_compact_partial_statement.
Proof. intros s H. exact (compact_same_reads s (compactable_b_ok s H)). Qed.
Print Assumptions C05_compact_partial.
