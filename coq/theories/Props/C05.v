(* Props/C05.v — Compaction and checkpoint are invisible.
   Only statements, `exact`, and Print Assumptions. *)
From NDB Require Import Engine.Graph Engine.Model Engine.Known Engine.Witness.

(* compaction / checkpoint changes no read now ... *)
Definition C05_now_statement : Prop :=
  forall h, wf_hist h = true -> m_dump (compact (run h)) = m_dump (run h).
(* ... and no later read *)
Definition C05_later_statement : Prop :=
  forall h1 h2, wf_hist (h1 ++ HCompact :: h2) = true ->
    m_dump (run (h1 ++ HCompact :: h2)) = m_dump (run (h1 ++ h2)).
Definition C05_full_statement : Prop := C05_now_statement /\ C05_later_statement.

(* refuted on the pinned code, four ways *)
Definition C05_refuted_statement : Prop :=
  (exists h, wf_hist h = true /\ (classes (h ++ [HCompact])).(k_tomb) = true /\ m_dump (compact (run h)) <> m_dump (run h)) /\
  (exists h, wf_hist h = true /\ (classes (h ++ [HCompact])).(k_dups) = true /\ m_dump (compact (run h)) <> m_dump (run h)) /\
  (exists h, wf_hist h = true /\ (classes (h ++ [HCompact])).(k_recreate) = true /\ m_dump (compact (run h)) <> m_dump (run h)) /\
  (exists h1 h2, wf_hist (h1 ++ HCompact :: h2) = true /\ (classes (h1 ++ HCompact :: h2)).(k_remove) = true /\
                 m_dump (run (h1 ++ HCompact :: h2)) <> m_dump (run (h1 ++ h2))).
Theorem C05_refuted : C05_refuted_statement.
Proof.
  repeat split.
  - exists h_tomb. destruct w_tomb as (A & _ & _ & D & E). repeat split; assumption.
  - exists h_dups. destruct w_dups as (A & _ & _ & _ & D & E). repeat split; assumption.
  - exists h_rec. destruct w_recreate as (A & _ & _ & D & E). repeat split; assumption.
  - exists h_rem, [t_rem]. destruct w_remove as (A & _ & _ & D & E). repeat split; assumption.
Qed.
Print Assumptions C05_refuted.
