(* Props/C01.v — Acknowledged commits survive crashes (durability-protocol level).
   Only statements, `exact`, Print Assumptions. *)
From NDB Require Import Crash.Protocol Crash.Protocol_proofs.

(* For every I/O trace that respects the protocol (checked by the monitor on the traces of the
   real engine), after ANY number of steps, for process death and for power loss: every
   transaction whose commit was acknowledged is recoverable from the crash image — replayed from
   the surviving log, or skipped under a checkpoint whose page-file writes are on disk. *)
Definition C01_acked_survive_statement : Prop :=
  forall tr k m a, protocol_ok tr = true ->
    In a (acked (run (firstn k tr))) ->
    present (image m (run (firstn k tr))) a = true.
Theorem C01_acked_survive : C01_acked_survive_statement.
Proof. exact acked_survive. Qed.
Print Assumptions C01_acked_survive.

(* the checkpoint recovery trusts never points beyond the page file that is on disk *)
Definition C01_ckpt_backed_statement : Prop :=
  forall tr k m, protocol_ok tr = true -> ckpt_backed (image m (run (firstn k tr))) = true.
Theorem C01_ckpt_backed : C01_ckpt_backed_statement.
Proof. exact ckpt_always_backed. Qed.
Print Assumptions C01_ckpt_backed.

(* every transaction that survives in the log of a crash image lies above the checkpoint logged
   before it, so recovery replays it instead of skipping it (a checkpoint never covers its own or
   a later transaction) *)
Definition C01_logged_replayed_statement : Prop :=
  forall tr k m, protocol_ok tr = true -> replayable (image m (run (firstn k tr))) = true.
Theorem C01_logged_replayed : C01_logged_replayed_statement.
Proof. exact logged_are_replayed. Qed.
Print Assumptions C01_logged_replayed.
