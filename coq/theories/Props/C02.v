(* Props/C02.v — Crash recovery yields a committed prefix (log level). *)
From NDB Require Import Crash.Protocol Crash.Protocol_proofs Crash.NodeTable Crash.NodeTable_proofs.

(* the transactions recovered from the crash image at any step, in either mode, are a prefix, in
   commit order, of the transactions whose commit record had been written; a transaction is one
   log item, so none is recovered in part *)
Definition C02_recovered_prefix_statement : Prop :=
  forall tr k m,
    prefixN (recovered_ids m (firstn k tr)) (ids (scan (wv (run (firstn k tr))))) = true.
Theorem C02_recovered_prefix : C02_recovered_prefix_statement.
Proof. exact recovered_prefix. Qed.
Print Assumptions C02_recovered_prefix.

(* what the recovered state depends on beyond the log — the pages a checkpoint relies on — is on
   disk at every crash point of every protocol-respecting trace *)
Definition C02_ckpt_backed_statement : Prop :=
  forall tr k m, protocol_ok tr = true -> ckpt_backed (image m (run (firstn k tr))) = true.
Theorem C02_ckpt_backed : C02_ckpt_backed_statement.
Proof. exact ckpt_always_backed. Qed.
Print Assumptions C02_ckpt_backed.

(* the persistent node table: at every step of every write sequence accepted by the node-table
   monitor, after process death and after power loss, the header length never exceeds the
   records present, so `IdMap::load` never reads a record that was not written *)
Definition C02_node_table_statement : Prop :=
  forall tr k, ntab_ok tr = true ->
    load_safe_pd (nrun (firstn k tr)) = true /\ load_safe_pl (nrun (firstn k tr)) = true.
Theorem C02_node_table : C02_node_table_statement.
Proof. exact node_table_load_safe. Qed.
Print Assumptions C02_node_table.
