(* Props/C28.v — Vacuum preserves the database.  Only statements, `exact`, Print Assumptions. *)
From NDB Require Import Store.Pager Store.Vacuum Store.Vacuum_proofs Store.Vacuum_complete Store.Readers Store.Readers_proofs.

(* vacuum.rs and csr.rs agree on the segment meta page (magic, counts, header, number of page lists incl. the
   reverse arrays) and on the node-table page range; the constants are regenerated from both source files *)
Definition C28_layout_statement : Prop :=
  csr_pages_vacuum = csr_pages_load /\ (forall r, idmap_pages_vacuum r = idmap_pages_load r).
Theorem C28_layout : C28_layout_statement.
Proof. exact (conj csr_layout_agrees idmap_pages_agree). Qed.
Print Assumptions C28_layout.

(* any program reading pages that (on the original file) only touches kept pages computes the same
   result, reading the same pages, on the vacuumed file *)
Definition C28_frame_statement : Prop :=
  forall A (rd : reader A) h r vis h',
    vacuum h r = Ok (vis, h') ->
    (forall id, In id (touched h rd) -> In id vis) ->
    run_reader h' rd = run_reader h rd /\ touched h' rd = touched h rd.
Theorem C28_frame : C28_frame_statement.
Proof. exact vacuum_frame. Qed.
Print Assumptions C28_frame.

(* the executable certificate evaluated on every observed run is sound: the kept set covers everything
   reachable from the roots by following tree, blob-chain and segment pointers *)
Definition C28_cert_sound_statement : Prop :=
  forall h r vis, cert h r vis = true -> forall k id, reach h r k id -> In id vis.
Theorem C28_cert_sound : C28_cert_sound_statement.
Proof. exact cert_sound. Qed.
Print Assumptions C28_cert_sound.

(* dump (open (vacuum d)) = dump (open d) for every reader that navigates from the roots *)
Definition C28_preserves_statement : Prop :=
  forall A (rd : reader A) h r vis h',
    vacuum h r = Ok (vis, h') ->
    (forall k id, reach h r k id -> In id vis) ->
    rooted h r rd ->
    run_reader h' rd = run_reader h rd.
Theorem C28_preserves : C28_preserves_statement.
Proof. exact vacuum_preserves_rooted. Qed.
Print Assumptions C28_preserves.

(* read_set ⊆ reachable for the model of the marking, for every heap on which no page is used by two
   structures (a typing of the pages consistent with the roots and with every pointer) *)
Definition C28_mark_complete_statement : Prop :=
  forall ty h r vis, well_typed ty h r -> mark h r = Ok vis -> forall k id, reach h r k id -> In id vis.
Theorem C28_mark_complete : C28_mark_complete_statement.
Proof. exact mark_complete. Qed.
Print Assumptions C28_mark_complete.

(* hence: on a well-typed heap a successful vacuum preserves what every rooted reader computes *)
Definition C28_preserves_typed_statement : Prop :=
  forall ty A (rd : reader A) h r vis h',
    well_typed ty h r -> vacuum h r = Ok (vis, h') -> rooted h r rd -> run_reader h' rd = run_reader h rd.
Theorem C28_preserves_typed : C28_preserves_typed_statement.
Proof. exact vacuum_preserves_typed. Qed.
Print Assumptions C28_preserves_typed.

(* the engine's read paths, modelled as page-reading programs (Store/Readers.v: Pager::open, IdMap::load, catalog,
   CsrSegment::load, blob chain read, B-tree descent + sibling scan with arbitrary key comparisons, lookups in the
   property / index / HNSW trees followed by a blob read), are rooted, for every heap and every session *)
Definition C28_read_paths_rooted_statement : Prop :=
  forall h r fuel qs l, Forall (valid_query r) qs -> rooted h r (rd_session fuel r qs l).
Theorem C28_read_paths_rooted : C28_read_paths_rooted_statement.
Proof. exact session_rooted. Qed.
Print Assumptions C28_read_paths_rooted.

(* dump (open (vacuum d)) = dump (open d) for every such session on a well-typed heap *)
Definition C28_sessions_preserved_statement : Prop :=
  forall ty h r vis h' fuel qs l,
    well_typed ty h r -> vacuum h r = Ok (vis, h') -> Forall (valid_query r) qs ->
    run_reader h' (rd_session fuel r qs l) = run_reader h (rd_session fuel r qs l).
Theorem C28_sessions_preserved : C28_sessions_preserved_statement.
Proof. exact vacuum_preserves_sessions. Qed.
Print Assumptions C28_sessions_preserved.
