(* Props/C27.v — Index key encoding preserves order and equality.
   Only statements, `exact`, and Print Assumptions. *)
From NDB Require Import Base.Bytes Index.OrderedKey Index.OrderedKey_proofs.

(* for values of the same kind, a < b implies enc(a) < enc(b) (byte-wise) *)
Definition C27_order_statement : Prop :=
  forall a b, wf a = true -> wf b = true -> val_lt a b -> lex_lt (enc a) (enc b).
Theorem C27_order : C27_order_statement.
Proof. exact enc_lt. Qed.
Print Assumptions C27_order.

(* a = b holds exactly when enc(a) = enc(b) (numeric equality: 0.0 = -0.0) *)
Definition C27_equality_statement : Prop :=
  forall a b, wf a = true -> wf b = true -> (val_eq a b <-> enc a = enc b).
Theorem C27_equality : C27_equality_statement.
Proof. exact enc_eq_iff. Qed.
Print Assumptions C27_equality.

(* no value's encoding is a proper prefix of another value's encoding *)
Definition C27_prefix_free_statement : Prop :=
  forall a b, ~ proper_prefix (enc a) (enc b).
Theorem C27_prefix_free : C27_prefix_free_statement.
Proof. exact enc_prefix_free. Qed.
Print Assumptions C27_prefix_free.

(* the comparison of encodings is the comparison of values, whatever it is *)
Definition C27_cmp_statement : Prop :=
  forall a b c, wf a = true -> wf b = true -> val_cmp a b = Some c -> lex_cmp (enc a) (enc b) = c.
Theorem C27_cmp : C27_cmp_statement.
Proof. exact enc_cmp. Qed.
Print Assumptions C27_cmp.

(* composite B-tree keys order by value within one index *)
Definition C27_index_key_statement : Prop :=
  forall i a b n m, wf a = true -> wf b = true -> val_lt a b ->
    lex_lt (enc_index_key i a n) (enc_index_key i b m).
Theorem C27_index_key : C27_index_key_statement.
Proof. exact index_key_value_order. Qed.
Print Assumptions C27_index_key.

(* composite keys compare as (index id, value, node id) compare, for all
   index ids below 2^32 and node ids below 2^64 *)
From NDB Require Import Index.IndexKey_proofs.
Definition C27_index_key_cmp_statement : Prop :=
  forall i j a b n m c,
    (i < two32)%N -> (j < two32)%N -> (n < two64)%N -> (m < two64)%N ->
    wf a = true -> wf b = true -> val_cmp a b = Some c ->
    lex_cmp (enc_index_key i a n) (enc_index_key j b m) = key_cmp i c n j m.
Theorem C27_index_key_cmp : C27_index_key_cmp_statement.
Proof. exact index_key_cmp. Qed.
Print Assumptions C27_index_key_cmp.

(* a composite key determines index id, value (up to 0.0 = -0.0) and node id *)
Definition C27_index_key_inj_statement : Prop :=
  forall i j a b n m,
    (i < two32)%N -> (j < two32)%N -> (n < two64)%N -> (m < two64)%N ->
    wf a = true -> wf b = true ->
    enc_index_key i a n = enc_index_key j b m -> i = j /\ val_eq a b /\ n = m.
Theorem C27_index_key_inj : C27_index_key_inj_statement.
Proof. exact index_key_inj. Qed.
Print Assumptions C27_index_key_inj.

(* index trees sharing one B-tree never interleave *)
Definition C27_index_id_order_statement : Prop :=
  forall i j a b n m, (i < j)%N -> (j < two32)%N ->
    lex_lt (enc_index_key i a n) (enc_index_key j b m).
Theorem C27_index_id_order : C27_index_id_order_statement.
Proof. exact index_key_index_order. Qed.
Print Assumptions C27_index_id_order.
