(* Props/C08.v — Failed commits are all-or-nothing. *)
From NDB Require Import Crash.Protocol Crash.Protocol_proofs Crash.Fault Crash.Fault_proofs.

(* a failed operation is a trace cut short: accepted traces are prefix closed, so the crash-safety
   theorems of C01/C02 apply after any failure, and a transaction is a single log item: present
   entirely or not at all *)
Definition C08_prefix_closed_statement : Prop :=
  forall tr k, protocol_ok tr = true -> protocol_ok (firstn k tr) = true.
Theorem C08_prefix_closed : C08_prefix_closed_statement.
Proof. exact protocol_prefix_closed. Qed.
Print Assumptions C08_prefix_closed.

(* outside the known class (no commit that created nodes fails AFTER its commit record is in the
   log) the log stays replayable and agrees with the running process, whatever else fails *)
Definition C08_replayable_statement : Prop :=
  forall es, forallb (fun e => negb (logged_failure e)) es = true ->
    Fault.recover (Fault.run es) = Some (mem_next (Fault.run es)).
Theorem C08_replayable : C08_replayable_statement.
Proof. exact failed_commit_keeps_log_replayable. Qed.
Print Assumptions C08_replayable.

(* the known finding K-C08-logged: the full property is false of the faithful model *)
Definition C08_refuted_statement : Prop := exists es, Fault.recover (Fault.run es) = None.
Theorem C08_refuted : C08_refuted_statement.
Proof. exact logged_failure_breaks_reopen. Qed.
Print Assumptions C08_refuted.
