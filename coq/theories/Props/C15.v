(* Props/C15.v — Indexes never change query results.
   Only statements, `exact`, and Print Assumptions.
   Labels: 0 = indexed label; property names: 1 = indexed property.
   The witness histories w_backfill, w_label, w_numeric, w_good are defined in IndexSem/Proofs.v. *)
From NDB Require Import Base.Bytes Index.OrderedKey IndexSem.Model IndexSem.Proofs IndexSem.Twin_proofs IndexSem.CyEq.
From NDB Require Import Cypher.Value Cypher.Compare.
Open Scope N_scope.

(* the property on the model: for EVERY history of committed transactions, every label and
   every conjunction of equality predicates, the plan with the index returns the rows of the
   plan without it *)
Definition C15_full_statement : Prop :=
  forall il ik (h : list op) l preds,
    seek_eval il ik (run il ik h) l preds = scan_eval (run il ik h) l preds.

(* ... is still false on the code as it is: index maintenance follows only the label a node
   was created with (known finding K-C15-label) *)
Definition C15_refuted_label_statement : Prop :=
  seek_eval 0 1 (run 0 1 w_label) 0 [(1, OInt 1)] = [0] /\
  scan_eval (run 0 1 w_label) 0 [(1, OInt 1)] = [0; 1] /\
  k_label 0 1 (run 0 1 w_label) = true.
Theorem C15_refuted_label : C15_refuted_label_statement.
Proof. exact refuted_label. Qed.
Print Assumptions C15_refuted_label.

Definition C15_refuted_statement : Prop := ~ C15_full_statement.
Theorem C15_refuted : C15_refuted_statement.
Proof. exact full_refuted. Qed.
Print Assumptions C15_refuted.

(* repaired defects, kept as regressions of the model: an index created over existing data
   (create_index backfills) and a number stored in the other numeric type (the seek looks up
   both encodings) *)
Definition C15_fixed_backfill_statement : Prop :=
  good 0 1 w_backfill = true /\
  seek_eval 0 1 (run 0 1 w_backfill) 0 [(1, OInt 1)] = [0; 1; 2] /\
  scan_eval (run 0 1 w_backfill) 0 [(1, OInt 1)] = [0; 1; 2].
Theorem C15_fixed_backfill : C15_fixed_backfill_statement.
Proof. exact fixed_backfill. Qed.
Print Assumptions C15_fixed_backfill.

(* w_numeric stores the float 1.0 (bits 4607182418800017408) next to the integer 1 *)
Definition C15_fixed_numeric_statement : Prop :=
  good 0 1 w_numeric = true /\
  seek_eval 0 1 (run 0 1 w_numeric) 0 [(1, OInt 1)] = [0; 1] /\
  scan_eval (run 0 1 w_numeric) 0 [(1, OInt 1)] = [0; 1] /\
  seek_eval 0 1 (run 0 1 w_numeric) 0 [(1, OFloat 4607182418800017408)] = [0; 1] /\
  k_numeric 0 1 (run 0 1 w_numeric) (OInt 1) = false.
Theorem C15_fixed_numeric : C15_fixed_numeric_statement.
Proof. exact fixed_numeric. Qed.
Print Assumptions C15_fixed_numeric.

(* state level: the seek equals the scan whenever the lookup result is duplicate-free and
   contains every live node that satisfies the predicates (whatever else it contains:
   stale entries are removed by the residual filters) *)
Definition C15_seek_scan_state_statement : Prop :=
  forall il ik s l preds,
    (forall k0 v0 rest ids, preds = (k0, v0) :: rest -> lookup il ik s l k0 v0 = Some ids ->
       NoDup ids /\
       forall id n, get_node s id = Some n -> n_deleted n = false -> sat n l preds = true -> In id ids) ->
    seek_eval il ik s l preds = scan_eval s l preds.
Theorem C15_seek_scan_state : C15_seek_scan_state_statement.
Proof. exact seek_scan_state. Qed.
Print Assumptions C15_seek_scan_state.

(* history level, for every history, label and predicate list: if no step gives the indexed
   label to a node that was not created with it or resynchronises the store (`good`), the index
   is transparent.  No arithmetic side condition is left: the numeric twin lookup is proved exact
   and complete for every i64 and every double (C15_twin_complete below). *)
Definition C15_index_transparent_statement : Prop :=
  forall il ik (h : list op) l preds,
    good il ik h = true ->
    typed_props preds = true ->
    seek_eval il ik (run il ik h) l preds = scan_eval (run il ik h) l preds.
Theorem C15_index_transparent : C15_index_transparent_statement.
Proof. exact index_transparent_full. Qed.
Print Assumptions C15_index_transparent.

(* the numeric twin: float_bits_of_int names exactly the integer, answers whenever a double is that
   integer, and a stored number that `=` the sought value in the other numeric type sits under the
   encoding of the sought value's twin; so `k_numeric` never holds on a state of a good history *)
Definition C15_twin_complete_statement : Prop :=
  (forall x y', in_i64 x = true -> float_bits_of_int x = Some y' ->
     y' < two64 /\ f_exact y' = Some (i_exact x)) /\
  (forall x y, in_i64 x = true -> y < two64 -> f_exact y = Some (i_exact x) ->
     exists y', float_bits_of_int x = Some y') /\
  (forall w v, typed w = true -> typed v = true -> oeq_true w v = true -> kind w <> kind v ->
     twin_hit w v = true) /\
  (forall il ik h v, good il ik h = true -> typed v = true -> k_numeric il ik (run il ik h) v = false).
Theorem C15_twin_complete : C15_twin_complete_statement.
Proof.
  exact (conj (fun x y' H1 H2 => let '(conj A (conj _ C)) := fbi_exact x y' H1 H2 in conj A C)
        (conj fbi_complete (conj twin_complete
              (fun il ik h v G T => k_numeric_false il ik _ v (inv_run il ik h G) T)))).
Qed.
Print Assumptions C15_twin_complete.

(* the hypotheses are met by a history in which the seek is really taken and stale entries,
   a deleted node, a label removal, an update and a compaction occur *)
Definition C15_nonvacuous_statement : Prop :=
  good 0 1 w_good = true /\
  lookup 0 1 (run 0 1 w_good) 0 1 (OInt 1) = Some [0; 2; 1] /\
  seek_eval 0 1 (run 0 1 w_good) 0 [(1, OInt 1)] = [0] /\
  scan_eval (run 0 1 w_good) 0 [(1, OInt 1)] = [0].
Theorem C15_nonvacuous : C15_nonvacuous_statement.
Proof. exact nonvacuous. Qed.
Print Assumptions C15_nonvacuous.

(* the model's scalar equality is Cypher/Compare.v's cy_eq: proved for null / bool / int /
   string operands; for floats (bit patterns vs primitive floats) computed on the boundary
   samples here and on every compared pair of every correspondence case *)
Definition C15_oeq_is_cy_eq_statement : Prop :=
  (forall a b, no_float a = true -> no_float b = true -> oeq a b = cy_eq (to_value a) (to_value b)) /\
  forallb (fun a => forallb (fun b => agree a b) f_samples) f_samples = true.
Theorem C15_oeq_is_cy_eq : C15_oeq_is_cy_eq_statement.
Proof. exact (conj oeq_cy_eq_no_float agree_samples). Qed.
Print Assumptions C15_oeq_is_cy_eq.
