(* Props/C15.v — Indexes never change query results.
   Only statements, `exact`, and Print Assumptions.
   Labels: 0 = indexed label; property names: 1 = indexed property. *)
From NDB Require Import Base.Bytes Index.OrderedKey IndexSem.Model IndexSem.Proofs.
Open Scope N_scope.

(* the property on the model: for EVERY history of committed transactions, every label and
   every conjunction of equality predicates, the plan with the index returns the rows of the
   plan without it *)
Definition C15_full_statement : Prop :=
  forall il ik (h : list op) l preds,
    seek_eval il ik (run il ik h) l preds = scan_eval (run il ik h) l preds.

(* ... is false on the code as it is: three independent ways (known findings); the witness
   histories w_backfill, w_label, w_numeric, w_good are defined in IndexSem/Proofs.v *)
Definition C15_refuted_backfill_statement : Prop :=
  seek_eval 0 1 (run 0 1 w_backfill) 0 [(1, OInt 1)] = [2] /\
  scan_eval (run 0 1 w_backfill) 0 [(1, OInt 1)] = [0; 1; 2] /\
  k_backfill 0 1 (run 0 1 w_backfill) = true.
Theorem C15_refuted_backfill : C15_refuted_backfill_statement.
Proof. exact refuted_backfill. Qed.
Print Assumptions C15_refuted_backfill.

Definition C15_refuted_label_statement : Prop :=
  seek_eval 0 1 (run 0 1 w_label) 0 [(1, OInt 1)] = [0] /\
  scan_eval (run 0 1 w_label) 0 [(1, OInt 1)] = [0; 1] /\
  k_label 0 1 (run 0 1 w_label) = true.
Theorem C15_refuted_label : C15_refuted_label_statement.
Proof. exact refuted_label. Qed.
Print Assumptions C15_refuted_label.

(* w_numeric stores the float 1.0 (bits 4607182418800017408) next to the integer 1 *)
Definition C15_refuted_numeric_statement : Prop :=
  seek_eval 0 1 (run 0 1 w_numeric) 0 [(1, OInt 1)] = [0] /\
  scan_eval (run 0 1 w_numeric) 0 [(1, OInt 1)] = [0; 1] /\
  k_numeric 0 1 (run 0 1 w_numeric) (OInt 1) = true /\ good 0 1 w_numeric = true.
Theorem C15_refuted_numeric : C15_refuted_numeric_statement.
Proof. exact refuted_numeric. Qed.
Print Assumptions C15_refuted_numeric.

Definition C15_refuted_statement : Prop := ~ C15_full_statement.
Theorem C15_refuted : C15_refuted_statement.
Proof. exact full_refuted. Qed.
Print Assumptions C15_refuted.

(* state level: the seek equals the scan whenever the lookup result is duplicate-free and
   contains every live node that satisfies the predicates (whatever else it contains:
   stale entries are removed by the residual filters) *)
Definition C15_seek_scan_state_statement : Prop :=
  forall il ik s l preds,
    (forall k0 v0 rest ids, preds = (k0, v0) :: rest -> lookup il ik s l k0 v0 = Some ids ->
       NoDup ids /\
       forall id n, get_node s id = Some n -> n_deleted n = false -> sat n l preds = true -> In id ids) ->
    seek_eval il ik s l preds = scan_eval s l preds.
Theorem C15_seek_scan_state : C15_seek_scan_state_statement.
Proof. exact seek_scan_state. Qed.
Print Assumptions C15_seek_scan_state.

(* history level: outside the known classes — no step that creates the index over existing
   data, gives the indexed label to a node not created with it, or resynchronises the store
   (`good`), and no stored number equal to the sought value in the other numeric kind — the
   index is transparent, for every history, label and predicate list *)
Definition C15_index_transparent_statement : Prop :=
  forall il ik (h : list op) l preds,
    good il ik h = true ->
    typed_props preds = true ->
    (forall k0 v0 rest, preds = (k0, v0) :: rest -> k_numeric il ik (run il ik h) v0 = false) ->
    seek_eval il ik (run il ik h) l preds = scan_eval (run il ik h) l preds.
Theorem C15_index_transparent : C15_index_transparent_statement.
Proof. exact index_transparent. Qed.
Print Assumptions C15_index_transparent.

(* the hypotheses are met by a history in which the seek is really taken and stale entries,
   a deleted node, a label removal, an update and a compaction occur *)
Definition C15_nonvacuous_statement : Prop :=
  good 0 1 w_good = true /\
  lookup 0 1 (run 0 1 w_good) 0 1 (OInt 1) = Some [0; 2; 1] /\
  seek_eval 0 1 (run 0 1 w_good) 0 [(1, OInt 1)] = [0] /\
  scan_eval (run 0 1 w_good) 0 [(1, OInt 1)] = [0].
Theorem C15_nonvacuous : C15_nonvacuous_statement.
Proof. exact nonvacuous. Qed.
Print Assumptions C15_nonvacuous.
