(* Props/C20.v — ORDER BY sorts and SKIP/LIMIT slice it.
   Only statements, `exact`, and Print Assumptions. *)
From Coq Require Import Sorting.Permutation Sorting.Sorted.
From NDB Require Import Base.Bytes Cypher.Value Cypher.Compare Cypher.OrderBy Cypher.Compare_proofs Cypher.Order_proofs Cypher.OrderBy_proofs.

(* the result of ORDER BY is always a permutation of its input (any keys, any oracle) *)
Definition C20_permutation_statement : Prop :=
  forall tp rows, Permutation rows (order_by tp rows).
Theorem C20_permutation : C20_permutation_statement.
Proof. exact (fun tp rows => isort_perm (srow_cmp tp) rows). Qed.
Print Assumptions C20_permutation.

(* it is sorted whenever the comparator is total and transitive on the rows that occur; the
   decidable per-case check `preorder_on` establishes exactly that; and then it is the unique
   stable result (sorting an already sorted list returns it unchanged) *)
Definition C20_sorted_statement : Prop :=
  (forall tp (P : srow -> Prop) rows,
     total_on (srow_cmp tp) P -> trans_on (srow_cmp tp) P -> Forall P rows ->
     StronglySorted (fun a b => cle (srow_cmp tp) a b = true) (order_by tp rows)) /\
  (forall tp rows, preorder_on (srow_cmp tp) rows = true ->
     total_on (srow_cmp tp) (fun x => In x rows) /\ trans_on (srow_cmp tp) (fun x => In x rows)) /\
  (forall tp rows, StronglySorted (fun a b => cle (srow_cmp tp) a b = true) rows -> order_by tp rows = rows).
Theorem C20_sorted : C20_sorted_statement.
Proof.
  exact (conj (fun tp P rows => isort_sorted (srow_cmp tp) P rows)
        (conj (fun tp rows => preorder_on_sound (srow_cmp tp) rows)
              (fun tp rows => isort_sorted_id (srow_cmp tp) rows))).
Qed.
Print Assumptions C20_sorted.

(* the comparator IS a total preorder on flat keys: null, booleans, every i64, every double
   (NaN included, after all numbers), strings that are not temporal — for every oracle *)
Definition C20_cmp_total_preorder_statement : Prop :=
  forall tp,
  (forall a b, flat_ok tp a = true -> flat_ok tp b = true -> order_cmp tp b a = CompOpp (order_cmp tp a b)) /\
  (forall a, flat_ok tp a = true -> order_cmp tp a a = Eq) /\
  (forall a b, flat_ok tp a = true -> flat_ok tp b = true ->
     cle (order_cmp tp) a b = true \/ cle (order_cmp tp) b a = true) /\
  (forall a b d, flat_ok tp a = true -> flat_ok tp b = true -> flat_ok tp d = true ->
     cle (order_cmp tp) a b = true -> cle (order_cmp tp) b d = true -> cle (order_cmp tp) a d = true).
Theorem C20_cmp_total_preorder : C20_cmp_total_preorder_statement.
Proof. exact order_cmp_total_preorder_flat. Qed.
Print Assumptions C20_cmp_total_preorder.

(* hence: ORDER BY one flat key, ASC or DESC, returns a sorted permutation, unconditionally *)
Definition C20_order_by_one_key_statement : Prop :=
  forall tp asc rows, Forall (one_key tp asc) rows ->
    StronglySorted (fun a b => cle (srow_cmp tp) a b = true) (order_by tp rows) /\
    Permutation rows (order_by tp rows).
Theorem C20_order_by_one_key : C20_order_by_one_key_statement.
Proof. exact order_by_sorted_one_key. Qed.
Print Assumptions C20_order_by_one_key.

(* SKIP s LIMIT l = the rows at positions s .. s+l-1 of the sorted sequence *)
Definition C20_skip_limit_statement : Prop :=
  (forall (s l : nat) (rows : list (list value)) (i : nat) d,
     (i < l)%nat -> nth i (slice s l rows) d = nth (s + i) rows d) /\
  (forall (s l : nat) (rows : list (list value)), length (slice s l rows) = Nat.min l (length rows - s)) /\
  (forall tp s l rows, order_by_slice tp s l rows = map snd (firstn l (skipn s (order_by tp rows)))).
Theorem C20_skip_limit : C20_skip_limit_statement.
Proof.
  exact (conj (fun s l rows i d => slice_positions s l rows i d)
        (conj (fun s l rows => slice_length s l rows) (fun tp s l rows => eq_refl))).
Qed.
Print Assumptions C20_skip_limit.

(* known finding: the comparator is not transitive on temporal strings mixed with other
   strings (a 3-cycle) *)
Definition C20_temporal_refuted_statement : Prop :=
  exists tp a b d, order_cmp tp a b = Lt /\ order_cmp tp b d = Lt /\ order_cmp tp d a = Lt.
Theorem C20_temporal_refuted : C20_temporal_refuted_statement.
Proof. exact temporal_cycle. Qed.
Print Assumptions C20_temporal_refuted.

(* the comparator is a total preorder on ALL values that contain no temporal string at any depth:
   nested lists and maps, node/relationship ids, paths, every i64, every double incl. NaN, nulls *)
Definition C20_cmp_total_preorder_all_statement : Prop :=
  forall tp,
  (forall a b, og tp a -> og tp b -> order_cmp tp b a = CompOpp (order_cmp tp a b)) /\
  (forall a, og tp a -> order_cmp tp a a = Eq) /\
  (forall a b, og tp a -> og tp b -> cle' (order_cmp tp) a b = true \/ cle' (order_cmp tp) b a = true) /\
  (forall a b d, og tp a -> og tp b -> og tp d ->
     cle' (order_cmp tp) a b = true -> cle' (order_cmp tp) b d = true -> cle' (order_cmp tp) a d = true).
Theorem C20_cmp_total_preorder_all : C20_cmp_total_preorder_all_statement.
Proof. exact order_cmp_total_preorder_all. Qed.
Print Assumptions C20_cmp_total_preorder_all.

(* hence ORDER BY with any number of keys, each ASC or DESC, over such values returns a sorted
   permutation — unconditionally outside K-C20-temporal *)
Definition C20_order_by_sorted_statement : Prop :=
  forall tp dirs rows, Forall (row_ok tp dirs) rows ->
    StronglySorted (fun a b => cle (srow_cmp tp) a b = true) (order_by tp rows) /\
    Permutation rows (order_by tp rows).
Theorem C20_order_by_sorted : C20_order_by_sorted_statement.
Proof. exact order_by_sorted_all. Qed.
Print Assumptions C20_order_by_sorted.
