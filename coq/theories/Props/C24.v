(* Props/C24.v — Transactions see their own writes.  Statements, `exact`, Print Assumptions. *)
From Coq Require Import List ZArith NArith Bool.
From NDB Require Import Txn.Model Txn.Proofs Txn.Footprint.
Import ListNotations.

(* the property over the model of what the code does *)
Definition C24_full_statement : Prop :=
  forall db ss, dump_eqb (M_txn db ss) (S_txn db ss) = true.

(* the spec transaction (every statement evaluated on committed ⊕ buffer, installed on success)
   is the sequential composition of its statements: each observes all earlier effects *)
Definition C24_spec_is_sequential_statement : Prop :=
  forall db ss, S_txn db ss = fold_left M_autocommit ss db.
Theorem C24_spec_is_sequential : C24_spec_is_sequential_statement.
Proof. exact S_txn_autocommit_seq. Qed.
Print Assumptions C24_spec_is_sequential.

(* refuted for the code: CREATE then MATCH..SET in one transaction, both statements succeed,
   the SET is lost — K-C24-snapshot *)
Definition C24_refuted_statement : Prop :=
  exists db ss, statuses false false db [] ss = map (fun _ => true) ss /\
                dump_eqb (M_txn db ss) (S_txn db ss) = false.
Theorem C24_refuted : C24_refuted_statement.
Proof. exists db0, [w24a; w24b]. split; [exact w24_ok | exact w24_differs]. Qed.
Print Assumptions C24_refuted.

Definition C24_full_refuted_statement : Prop := ~ C24_full_statement.
Theorem C24_full_refuted : C24_full_refuted_statement.
Proof. intro H. specialize (H db0 [w24a; w24b]). rewrite w24_differs in H. discriminate. Qed.
Print Assumptions C24_full_refuted.

(* sub-domain that works: transactions of CREATE statements (which read nothing) *)
Definition C24_creates_only_statement : Prop :=
  forall atomic db ss, forallb is_create ss = true -> txn false atomic db ss = txn true atomic db ss.
Theorem C24_creates_only : C24_creates_only_statement.
Proof. exact txn_creates_ryw. Qed.
Print Assumptions C24_creates_only.

(* the conditional theorem outside K-C24-snapshot: if no statement's MATCH / MERGE / DELETE filter
   key was touched (created, updated, deleted, connected) by the buffer of the earlier statements of
   the same transaction, the code's transaction is the spec's — whatever happens to failing statements *)
Definition C24_disjoint_footprints_statement : Prop :=
  forall atomic db ss, footprints_disjoint atomic db [] ss = true -> txn false atomic db ss = txn true atomic db ss.
Theorem C24_disjoint_footprints : C24_disjoint_footprints_statement.
Proof. exact txn_footprint_ryw. Qed.
Print Assumptions C24_disjoint_footprints.

(* the hypothesis is met by a transaction that creates, updates committed nodes, is refused a DELETE,
   connects and merges; the refutation witness is outside it *)
Example C24_disjoint_footprints_not_vacuous :
  footprints_disjoint false db1 [] ss_fp = true /\
  statuses false false db1 [] ss_fp = [true; true; false; true; true; true] /\
  footprints_disjoint false db0 [] [w24a; w24b] = false.
Proof. split; [exact ss_fp_disjoint | split; [exact ss_fp_statuses | exact w24_not_disjoint]]. Qed.

(* the part of read-your-writes that holds today is inside the theorem: statements driven by the
   unlabelled scan MATCH (n) see the nodes (with or without labels) created earlier in the transaction,
   and may set properties, add / remove (fresh) labels and create relationships on them *)
Example C24_scan_sees_staged_nodes :
  footprints_disjoint false db2 [] ss_scan = true /\
  dump_nodes (M_txn db2 ss_scan) =
    [(1, [0%N; 2%N], [(0%N, 5); (1%N, 7)]); (2, [2%N], [(0%N, 0); (1%N, 7)]); (3, [0%N; 2%N], [(0%N, 1); (1%N, 7)])].
Proof. split; [exact ss_scan_disjoint | exact ss_scan_dump]. Qed.
(* ... while a labelled scan on a label set earlier in the transaction is still K-C24-snapshot *)
Example C24_labelled_scan_refuted :
  dump_eqb (M_txn db2 [SScanLabel true 1%N; SLabelSet 1%N 1%N 9]) (S_txn db2 [SScanLabel true 1%N; SLabelSet 1%N 1%N 9]) = false.
Proof. exact labelled_scan_differs. Qed.

(* the same for the code's transaction including its commit: label removals are applied after all other
   buffered writes (K-C24-label-order); without label removals in the buffer the commit is the sequential one *)
Definition C24_code_txn_disjoint_footprints_statement : Prop :=
  forall db ss, footprints_disjoint false db [] ss = true ->
    no_label_removal (run false false db ss) = true -> M_txn db ss = txn true false db ss.
Theorem C24_code_txn_disjoint_footprints : C24_code_txn_disjoint_footprints_statement.
Proof. exact M_txn_footprint_ryw. Qed.
Print Assumptions C24_code_txn_disjoint_footprints.

(* refuted without that hypothesis: REMOVE n:L then SET n:L in one transaction loses the SET *)
Definition C24_label_order_refuted_statement : Prop :=
  exists db ss, footprints_disjoint false db [] ss = true /\ dump_eqb (M_txn db ss) (S_txn db ss) = false.
Theorem C24_label_order_refuted : C24_label_order_refuted_statement.
Proof. exists db2, ss_label_order. split; vm_compute; reflexivity. Qed.
Print Assumptions C24_label_order_refuted.
