(* Props/C13.v — A failed statement has no effect.  Statements, `exact`, Print Assumptions. *)
From Coq Require Import List ZArith NArith Bool.
From NDB Require Import Txn.Model Txn.Proofs.
Import ListNotations.

(* the property over the model of what the code does, for explicit transactions: committing a
   transaction gives the same database as if its failed statements' writes had been discarded *)
Definition C13_full_statement : Prop :=
  forall db ss, dump_eqb (M_txn db ss) (txn false true db ss) = true.

(* auto-commit mode (ndb_execute_write): a failing statement leaves the database unchanged *)
Definition C13_autocommit_atomic_statement : Prop :=
  forall db s, fails db (gnext db) s = true -> M_autocommit db s = db.
Theorem C13_autocommit_atomic : C13_autocommit_atomic_statement.
Proof. exact autocommit_atomic. Qed.
Print Assumptions C13_autocommit_atomic.

(* explicit transactions (ndb_txn_query .. ndb_txn_commit): refuted — K-C13-buffer *)
Definition C13_txn_refuted_statement : Prop :=
  exists db s, fails db (gnext db) s = true /\ dump_eqb (M_txn db [s]) db = false.
Theorem C13_txn_refuted : C13_txn_refuted_statement.
Proof. exists db0, w13. split; [exact w13_fails | exact w13_effect]. Qed.
Print Assumptions C13_txn_refuted.

Definition C13_full_refuted_statement : Prop := ~ C13_full_statement.
Theorem C13_full_refuted : C13_full_refuted_statement.
Proof.
  intro H. specialize (H db0 [w13]).
  assert (E : dump_eqb (M_txn db0 [w13]) (txn false true db0 [w13]) = false) by (vm_compute; reflexivity).
  rewrite E in H. discriminate.
Qed.
Print Assumptions C13_full_refuted.

(* outside the known class (no statement fails after having written) the explicit transaction
   is exactly the atomic one — whichever view statements are evaluated against *)
Definition C13_txn_atomic_unless_dirty_statement : Prop :=
  forall ryw db ss, some_dirty ryw false db [] ss = false -> txn ryw false db ss = txn ryw true db ss.
Theorem C13_txn_atomic_unless_dirty : C13_txn_atomic_unless_dirty_statement.
Proof. exact txn_atomic_unless_dirty. Qed.
Print Assumptions C13_txn_atomic_unless_dirty.

(* the hypothesis is met by a transaction with real failures (refused DELETE, syntax error) *)
Example C13_conditional_not_vacuous :
  some_dirty false false db1 [] ss_clean = false /\ statuses false false db1 [] ss_clean = [true; false; false; true].
Proof. split; [exact ss_clean_not_dirty | exact ss_clean_statuses]. Qed.

(* refused DELETEs are clean failures of the code that exists, also with several targets and with
   DELETE r, a: a transaction containing them commits exactly what it commits without them *)
Example C13_refused_deletes_are_atomic :
  some_dirty false false db3 [] ss_refused = false /\
  statuses false false db3 [] ss_refused = [false; false; false; true] /\
  dump_eqb (M_txn db3 ss_refused) (M_txn db3 [SSet 1%N [(1, CInt 5)]]) = true.
Proof. exact ss_refused_clean. Qed.
