(* Props/C06.v — Storage reads agree with a graph model.
   Only statements, `exact`, and Print Assumptions. *)
From NDB Require Import Engine.Graph Engine.Model Engine.Known Engine.Witness.

(* every read interface, as collected by the canonical dump, agrees with the spec graph S *)
Definition C06_full_statement : Prop :=
  forall h, commits_only h = true -> wf_hist h = true -> m_dump (run h) = spec_dump h.

(* refuted on the pinned code: K-C06-eprops, K-C14-samerun and K-C06-labelorder *)
Definition C06_refuted_statement : Prop :=
  (exists h, commits_only h = true /\ wf_hist h = true /\ (classes h).(k_eprops) = true /\ m_dump (run h) <> spec_dump h) /\
  (exists h, commits_only h = true /\ wf_hist h = true /\ (classes h).(k_samerun) = true /\ m_dump (run h) <> spec_dump h) /\
  (exists h, commits_only h = true /\ wf_hist h = true /\ (classes h).(k_labelorder) = true /\ m_dump (run h) <> spec_dump h).
Theorem C06_refuted : C06_refuted_statement.
Proof.
  split; [|split].
  - exists h_eprops. destruct w_eprops as (A & B & _ & _ & E & F). repeat split; assumption.
  - exists h_samerun. destruct w_samerun as (A & B & _ & _ & _ & E & F). repeat split; assumption.
  - exists h_labord. destruct w_labelorder as (A & B & _ & _ & E & F). repeat split; assumption.
Qed.
Print Assumptions C06_refuted.
