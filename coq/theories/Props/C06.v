(* Props/C06.v — Storage reads agree with a graph model.
   Only statements, `exact`, and Print Assumptions. *)
From Coq Require Import Permutation.
From NDB Require Import Engine.Graph Engine.Model Engine.Known Engine.Witness Engine.Refine_proofs.

(* every read interface, as collected by the canonical dump, agrees with the spec graph S *)
Definition C06_full_statement : Prop :=
  forall h, commits_only h = true -> wf_hist h = true -> m_dump (run h) = spec_dump h.

(* refuted on the pinned code: K-C06-eprops, K-C14-samerun and K-C06-labelorder *)
Definition C06_refuted_statement : Prop :=
  (exists h, commits_only h = true /\ wf_hist h = true /\ (classes h).(k_eprops) = true /\ m_dump (run h) <> spec_dump h) /\
  (exists h, commits_only h = true /\ wf_hist h = true /\ (classes h).(k_samerun) = true /\ m_dump (run h) <> spec_dump h) /\
  (exists h, commits_only h = true /\ wf_hist h = true /\ (classes h).(k_labelorder) = true /\ m_dump (run h) <> spec_dump h).
Theorem C06_refuted : C06_refuted_statement.
Proof.
  split; [|split].
  - exists h_eprops. destruct w_eprops as (A & B & _ & _ & E & F). repeat split; assumption.
  - exists h_samerun. destruct w_samerun as (A & B & _ & _ & _ & E & F). repeat split; assumption.
  - exists h_labord. destruct w_labelorder as (A & B & _ & _ & E & F). repeat split; assumption.
Qed.
Print Assumptions C06_refuted.

(* conditional theorem over ALL histories of the executable fragment `grow_hist`: commit-only
   histories of node creations (0 or 1 label), relationship creations (parallel, self loops) and
   property sets / removals on nodes and relationships (no deletes, no label changes after creation —
   the fragment contains none of the known classes).  Every read interface except the two whole-map
   reads agrees with the spec graph; the edge views agree as multisets. *)
Definition C06_refines_partial_statement : Prop :=
  forall h, grow_hist h = true -> wf_hist h = true ->
    let s := run h in let g := spec h in
    m_nodes s = g_node_ids g /\
    (forall n, Permutation (m_out s n) (g_out g n)) /\
    (forall n, Permutation (m_in s n) (g_in g n)) /\
    (forall n k, m_nprop s n k = g_nprop g n k) /\
    (forall e k, m_eprop s e k = g_eprop g e k) /\
    (forall n, g_labels g n = filter (fun l => negb (l =? UNLABELED)) (m_labels s n)) /\
    (forall n, m_ext s n = g_ext g n) /\
    (forall ext, m_lookup s ext = g_lookup g ext).
Theorem C06_refines_partial : C06_refines_partial_statement.
Proof. exact refines_grow. Qed.
Print Assumptions C06_refines_partial.
