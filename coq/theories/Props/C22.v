(* Props/C22.v — runtime errors are never swallowed.
   Only statements, `exact`, and Print Assumptions.
   A plan node is a stream of `result row`; `reports_error s` says that the
   caller's collect::<Result<Vec<_>>>() of the stream is an error.  The model
   is the executor after the repair 5cbdabf (DISTINCT, UNION, SKIP, ORDER BY). *)
From NDB Require Import Query.Rows Query.Rows_proofs.

(* every operator of the read pipeline reports an error item of its input;
   LIMIT n for the n items it pulls (rows behind the limit are never evaluated) *)
Definition C22_errors_propagate_statement : Prop :=
  (forall E p s e, In (Err e) s -> reports_error (op_filter E p s)) /\
  (forall E items s e, In (Err e) s -> reports_error (op_project E items s)) /\
  (forall E ex x s e, In (Err e) s -> reports_error (op_unwind E ex x s)) /\
  (forall s e, In (Err e) s -> reports_error (op_distinct s)) /\
  (forall all a b e, In (Err e) a \/ In (Err e) b -> reports_error (op_union all a b)) /\
  (forall n s e, In (Err e) s -> reports_error (op_skip n s)) /\
  (forall n s e, In (Err e) (firstn n s) -> reports_error (op_limit n s)) /\
  (forall E items s e, In (Err e) s -> reports_error (op_orderby E items s)) /\
  (forall E keys aggs s e, In (Err e) s -> reports_error (op_aggregate E keys aggs s)).
Theorem C22_errors_propagate : C22_errors_propagate_statement.
Proof.
  repeat split.
  - exact filter_propagates.
  - exact project_propagates.
  - exact unwind_propagates.
  - exact distinct_propagates.
  - exact union_propagates.
  - exact skip_propagates.
  - exact limit_propagates.
  - exact orderby_propagates.
  - exact aggregate_propagates.
Qed.
Print Assumptions C22_errors_propagate.

(* an error raised by the operator itself while evaluating a row it consumes is reported *)
Definition C22_errors_raised_statement : Prop :=
  (forall E p rows r e, In r rows -> eval E r p = Err e -> is_err (collect (filter_where E p rows)) = true) /\
  (forall E items s r e, In (Ok r) s -> project_row E r items [] = Err e -> reports_error (op_project E items s)) /\
  (forall E ex x s r e, In (Ok r) s -> eval E r ex = Err e -> reports_error (op_unwind E ex x s)) /\
  (forall E items s r e, In (Ok r) s -> sort_keys E r items = Err e -> reports_error (op_orderby E items s)) /\
  (forall E keys aggs s r e, In (Ok r) s -> agg_check E r aggs = Err e -> reports_error (op_aggregate E keys aggs s)).
Theorem C22_errors_raised : C22_errors_raised_statement.
Proof.
  repeat split.
  - intros E p rows r e Hin He. exact (proj1 (where_error_reported E p rows r e Hin He)).
  - exact project_error_reported.
  - exact unwind_error_reported.
  - exact orderby_key_error_reported.
  - exact aggregate_arg_error_reported.
Qed.
Print Assumptions C22_errors_raised.

(* known finding K-C22-exists: the EXISTS { subquery } expression pulls the first item of the
   subquery's stream and turns an error into NULL (evaluate_expression_value cannot fail) *)
Definition C22_exists_refuted_statement : Prop :=
  exists (sub : stream) (e : rerr), In (Err e) (firstn 1 sub) /\ exists_subquery_value sub = VNull.
Theorem C22_exists_refuted : C22_exists_refuted_statement.
Proof. exact exists_subquery_swallows. Qed.
Print Assumptions C22_exists_refuted.
