(* Props/C16.v — Query processing never crashes the host: the part a model can carry (recursion
   depth of the expression parser).  Stack size, allocator failure and wall time are runtime
   behaviour: observed by the harness (child processes), not proved. *)
From Coq Require Import List NArith Bool.
From NDB Require Import Parser.Depth Parser.Depth_proofs.
Import ListNotations.
Open Scope N_scope.

(* what would make deep nesting safe: a constant bound on the parser's recursion depth, for all inputs *)
Definition C16_full_statement : Prop :=
  exists bound, forall ts, hw_of (depth_reached None ts) <= bound.

(* the pinned parser (no depth guard): recursion depth = nesting of the input; the 2000-level
   probe reaches depth 2002 — K-C16-depth *)
Definition C16_unguarded_depth_partial_statement : Prop :=
  depth_reached None (family 0 2000) = Ok [] 2002 /\ depth_reached None (family 3 3000) = Ok [] 3002.
Theorem C16_unguarded_depth_partial : C16_unguarded_depth_partial_statement.
Proof. split; [exact unguarded_paren_2000 | exact unguarded_neg_3000]. Qed.
Print Assumptions C16_unguarded_depth_partial.

(* a parser with a nesting guard has recursion depth <= limit + 1 for ALL token streams
   (the candidate repair; not in the pinned code) *)
Definition C16_guarded_depth_bounded_statement : Prop :=
  forall limit ts, start_depth <= limit + 1 -> hw_of (depth_reached (Some limit) ts) <= limit + 1.
Theorem C16_guarded_depth_bounded : C16_guarded_depth_bounded_statement.
Proof. exact guarded_depth_bounded. Qed.
Print Assumptions C16_guarded_depth_bounded.

Example C16_guard_not_vacuous :
  depth_reached (Some 256) (family 0 100) = Ok [] 102 /\
  rejected (depth_reached (Some 256) (family 0 2000)) = true /\
  hw_of (depth_reached (Some 256) (family 0 2000)) = 257.
Proof. exact guard_examples. Qed.
