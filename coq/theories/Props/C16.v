(* Props/C16.v — Query processing never crashes the host: the part a model can carry — the depth
   budget of the parser bounds, for ALL inputs, the parser's own recursion and the depth of the AST
   it hands to planner, evaluator and Drop.  How much stack one level costs, the size of the thread
   stack, allocator failure and wall time are runtime behaviour: observed by the harness (child
   processes), not proved. *)
From Coq Require Import List NArith Bool Lia.
From NDB Require Import Gen.Consts Parser.Depth Parser.Depth_proofs.
Import ListNotations.
Open Scope N_scope.

(* the constants of the code (regenerated from parser.rs on every run) *)
Definition ce := parser_expression_nesting_cost.
Definition cq := parser_query_nesting_cost.
Lemma costs_ok : 1 <= ce /\ ce <= cq.
Proof. split; vm_compute; discriminate. Qed.

(* recursion depth of the parser bounded by a constant, for every token stream and every budget
   (in particular the two the code uses) *)
Definition C16_recursion_depth_bounded_statement : Prop :=
  forall b ts, ce * hw_of (parse_return ce cq (Some b) ts) <= b.
Theorem C16_recursion_depth_bounded : C16_recursion_depth_bounded_statement.
Proof. intros b ts. apply recursion_depth_le_budget. apply costs_ok. Qed.
Print Assumptions C16_recursion_depth_bounded.

(* every accepted expression has an AST no deeper than the budget: nesting AND left-deep chains *)
Definition C16_ast_depth_bounded_statement : Prop :=
  forall b ts rest s e hw, parse_return ce cq (Some b) ts = Ok rest s e hw -> adepth e <= b.
Theorem C16_ast_depth_bounded : C16_ast_depth_bounded_statement.
Proof. intros b ts rest s e hw. apply accepted_ast_depth_le_budget. apply costs_ok. Qed.
Print Assumptions C16_ast_depth_bounded.

(* where the limit lies for the nesting families, with the budget of the harness build: accepted up
   to 50 levels (49 for the two families with an inner list literal), rejected beyond — every
   depth up to 400 *)
Definition threshold (kind : N) : N := match kind with 7 | 8 => 49 | _ => 50 end.
Definition C16_nesting_threshold_statement : Prop :=
  forall kind d, (kind < 9) -> (d <= 400)%nat ->
    rejected (parse_return ce cq (Some parser_depth_budget_debug) (family kind d)) = N.ltb (threshold kind) (N.of_nat d).
Theorem C16_nesting_threshold : C16_nesting_threshold_statement.
Proof.
  assert (H : forallb (fun kind => forallb (fun d =>
      Bool.eqb (rejected (parse_return ce cq (Some parser_depth_budget_debug) (family kind d))) (N.ltb (threshold kind) (N.of_nat d)))
      (seq 0 401)) [0;1;2;3;4;5;6;7;8] = true) by (vm_compute; reflexivity).
  intros kind d Hk Hd. rewrite forallb_forall in H.
  assert (Hin : In kind [0;1;2;3;4;5;6;7;8]).
  { destruct kind as [|p]; [cbn; auto|]. do 4 (destruct p as [p|p|]; try (cbn; lia); cbn; auto 12). }
  specialize (H kind Hin). rewrite forallb_forall in H.
  specialize (H d ltac:(apply in_seq; lia)). now apply eqb_prop in H.
Qed.
Print Assumptions C16_nesting_threshold.

(* the repaired defect (K-C16-depth): without the budget the recursion depth follows the nesting
   and the AST depth follows the chain length *)
Definition C16_unguarded_depth_partial_statement : Prop :=
  hw_of (parse_return 3 6 None (family 0 2000)) = 2002 /\
  match parse_return 3 6 None (TAtom :: concat (repeat [TBin; TAtom] 3000)) with
  | Ok _ _ e hw => adepth e = 3001 /\ hw = 3 | _ => False end.
Theorem C16_unguarded_depth_partial : C16_unguarded_depth_partial_statement.
Proof. split; [exact (proj1 unguarded_paren_2000) | exact unguarded_chain_ast_depth]. Qed.
Print Assumptions C16_unguarded_depth_partial.

(* non-vacuity: accepted inputs exist at the limit, and the theorem's bound is met with little slack *)
Example C16_accepts_at_the_limit :
  match parse_return ce cq (Some parser_depth_budget_debug) (family 0 50) with
  | Ok [] _ e hw => adepth e = 51 /\ hw = 52 | _ => False end /\
  match parse_return ce cq (Some parser_depth_budget_debug) (TAtom :: concat (repeat [TBin; TAtom] 147)) with
  | Ok [] _ e _ => adepth e = 148 | _ => False end /\
  rejected (parse_return ce cq (Some parser_depth_budget_debug) (TAtom :: concat (repeat [TBin; TAtom] 148))) = true.
Proof. vm_compute. auto. Qed.
