(* Props/C10.v — Only one handle writes a database at a time.
   Only statements, `exact`, and Print Assumptions.  Model: Conc/Handles.v
   (current_locking = LockFirst: GraphEngine::open takes the exclusive OS lock before it touches the files). *)
From Coq Require Import List ZArith.
From NDB Require Import Conc.Sched Conc.Handles Conc.Handles_proofs.
Import ListNotations.

(* For any number of handles (same or different processes), any operation lists
   (open / commit / compact / close / offline tool = vacuum or bulk load, in any order, repeated) and EVERY interleaving:
   (1) at most one handle is open, (2) every modification of the files - including whatever an open()
   itself writes, successful or refused - was made while its writer held the lock, (3) the results form the history of a single handle that is opened and
   closed repeatedly; every other open was refused and operated on nothing. *)
Definition C10_exclusive_statement : Prop :=
  forall (progs : list (list hop)) (sched : list nat),
    let c := hrun current_locking sched (hinit progs) in
    (forall t u, loc (threads c t) = true -> loc (threads c u) = true -> t = u) /\
    writes_by_holder (files (Sched.shared c)) = true /\
    single_handle_history (results (Sched.shared c)) = true.
Theorem C10_exclusive : C10_exclusive_statement.
Proof. exact locked_handles_exclusive. Qed.
Print Assumptions C10_exclusive.

(* regression witness of the repaired defect (no lock at open): two handles open at
   once, both write, and the result trace is not a single-handle history *)
Definition C10_nolock_refuted_statement : Prop :=
  exists progs sched,
    let c := hrun NoLock sched (hinit progs) in
    single_handle_history (results (Sched.shared c)) = false /\
    writes_by_holder (files (Sched.shared c)) = false.
Theorem C10_nolock_refuted : C10_nolock_refuted_statement.
Proof.
  exists nolock_witness_progs, nolock_witness_sched.
  destruct nolock_not_single_handle as (A & B & _). exact (conj A B).
Qed.
Print Assumptions C10_nolock_refuted.

(* regression witness for the offline tools (vacuum_in_place, BulkLoader) that did not take the lock: a vacuum
   runs while a handle is open and writing *)
Definition C10_offline_nolock_refuted_statement : Prop :=
  exists progs sched,
    single_handle_history (results (Sched.shared (hrun NoLock sched (hinit progs)))) = false.
Theorem C10_offline_nolock_refuted : C10_offline_nolock_refuted_statement.
Proof. exists [[HOpen; HCommit 1%Z]; [HOffline]], [0; 1; 0]. exact nolock_offline_under_open_handle. Qed.
Print Assumptions C10_offline_nolock_refuted.

(* a REFUSED open must not touch the files: if the lock is taken only after open() has opened the files and cut
   the log's tail, every second open is still refused and the result trace still looks like a single-handle
   history, but clause (2) fails - the files were written by a handle that never held the lock *)
Definition C10_locklate_refuted_statement : Prop :=
  exists progs sched,
    let c := hrun LockLate sched (hinit progs) in
    single_handle_history (results (Sched.shared c)) = true /\
    writes_by_holder (files (Sched.shared c)) = false.
Theorem C10_locklate_refuted : C10_locklate_refuted_statement.
Proof.
  exists [[HOpen; HCommit 1%Z]; [HOpen]], [0; 0; 1].
  destruct locklate_refused_open_writes as (_ & A & B). exact (conj A B).
Qed.
Print Assumptions C10_locklate_refuted.
