(* Props/C12.v — Cypher updates match reference semantics.
   Only statements, `exact`, and Print Assumptions.  The reference is Update/Model.v (the
   engine's update semantics on evaluated operands); that the implementation equals it is the
   correspondence check (sampled).  Here: laws of the reference, for all graphs and operands. *)
From NDB Require Import Base.Bytes Index.OrderedKey IndexSem.Model IndexSem.Proofs Update.Model Update.Proofs.
Open Scope N_scope.

(* MERGE statement (any number of rows, no ON CREATE / ON MATCH items, no NaN and no duplicate
   key in a pattern map) executed twice: the second run reports 0 and leaves nodes,
   relationships and the id counter exactly as the first run left them *)
Definition C12_merge_stmt_idempotent_statement : Prop :=
  forall g rows,
    Forall plain_row rows ->
    match exec g (UMergeNode rows) with
    | Done g1 _ =>
        match exec g1 (UMergeNode rows) with
        | Done g2 c2 => c2 = 0 /\ gn g2 = gn g1 /\ gr g2 = gr g1 /\ gnext g2 = gnext g1
        | Failed => False
        end
    | Failed => False
    end.
Theorem C12_merge_stmt_idempotent : C12_merge_stmt_idempotent_statement.
Proof. exact merge_stmt_idempotent. Qed.
Print Assumptions C12_merge_stmt_idempotent.

(* one row, as functions: the second run creates nothing, reports 0 and leaves nodes and relationships as they are *)
Definition C12_merge_idempotent_statement : Prop :=
  forall g ls ps,
    NoDup (map fst ps) -> (forall k v, In (k, v) ps -> pv_eq v v = true) ->
    let g1 := fst (merge1 g ls ps) in
    snd (merge1 g1 ls ps) = 0 /\
    gn (fst (merge1 g1 ls ps)) = gn g1 /\ gr (fst (merge1 g1 ls ps)) = gr g1 /\
    gnext (fst (merge1 g1 ls ps)) = gnext g1.
Theorem C12_merge_idempotent : C12_merge_idempotent_statement.
Proof. exact merge_idempotent. Qed.
Print Assumptions C12_merge_idempotent.

(* MERGE with ON CREATE / ON MATCH items whose keys are disjoint from the pattern keys of the
   statement (any number of rows): run twice, the second run creates nothing — count 0, the same
   number of nodes, relationships and id counter untouched (ON MATCH items may still write) *)
Definition C12_merge_on_items_statement : Prop :=
  forall g rows,
    on_items_disjoint rows -> (forall r, In r rows -> pattern_ok r) ->
    match exec g (UMergeNode rows) with
    | Done g1 _ =>
        match exec g1 (UMergeNode rows) with
        | Done g2 c2 => c2 = 0 /\ length (gn g2) = length (gn g1) /\ gr g2 = gr g1 /\ gnext g2 = gnext g1
        | Failed => False
        end
    | Failed => False
    end.
Theorem C12_merge_on_items : C12_merge_on_items_statement.
Proof. exact merge_on_creates_nothing_twice. Qed.
Print Assumptions C12_merge_on_items.

(* relationships have no identity in the storage: a relationship MERGE is NOT idempotent when the
   rows of one statement merge different property maps on one (src,type,dst) — the later row
   overwrites the shared map, so the repeated statement creates again (known finding
   K-C12-relidentity).  Keys: node ids 0 -> 0, type 0; property 0 = 1, then 2. *)
Definition w_relid : stmt := UMergeRel [((0, 0, 0), 0, [(0, OInt 1)], [], []); ((0, 0, 0), 0, [(0, OInt 2)], [], [])].
Definition C12_merge_rel_refuted_statement : Prop :=
  match exec g0 (UCreateNode [([], [])]) with
  | Done g _ =>
      match exec g w_relid with
      | Done g1 c1 => c1 = 2 /\ match exec g1 w_relid with Done _ c2 => c2 = 1 | Failed => False end
      | Failed => False
      end
  | Failed => False
  end.
Theorem C12_merge_rel_refuted : C12_merge_rel_refuted_statement.
Proof. vm_compute. repeat split. Qed.
Print Assumptions C12_merge_rel_refuted.

(* the complement: a relationship MERGE whose rows all carry the same pattern (any direction,
   existing relationship in any orientation or none) creates at most one relationship, and the
   repeated statement creates nothing and leaves nodes, relationships and the id counter untouched.
   (Rows with different maps that merely agree on shared keys are not covered by a theorem.) *)
Definition C12_merge_rel_idempotent_statement : Prop :=
  forall g wk dir ps n,
    NoDup (keys_of ps) -> (forall k v, In (k, v) ps -> pv_eq v v = true) ->
    match exec g (UMergeRel (same_rows wk dir ps n)) with
    | Done g1 c1 =>
        (c1 <= 1) /\
        match exec g1 (UMergeRel (same_rows wk dir ps n)) with
        | Done g2 c2 => c2 = 0 /\ gn g2 = gn g1 /\ gr g2 = gr g1 /\ gnext g2 = gnext g1
        | Failed => False
        end
    | Failed => False
    end.
Theorem C12_merge_rel_idempotent : C12_merge_rel_idempotent_statement.
Proof. exact merge_rel_same_rows_idempotent. Qed.
Print Assumptions C12_merge_rel_idempotent.

(* direction: an undirected MERGE (b)-[:R]-(a) and a right-to-left MERGE (b)<-[:R]-(a) find the
   relationship stored as a -> b and create nothing; (b)-[:R]->(a) does not match it and creates b -> a *)
Definition C12_merge_rel_direction_statement : Prop :=
  match exec g0 (UCreateNode [([], []); ([], [])]) with
  | Done g _ =>
      match exec g (UCreateRel [(0, 0, 1, [])]) with
      | Done g1 _ =>
          exec g1 (UMergeRel [((1, 0, 0), 2, [], [], [])]) = Done g1 0 /\
          exec g1 (UMergeRel [((1, 0, 0), 1, [], [], [])]) = Done g1 0 /\
          exec g1 (UMergeRel [((0, 0, 1), 2, [], [], [])]) = Done g1 0 /\
          match exec g1 (UMergeRel [((1, 0, 0), 0, [], [], [])]) with
          | Done g2 c => c = 1 /\ length (gr g2) = 2%nat
          | Failed => False end
      | Failed => False end
  | Failed => False
  end.
Theorem C12_merge_rel_direction : C12_merge_rel_direction_statement.
Proof. vm_compute. repeat split. Qed.
Print Assumptions C12_merge_rel_direction.

(* chained clauses in one statement: SET n.k = v REMOVE n.k leaves what REMOVE n.k leaves *)
Definition C12_chain_set_remove_statement : Prop :=
  forall g id k v,
    match exec g (UChain [USetProp [(id, k, v)]; URemoveProp [(id, k)]]), exec g (URemoveProp [(id, k)]) with
    | Done g1 _, Done g2 _ => g1 = g2
    | _, _ => False
    end.
Theorem C12_chain_set_remove : C12_chain_set_remove_statement.
Proof. exact chain_set_then_remove. Qed.
Print Assumptions C12_chain_set_remove.

(* the reflexivity hypothesis is needed: a NaN pattern value never matches (known finding K-C12-mergenan) *)
Definition C12_merge_nan_refuted_statement : Prop :=
  let nan := OFloat 9221120237041090560 in
  snd (merge1 (fst (merge1 g0 [] [(0, nan)])) [] [(0, nan)]) = 1.
Theorem C12_merge_nan_refuted : C12_merge_nan_refuted_statement.
Proof. vm_compute. reflexivity. Qed.
Print Assumptions C12_merge_nan_refuted.

(* SET / REMOVE algebra *)
Definition C12_set_remove_algebra_statement : Prop :=
  (forall k v m, pdel k (pset k v m) = pdel k m) /\                      (* SET then REMOVE = REMOVE *)
  (forall k m, pset k ONull m = pdel k m) /\                              (* SET null = REMOVE *)
  (forall k k' v m, pget k (pset k' v m) = if k' =? k then stored v else pget k m) /\
  (forall k m, pget k (map_target [] false m) =                          (* SET n = m: exactly m's non-null keys *)
               match last_for k m None with Some v => stored v | None => None end) /\
  (forall existing m, map_target existing false m = map_target [] false m) /\
  (forall existing, map_target existing true [] = existing) /\           (* += {} is the identity *)
  (forall k existing m, pget k (map_target existing true m) =
               match last_for k m None with Some v => stored v | None => pget k existing end).
Theorem C12_set_remove_algebra : C12_set_remove_algebra_statement.
Proof.
  exact (conj set_then_remove (conj set_null_is_remove (conj get_after_set (conj replace_has_exactly
        (conj replace_ignores_existing (conj append_empty_identity append_get)))))).
Qed.
Print Assumptions C12_set_remove_algebra.

(* CREATE adds exactly the counted nodes after the existing ones and changes nothing else *)
Definition C12_create_frame_statement : Prop :=
  forall rows g c, exists added,
    fold_left create_node_row rows (g, c) =
      (mkGraph (gn g ++ added) (gr g) (gnext g + N.of_nat (length rows))
               (gcat (fst (fold_left create_node_row rows (g, c)))),
       c + N.of_nat (length rows)) /\
    length added = length rows.
Theorem C12_create_frame : C12_create_frame_statement.
Proof. exact create_nodes_frame. Qed.
Print Assumptions C12_create_frame.

(* DELETE fails iff a target has a relationship; DETACH DELETE never fails; afterwards no
   remaining relationship touches a deleted node *)
Definition C12_delete_statement : Prop :=
  (forall g ids, delete_nodes g false ids = Failed <-> exists id, In id ids /\ incident_keys g id <> []) /\
  (forall g ids, delete_nodes g true ids <> Failed) /\
  (forall g detach ids g' c, delete_nodes g detach ids = Done g' c ->
     forall k v id, In (k, v) (gr g') -> In id ids -> incident id k = false).
Theorem C12_delete : C12_delete_statement.
Proof. exact (conj delete_fails_iff (conj detach_never_fails delete_no_dangling)). Qed.
Print Assumptions C12_delete.
