(* Props/C19.v — WHERE partitions rows by truth value.
   Only statements, `exact`, and Print Assumptions. *)
From Coq Require Import Permutation.
From NDB Require Import Query.Rows Query.Rows_proofs.

(* For every environment (graph, parameters), predicate p and list of rows on
   which p evaluates to true, false or null: the three filtered queries
   succeed, their results are the order-preserving sub-sequences of the rows
   selected by p / NOT p / p IS NULL, together a permutation of the rows, and
   every row is kept by exactly one of the three filters. *)
Definition C19_where_partition_statement : Prop :=
  forall (E : env) (p : expr) (rows : list row),
    (forall r, In r rows -> tri_valued E p r) ->
    collect (filter_where E p rows) = Ok (part_true E p rows) /\
    collect (filter_where E (e_not p) rows) = Ok (part_false E p rows) /\
    collect (filter_where E (e_is_null p) rows) = Ok (part_null E p rows) /\
    Permutation (part_true E p rows ++ part_false E p rows ++ part_null E p rows) rows /\
    subseq (part_true E p rows) rows /\ subseq (part_false E p rows) rows /\ subseq (part_null E p rows) rows /\
    (forall r, In r rows -> exactly_one (keeps E p r) (keeps E (e_not p) r) (keeps E (e_is_null p) r)).
Theorem C19_where_partition : C19_where_partition_statement.
Proof. exact where_partition. Qed.
Print Assumptions C19_where_partition.

(* the same for the rows of any query: any row stream that collects to `rows` *)
Definition C19_where_partition_stream_statement : Prop :=
  forall (E : env) (p : expr) (s : stream) (rows : list row),
    collect s = Ok rows ->
    (forall r, In r rows -> tri_valued E p r) ->
    exists l1 l2 l3,
      collect (op_filter E p s) = Ok l1 /\
      collect (op_filter E (e_not p) s) = Ok l2 /\
      collect (op_filter E (e_is_null p) s) = Ok l3 /\
      Permutation (l1 ++ l2 ++ l3) rows /\
      subseq l1 rows /\ subseq l2 rows /\ subseq l3 rows.
Theorem C19_where_partition_stream : C19_where_partition_stream_statement.
Proof. exact where_partition_stream. Qed.
Print Assumptions C19_where_partition_stream.

(* ill-typed rows (p is neither boolean nor null) are in none of the three results:
   they are reported separately, they are not partition violations *)
Definition C19_ill_typed_statement : Prop :=
  forall E p r v, eval E r p = Ok v -> ~ tri_value v ->
    keeps E p r = false /\ keeps E (e_not p) r = false /\ keeps E (e_is_null p) r = false.
Theorem C19_ill_typed : C19_ill_typed_statement.
Proof. exact where_ill_typed_lost. Qed.
Print Assumptions C19_ill_typed.

(* a row on which p raises a runtime error fails all three filtered queries *)
Definition C19_error_statement : Prop :=
  forall E p rows r e, In r rows -> eval E r p = Err e ->
    is_err (collect (filter_where E p rows)) = true /\
    is_err (collect (filter_where E (e_not p) rows)) = true /\
    is_err (collect (filter_where E (e_is_null p) rows)) = true.
Theorem C19_error : C19_error_statement.
Proof. exact where_error_reported. Qed.
Print Assumptions C19_error.

(* non-vacuity: three nodes with k = 1, k = 5 and no k; p is v0.k > 1.  The
   hypothesis holds and each of the three partitions has exactly one row. *)
Definition ex_graph : graph :=
  mk_graph [mk_node 0 [] [([107%N], VInt 1)]; mk_node 1 [] [([107%N], VInt 5)]; mk_node 2 [] []] [] [].
Definition ex_env : env := mk_env ex_graph [] None.
Definition ex_pred : expr := EBin BGt (EProp 0 [107%N]) (ELit (VInt 1)).
Definition ex_rows : list row := [[(0%N, VNode 0)]; [(0%N, VNode 1)]; [(0%N, VNode 2)]].
Example C19_nonvacuous :
  (forall r, In r ex_rows -> tri_valued ex_env ex_pred r) /\
  part_true ex_env ex_pred ex_rows = [[(0%N, VNode 1)]] /\
  part_false ex_env ex_pred ex_rows = [[(0%N, VNode 0)]] /\
  part_null ex_env ex_pred ex_rows = [[(0%N, VNode 2)]].
Proof.
  split; [|vm_compute; repeat split; reflexivity].
  intros r [<-|[<-|[<-|[]]]]; eexists; (split; [vm_compute; reflexivity|]); unfold tri_value; tauto.
Qed.
