(* Props/C18.v — Growing one structure never corrupts another.  Statements, `exact`, Print Assumptions. *)
From NDB Require Import Store.Pager Store.IdMap Store.IdMap_proofs Store.Owners Store.Owners_proofs.
Open Scope N_scope.

(* for every sequence of allocate/free/ensure calls from a well-formed pager state: a page is handed out only
   while its bitmap bit is clear (never twice without a free in between), never the meta/bitmap page, and
   only allocated pages are freed *)
Definition C18_alloc_fresh_statement : Prop :=
  forall cs s, wf_pager s -> fresh_trace (pg_bm s) (fst (run s cs)).
Theorem C18_alloc_fresh : C18_alloc_fresh_statement.
Proof. exact alloc_fresh. Qed.
Print Assumptions C18_alloc_fresh.

(* node record n < records_per_page * k lies within k pages from the table's first page, inside the page *)
Definition C18_i2e_in_owned_pages_statement : Prop :=
  forall start n k, n < i2e_records_per_page * k ->
    start <= fst (i2e_location start n) /\ fst (i2e_location start n) < start + k /\
    snd (i2e_location start n) + i2e_record_size <= page_size.
Theorem C18_i2e_in_owned_pages : C18_i2e_in_owned_pages_statement.
Proof. exact i2e_in_owned_pages. Qed.
Print Assumptions C18_i2e_in_owned_pages.

(* the monitor run on the traces of the real code is sound *)
Definition C18_check_trace_sound_statement : Prop :=
  forall tr o, check_trace o tr = true ->
  forall pre e post, tr = pre ++ e :: post ->
    match e with
    | WWrite t p => owners_after o pre p = Some t
    | WFree t p => owners_after o pre p = Some t
    | WAlloc t p => owners_after o pre p = None
    end.
Theorem C18_check_trace_sound : C18_check_trace_sound_statement.
Proof. exact check_trace_sound. Qed.
Print Assumptions C18_check_trace_sound.

(* full statement of the property over the model of pager users: every history keeps every write inside its owner's pages *)
Definition C18_full_statement : Prop := forall ops, check_trace no_owner (ptrace ops) = true.

(* refuted (K-C18-spill): one node, one allocation by anybody else, then records_per_page more nodes:
   node number records_per_page is written to page start+1, which the other structure owns *)
Definition C18_refuted_statement : Prop := exists ops, check_trace no_owner (ptrace ops) = false.
Theorem C18_refuted : C18_refuted_statement.
Proof. exists spill_history. exact (proj1 spill_history_refutes). Qed.
Print Assumptions C18_refuted.

(* conditional, per record write: the write is owner-correct exactly when the record's page is unowned
   (the table takes it) or already the table's; i.e. outside the class "page start+j owned by another structure" *)
Definition C18_node_write_statement : Prop :=
  forall o p, check_trace o (node_events o p) = true <-> (o p = None \/ o p = Some TIdmap).
Theorem C18_node_write : C18_node_write_statement.
Proof. exact node_write_owner_correct. Qed.
Print Assumptions C18_node_write.

(* a trace on which the tolerant monitor reports no spill and no other violation passes the strict checker *)
Definition C18_monitor_clean_statement : Prop :=
  forall tr o start i, monitor o start i tr = (0, None) -> check_trace o tr = true.
Theorem C18_monitor_clean : C18_monitor_clean_statement.
Proof. exact monitor_clean. Qed.
Print Assumptions C18_monitor_clean.

(* history level: arbitrary sequences of (allocate by structure X, write by X of a page it holds, free by X of a
   page it holds, node append).  The tolerant monitor finds no violation other than spills, and exactly as many
   spills as node appends whose record page (start + n / records_per_page) is held by another structure *)
Definition C18_history_monitor_exact_statement : Prop :=
  forall cs, monitor no_owner (start_of (strace sstate_new cs)) 0 (strace sstate_new cs) = (spills sstate_new cs, None).
Theorem C18_history_monitor_exact : C18_history_monitor_exact_statement.
Proof. exact history_monitor_exact. Qed.
Print Assumptions C18_history_monitor_exact.

(* conditional theorem: outside K-C18-spill every write and free of every structure goes to a page that
   structure holds, and no page is ever given to two holders *)
Definition C18_history_conditional_statement : Prop :=
  forall cs, spills sstate_new cs = 0 -> check_trace no_owner (strace sstate_new cs) = true.
Theorem C18_history_conditional : C18_history_conditional_statement.
Proof. exact history_conditional. Qed.
Print Assumptions C18_history_conditional.
