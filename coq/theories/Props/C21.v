(* Props/C21.v — Aggregates agree with their definitions.
   Only statements, `exact`, and Print Assumptions. *)
From Coq Require Import Sorting.Permutation.
From NDB Require Import Base.Bytes Cypher.Value Cypher.Compare Cypher.Arith Cypher.Agg Cypher.Agg_proofs Cypher.Order_proofs Cypher.ListCompare_proofs.

(* count-star is the number of rows; count / collect take the non-null values; every DISTINCT
   variant is the plain aggregate of the distinct non-null values, which are input values *)
Definition C21_count_collect_statement : Prop :=
  (forall tp d vs, agg tp ACountStar d vs = VInt (Z.of_nat (length vs))) /\
  (forall tp vs, agg tp ACount false vs = VInt (Z.of_nat (length (non_null vs)))) /\
  (forall tp vs, agg tp ACollect false vs = VList (non_null vs)) /\
  (forall tp f vs, f <> ACountStar -> agg tp f true vs = agg tp f false (distinct_vals vs)) /\
  (forall vs x, In x (distinct_vals vs) -> In x vs /\ x <> VNull).
Theorem C21_count_collect : C21_count_collect_statement.
Proof.
  exact (conj count_star_length (conj count_non_null (conj collect_non_null (conj distinct_variants distinct_vals_sub)))).
Qed.
Print Assumptions C21_count_collect.

(* sum never wraps: without floats it is the exact integer sum when that is an i64 and a float
   otherwise; an integer result is always the exact sum *)
Definition C21_sum_exact_or_float_statement : Prop :=
  forall vs,
  (has_float vs = false -> in_i64 (int_sum vs) = true -> agg_sum vs = VInt (int_sum vs)) /\
  (has_float vs = false -> in_i64 (int_sum vs) = false -> exists g, agg_sum vs = VFloat g) /\
  (has_float vs = true -> exists g, agg_sum vs = VFloat g) /\
  (forall z, agg_sum vs = VInt z -> z = int_sum vs /\ in_i64 z = true /\ has_float vs = false).
Theorem C21_sum_exact_or_float : C21_sum_exact_or_float_statement.
Proof. exact sum_exact_or_float. Qed.
Print Assumptions C21_sum_exact_or_float.

(* min and max are null on no values and otherwise one of the non-null values (that they are
   extremal follows from C20's preorder theorem on flat values; checked on the engine) *)
Definition C21_min_max_statement : Prop :=
  forall tp vs,
  (non_null vs = [] -> agg_min tp vs = VNull /\ agg_max tp vs = VNull) /\
  (non_null vs <> [] -> In (agg_min tp vs) (non_null vs) /\ In (agg_max tp vs) (non_null vs)).
Theorem C21_min_max : C21_min_max_statement.
Proof. exact min_max_member. Qed.
Print Assumptions C21_min_max.

(* exactly one result row per distinct grouping key: no two groups have equal keys (the
   implementation's grouping equality), every row's key has a group, and the groups partition the rows *)
Definition C21_one_row_per_key_statement : Prop :=
  (forall rows, keys_distinct (keys_of (group_rows rows))) /\
  (forall rows k v, In (k, v) rows ->
     exists k', In k' (keys_of (group_rows rows)) /\ (k' = k \/ key_eq k' k = true)) /\
  (forall rows, Permutation (concat (map snd (group_rows rows))) (map snd rows)).
Theorem C21_one_row_per_key : C21_one_row_per_key_statement.
Proof. exact (conj groups_keys_distinct (conj groups_cover groups_partition)). Qed.
Print Assumptions C21_one_row_per_key.

(* known finding K-C21-nankey: rows whose key is NaN are never grouped together *)
Definition C21_nankey_refuted_statement : Prop :=
  exists rows, length (group_rows rows) = 2%nat /\ forall k v, In (k, v) rows -> k = [VFloat nan].
Theorem C21_nankey_refuted : C21_nankey_refuted_statement.
Proof. exact nan_keys_separate. Qed.
Print Assumptions C21_nankey_refuted.

(* known finding K-C21-zerokey: 0.0 and -0.0 are equal but are different grouping keys *)
Definition C21_zerokey_refuted_statement : Prop :=
  exists k1 k2, deq k1 k2 = true /\ cy_eq k1 k2 = Some true /\ key_eq [k1] [k2] = false.
Theorem C21_zerokey_refuted : C21_zerokey_refuted_statement.
Proof. exact zero_keys_separate. Qed.
Print Assumptions C21_zerokey_refuted.

(* min(v) is <= and max(v) is >= every non-null value of the group in the ORDER BY order, for
   groups whose values contain no temporal string (any nesting, NaN included) *)
Definition C21_min_max_extremal_statement : Prop :=
  forall tp vs, Forall (og tp) (non_null vs) ->
    Forall (fun x => cle' (order_cmp tp) (agg_min tp vs) x = true) (non_null vs) /\
    Forall (fun x => cle' (order_cmp tp) x (agg_max tp vs) = true) (non_null vs).
Theorem C21_min_max_extremal : C21_min_max_extremal_statement.
Proof. exact min_max_extremal. Qed.
Print Assumptions C21_min_max_extremal.
