(* Props/C30.v — Bulk load equals transactional load.
   Only statements, `exact`, and Print Assumptions. *)
From Coq Require Import Permutation.
From NDB Require Import Engine.Graph Engine.Model Engine.Known Engine.Witness Engine.Refine_proofs Engine.Compact_reads_proofs Engine.Bulk_proofs Engine.Bulk_join_proofs Engine.Bulk_equiv_proofs.

Definition C30_refuted_statement : Prop :=
  m_eprops (bulk_open w_bn w_be) e01 = [(0, 1)] /\ m_eprop (bulk_open w_bn w_be) e01 0 = Some 5 /\
  m_eprops (run w_btx) e01 = [(0, 5)] /\ m_dump (bulk_open w_bn w_be) <> m_dump (run w_btx).
Theorem C30_refuted : C30_refuted_statement.
Proof. exact w_bulk. Qed.
Print Assumptions C30_refuted.

(* the general statement: for every valid input outside K-C30-parallel-props the bulk-loaded database
   and the database loaded by one transaction per item (`load_txns`: same internal ids, same interner)
   answer every read alike *)
Definition C30_full_statement : Prop :=
  forall ns es, bulk_valid ns es = true -> parallel_props es = false ->
    same_reads_full (bulk_open ns es) (run (load_txns ns es)).

(* proved, all inputs: what recovery makes of a bulk-loaded database and what it answers *)
Definition C30_bulk_reads_partial_statement : Prop :=
  forall ns es, let s := bulk_open ns es in
    s.(runs) = [] /\ s.(segs) = [isort edge_leb (map (bulk_ekey ns es) es)] /\
    m_nodes s = nseq 0 (length ns) /\
    (forall n, Permutation (m_out s n) (filter (fun e => e_src e =? n) (map (bulk_ekey ns es) es))) /\
    (forall n, Permutation (m_in s n) (filter (fun e => e_dst e =? n) (map (bulk_ekey ns es) es))) /\
    (forall n k, m_nprop s n k = assoc nk_eqb (n, k) s.(store_n)) /\
    (forall e k, m_eprop s e k = assoc ek_eqb (e, k) s.(store_e)).
Theorem C30_bulk_reads_partial : C30_bulk_reads_partial_statement.
Proof.
  intros ns es s. destruct (bulk_open_state ns es) as (H1 & H2 & _). destruct (bulk_open_reads ns es) as (R1 & R2 & R3 & R4 & R5).
  repeat split; assumption.
Qed.
Print Assumptions C30_bulk_reads_partial.

(* proved, all inputs whose load history is well-formed: the transactional load answers like the spec graph of the load *)
Definition C30_txn_reads_partial_statement : Prop :=
  forall ns es, wf_hist (load_txns ns es) = true -> reads_agree (run (load_txns ns es)) (spec (load_txns ns es)).
Theorem C30_txn_reads_partial : C30_txn_reads_partial_statement.
Proof. exact load_txns_reads. Qed.
Print Assumptions C30_txn_reads_partial.

(* the joining lemma: the spec graph of the load is the graph the input describes (node table with the
   bulk interner's label ids; relationships as a multiset with the bulk interner's type ids) *)
Definition C30_spec_of_load_statement : Prop :=
  forall ns es, wf_hist (load_txns ns es) = true ->
    let g := spec (load_txns ns es) in
    g_nodes g = map gnode_of (map (fun n : bnode => (fst (fst n), index_name (snd (fst n)) (bulk_intr ns es) 0)) ns) /\
    Permutation (g_edges g) (map (bulk_ekey ns es) es).
Theorem C30_spec_of_load : C30_spec_of_load_statement.
Proof. exact spec_load_txns. Qed.
Print Assumptions C30_spec_of_load.

(* C30 for every read interface except the two whole-map reads: for every valid input whose load history
   is well-formed (an executable condition; met by the Example `load_nonvacuous` of Bulk_proofs.v, an input
   with parallel relationships, a self loop and a name shared by a label and a type), the bulk-loaded and
   the transactionally loaded database agree on nodes(), neighbors / incoming_neighbors as multisets,
   node_property, edge_property, labels, external ids and lookup.  Parallel relationships need not be
   excluded here: K-C30-parallel-props only shows in the whole-map reads, which this theorem leaves out. *)
Definition C30_bulk_equiv_txn_partial_statement : Prop :=
  forall ns es, bulk_valid ns es = true -> wf_hist (load_txns ns es) = true ->
    same_reads (bulk_open ns es) (run (load_txns ns es)).
Theorem C30_bulk_equiv_txn_partial : C30_bulk_equiv_txn_partial_statement.
Proof. exact bulk_equiv_txn. Qed.
Print Assumptions C30_bulk_equiv_txn_partial.
