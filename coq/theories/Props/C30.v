(* Props/C30.v — Bulk load equals transactional load.
   Only statements, `exact`, and Print Assumptions. *)
From NDB Require Import Engine.Graph Engine.Model Engine.Known Engine.Witness.

(* the transactional load of a node / relationship list: one transaction per item *)
Definition C30_refuted_statement : Prop :=
  m_eprops (bulk_open w_bn w_be) e01 = [(0, 1)] /\ m_eprop (bulk_open w_bn w_be) e01 0 = Some 5 /\
  m_eprops (run w_btx) e01 = [(0, 5)] /\ m_dump (bulk_open w_bn w_be) <> m_dump (run w_btx).
Theorem C30_refuted : C30_refuted_statement.
Proof. exact w_bulk. Qed.
Print Assumptions C30_refuted.
