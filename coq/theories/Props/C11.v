(* Props/C11.v — Cypher read results match reference semantics (sampled + partial).
   Only statements, `exact`/vm_compute witnesses, and Print Assumptions.

   Query/Clauses.v defines the clause semantics twice: Faithful (the plans the
   engine builds) and Reference (openCypher).  That the ENGINE equals Faithful
   is the correspondence on generated graph x query pairs: this part of the
   quantifier stays SAMPLED.  Proved here: two facts about the semantics itself
   and three refutations (Faithful <> Reference) - the known findings.
   NOT proved: C11_full_statement (Faithful = Reference outside the known
   classes); it is evaluated per generated case in Corr/C11.v.  Also not proved:
   invariance under permutation of the relationship list, WHERE/projection
   commutation. *)
From Coq Require Import Permutation.
From NDB Require Import Query.Clauses Query.Clauses_proofs Query.Known.

Definition C11_full_statement : Prop :=
  forall (E : env) (q : query), in_known_class (e_g E) q = false ->
    forall a b, result_of Faithful E q = Ok a -> result_of Reference E q = Ok b -> Permutation a b.

Definition C11_optional_nonempty_statement : Prop :=
  forall md E ps w r, match_item md E true ps w (Ok r) <> [].
Theorem C11_optional_nonempty : C11_optional_nonempty_statement.
Proof. exact optional_match_nonempty. Qed.
Print Assumptions C11_optional_nonempty.

Definition C11_window_lengths_statement : Prop :=
  (forall n s, (length (op_limit n s) <= n)%nat) /\ (forall n s, (length (op_skip n s) <= length s)%nat).
Theorem C11_window_lengths : C11_window_lengths_statement.
Proof. split; [exact limit_length | exact skip_length]. Qed.
Print Assumptions C11_window_lengths.

(* ---- witnesses: two parallel relationships 0->1 and a self loop on 0 (DESIGN.md §8) ---- *)
Definition wg : graph := mk_graph [mk_node 0 [] []; mk_node 1 [] []] [(0, 7, 1); (0, 7, 1); (0, 7, 0)]%N [].
Definition wE : env := mk_env wg [] None.
Definition np (x : N) := mk_npat x [].
Definition count_q (cs : list clause) : query :=
  QSingle (cs ++ [CAgg [] [(9%N, ACountStar)] (mk_proj [(9%N, EVar 9)] false [] None None) None]).

(* K-C11-crosspattern: MATCH (a)-[r1]->(b), (a)-[r2]->(b): 5 rows in the engine's semantics, 2 in openCypher *)
Definition q_cross : query :=
  count_q [CMatch false [mk_pattern (np 0) [(mk_rpat 1 [] DOut, np 2)]; mk_pattern (np 0) [(mk_rpat 3 [] DOut, np 2)]] None].
Definition C11_crosspattern_refuted_statement : Prop :=
  result_of Faithful wE q_cross = Ok [[(9%N, VInt 5)]] /\ result_of Reference wE q_cross = Ok [[(9%N, VInt 2)]].
Theorem C11_crosspattern_refuted : C11_crosspattern_refuted_statement.
Proof. split; vm_compute; reflexivity. Qed.
Print Assumptions C11_crosspattern_refuted.

(* repaired by b18a8dc (was K-C11-distinct-window): UNWIND [1,1,1,2] AS x RETURN DISTINCT x LIMIT 2 gave [1]
   while DISTINCT was planned after LIMIT; both semantics now give [1;2], and they agree on every projection *)
Definition q_window : query :=
  QSingle [CUnwind (ELit (VList [VInt 1; VInt 1; VInt 1; VInt 2])) 0;
           CReturn (mk_proj [(1%N, EVar 0)] true [] None (Some 2%nat))].
Definition C11_projection_agrees_statement : Prop :=
  (forall E p s, run_proj Faithful E p s = run_proj Reference E p s) /\
  result_of Faithful wE q_window = Ok [[(1%N, VInt 1)]; [(1%N, VInt 2)]].
Theorem C11_projection_agrees : C11_projection_agrees_statement.
Proof. split; [reflexivity | vm_compute; reflexivity]. Qed.
Print Assumptions C11_projection_agrees.

(* K-C11-parallel: MATCH (a)-[r1]->(b)<-[r2]-(c) over the two parallel relationships: 4 rows vs 2 *)
Definition q_parallel : query :=
  count_q [CMatch false [mk_pattern (np 0) [(mk_rpat 1 [7%N] DOut, np 2); (mk_rpat 3 [7%N] DIn, np 4)]] (Some (EBin BNeq (EFn FId [EVar 2]) (ELit (VInt 0))))].
Definition C11_parallel_refuted_statement : Prop :=
  result_of Faithful wE q_parallel = Ok [[(9%N, VInt 4)]] /\ result_of Reference wE q_parallel = Ok [[(9%N, VInt 2)]].
Theorem C11_parallel_refuted : C11_parallel_refuted_statement.
Proof. split; vm_compute; reflexivity. Qed.
Print Assumptions C11_parallel_refuted.

(* the Reference is a trustworthy oracle for relationship uniqueness: every match it returns for one
   MATCH clause - all comma-separated patterns together - uses pairwise distinct relationships of the
   graph (positions in g_rels, each holding the recorded key), exactly one per hop *)
Definition C11_reference_unique_statement : Prop :=
  forall g ps r m, In m (match_pms Reference g ps r) ->
    NoDup (map fst (snd m)) /\ Forall (valid_use g) (snd m) /\ length (snd m) = total_hops ps.
Theorem C11_reference_unique : C11_reference_unique_statement.
Proof. exact reference_match_unique. Qed.
Print Assumptions C11_reference_unique.

(* non-vacuity: on the witness graph the two comma-separated patterns have exactly two Reference matches
   (r1, r2 = the two parallel relationships in either order), the engine's semantics has five *)
Example C11_reference_unique_nonvacuous :
  let ps := [mk_pattern (np 0) [(mk_rpat 1 [] DOut, np 2)]; mk_pattern (np 0) [(mk_rpat 3 [] DOut, np 2)]] in
  map (fun m => map fst (snd m)) (match_pms Reference wg ps []) = [[1; 0]; [0; 1]]%nat /\
  length (match_pms Faithful wg ps []) = 5%nat.
Proof. split; vm_compute; reflexivity. Qed.
