(* Parser/Depth_proofs.v — PROOFS about Parser/Depth.v: soundness of the depth budget (AST depth and
   recursion depth of every accepted input are bounded by the budget, for all token streams) *)
From Coq Require Import List NArith Bool Lia.
From NDB Require Import Parser.Depth.
Import ListNotations.
Open Scope N_scope.

Definition deep_of (r : res) (d : N) : N := match r with Ok _ s _ _ => deep s | _ => d end.

Lemma push_down_some : forall b s n s', push_down (Some b) s n = Some s' ->
  dp s' = dp s /\ deep s' = deep s + n /\ deep s' <= b.
Proof.
  intros b s n s' H. unfold push_down, over in H. destruct (N.ltb b (deep s + n)) eqn:E; [discriminate|].
  injection H as <-. cbn. apply N.ltb_ge in E. auto.
Qed.

(* soundness of the accounting: the AST below an accepted production is no deeper than what `deep`
   recorded, and `deep` never exceeds the budget *)
Definition sound (b : N) (s : pst) (r : res) : Prop :=
  match r with
  | Ok _ s' e _ => dp s' = dp s /\ deep s <= deep s' /\ deep s' <= b /\ dp s + adepth e <= deep s'
  | _ => True
  end.

Lemma postfix_sound : forall b ts s e hw d0,
  deep s <= b -> d0 + adepth e <= deep s ->
  match postfix (Some b) s ts e hw with
  | Ok _ s' e' _ => dp s' = dp s /\ deep s <= deep s' /\ deep s' <= b /\ d0 + adepth e' <= deep s'
  | _ => True
  end.
Proof.
  induction ts as [|t ts IH]; intros s e hw d0 Hb He; cbn [postfix].
  - repeat split; auto; lia.
  - destruct t; try solve [repeat split; auto; lia].
    destruct (push_down (Some b) s 1) as [s'|] eqn:P; [|exact I].
    apply push_down_some in P. destruct P as (P1 & P2 & P3).
    specialize (IH s' (AUn e) hw d0 P3). cbn [adepth] in IH.
    destruct (postfix (Some b) s' ts (AUn e) hw); auto.
    destruct IH as (A & B & C & D); [lia|]. repeat split; lia.
Qed.

Lemma go_S : forall ce f b tight s ts rec, go ce (S f) b tight s ts rec =
      if over b (dp s + ce) then Reject rec else
      let s1 := mkSt (dp s + ce) (dp s + ce) in
      let rec1 := N.succ rec in
      let head :=
        match ts with
        | TAtom :: t => postfix b s1 t ALeaf rec1
        | TPre :: t =>
            match go ce f b true s1 t rec1 with
            | Ok rest s2 e hw => Ok rest s2 (AUn e) hw
            | r => r
            end
        | TOpen :: t =>
            match go ce f b false s1 t rec1 with
            | Ok (TClose :: t') s2 e hw => postfix b s2 t' (AUn e) hw
            | Ok _ _ _ hw => Reject hw
            | r => r
            end
        | _ => Reject rec1
        end in
      let body :=
        match head with
        | Ok rest s2 e hw => if tight then head else loop ce f b s2 rest e hw rec1
        | r => r
        end in
      match body with
      | Ok rest s2 e hw => Ok rest (mkSt (dp s) (N.max (deep s2) (deep s))) e hw
      | r => r
      end.
Proof. reflexivity. Qed.

Lemma loop_S : forall ce f b s ts lhs hw rec, loop ce (S f) b s ts lhs hw rec =
      match ts with
      | TBin :: t =>
          match go ce f b true s t rec with
          | Ok rest s2 rhs hw' =>
              match push_down b s2 1 with
              | Some s3 => loop ce f b s3 rest (ABin lhs rhs) (N.max hw hw') rec
              | None => Reject (N.max hw hw')
              end
          | Reject hw' => Reject (N.max hw hw')
          | OutOfFuel => OutOfFuel
          end
      | _ => Ok ts s lhs hw
      end.
Proof. reflexivity. Qed.

Lemma sound_mut : forall ce, 1 <= ce -> forall fuel b,
  (forall tight s ts rec, deep s <= b -> sound b s (go ce fuel (Some b) tight s ts rec)) /\
  (forall s ts lhs hw rec d0, deep s <= b -> d0 <= dp s -> d0 + adepth lhs <= deep s ->
     match loop ce fuel (Some b) s ts lhs hw rec with
     | Ok _ s' e _ => dp s' = dp s /\ deep s <= deep s' /\ deep s' <= b /\ d0 + adepth e <= deep s'
     | _ => True
     end).
Proof.
  intros ce Hce. induction fuel as [|f IH]; intros b; split; intros; [exact I | exact I | rewrite go_S | rewrite loop_S].
  - (* go *)
    destruct (IH b) as [IHgo IHloop].
    unfold over. destruct (N.ltb b (dp s + ce)) eqn:E; [exact I|]. apply N.ltb_ge in E.
    cbv zeta. set (s1 := mkSt (dp s + ce) (dp s + ce)).
    assert (Hs1 : deep s1 <= b) by (cbn; lia).
    (* the head: a state s2 and an expression e with dp s + adepth e <= deep s2 *)
    pose (head := match ts with
        | TAtom :: t => postfix (Some b) s1 t ALeaf (N.succ rec)
        | TPre :: t => match go ce f (Some b) true s1 t (N.succ rec) with
                       | Ok rest s2 e hw => Ok rest s2 (AUn e) hw | r => r end
        | TOpen :: t => match go ce f (Some b) false s1 t (N.succ rec) with
                        | Ok (TClose :: t') s2 e hw => postfix (Some b) s2 t' (AUn e) hw
                        | Ok _ _ _ hw => Reject hw | r => r end
        | _ => Reject (N.succ rec) end).
    fold head.
    assert (Hhead : match head with
      | Ok _ s2 e _ => dp s2 = dp s1 /\ deep s1 <= deep s2 /\ deep s2 <= b /\ dp s + adepth e <= deep s2
      | _ => True end).
    { unfold head. destruct ts as [|[] t]; auto.
      - apply (postfix_sound b t s1 ALeaf (N.succ rec) (dp s)); auto. cbn. lia.
      - pose proof (IHgo false s1 t (N.succ rec) Hs1) as G.
        destruct (go ce f (Some b) false s1 t (N.succ rec)) as [rest s2 e hw|hw|]; auto.
        cbn [sound] in G. destruct G as (G1 & G2 & G3 & G4).
        destruct rest as [|[] t']; auto.
        pose proof (postfix_sound b t' s2 (AUn e) hw (dp s) G3) as P. cbn [adepth] in P.
        destruct (postfix (Some b) s2 t' (AUn e) hw); auto.
        destruct P as (P1 & P2 & P3 & P4); [cbn in G4; lia|]. repeat split; lia.
      - pose proof (IHgo true s1 t (N.succ rec) Hs1) as G.
        destruct (go ce f (Some b) true s1 t (N.succ rec)) as [rest s2 e hw|hw|]; auto.
        cbn [sound] in G. destruct G as (G1 & G2 & G3 & G4). cbn [adepth]. cbn in G4. repeat split; auto; lia. }
    destruct head as [rest s2 e hw|hw|]; auto.
    destruct Hhead as (H1 & H2 & H3 & H4). unfold s1 in *. cbn [dp deep] in *.
    destruct tight.
    + cbn [sound dp deep]. cbn in H2. repeat split; lia.
    + pose proof (IHloop s2 rest e hw (N.succ rec) (dp s) H3 ltac:(lia) H4) as L.
      destruct (loop ce f (Some b) s2 rest e hw (N.succ rec)) as [rest' s3 e' hw'|hw'|]; auto.
      cbn [sound dp deep]. destruct L as (L1 & L2 & L3 & L4). repeat split; lia.
  - (* loop *)
    destruct (IH b) as [IHgo IHloop].
    destruct ts as [|[] t]; try solve [repeat split; auto; lia].
    pose proof (IHgo true s t rec H) as G.
    destruct (go ce f (Some b) true s t rec) as [rest s2 rhs hw'|hw'|]; auto.
    cbn [sound] in G. destruct G as (G1 & G2 & G3 & G4).
    destruct (push_down (Some b) s2 1) as [s3|] eqn:P; auto.
    apply push_down_some in P. destruct P as (P1 & P2 & P3).
    pose proof (IHloop s3 rest (ABin lhs rhs) (N.max hw hw') rec d0 P3 ltac:(lia)) as L. cbn [adepth] in L.
    destruct (loop ce f (Some b) s3 rest (ABin lhs rhs) (N.max hw hw') rec); auto.
    destruct L as (L1 & L2 & L3 & L4); [lia|]. repeat split; lia.
Qed.

(* ---------- the recursion depth of an accepted or rejected parse is bounded by the budget ---------- *)
Definition hwinv (ce b : N) (s : pst) (r : res) : Prop :=
  match r with
  | Ok _ s' _ hw => dp s' = dp s /\ ce * hw <= b
  | Reject hw => ce * hw <= b
  | OutOfFuel => True
  end.

Lemma postfix_hw : forall ce b ts s e hw, ce * hw <= b -> hwinv ce b s (postfix (Some b) s ts e hw).
Proof.
  induction ts as [|t ts IH]; intros s e hw H; cbn [postfix hwinv]; auto.
  destruct t; cbn [hwinv]; auto.
  destruct (push_down (Some b) s 1) as [s'|] eqn:P; cbn [hwinv]; auto.
  apply push_down_some in P. destruct P as (P1 & _ & _).
  specialize (IH s' (AUn e) hw H). destruct (postfix (Some b) s' ts (AUn e) hw); cbn [hwinv] in *; auto.
  destruct IH. split; auto. congruence.
Qed.

Lemma hw_mut : forall ce fuel b,
  (forall tight s ts rec, ce * rec <= dp s -> dp s <= b -> hwinv ce b s (go ce fuel (Some b) tight s ts rec)) /\
  (forall s ts lhs hw rec, ce * rec <= dp s -> dp s <= b -> ce * hw <= b ->
     hwinv ce b s (loop ce fuel (Some b) s ts lhs hw rec)).
Proof.
  intros ce. induction fuel as [|f IH]; intros b; split; intros; [exact I | exact I | rewrite go_S | rewrite loop_S].
  - destruct (IH b) as [IHgo IHloop].
    unfold over. destruct (N.ltb b (dp s + ce)) eqn:E; [cbn [hwinv]; lia|]. apply N.ltb_ge in E.
    cbv zeta. set (s1 := mkSt (dp s + ce) (dp s + ce)).
    assert (R1 : ce * N.succ rec <= dp s1) by (cbn; lia).
    assert (B1 : dp s1 <= b) by (cbn; lia).
    pose (head := match ts with
        | TAtom :: t => postfix (Some b) s1 t ALeaf (N.succ rec)
        | TPre :: t => match go ce f (Some b) true s1 t (N.succ rec) with
                       | Ok rest s2 e hw => Ok rest s2 (AUn e) hw | r => r end
        | TOpen :: t => match go ce f (Some b) false s1 t (N.succ rec) with
                        | Ok (TClose :: t') s2 e hw => postfix (Some b) s2 t' (AUn e) hw
                        | Ok _ _ _ hw => Reject hw | r => r end
        | _ => Reject (N.succ rec) end).
    fold head.
    assert (Hhead : hwinv ce b s1 head).
    { unfold head. destruct ts as [|[] t]; cbn [hwinv]; try lia.
      - apply postfix_hw. lia.
      - pose proof (IHgo false s1 t (N.succ rec) R1 B1) as G.
        destruct (go ce f (Some b) false s1 t (N.succ rec)) as [rest s2 e hw|hw|]; cbn [hwinv] in *; auto.
        destruct G as [G1 G2]. destruct rest as [|[] t']; cbn [hwinv]; auto.
        pose proof (postfix_hw ce b t' s2 (AUn e) hw G2) as P.
        destruct (postfix (Some b) s2 t' (AUn e) hw); cbn [hwinv] in *; auto. destruct P. split; auto. congruence.
      - pose proof (IHgo true s1 t (N.succ rec) R1 B1) as G.
        destruct (go ce f (Some b) true s1 t (N.succ rec)) as [rest s2 e hw|hw|]; cbn [hwinv] in *; auto. }
    destruct head as [rest s2 e hw|hw|]; cbn [hwinv] in *; auto.
    destruct Hhead as [H1' H2'].
    destruct tight; cbn [hwinv dp]; auto.
    pose proof (IHloop s2 rest e hw (N.succ rec) ltac:(lia) ltac:(lia) H2') as L.
    destruct (loop ce f (Some b) s2 rest e hw (N.succ rec)); cbn [hwinv dp] in *; auto. destruct L; auto.
  - destruct (IH b) as [IHgo IHloop].
    destruct ts as [|[] t]; cbn [hwinv]; auto.
    pose proof (IHgo true s t rec H H0) as G.
    destruct (go ce f (Some b) true s t rec) as [rest s2 rhs hw'|hw'|]; cbn [hwinv] in *; try lia.
    destruct G as [G1 G2].
    destruct (push_down (Some b) s2 1) as [s3|] eqn:P; cbn [hwinv]; try lia.
    apply push_down_some in P. destruct P as (P1 & _ & _).
    pose proof (IHloop s3 rest (ABin lhs rhs) (N.max hw hw') rec ltac:(lia) ltac:(lia) ltac:(lia)) as L.
    destruct (loop ce f (Some b) s3 rest (ABin lhs rhs) (N.max hw hw') rec); cbn [hwinv] in *; auto.
    destruct L. split; auto. lia.
Qed.

(* ---------- top level: RETURN <expr> ---------- *)
Theorem accepted_ast_depth_le_budget : forall ce cq b ts rest s e hw, 1 <= ce ->
  parse_return ce cq (Some b) ts = Ok rest s e hw -> adepth e <= b.
Proof.
  intros ce cq b ts rest s e hw Hce H. unfold parse_return, over in H.
  destruct (N.ltb b cq) eqn:E; [discriminate|]. apply N.ltb_ge in E.
  pose proof (proj1 (sound_mut ce Hce (3 * length ts + 3) b) false (mkSt cq cq) ts 1 ltac:(cbn; lia)) as S.
  destruct (go ce (3 * length ts + 3) (Some b) false (mkSt cq cq) ts 1) as [rest' s' e' hw'|hw'|]; try discriminate.
  cbn [sound dp deep] in S. destruct S as (_ & _ & S3 & S4).
  destruct (push_down (Some b) s' 1); [|discriminate]. injection H as _ _ <- _. lia.
Qed.

Theorem recursion_depth_le_budget : forall ce cq b ts, ce <= cq ->
  ce * hw_of (parse_return ce cq (Some b) ts) <= b.
Proof.
  intros ce cq b ts Hc. unfold parse_return, over.
  destruct (N.ltb b cq) eqn:E; [cbn; lia|]. apply N.ltb_ge in E.
  pose proof (proj1 (hw_mut ce (3 * length ts + 3) b) false (mkSt cq cq) ts 1 ltac:(cbn; lia) ltac:(cbn; lia)) as G.
  destruct (go ce (3 * length ts + 3) (Some b) false (mkSt cq cq) ts 1) as [rest' s' e' hw'|hw'|]; cbn [hwinv hw_of] in *; try lia.
  destruct (push_down (Some b) s' 1); cbn [hw_of]; lia.
Qed.

(* ---------- the parser before the repair (no budget): regression witnesses ---------- *)
Lemma unguarded_paren_2000 : hw_of (parse_return 3 6 None (family 0 2000)) = 2002 /\ rejected (parse_return 3 6 None (family 0 2000)) = false.
Proof. vm_compute. auto. Qed.
Lemma unguarded_chain_ast_depth :
  match parse_return 3 6 None (TAtom :: concat (repeat [TBin; TAtom] 3000)) with
  | Ok _ _ e hw => adepth e = 3001 /\ hw = 3
  | _ => False
  end.
Proof. vm_compute. auto. Qed.
