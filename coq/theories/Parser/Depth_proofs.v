(* Parser/Depth_proofs.v — PROOFS about Parser/Depth.v *)
From Coq Require Import List NArith Bool Lia.
From NDB Require Import Parser.Depth.
Import ListNotations.
Open Scope N_scope.

(* With a guard, the recursion depth is bounded by a constant for ALL token streams. *)
Lemma guarded_bounded_mut : forall fuel limit,
  (forall tight d ts, d <= limit + 1 -> hw_of (go fuel (Some limit) tight d ts) <= limit + 1) /\
  (forall d ts hw, d <= limit -> hw <= limit + 1 -> hw_of (loop fuel (Some limit) d ts hw) <= limit + 1).
Proof.
  induction fuel as [|f IH]; intros limit; split; intros; cbn [go loop hw_of]; try lia.
  - destruct (IH limit) as [IHgo IHloop].
    unfold over. destruct (N.ltb limit d) eqn:E; cbn [hw_of]; [lia|].
    apply N.ltb_ge in E.
    destruct ts as [|[] t]; cbn [hw_of]; try lia.
    + destruct tight; cbn [hw_of]; [lia|]. apply IHloop; lia.
    + pose proof (IHgo false (N.succ d) t ltac:(lia)) as G.
      destruct (go f (Some limit) false (N.succ d) t) as [rest hw|hw|]; cbn [hw_of] in *; try lia.
      destruct rest as [|[] t']; cbn [hw_of]; try lia.
      destruct tight; cbn [hw_of]; [lia|]. apply IHloop; lia.
    + pose proof (IHgo true (N.succ d) t ltac:(lia)) as G.
      destruct (go f (Some limit) true (N.succ d) t) as [rest hw|hw|]; cbn [hw_of] in *; try lia.
      destruct tight; cbn [hw_of]; [lia|]. apply IHloop; lia.
  - destruct (IH limit) as [IHgo IHloop].
    destruct ts as [|[] t]; cbn [hw_of]; try lia.
    pose proof (IHgo true (N.succ d) t ltac:(lia)) as G.
    destruct (go f (Some limit) true (N.succ d) t) as [rest hw'|hw'|]; cbn [hw_of] in *; try lia.
    apply IHloop; lia.
Qed.

Theorem guarded_depth_bounded : forall limit ts,
  start_depth <= limit + 1 -> hw_of (depth_reached (Some limit) ts) <= limit + 1.
Proof. intros. unfold depth_reached. apply guarded_bounded_mut. assumption. Qed.

(* Without a guard the depth follows the nesting of the input: the probe of DESIGN §8 *)
Lemma unguarded_paren_2000 : depth_reached None (family 0 2000) = Ok [] 2002.
Proof. vm_compute. reflexivity. Qed.
Lemma unguarded_neg_3000 : depth_reached None (family 3 3000) = Ok [] 3002.
Proof. vm_compute. reflexivity. Qed.
(* ... while a left-deep operator chain does not recurse in the parser at all *)
Lemma chain_is_flat : depth_reached None (TAtom :: concat (repeat [TBin; TAtom] 1000)) = Ok [] 3.
Proof. vm_compute. reflexivity. Qed.

(* a guarded parser accepts shallow input unchanged and rejects deep input *)
Lemma guard_examples :
  depth_reached (Some 256) (family 0 100) = Ok [] 102 /\
  rejected (depth_reached (Some 256) (family 0 2000)) = true /\
  hw_of (depth_reached (Some 256) (family 0 2000)) = 257.
Proof. vm_compute. auto. Qed.
