(* Parser/Depth.v — MODEL of the recursion structure and of the depth budget of the expression
   parser (nervusdb-query/src/parser.rs: parse_expression_bp -> parse_prefix_expression ->
   parse_primary_expression -> parse_expression_bp ..., TokenParser::{nested, push_down}) over an
   abstract token stream.  The parser is modelled together with the AST it builds, so that the
   budget can be related to the depth of the AST (what planner, evaluator and Drop recurse over).

   tokens: TAtom  literal / variable / parameter
           TOpen  a production that parses a sub-expression one level down and then expects a
                  closing token: ( [ {k: f( CASE..THEN  (modelled as building one AST node)
           TClose the matching closer
           TPre   prefix operator (-, NOT): operand parsed one level down
           TBin   infix operator (one precedence class, left associative): right operand parsed
                  one level down with a higher minimum binding power, then the loop continues
           TPost  postfix step (.key, [index], :Label): wraps the expression parsed so far

   budget (fix 'limit the nesting depth ...'): `dp` = cost of the path from the root to the
   production being parsed, `deep` = deepest node below the innermost nested production.
     nested cost:   reject if dp + cost > b; else dp += cost, deep := dp, run, dp -= cost,
                    deep := max deep (outer deep)
     push_down n:   reject if deep + n > b; else deep += n
   b = None models the parser before the fix (no accounting at all). *)
From Coq Require Import List NArith Bool.
Import ListNotations.
Open Scope N_scope.

Inductive tok := TAtom | TOpen | TClose | TPre | TBin | TPost.
Inductive ast := ALeaf | AUn (a : ast) | ABin (l r : ast).
Fixpoint adepth (a : ast) : N :=
  match a with ALeaf => 1 | AUn a => 1 + adepth a | ABin l r => 1 + N.max (adepth l) (adepth r) end.

Record pst := mkSt { dp : N; deep : N }.
(* hw: high-water mark of the number of simultaneously active activations of parse_expression_bp *)
Inductive res := Ok (rest : list tok) (s : pst) (e : ast) (hw : N) | Reject (hw : N) | OutOfFuel.

Definition over (b : option N) (x : N) : bool := match b with Some l => N.ltb l x | None => false end.
Definition push_down (b : option N) (s : pst) (n : N) : option pst :=
  if over b (deep s + n) then None else Some (mkSt (dp s) (deep s + n)).

(* postfix chain after a primary expression (structural on the tokens) *)
Fixpoint postfix (b : option N) (s : pst) (ts : list tok) (e : ast) (hw : N) : res :=
  match ts with
  | TPost :: t => match push_down b s 1 with
                  | Some s' => postfix b s' t (AUn e) hw
                  | None => Reject hw
                  end
  | _ => Ok ts s e hw
  end.

Section Go.
Variable ce : N.    (* EXPRESSION_NESTING_COST *)

(* go: one activation of parse_expression_bp entered from state s, with `rec` activations already
   active (tight: minimum binding power above the infix class) *)
Fixpoint go (fuel : nat) (b : option N) (tight : bool) (s : pst) (ts : list tok) (rec : N) {struct fuel} : res :=
  match fuel with
  | O => OutOfFuel
  | S f =>
      if over b (dp s + ce) then Reject rec else
      let s1 := mkSt (dp s + ce) (dp s + ce) in
      let rec1 := N.succ rec in
      let head :=
        match ts with
        | TAtom :: t => postfix b s1 t ALeaf rec1
        | TPre :: t =>
            match go f b true s1 t rec1 with
            | Ok rest s2 e hw => Ok rest s2 (AUn e) hw
            | r => r
            end
        | TOpen :: t =>
            match go f b false s1 t rec1 with
            | Ok (TClose :: t') s2 e hw => postfix b s2 t' (AUn e) hw
            | Ok _ _ _ hw => Reject hw
            | r => r
            end
        | _ => Reject rec1
        end in
      let body :=
        match head with
        | Ok rest s2 e hw => if tight then head else loop f b s2 rest e hw rec1
        | r => r
        end in
      match body with
      | Ok rest s2 e hw => Ok rest (mkSt (dp s) (N.max (deep s2) (deep s))) e hw
      | r => r
      end
  end
with loop (fuel : nat) (b : option N) (s : pst) (ts : list tok) (lhs : ast) (hw : N) (rec : N) {struct fuel} : res :=
  match fuel with
  | O => OutOfFuel
  | S f =>
      match ts with
      | TBin :: t =>
          match go f b true s t rec with
          | Ok rest s2 rhs hw' =>
              match push_down b s2 1 with
              | Some s3 => loop f b s3 rest (ABin lhs rhs) (N.max hw hw') rec
              | None => Reject (N.max hw hw')
              end
          | Reject hw' => Reject (N.max hw hw')
          | OutOfFuel => OutOfFuel
          end
      | _ => Ok ts s lhs hw
      end
  end.
End Go.

Definition hw_of (r : res) : N := match r with Ok _ _ _ hw => hw | Reject hw => hw | OutOfFuel => 0 end.
Definition rejected (r : res) : bool := match r with Reject _ => true | _ => false end.

(* RETURN <expr> AS x: parse_query is one nested production (cost cq, one activation for the hook),
   then the expression; afterwards the clause is pushed down by one *)
Definition parse_return (ce cq : N) (b : option N) (ts : list tok) : res :=
  if over b cq then Reject 0 else
  match go ce (3 * length ts + 3) b false (mkSt cq cq) ts 1 with
  | Ok rest s e hw => match push_down b s 1 with Some s' => Ok rest s' e hw | None => Reject hw end
  | r => r
  end.

(* the nesting families of the harness (c16.rs NEST_KINDS), d levels *)
Definition family (kind : N) (d : nat) : list tok :=
  match kind with
  | 3 | 4 => repeat TPre d ++ [TAtom]                                  (* neg, not *)
  | 7 => repeat TOpen d ++ [TAtom; TPost] ++ repeat TClose d           (* x[ x[ .. ] ]: indexing is a postfix step whose operand is parsed one level
                                                                          down; TPost has no operand, so the family is d nested TOpen plus one postfix
                                                                          step at the innermost level: same recursion depth, same use of the budget *)
  | 8 => repeat TOpen d ++ [TOpen; TAtom; TClose] ++ repeat TClose d   (* list comprehension over a list literal *)
  | _ => repeat TOpen d ++ [TAtom] ++ repeat TClose d                  (* paren list map func case *)
  end.
