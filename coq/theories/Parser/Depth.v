(* Parser/Depth.v — MODEL of the recursion structure of the expression parser
   (nervusdb-query/src/parser.rs parse_expression_bp -> parse_prefix_expression ->
   parse_primary_expression -> parse_expression_bp ...) over an abstract token stream, with the
   recursion depth made explicit (the quantity the hook parser::verif_depth reports).

   tokens: TAtom  literal / variable / parameter
           TOpen  any production that parses a sub-expression one level down and then expects a
                  closing token: ( [ {k: f( CASE..THEN x[ [v IN
           TClose the matching closer
           TPre   prefix operator (-, +, NOT): operand parsed one level down
           TBin   infix operator (one precedence class, left associative): right operand parsed
                  one level down with a higher minimum binding power, then the loop continues
   `limit`: a nesting-depth guard (reject when the depth exceeds it).  The pinned parser has none
   (limit = None): its only guard, the "parser complexity guard", bounds the number of token
   advances (max(50000, 2048 * tokens)), not the depth. *)
From Coq Require Import List NArith Bool.
Import ListNotations.
Open Scope N_scope.

Inductive tok := TAtom | TOpen | TClose | TPre | TBin.
Inductive res := Ok (rest : list tok) (hw : N) | Reject (hw : N) | OutOfFuel.

Definition over (limit : option N) (d : N) : bool :=
  match limit with Some l => N.ltb l d | None => false end.

(* go: one activation of parse_expression_bp at depth d (tight: minimum binding power above the
   infix class: the activation does not consume infix operators) *)
Fixpoint go (fuel : nat) (limit : option N) (tight : bool) (d : N) (ts : list tok) {struct fuel} : res :=
  match fuel with
  | O => OutOfFuel
  | S f =>
      if over limit d then Reject d else
      let head :=
        match ts with
        | TAtom :: t => Ok t d
        | TPre :: t => go f limit true (N.succ d) t
        | TOpen :: t =>
            match go f limit false (N.succ d) t with
            | Ok (TClose :: t') hw => Ok t' hw
            | Ok _ hw => Reject hw
            | r => r
            end
        | _ => Reject d
        end in
      match head with
      | Ok rest hw => if tight then Ok rest hw else loop f limit d rest hw
      | r => r
      end
  end
with loop (fuel : nat) (limit : option N) (d : N) (ts : list tok) (hw : N) {struct fuel} : res :=
  match fuel with
  | O => OutOfFuel
  | S f =>
      match ts with
      | TBin :: t =>
          match go f limit true (N.succ d) t with
          | Ok rest hw' => loop f limit d rest (N.max hw hw')
          | Reject hw' => Reject (N.max hw hw')
          | OutOfFuel => OutOfFuel
          end
      | _ => Ok ts hw
      end
  end.

Definition hw_of (r : res) : N := match r with Ok _ hw => hw | Reject hw => hw | OutOfFuel => 0 end.

(* RETURN <expr>: parse_query is depth 1, the expression starts at depth 2 *)
Definition start_depth : N := 2.
Definition depth_reached (limit : option N) (ts : list tok) : res :=
  go (3 * length ts + 3) limit false start_depth ts.

(* the nesting families of the harness (c16.rs NEST_KINDS), d levels *)
Definition family (kind : N) (d : nat) : list tok :=
  match kind with
  | 3 | 4 => repeat TPre d ++ [TAtom]                                  (* neg, not *)
  | 8 => repeat TOpen d ++ [TOpen; TAtom; TClose] ++ repeat TClose d   (* list comprehension over a list literal *)
  | _ => repeat TOpen d ++ [TAtom] ++ repeat TClose d                  (* paren list map func case index *)
  end.

Definition rejected (r : res) : bool := match r with Reject _ => true | _ => false end.
