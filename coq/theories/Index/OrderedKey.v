(* Index/OrderedKey.v — model of nervusdb-storage/src/index/ordered_key.rs
   (encode_ordered_value, encode_index_key).  Executable definitions only.
   Tags and escape bytes come from Gen/Consts.v (regenerated from the source). *)
From NDB Require Export Base.Bytes Gen.Consts.
Open Scope N_scope.

(* The scalar kinds the property (C27) quantifies over.  Floats are IEEE-754
   binary64 bit patterns (u64); strings and blobs are byte sequences. *)
Inductive oval :=
| ONull
| OBool (b : bool)
| OInt (z : Z)
| OFloat (bits : N)
| OStr (s : bytes)
| ODateTime (z : Z)
| OBlob (s : bytes).

(* `if *f == 0.0 { 0.0f64.to_bits() } else { f.to_bits() }` *)
Definition norm_zero (bits : N) : N :=
  if (bits =? 0) || (bits =? two63) then 0 else bits.

(* `if bits & (1<<63) != 0 { !bits } else { bits ^ (1<<63) }` on u64 *)
Definition sortable (bits : N) : N :=
  if N.testbit bits 63 then N.lxor bits (N.ones 64) else N.lxor bits two63.

Definition esc_byte (b : N) : bytes :=
  if b =? 0 then [ok_esc_first; ok_esc_second] else [b].

Definition esc (s : bytes) : bytes :=
  flat_map esc_byte s ++ [ok_term_first; ok_term_second].

Definition enc_i64 (z : Z) : bytes := be 8 (N.lxor (u64_of_i64 z) two63).

Definition enc (v : oval) : bytes :=
  match v with
  | ONull => [ok_tag_null]
  | OBool b => [ok_tag_bool; if b then 1 else 0]
  | OInt z => ok_tag_int :: enc_i64 z
  | OFloat bits => ok_tag_float :: be 8 (sortable (norm_zero bits))
  | OStr s => ok_tag_string :: esc s
  | ODateTime z => ok_tag_datetime :: enc_i64 z
  | OBlob s => ok_tag_blob :: esc s
  end.

(* `[index_id: u32 BE][ordered_value][internal_node_id: u64 BE]` *)
Definition enc_index_key (index_id : N) (v : oval) (iid : N) : bytes :=
  be 4 index_id ++ enc v ++ be 8 iid.

(* ---- the value side of the property ---- *)

Definition is_nan (bits : N) : bool :=
  9218868437227405312 <? bits mod two63.   (* exponent all ones, mantissa non-zero *)

Definition wf (v : oval) : bool :=
  match v with
  | ONull | OBool _ => true
  | OInt z | ODateTime z => in_i64 z
  | OFloat bits => (bits <? two64) && negb (is_nan bits)
  | OStr s | OBlob s => wf_bytes s
  end.

(* numeric key of a non-NaN double: sign-magnitude, both zeros identified.
   The order of keys is the IEEE-754 order of the doubles (validated against
   f64::partial_cmp by the correspondence check; see DESIGN trusted base). *)
Definition fkey (bits : N) : Z :=
  if bits <? two63 then Z.of_N bits else (- Z.of_N (bits - two63))%Z.

Definition same_kind (a b : oval) : bool :=
  match a, b with
  | ONull, ONull | OBool _, OBool _ | OInt _, OInt _ | OFloat _, OFloat _
  | OStr _, OStr _ | ODateTime _, ODateTime _ | OBlob _, OBlob _ => true
  | _, _ => false
  end.

(* comparison of two values of the same kind (None across kinds) *)
Definition val_cmp (a b : oval) : option comparison :=
  match a, b with
  | ONull, ONull => Some Eq
  | OBool x, OBool y => Some (match x, y with false, true => Lt | true, false => Gt | _, _ => Eq end)
  | OInt x, OInt y => Some (x ?= y)%Z
  | ODateTime x, ODateTime y => Some (x ?= y)%Z
  | OFloat x, OFloat y => Some (fkey x ?= fkey y)%Z
  | OStr x, OStr y => Some (lex_cmp x y)
  | OBlob x, OBlob y => Some (lex_cmp x y)
  | _, _ => None
  end.

Definition val_lt (a b : oval) : Prop := val_cmp a b = Some Lt.
Definition val_eq (a b : oval) : Prop := val_cmp a b = Some Eq.
