(* Index/IndexKey_proofs.v — the composite B-tree key
   `[index_id: u32 BE][ordered_value][internal_node_id: u64 BE]` is ordered
   lexicographically by (index id, value, node id), for every index id below
   2^32, every well-formed pair of values of one kind and every node id below
   2^64; and two composite keys are equal only for equal values and ids. *)
From NDB Require Import Base.Bytes Base.Bytes_proofs Index.OrderedKey Index.OrderedKey_proofs.
From Coq Require Import Lia ZifyBool ZifyN ZifyNat.
Open Scope N_scope.

Lemma lex_gt_app_r l l' s t :
  lex_cmp l l' = Gt -> ~ proper_prefix l' l -> lex_cmp (l ++ s) (l' ++ t) = Gt.
Proof.
  intros H P. rewrite lex_cmp_antisym. rewrite (lex_lt_app_r l' l t s); auto.
  rewrite lex_cmp_antisym, H. reflexivity.
Qed.

(* the comparison of a ++ s with b ++ t when a, b come from a prefix-free code *)
Lemma lex_cmp_app_prefix_free a b s t :
  ~ proper_prefix a b -> ~ proper_prefix b a ->
  lex_cmp (a ++ s) (b ++ t) =
    match lex_cmp a b with Eq => lex_cmp s t | c => c end.
Proof.
  intros Pab Pba. destruct (lex_cmp a b) eqn:C.
  - apply lex_cmp_eq in C. subst b. apply lex_cmp_app_same.
  - now apply lex_lt_app_r.
  - now apply lex_gt_app_r.
Qed.

Lemma be_cmp n x y :
  x < 256 ^ N.of_nat n -> y < 256 ^ N.of_nat n -> lex_cmp (be n x) (be n y) = (x ?= y).
Proof.
  intros Hx Hy. destruct (N.compare_spec x y) as [->|H|H].
  - apply lex_cmp_refl.
  - now apply be_lt_mono.
  - rewrite lex_cmp_antisym, be_lt_mono; auto.
Qed.

Definition key_cmp (i : N) (c : comparison) (n : N) (j m : N) : comparison :=
  match i ?= j with
  | Eq => match c with Eq => n ?= m | c => c end
  | c' => c'
  end.

Theorem index_key_cmp i j a b n m c :
  i < two32 -> j < two32 -> n < two64 -> m < two64 ->
  wf a = true -> wf b = true -> val_cmp a b = Some c ->
  lex_cmp (enc_index_key i a n) (enc_index_key j b m) = key_cmp i c n j m.
Proof.
  intros Hi Hj Hn Hm Wa Wb V. unfold enc_index_key, key_cmp.
  rewrite lex_cmp_app_prefix_free
    by (apply proper_prefix_same_length; now rewrite !be_length).
  rewrite be_cmp by (change (256 ^ N.of_nat 4) with two32; assumption).
  destruct (i ?= j); try reflexivity.
  rewrite lex_cmp_app_prefix_free by apply enc_prefix_free.
  rewrite (enc_cmp a b c Wa Wb V).
  destruct c; try reflexivity.
  apply be_cmp; change (256 ^ N.of_nat 8) with two64; assumption.
Qed.

(* equal values: the node id breaks the tie, so the entries of one value are
   contiguous and ordered by node id *)
Theorem index_key_tie_order i a b n m :
  i < two32 -> n < two64 -> m < two64 ->
  wf a = true -> wf b = true -> val_eq a b -> n < m ->
  lex_lt (enc_index_key i a n) (enc_index_key i b m).
Proof.
  intros Hi Hn Hm Wa Wb V L. unfold lex_lt.
  rewrite (index_key_cmp i i a b n m Eq) by assumption.
  unfold key_cmp. rewrite N.compare_refl. now apply N.compare_lt_iff.
Qed.

(* keys of a smaller index id come first whatever the values: index trees
   sharing one B-tree never interleave *)
Theorem index_key_index_order i j a b n m :
  i < j -> j < two32 ->
  lex_lt (enc_index_key i a n) (enc_index_key j b m).
Proof.
  intros L Hj. unfold lex_lt, enc_index_key.
  apply lex_lt_app_r.
  - apply be_lt_mono; [exact L|exact Hj].
  - apply proper_prefix_same_length. now rewrite !be_length.
Qed.

Lemma app_prefix_free_inj a b s t :
  ~ proper_prefix a b -> ~ proper_prefix b a -> a ++ s = b ++ t -> a = b /\ s = t.
Proof.
  revert b; induction a as [|x a IH]; intros [|y b] Pab Pba E; cbn in *.
  - auto.
  - exfalso. apply Pab. exists (y :: b). split; [discriminate|reflexivity].
  - exfalso. apply Pba. exists (x :: a). split; [discriminate|reflexivity].
  - injection E as -> E. destruct (IH b) as [-> ->]; auto.
    + intros [u [Hu Eu]]. apply Pab. exists u. split; auto. now rewrite Eu.
    + intros [u [Hu Eu]]. apply Pba. exists u. split; auto. now rewrite Eu.
Qed.

(* a composite key determines its index id, its value (up to value equality,
   i.e. 0.0 = -0.0) and its node id *)
Theorem index_key_inj i j a b n m :
  i < two32 -> j < two32 -> n < two64 -> m < two64 ->
  wf a = true -> wf b = true ->
  enc_index_key i a n = enc_index_key j b m -> i = j /\ val_eq a b /\ n = m.
Proof.
  intros Hi Hj Hn Hm Wa Wb E. unfold enc_index_key in E.
  apply app_prefix_free_inj in E as [Ei E];
    try (apply proper_prefix_same_length; now rewrite !be_length).
  apply app_prefix_free_inj in E as [Ev En]; try apply enc_prefix_free.
  split; [|split].
  - apply (be_inj 4); auto.
  - now apply enc_eq_iff.
  - apply (be_inj 8); auto.
Qed.

(* non-vacuity *)
Example index_key_examples :
  lex_cmp (enc_index_key 3 (OFloat 9223372036854775808) 7) (enc_index_key 3 (OFloat 0) 9) = Lt /\
  lex_cmp (enc_index_key 2 (OStr [255]) 7) (enc_index_key 3 ONull 0) = Lt /\
  enc_index_key 1 (OStr [97; 0]) 5 <> enc_index_key 1 (OStr [97]) 5.
Proof. vm_compute. intuition congruence. Qed.
