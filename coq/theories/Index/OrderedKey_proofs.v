(* Index/OrderedKey_proofs.v — order, equality and prefix-freeness of the
   ordered key encoding, for all i64, booleans, byte strings and non-NaN
   doubles. *)
From NDB Require Import Base.Bytes Base.Bytes_proofs Index.OrderedKey.
From Coq Require Import Lia ZifyBool ZifyN ZifyNat.
Ltac Zify.zify_post_hook ::= Z.div_mod_to_equations.
Open Scope N_scope.

(* facts about the generated constants; a source change that breaks one of
   them breaks the proofs below *)
Lemma tags_distinct :
  NoDup [ok_tag_null; ok_tag_bool; ok_tag_int; ok_tag_float; ok_tag_string;
         ok_tag_datetime; ok_tag_blob].
Proof. repeat constructor; cbn; intuition discriminate. Qed.

Lemma esc_consts :
  ok_esc_first = 0 /\ ok_term_first = 0 /\ ok_term_second < ok_esc_second /\
  ok_esc_second < 256 /\ ok_term_second = 0.
Proof. vm_compute. intuition congruence. Qed.

(* ---- integers ---- *)

Lemma enc_i64_cmp x y :
  in_i64 x = true -> in_i64 y = true ->
  lex_cmp (enc_i64 x) (enc_i64 y) = (x ?= y)%Z.
Proof.
  intros Hx Hy. unfold enc_i64. rewrite !u64_of_i64_shift by assumption.
  unfold in_i64 in *.
  assert (B : forall z, (-9223372036854775808 <= z < 9223372036854775808)%Z ->
                        Z.to_N (z + 9223372036854775808) < 256 ^ N.of_nat 8)
    by (intros z Hz; change (256 ^ N.of_nat 8) with 18446744073709551616; lia).
  destruct (Z.compare_spec x y) as [->|H|H].
  - apply lex_cmp_refl.
  - apply be_lt_mono; [lia|apply B; lia].
  - rewrite lex_cmp_antisym. rewrite be_lt_mono; [reflexivity|lia|apply B; lia].
Qed.

(* ---- floats ---- *)

Lemma testbit63 bits : bits < two64 -> N.testbit bits 63 = (two63 <=? bits).
Proof.
  intros H. destruct (N.leb_spec two63 bits) as [L|L].
  - apply N.testbit_true. change (2 ^ 63) with two63.
    assert (bits / two63 = 1) by (unfold two63, two64 in *; lia).
    rewrite H0. reflexivity.
  - apply N.testbit_false. change (2 ^ 63) with two63. rewrite N.div_small by assumption. reflexivity.
Qed.

(* the sortable image as arithmetic on the sign-magnitude key *)
Lemma sortable_spec bits :
  bits < two64 ->
  sortable bits = if two63 <=? bits then two64 - 1 - bits else bits + two63.
Proof.
  intros H. unfold sortable. rewrite testbit63 by assumption.
  destruct (N.leb_spec two63 bits).
  - now apply lnot64.
  - now apply lxor_two63_low.
Qed.

Lemma norm_zero_lt bits : bits < two64 -> norm_zero bits < two64.
Proof. unfold norm_zero, two64. destruct (_ || _); lia. Qed.

Lemma fkey_norm bits : fkey (norm_zero bits) = fkey bits.
Proof.
  unfold norm_zero, fkey, two63.
  destruct (N.eqb_spec bits 0) as [->|]; [reflexivity|].
  destruct (N.eqb_spec bits 9223372036854775808) as [->|]; reflexivity.
Qed.

(* after normalisation, the sortable image is an increasing function of fkey *)
Lemma sortable_norm_key bits :
  bits < two64 ->
  Z.of_N (sortable (norm_zero bits)) =
  (if (fkey bits <? 0)%Z then fkey bits + 9223372036854775807
   else fkey bits + 9223372036854775808)%Z.
Proof.
  intros H. rewrite sortable_spec by now apply norm_zero_lt.
  unfold norm_zero, fkey, two63, two64 in *.
  destruct (N.eqb_spec bits 0) as [->|N0]; [reflexivity|].
  destruct (N.eqb_spec bits 9223372036854775808) as [->|N1]; [reflexivity|].
  cbn [orb].
  destruct (N.leb_spec 9223372036854775808 bits);
    destruct (N.ltb_spec bits 9223372036854775808); try lia.
  - destruct (Z.ltb_spec (- Z.of_N (bits - 9223372036854775808)) 0); lia.
  - destruct (Z.ltb_spec (Z.of_N bits) 0); lia.
Qed.

Lemma fkey_range bits :
  bits < two64 -> (- 9223372036854775808 < fkey bits < 9223372036854775808)%Z.
Proof.
  intros H. unfold fkey, two63, two64 in *.
  destruct (N.ltb_spec bits 9223372036854775808); lia.
Qed.

Lemma shifted_key_lt (k : Z) (s : N) :
  (- 9223372036854775808 < k < 9223372036854775808)%Z ->
  Z.of_N s = (if (k <? 0)%Z then k + 9223372036854775807 else k + 9223372036854775808)%Z ->
  s < 18446744073709551616.
Proof. intros K E. destruct (Z.ltb_spec k 0); lia. Qed.

Lemma sortable_lt_two64 bits : bits < two64 -> sortable (norm_zero bits) < two64.
Proof.
  intros H. exact (shifted_key_lt _ _ (fkey_range bits H) (sortable_norm_key bits H)).
Qed.

Lemma enc_float_cmp x y :
  x < two64 -> y < two64 ->
  lex_cmp (be 8 (sortable (norm_zero x))) (be 8 (sortable (norm_zero y))) = (fkey x ?= fkey y)%Z.
Proof.
  intros Hx Hy.
  pose proof (sortable_norm_key x Hx) as Ex. pose proof (sortable_norm_key y Hy) as Ey.
  pose proof (sortable_lt_two64 x Hx) as Bx. pose proof (sortable_lt_two64 y Hy) as By.
  change two64 with (256 ^ N.of_nat 8) in Bx, By.
  set (sx := sortable (norm_zero x)) in *. set (sy := sortable (norm_zero y)) in *.
  destruct (Z.compare_spec (fkey x) (fkey y)) as [E|L|L].
  - assert (sx = sy) as -> by (rewrite E in Ex; lia). apply lex_cmp_refl.
  - apply be_lt_mono; auto.
    destruct (Z.ltb_spec (fkey x) 0); destruct (Z.ltb_spec (fkey y) 0); lia.
  - rewrite lex_cmp_antisym, be_lt_mono; auto.
    destruct (Z.ltb_spec (fkey x) 0); destruct (Z.ltb_spec (fkey y) 0); lia.
Qed.

(* ---- strings / blobs ---- *)

Lemma esc_cons b s : esc (b :: s) = esc_byte b ++ esc s.
Proof. unfold esc. cbn [flat_map]. now rewrite app_assoc. Qed.

Lemma esc_nil : esc [] = [ok_term_first; ok_term_second].
Proof. reflexivity. Qed.

Lemma esc_cmp a b :
  wf_bytes a = true -> wf_bytes b = true -> lex_cmp (esc a) (esc b) = lex_cmp a b.
Proof.
  destruct esc_consts as (E1 & T1 & LT & _ & T2).
  revert b; induction a as [|x a IH]; intros [|y b] Wa Wb.
  - apply lex_cmp_refl.
  - rewrite esc_nil, esc_cons. unfold esc_byte. cbn [lex_cmp].
    destruct (N.eqb_spec y 0) as [->|Hy].
    + cbn [app lex_cmp]. rewrite T1, E1, N.compare_refl.
      apply N.compare_lt_iff in LT. now rewrite LT.
    + cbn [app lex_cmp]. rewrite T1. assert (0 < y) as L by lia.
      apply N.compare_lt_iff in L. now rewrite L.
  - rewrite esc_nil, esc_cons. unfold esc_byte. cbn [lex_cmp].
    destruct (N.eqb_spec x 0) as [->|Hx].
    + cbn [app lex_cmp]. rewrite T1, E1, N.compare_refl.
      apply N.compare_gt_iff in LT. now rewrite LT.
    + cbn [app lex_cmp]. rewrite T1. assert (0 < x) as L by lia.
      apply N.compare_gt_iff in L. now rewrite L.
  - cbn in Wa, Wb. apply andb_true_iff in Wa as [_ Wa], Wb as [_ Wb].
    rewrite !esc_cons. unfold esc_byte.
    destruct (N.eqb_spec x 0) as [->|Hx]; destruct (N.eqb_spec y 0) as [->|Hy]; cbn [app lex_cmp].
    + rewrite !N.compare_refl. now apply IH.
    + rewrite E1. assert (0 < y) as L by lia. apply N.compare_lt_iff in L. now rewrite L.
    + rewrite E1. assert (0 < x) as L by lia. apply N.compare_gt_iff in L. now rewrite L.
    + destruct (x ?= y); auto.
Qed.

Lemma esc_byte_cases b :
  (b = 0 /\ esc_byte b = [0; 255]) \/ (b <> 0 /\ esc_byte b = [b]).
Proof. unfold esc_byte. destruct (N.eqb_spec b 0); [left|right]; auto. Qed.

Lemma esc_not_proper_prefix a b : ~ proper_prefix (esc a) (esc b).
Proof.
  revert b; induction a as [|x a IH]; intros b [t [Ht E]].
  - rewrite esc_nil in E. change [ok_term_first; ok_term_second] with [0; 0] in E.
    destruct b as [|y b].
    + rewrite esc_nil in E. change [ok_term_first; ok_term_second] with [0; 0] in E.
      injection E as E. now subst t.
    + rewrite esc_cons in E.
      destruct (esc_byte_cases y) as [[-> Ey]|[Hy Ey]]; rewrite Ey in E; injection E as Ea Eb; try lia; discriminate.
  - rewrite esc_cons in E. destruct b as [|y b].
    + rewrite esc_nil in E. change [ok_term_first; ok_term_second] with [0; 0] in E.
      destruct (esc_byte_cases x) as [[-> Ex]|[Hx Ex]]; rewrite Ex in E; injection E as Ea Eb; try lia; discriminate.
    + rewrite esc_cons in E.
      destruct (esc_byte_cases x) as [[-> Ex]|[Hx Ex]]; rewrite Ex in E;
        destruct (esc_byte_cases y) as [[-> Ey]|[Hy Ey]]; rewrite Ey in E; cbn [app] in E.
      * injection E as E. apply (IH b). exists t. auto.
      * injection E as Ea Eb. lia.
      * injection E as Ea Eb. lia.
      * injection E as Ea Eb. apply (IH b). exists t. auto.
Qed.

(* ---- the three statements, for all well-formed values ---- *)

Lemma cmp_tag_cons t a b : lex_cmp (t :: a) (t :: b) = lex_cmp a b.
Proof. cbn. now rewrite N.compare_refl. Qed.

Theorem enc_cmp a b c :
  wf a = true -> wf b = true -> val_cmp a b = Some c -> lex_cmp (enc a) (enc b) = c.
Proof.
  destruct a, b; cbn [val_cmp wf enc]; try discriminate; intros Wa Wb E; injection E as <-.
  - apply lex_cmp_refl.
  - rewrite cmp_tag_cons. destruct b, b0; reflexivity.
  - rewrite cmp_tag_cons. now apply enc_i64_cmp.
  - rewrite cmp_tag_cons. apply andb_true_iff in Wa as [Wa _], Wb as [Wb _].
    apply enc_float_cmp; lia.
  - rewrite cmp_tag_cons. now apply esc_cmp.
  - rewrite cmp_tag_cons. now apply enc_i64_cmp.
  - rewrite cmp_tag_cons. now apply esc_cmp.
Qed.

Theorem enc_lt a b :
  wf a = true -> wf b = true -> val_lt a b -> lex_lt (enc a) (enc b).
Proof. intros Wa Wb H. exact (enc_cmp a b Lt Wa Wb H). Qed.

Lemma tag_of_enc a : exists t r, enc a = t :: r /\
  t = match a with ONull => ok_tag_null | OBool _ => ok_tag_bool | OInt _ => ok_tag_int
      | OFloat _ => ok_tag_float | OStr _ => ok_tag_string | ODateTime _ => ok_tag_datetime
      | OBlob _ => ok_tag_blob end.
Proof. destruct a; cbn; eauto. Qed.

Lemma enc_same_kind a b : same_kind a b = false -> hd 0 (enc a) <> hd 0 (enc b).
Proof. destruct a, b; cbn; intros H; try discriminate; vm_compute; discriminate. Qed.

Theorem enc_eq_iff a b :
  wf a = true -> wf b = true -> (val_eq a b <-> enc a = enc b).
Proof.
  intros Wa Wb. unfold val_eq. split.
  - intros H. apply lex_cmp_eq. now apply enc_cmp.
  - intros E. destruct (val_cmp a b) as [c|] eqn:V.
    + pose proof (enc_cmp a b c Wa Wb V) as L. rewrite E, lex_cmp_refl in L. now subst.
    + exfalso. assert (same_kind a b = false) by (destruct a, b; cbn in *; congruence).
      apply enc_same_kind in H. now rewrite E in H.
Qed.

Theorem enc_prefix_free a b : ~ proper_prefix (enc a) (enc b).
Proof.
  intros P. destruct (same_kind a b) eqn:K.
  - destruct a, b; try discriminate; cbn [enc] in P;
      try (apply proper_prefix_same_length in P; [exact P|cbn; now rewrite ?be_length]);
      apply proper_prefix_cons in P as [_ P]; now apply esc_not_proper_prefix in P.
  - apply enc_same_kind in K. destruct P as [t [_ E]].
    destruct (tag_of_enc a) as (ta & ra & Ea & _). rewrite Ea in *.
    rewrite E in K. cbn in K. congruence.
Qed.

Lemma lex_lt_app_r l l' s t :
  lex_cmp l l' = Lt -> ~ proper_prefix l l' -> lex_cmp (l ++ s) (l' ++ t) = Lt.
Proof.
  revert l'; induction l as [|x l IH]; intros [|y l']; cbn [lex_cmp app]; try discriminate.
  - intros _ P. exfalso. apply P. exists (y :: l'). split; [discriminate|reflexivity].
  - destruct (x ?= y) eqn:C; try discriminate; auto.
    apply N.compare_eq in C; subst y. intros H P. apply IH; auto.
    intros [u [Hu E]]. apply P. exists u. split; auto. cbn. now rewrite E.
Qed.

(* composite keys: ordered by index id, then value, then node id *)
Theorem index_key_value_order i a b n m :
  wf a = true -> wf b = true -> val_lt a b ->
  lex_lt (enc_index_key i a n) (enc_index_key i b m).
Proof.
  intros Wa Wb L. unfold enc_index_key, lex_lt. rewrite lex_cmp_app_same.
  pose proof (enc_lt a b Wa Wb L) as H. unfold lex_lt in H.
  apply lex_lt_app_r; [exact H|apply enc_prefix_free].
Qed.

(* non-vacuity: well-formed values of every kind exist and are compared *)
Example wf_examples :
  wf (OFloat 9223372036854775808) = true /\ wf (OFloat 0) = true /\
  val_eq (OFloat 9223372036854775808) (OFloat 0) /\
  enc (OFloat 9223372036854775808) = enc (OFloat 0) /\
  val_lt (OInt (-1)) (OInt 0) /\ val_lt (OStr [97]) (OStr [97; 0]) /\
  val_lt (OFloat 18442240474082181120 (* -inf *)) (OFloat 9218868437227405312 (* +inf *)).
Proof. vm_compute. intuition congruence. Qed.
