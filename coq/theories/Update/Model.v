(* Update/Model.v — reference semantics of the Cypher update clauses as the engine executes them
   (nervusdb-query executor: create_delete_ops.rs, write_path.rs, merge_execution.rs,
   merge_helpers.rs; counters = the u32 returned by PreparedQuery::execute_write).
   Model file: executable definitions only.

   A statement is given in ALREADY-EVALUATED form: the list of input rows of the update
   clause (what the MATCH / UNWIND prefix produced), each row carrying the node ids and the
   property values / maps / label lists the clause's expressions evaluate to.  The model is
   about the update semantics, not about expression evaluation or matching.

   Graph (Update/Graph in the plan; kept in this file): nodes id -> (labels, properties);
   relationships identified as the storage does, by (src, type, dst), with a multiplicity and
   ONE property map per key.  Labels, types and property names are numbers.
   Property values: null, bool, int, float (bit pattern), string = OrderedKey.oval without
   datetime/blob. *)
From NDB Require Export Base.Bytes Index.OrderedKey IndexSem.Model.
Open Scope N_scope.

(* derive(PartialEq) on PropertyValue: used by SET n = map / += (skip unchanged keys) and by
   MERGE matching.  Floats: IEEE (NaN <> NaN, +0 = -0). *)
Definition pv_eq (a b : oval) : bool :=
  match a, b with
  | ONull, ONull => true
  | OBool x, OBool y => Bool.eqb x y
  | OInt x, OInt y => Z.eqb x y
  | OFloat x, OFloat y => negb (is_nan x) && negb (is_nan y) && Z.eqb (fkey x) (fkey y)
  | OStr x, OStr y => bytes_eqb x y
  | _, _ => false
  end.

Record gnode := mkG { g_labels : list N; g_props : props }.
Definition rkey := (N * N * N)%type.
Definition rkey_eqb (a b : rkey) : bool :=
  let '(a1, a2, a3) := a in let '(b1, b2, b3) := b in (a1 =? b1) && (a2 =? b2) && (a3 =? b3).

Record graph := mkGraph {
  gn : list (N * gnode);                 (* live nodes, ascending id *)
  gr : list (rkey * (N * props));        (* relationship key -> (multiplicity >= 1, properties) *)
  gnext : N;                             (* next internal node id (ids are never reused) *)
  gcat : list N                          (* labels known to the catalog (REMOVE n:L counts only these) *)
}.
Definition g0 : graph := mkGraph [] [] 0 [].

Fixpoint nfind (id : N) (l : list (N * gnode)) : option gnode :=
  match l with [] => None | (i, n) :: t => if i =? id then Some n else nfind id t end.
Fixpoint nmap (id : N) (f : gnode -> gnode) (l : list (N * gnode)) : list (N * gnode) :=
  match l with [] => [] | (i, n) :: t => if i =? id then (i, f n) :: t else (i, n) :: nmap id f t end.
Definition nupd (g : graph) (id : N) (f : gnode -> gnode) : graph :=
  mkGraph (nmap id f (gn g)) (gr g) (gnext g) (gcat g).
Definition nprops (g : graph) (id : N) : props :=
  match nfind id (gn g) with Some n => g_props n | None => [] end.

Definition mem (x : N) (l : list N) : bool := existsb (N.eqb x) l.
Definition add_label (l : N) (ls : list N) : list N := if mem l ls then ls else ls ++ [l].
Definition add_cat (ls : list N) (c : list N) : list N := fold_left (fun c l => add_label l c) ls c.
Definition has_key (k : N) (m : props) : bool := match pget k m with Some _ => true | None => false end.
Definition set_all (m : props) (sets : list (N * oval)) : props := fold_left (fun m kv => pset (fst kv) (snd kv) m) sets m.

Fixpoint dedupN_acc (seen l : list N) : list N :=
  match l with [] => [] | x :: t => if mem x seen then dedupN_acc seen t else x :: dedupN_acc (x :: seen) t end.
Definition dedupN (l : list N) : list N := dedupN_acc [] l.
Fixpoint dedup_keys_acc (seen l : list rkey) : list rkey :=
  match l with
  | [] => []
  | x :: t => if existsb (rkey_eqb x) seen then dedup_keys_acc seen t else x :: dedup_keys_acc (x :: seen) t
  end.
Definition dedup_keys (l : list rkey) : list rkey := dedup_keys_acc [] l.

(* ---------- statements ---------- *)
Inductive stmt :=
| UCreateNode (rows : list (list N * list (N * oval)))          (* CREATE (:l1:l2 {k: v, ...}) per row *)
| UCreateRel (rows : list (N * N * N * list (N * oval)))        (* CREATE (a)-[:t {..}]->(b), a b bound *)
| USetProp (rows : list (N * N * oval))                         (* SET n.k = v *)
| URemoveProp (rows : list (N * N))                             (* REMOVE n.k *)
| USetMap (rows : list (N * bool * list (N * oval)))            (* SET n = map (false) / n += map (true) *)
| USetLabels (rows : list (N * list N))                         (* SET n:l1:l2 *)
| URemoveLabels (rows : list (N * list N))                      (* REMOVE n:l1:l2 *)
| UDelete (detach : bool) (ids : list N)                        (* [DETACH] DELETE n, one target per row *)
| UDeleteRel (keys : list rkey)                                 (* DELETE r *)
| UMergeNode (rows : list (list N * list (N * oval) * list (N * oval) * list (N * oval)))
| USetRelProp (rows : list (rkey * N * oval))                   (* MATCH (a)-[r]->(b) SET r.k = v, one row per parallel relationship *)
| UMergeRel (rows : list (rkey * N * list (N * oval) * list (N * oval) * list (N * oval)))
| USetRelMap (rows : list (rkey * bool * list (N * oval)))      (* SET r = map (false) / r += map (true) *)
| URemoveRelProp (rows : list (rkey * N))                       (* REMOVE r.k *)
| UChain (clauses : list stmt).                                 (* several SET / REMOVE clauses in ONE statement (execute_mixed):
                                                                   every clause sees the rows as the earlier clauses left them;
                                                                   each node / relationship occurs in at most one row *)
                                                                (* MATCH (a),(b) MERGE (a)-[r:t {ps}]->(b) ON CREATE SET oc ON MATCH SET om *)
                                                                (* MERGE (n:ls {ps}) ON CREATE SET oc ON MATCH SET om *)

Inductive outcome := Done (g : graph) (count : N) | Failed.

(* all reads of "what existed" go to the PRE-statement graph `pre` (the executor reads the
   snapshot taken before the statement); writes accumulate in `g` *)
Definition set_prop_row (pre : graph) (acc : graph * N) (r : N * N * oval) : graph * N :=
  let '(g, c) := acc in let '(id, k, v) := r in
  match v with
  | ONull => (nupd g id (fun n => mkG (g_labels n) (pdel k (g_props n))),
              if has_key k (nprops pre id) then c + 1 else c)
  | _ => (nupd g id (fun n => mkG (g_labels n) (pset k v (g_props n))), c + 1)
  end.

Definition remove_prop_row (pre : graph) (acc : graph * N) (r : N * N) : graph * N :=
  let '(g, c) := acc in let '(id, k) := r in
  (nupd g id (fun n => mkG (g_labels n) (pdel k (g_props n))),
   if has_key k (nprops pre id) then c + 1 else c).

(* target map of SET n = m / n += m *)
Definition map_target (existing : props) (append : bool) (m : list (N * oval)) : props :=
  set_all (if append then existing else []) m.
Definition set_map_row (pre : graph) (acc : graph * N) (r : N * bool * list (N * oval)) : graph * N :=
  let '(g, c) := acc in let '(id, append, m) := r in
  let existing := nprops pre id in
  let target := map_target existing append m in
  let removed := filter (fun kv => negb (has_key (fst kv) target)) existing in
  let changed := filter (fun kv => match pget (fst kv) existing with
                                   | Some w => negb (pv_eq w (snd kv))
                                   | None => true end) target in
  (nupd g id (fun n => mkG (g_labels n)
                           (set_all (fold_left (fun p kv => pdel (fst kv) p) removed (g_props n)) changed)),
   c + N.of_nat (length removed) + N.of_nat (length changed)).

Definition set_labels_row (acc : graph * N) (r : N * list N) : graph * N :=
  let '(g, c) := acc in let '(id, ls) := r in
  let g' := nupd g id (fun n => mkG (fold_left (fun acc l => add_label l acc) ls (g_labels n)) (g_props n)) in
  (mkGraph (gn g') (gr g') (gnext g') (add_cat ls (gcat g')), c + N.of_nat (length ls)).

Definition remove_labels_row (pre : graph) (acc : graph * N) (r : N * list N) : graph * N :=
  let '(g, c) := acc in let '(id, ls) := r in
  let known := filter (fun l => mem l (gcat pre)) ls in
  (nupd g id (fun n => mkG (filter (fun x => negb (mem x known)) (g_labels n)) (g_props n)),
   c + N.of_nat (length known)).

Definition create_node_row (acc : graph * N) (r : list N * list (N * oval)) : graph * N :=
  let '(g, c) := acc in let '(ls, ps) := r in
  (mkGraph (gn g ++ [(gnext g, mkG (fold_left (fun acc l => add_label l acc) ls []) (set_all [] ps))])
           (gr g) (gnext g + 1) (add_cat ls (gcat g)), c + 1).

(* CREATE skips a property whose value is null (it does not remove an existing one) *)
Definition non_null (ps : list (N * oval)) : list (N * oval) :=
  filter (fun kv => match snd kv with ONull => false | _ => true end) ps.
Fixpoint rel_add (k : rkey) (ps : list (N * oval)) (l : list (rkey * (N * props))) : list (rkey * (N * props)) :=
  match l with
  | [] => [(k, (1, set_all [] (non_null ps)))]
  | (k', (m, p)) :: t => if rkey_eqb k' k then (k', (m + 1, set_all p (non_null ps))) :: t else (k', (m, p)) :: rel_add k ps t
  end.
Definition create_rel_row (acc : graph * N) (r : N * N * N * list (N * oval)) : graph * N :=
  let '(g, c) := acc in let '(s, t, d, ps) := r in
  (mkGraph (gn g) (rel_add (s, t, d) ps (gr g)) (gnext g) (gcat g), c + 1).

Definition incident (id : N) (k : rkey) : bool := let '(s, _, d) := k in (s =? id) || (d =? id).
Definition incident_keys (g : graph) (id : N) : list rkey :=
  map fst (filter (fun e => incident id (fst e)) (gr g)).

Definition delete_nodes (pre : graph) (detach : bool) (ids : list N) : outcome :=
  let targets := dedupN ids in
  let keys := flat_map (incident_keys pre) targets in
  let dkeys := dedup_keys keys in
  if negb detach && negb (match keys with [] => true | _ => false end) then Failed
  else
    Done (mkGraph (filter (fun e => negb (mem (fst e) targets)) (gn pre))
                  (filter (fun e => negb (existsb (rkey_eqb (fst e)) dkeys)) (gr pre))
                  (gnext pre) (gcat pre))
         (N.of_nat (length dkeys) + N.of_nat (length targets)).

Definition delete_rels (pre : graph) (keys : list rkey) : outcome :=
  let dkeys := dedup_keys keys in
  Done (mkGraph (gn pre) (filter (fun e => negb (existsb (rkey_eqb (fst e)) dkeys)) (gr pre)) (gnext pre) (gcat pre))
       (N.of_nat (length dkeys)).

(* MERGE: a node matches when it carries every label and every pattern property compares
   equal under PropertyValue's `==` (a stored Null equals a null pattern value) *)
Definition merge_matches (ls : list N) (ps : list (N * oval)) (n : gnode) : bool :=
  forallb (fun l => mem l (g_labels n)) ls &&
  forallb (fun kv => match pget (fst kv) (g_props n) with Some w => pv_eq w (snd kv) | None => false end) ps.

Definition merge_node_row (acc : graph * N)
           (r : list N * list (N * oval) * list (N * oval) * list (N * oval)) : graph * N :=
  let '(g, c) := acc in let '(ls, ps, oc, om) := r in
  let cands := filter (fun e => merge_matches ls ps (snd e)) (gn g) in
  match cands with
  | [] =>
      (* create: the pattern properties are stored AS GIVEN (a null value is stored as Null:
         known finding K-C12-mergenull), then ON CREATE SET *)
      (mkGraph (gn g ++ [(gnext g, mkG (fold_left (fun acc l => add_label l acc) ls []) (set_all ps oc))])
               (gr g) (gnext g + 1) (add_cat ls (gcat g)), c + 1)
  | _ =>
      (mkGraph (map (fun e => if merge_matches ls ps (snd e)
                              then (fst e, mkG (g_labels (snd e)) (set_all (g_props (snd e)) om)) else e) (gn g))
               (gr g) (gnext g) (add_cat ls (gcat g)), c)
  end.

(* relationship properties live in ONE map per key (src,type,dst), shared by parallel relationships *)
Fixpoint rmap (k : rkey) (f : props -> props) (l : list (rkey * (N * props))) : list (rkey * (N * props)) :=
  match l with
  | [] => []
  | (k', (m, p)) :: t => if rkey_eqb k' k then (k', (m, f p)) :: t else (k', (m, p)) :: rmap k f t
  end.
Fixpoint rfind_pre (k : rkey) (l : list (rkey * (N * props))) : option (N * props) :=
  match l with [] => None | (k', v) :: t => if rkey_eqb k' k then Some v else rfind_pre k t end.
Definition rprops (g : graph) (k : rkey) : props :=
  match rfind_pre k (gr g) with Some (_, p) => p | None => [] end.

Definition set_rel_prop_row (pre : graph) (acc : graph * N) (r : rkey * N * oval) : graph * N :=
  let '(g, c) := acc in let '(key, k, v) := r in
  match v with
  | ONull => (mkGraph (gn g) (rmap key (pdel k) (gr g)) (gnext g) (gcat g),
              if has_key k (rprops pre key) then c + 1 else c)
  | _ => (mkGraph (gn g) (rmap key (pset k v) (gr g)) (gnext g) (gcat g), c + 1)
  end.

(* pattern properties of a created relationship are stored as given (nulls included) *)
Definition raw_set (p : props) (ps : list (N * oval)) : props :=
  fold_left (fun p kv => (fst kv, snd kv) :: pdel (fst kv) p) ps p.
Fixpoint rel_merge_create (k : rkey) (ps oc : list (N * oval)) (l : list (rkey * (N * props))) : list (rkey * (N * props)) :=
  match l with
  | [] => [(k, (1, set_all (raw_set [] ps) oc))]
  | (k', (m, p)) :: t =>
      if rkey_eqb k' k then (k', (m + 1, set_all (raw_set p ps) oc)) :: t else (k', (m, p)) :: rel_merge_create k ps oc t
  end.
(* MERGE of a relationship, any number of rows.  A row matches when the key existed BEFORE the
   statement with matching properties (the executor reads the snapshot), or when an earlier row of
   the same statement created the key with a pattern map that matches (the executor keeps the
   relationships it created, each with its own pattern map, in an overlay).  ON MATCH / ON CREATE
   items write to the key's single property map. *)
Definition ps_match (have : props) (ps : list (N * oval)) : bool :=
  forallb (fun kv => match pget (fst kv) have with Some w => pv_eq w (snd kv) | None => false end) ps.
(* a row carries the pattern as written: (left node, type, right node) and the direction
   0: (left)-[..]->(right)   1: (left)<-[..]-(right)   2: (left)-[..]-(right) (undirected).
   merge_collect_edges_between looks for left->right, right->left, or both; the create side lays an
   undirected pattern out left->right. *)
Definition flip (k : rkey) : rkey := let '(a, t, b) := k in (b, t, a).
Definition merge_lookup_keys (k : rkey) (dir : N) : list rkey :=
  if dir =? 0 then [k] else if dir =? 1 then [flip k] else [k; flip k].
Definition merge_create_key (k : rkey) (dir : N) : rkey := if dir =? 1 then flip k else k.
Definition merge_rel_row (pre : graph) (acc : graph * N * list (rkey * props))
           (r : rkey * N * list (N * oval) * list (N * oval) * list (N * oval)) : graph * N * list (rkey * props) :=
  let '(g, c, ov) := acc in let '(wkey, dir, ps, oc, om) := r in
  let key_matches (key : rkey) :=
    match rfind_pre key (gr pre) with Some (_, p) => ps_match p ps | None => false end ||
    existsb (fun e => rkey_eqb (fst e) key && ps_match (snd e) ps) ov in
  match filter key_matches (merge_lookup_keys wkey dir) with
  | [] =>
      let key := merge_create_key wkey dir in
      (mkGraph (gn g) (rel_merge_create key ps oc (gr g)) (gnext g) (gcat g), c + 1, ov ++ [(key, raw_set [] ps)])
  | matched =>
      (mkGraph (gn g) (fold_left (fun rels key => rmap key (fun p => set_all p om) rels) matched (gr g))
               (gnext g) (gcat g), c, ov)
  end.

Definition remove_rel_prop_row (pre : graph) (acc : graph * N) (r : rkey * N) : graph * N :=
  let '(g, c) := acc in let '(key, k) := r in
  (mkGraph (gn g) (rmap key (pdel k) (gr g)) (gnext g) (gcat g),
   if has_key k (rprops pre key) then c + 1 else c).
Definition set_rel_map_row (pre : graph) (acc : graph * N) (r : rkey * bool * list (N * oval)) : graph * N :=
  let '(g, c) := acc in let '(key, append, m) := r in
  let existing := rprops pre key in
  let target := map_target existing append m in
  let removed := filter (fun kv => negb (has_key (fst kv) target)) existing in
  let changed := filter (fun kv => match pget (fst kv) existing with
                                   | Some w => negb (pv_eq w (snd kv))
                                   | None => true end) target in
  (mkGraph (gn g) (rmap key (fun p => set_all (fold_left (fun p kv => pdel (fst kv) p) removed p) changed) (gr g))
           (gnext g) (gcat g),
   c + N.of_nat (length removed) + N.of_nat (length changed)).

Definition done (p : graph * N) : outcome := Done (fst p) (snd p).

Definition exec1 (g : graph) (s : stmt) : outcome :=
  match s with
  | UCreateNode rows => done (fold_left create_node_row rows (g, 0))
  | UCreateRel rows => done (fold_left create_rel_row rows (g, 0))
  | USetProp rows => done (fold_left (set_prop_row g) rows (g, 0))
  | URemoveProp rows => done (fold_left (remove_prop_row g) rows (g, 0))
  | USetMap rows => done (fold_left (set_map_row g) rows (g, 0))
  | USetLabels rows => done (fold_left set_labels_row rows (g, 0))
  | URemoveLabels rows => done (fold_left (remove_labels_row g) rows (g, 0))
  | UDelete detach ids => delete_nodes g detach ids
  | UDeleteRel keys => delete_rels g keys
  | UMergeNode rows => done (fold_left merge_node_row rows (g, 0))
  | USetRelProp rows => done (fold_left (set_rel_prop_row g) rows (g, 0))
  | UMergeRel rows => done (fst (fold_left (merge_rel_row g) rows (g, 0, [])))
  | USetRelMap rows => done (fold_left (set_rel_map_row g) rows (g, 0))
  | URemoveRelProp rows => done (fold_left (remove_rel_prop_row g) rows (g, 0))
  | UChain _ => Failed                                  (* handled by exec *)
  end.

(* a chain runs its clauses one after the other on the graph the earlier clauses produced and
   adds the counts up; it fails (and changes nothing) if a clause fails *)
Fixpoint exec_chain (g : graph) (c : N) (cs : list stmt) : outcome :=
  match cs with
  | [] => Done g c
  | s :: t => match exec1 g s with Done g' c' => exec_chain g' (c + c') t | Failed => Failed end
  end.
Definition exec (g : graph) (s : stmt) : outcome :=
  match s with
  | UChain cs => exec_chain g 0 cs
  | _ => exec1 g s
  end.

(* a failed statement leaves the graph unchanged (the transaction is dropped) *)
Definition exec_graph (g : graph) (s : stmt) : graph :=
  match exec g s with Done g' _ => g' | Failed => g end.

(* ---------- observation: the dump the harness takes, compared up to order ---------- *)
Definition oval_same (a b : oval) : bool :=
  match a, b with
  | ONull, ONull => true
  | OBool x, OBool y => Bool.eqb x y
  | OInt x, OInt y => Z.eqb x y
  | OFloat x, OFloat y => (x =? y) || (is_nan x && is_nan y)
  | OStr x, OStr y => bytes_eqb x y
  | _, _ => false
  end.
Definition props_same (a b : props) : bool :=
  (length a =? length b)%nat &&
  forallb (fun kv => match pget (fst kv) b with Some w => oval_same (snd kv) w | None => false end) a.
Definition labels_same (a b : list N) : bool :=
  (length a =? length b)%nat && forallb (fun l => mem l b) a.

Definition dump_node := (N * list N * props)%type.
Definition dump_rel := (rkey * N * props)%type.
Definition nodes_same (g : graph) (d : list dump_node) : bool :=
  (length (gn g) =? length d)%nat &&
  forallb (fun e => let '(id, ls, ps) := e in
                    match nfind id (gn g) with
                    | Some n => labels_same (g_labels n) ls && props_same (g_props n) ps
                    | None => false end) d.
Fixpoint rfind (k : rkey) (l : list (rkey * (N * props))) : option (N * props) :=
  match l with [] => None | (k', v) :: t => if rkey_eqb k' k then Some v else rfind k t end.
Definition rels_same (g : graph) (d : list dump_rel) : bool :=
  (length (gr g) =? length d)%nat &&
  forallb (fun e => let '(k, m, ps) := e in
                    match rfind k (gr g) with
                    | Some (m', ps') => (m =? m') && props_same ps' ps
                    | None => false end) d.
