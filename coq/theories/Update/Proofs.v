(* Update/Proofs.v — laws of the reference update semantics (Update/Model.v). *)
From NDB Require Import Base.Bytes Base.Bytes_proofs Index.OrderedKey IndexSem.Model IndexSem.Proofs Update.Model.
From Coq Require Import Lia.
Open Scope N_scope.

(* ---------- SET / REMOVE algebra on property maps ---------- *)
Lemma pdel_idem k m : pdel k (pdel k m) = pdel k m.
Proof.
  induction m as [|[a v] t IH]; cbn [pdel]; [reflexivity|].
  destruct (a =? k) eqn:E; [exact IH|]. cbn [pdel]. rewrite E, IH. reflexivity.
Qed.

(* SET n.k = v then REMOVE n.k  =  REMOVE n.k *)
Lemma set_then_remove k v m : pdel k (pset k v m) = pdel k m.
Proof.
  unfold pset. destruct v; cbn [pdel]; rewrite ?N.eqb_refl; apply pdel_idem.
Qed.

(* SET n.k = null is REMOVE n.k *)
Lemma set_null_is_remove k m : pset k ONull m = pdel k m.
Proof. reflexivity. Qed.

(* reading back: SET then get *)
Lemma get_after_set k k' v m : pget k (pset k' v m) = if k' =? k then stored v else pget k m.
Proof. apply pget_pset. Qed.

(* SET n = map: the result has exactly the map's keys whose (last) value is not null *)
Lemma replace_has_exactly k m :
  pget k (map_target [] false m) =
  match last_for k m None with Some v => stored v | None => None end.
Proof.
  unfold map_target, set_all.
  exact (pget_apply_sets k m [] None None eq_refl).
Qed.
Lemma replace_ignores_existing existing m : map_target existing false m = map_target [] false m.
Proof. reflexivity. Qed.

(* SET n += {} leaves the map as it is; += reads through to the old value for untouched keys *)
Lemma append_empty_identity existing : map_target existing true [] = existing.
Proof. reflexivity. Qed.
Lemma append_get k existing m :
  pget k (map_target existing true m) =
  match last_for k m None with Some v => stored v | None => pget k existing end.
Proof.
  unfold map_target, set_all.
  exact (pget_apply_sets k m existing None (pget k existing) eq_refl).
Qed.

(* ---------- CREATE: exactly the counted nodes are added, nothing else changes ---------- *)
Lemma create_nodes_frame rows : forall g c,
  exists added,
    fold_left create_node_row rows (g, c) =
      (mkGraph (gn g ++ added) (gr g) (gnext g + N.of_nat (length rows))
               (gcat (fst (fold_left create_node_row rows (g, c)))),
       c + N.of_nat (length rows)) /\
    length added = length rows.
Proof.
  induction rows as [|[ls ps] t IH]; intros g c.
  - exists []. cbn [fold_left length N.of_nat fst]. rewrite app_nil_r, !N.add_0_r. destruct g; auto.
  - cbn [fold_left create_node_row].
    destruct (IH (mkGraph (gn g ++ [(gnext g, mkG (fold_left (fun acc l => add_label l acc) ls []) (set_all [] ps))])
                          (gr g) (gnext g + 1) (add_cat ls (gcat g))) (c + 1)) as (added & E & L).
    eexists (_ :: added). split.
    + rewrite E. cbn [gn gr gnext]. rewrite <- app_assoc. cbn [app length].
      f_equal; [f_equal; lia|lia].
    + cbn [length]. rewrite L. reflexivity.
Qed.

(* ---------- DELETE ---------- *)
Lemma dedupN_acc_in x : forall l seen, In x (dedupN_acc seen l) <-> In x l /\ mem x seen = false.
Proof.
  induction l as [|y t IH]; intros seen; cbn [dedupN_acc In]; [intuition|].
  destruct (mem y seen) eqn:E.
  - rewrite IH. split; [intuition|]. intros [[->|H] M]; [congruence|auto].
  - cbn [In]. rewrite IH. unfold mem in *. cbn [existsb].
    split.
    + intros [->|[H M]]; [auto|]. apply orb_false_elim in M. intuition.
    + intros [[->|H] M]; [auto|]. destruct (x =? y) eqn:Q.
      * apply N.eqb_eq in Q; subst; auto.
      * right. split; [exact H|]. exact M.
Qed.
Lemma dedupN_in x l : In x (dedupN l) <-> In x l.
Proof. unfold dedupN. rewrite dedupN_acc_in. cbn. intuition. Qed.

(* plain DELETE fails exactly when some target node has a relationship *)
Lemma delete_fails_iff g ids :
  delete_nodes g false ids = Failed <-> exists id, In id ids /\ incident_keys g id <> [].
Proof.
  unfold delete_nodes. cbn [negb andb].
  destruct (flat_map (incident_keys g) (dedupN ids)) as [|k t] eqn:E.
  - split; [discriminate|]. intros (id & Hi & Hk). exfalso. apply Hk.
    apply dedupN_in in Hi. destruct (incident_keys g id) as [|k t] eqn:Q; [reflexivity|].
    assert (In k (flat_map (incident_keys g) (dedupN ids))) by (apply in_flat_map; exists id; rewrite Q; split; [auto|left; reflexivity]).
    rewrite E in H. destruct H.
  - split; [intros _|reflexivity].
    assert (In k (flat_map (incident_keys g) (dedupN ids))) by (rewrite E; left; reflexivity).
    apply in_flat_map in H. destruct H as (id & Hi & Hk). exists id. split; [apply dedupN_in; exact Hi|].
    intros Q. rewrite Q in Hk. destruct Hk.
Qed.
Lemma detach_never_fails g ids : delete_nodes g true ids <> Failed.
Proof. unfold delete_nodes. cbn. discriminate. Qed.

Lemma dedup_keys_acc_ex k : forall l seen,
  existsb (rkey_eqb k) (dedup_keys_acc seen l) = true \/ existsb (rkey_eqb k) seen = true <->
  existsb (rkey_eqb k) l = true \/ existsb (rkey_eqb k) seen = true.
Proof.
  assert (Hsym : forall a b, rkey_eqb a b = true -> forall c, rkey_eqb c a = rkey_eqb c b).
  { intros [[a1 a2] a3] [[b1 b2] b3] H [[c1 c2] c3]. cbn in *.
    apply andb_prop in H. destruct H as [H H3]. apply andb_prop in H. destruct H as [H1 H2].
    apply N.eqb_eq in H1, H2, H3. subst. reflexivity. }
  induction l as [|y t IH]; intros seen; cbn [dedup_keys_acc existsb]; [intuition|].
  destruct (existsb (rkey_eqb y) seen) eqn:E.
  - rewrite IH. split; [intuition|]. intros [H|H]; [|auto]. apply orb_prop in H. destruct H as [H|H]; [|auto].
    right. apply existsb_exists in E. destruct E as (z & Hz & Ez). apply existsb_exists. exists z. split; [exact Hz|].
    assert (Q : rkey_eqb k z = rkey_eqb k y).
    { destruct k as [[k1 k2] k3], y as [[y1 y2] y3], z as [[z1 z2] z3]. cbn in *.
      apply andb_prop in Ez. destruct Ez as [Ez Ez3]. apply andb_prop in Ez. destruct Ez as [Ez1 Ez2].
      apply N.eqb_eq in Ez1, Ez2, Ez3. subst. reflexivity. }
    rewrite Q. exact H.
  - cbn [existsb]. specialize (IH (y :: seen)). cbn [existsb] in IH.
    destruct (rkey_eqb k y); cbn [orb] in *; intuition.
Qed.
Lemma dedup_keys_ex k l : existsb (rkey_eqb k) (dedup_keys l) = existsb (rkey_eqb k) l.
Proof.
  unfold dedup_keys. pose proof (dedup_keys_acc_ex k l []) as H. cbn [existsb] in H.
  destruct (existsb (rkey_eqb k) (dedup_keys_acc [] l)), (existsb (rkey_eqb k) l); intuition; try discriminate.
Qed.

(* after [DETACH] DELETE no remaining relationship touches a deleted node *)
Lemma delete_no_dangling g detach ids g' c :
  delete_nodes g detach ids = Done g' c ->
  forall k v id, In (k, v) (gr g') -> In id ids -> incident id k = false.
Proof.
  unfold delete_nodes. intros H k v id Hin Hid.
  destruct (negb detach && negb match flat_map (incident_keys g) (dedupN ids) with [] => true | _ => false end); [discriminate|].
  inversion H; subst g' c; clear H. cbn [gr] in Hin. apply filter_In in Hin. destruct Hin as [Hin Hf].
  cbn [fst] in Hf. rewrite dedup_keys_ex in Hf. apply negb_true_iff in Hf.
  destruct (incident id k) eqn:Q; [exfalso|reflexivity].
  assert (existsb (rkey_eqb k) (flat_map (incident_keys g) (dedupN ids)) = true); [|congruence].
  apply existsb_exists. exists k. split.
  - apply in_flat_map. exists id. split; [apply dedupN_in; exact Hid|].
    unfold incident_keys. apply in_map_iff. exists (k, v). split; [reflexivity|]. apply filter_In. split; [exact Hin|exact Q].
  - destruct k as [[a b] c0]. cbn. rewrite !N.eqb_refl. reflexivity.
Qed.

(* ---------- MERGE idempotence (one row, no ON CREATE / ON MATCH items) ---------- *)
Definition merge1 (g : graph) (ls : list N) (ps : list (N * oval)) : graph * N :=
  merge_node_row (g, 0) (ls, ps, [], []).

Lemma mem_app l a x : mem l (a ++ [x]) = mem l a || (l =? x).
Proof. unfold mem. rewrite existsb_app. cbn. rewrite orb_false_r. reflexivity. Qed.
Lemma add_label_keeps l x acc : mem l acc = true -> mem l (add_label x acc) = true.
Proof. intros H. unfold add_label. destruct (mem x acc); [exact H|]. rewrite mem_app, H. reflexivity. Qed.
Lemma add_label_has x acc : mem x (add_label x acc) = true.
Proof. unfold add_label. destruct (mem x acc) eqn:E; [exact E|]. rewrite mem_app, N.eqb_refl, orb_true_r. reflexivity. Qed.
Lemma fold_labels_keeps l : forall ls acc, mem l acc = true -> mem l (fold_left (fun a x => add_label x a) ls acc) = true.
Proof. induction ls as [|x t IH]; intros acc H; cbn [fold_left]; [exact H|]. apply IH, add_label_keeps, H. Qed.
Lemma fold_labels_all : forall ls acc, forallb (fun l => mem l (fold_left (fun a x => add_label x a) ls acc)) ls = true.
Proof.
  induction ls as [|x t IH]; intros acc; cbn [forallb fold_left]; [reflexivity|].
  rewrite fold_labels_keeps by apply add_label_has. cbn [andb]. apply IH.
Qed.
Lemma pget_self k v : forall ps, NoDup (map fst ps) -> In (k, v) ps -> pget k ps = Some v.
Proof.
  induction ps as [|[a w] t IH]; intros ND Hin; [destruct Hin|].
  cbn [pget]. cbn [map fst] in ND. inversion ND as [|? ? Hn Hd]; subst.
  destruct Hin as [E|Hin].
  - inversion E; subst. rewrite N.eqb_refl. reflexivity.
  - destruct (a =? k) eqn:Q; [|apply IH; auto].
    apply N.eqb_eq in Q; subst a. exfalso. apply Hn. apply in_map_iff. exists (k, v). split; [reflexivity|exact Hin].
Qed.
Lemma map_match_id (M : gnode -> bool) (l : list (N * gnode)) :
  map (fun e => if M (snd e) then (fst e, mkG (g_labels (snd e)) (set_all (g_props (snd e)) [])) else e) l = l.
Proof.
  induction l as [|[i [ls ps]] t IH]; cbn [map]; [reflexivity|]. rewrite IH. cbn [snd fst g_labels g_props set_all fold_left].
  destruct (M _); reflexivity.
Qed.

Lemma merge_idempotent g ls ps :
  NoDup (map fst ps) -> (forall k v, In (k, v) ps -> pv_eq v v = true) ->
  let g1 := fst (merge1 g ls ps) in
  snd (merge1 g1 ls ps) = 0 /\
  gn (fst (merge1 g1 ls ps)) = gn g1 /\ gr (fst (merge1 g1 ls ps)) = gr g1 /\ gnext (fst (merge1 g1 ls ps)) = gnext g1.
Proof.
  intros ND Hrefl. unfold merge1, merge_node_row.
  destruct (filter (fun e => merge_matches ls ps (snd e)) (gn g)) as [|c0 ct] eqn:F.
  - (* created: the new node matches its own pattern *)
    cbn [fst gn].
    set (new := (gnext g, mkG (fold_left (fun acc l => add_label l acc) ls []) (set_all ps []))).
    assert (Hm : merge_matches ls ps (snd new) = true).
    { unfold merge_matches, new. cbn [snd g_labels g_props set_all fold_left]. rewrite fold_labels_all. cbn [andb].
      apply forallb_forall. intros [k v] Hin. cbn [fst snd]. rewrite (pget_self k v ps ND Hin). apply (Hrefl k v Hin). }
    rewrite filter_app, F. cbn [app filter]. rewrite Hm. cbn [snd fst gn gr gnext].
    rewrite map_match_id. repeat split; reflexivity.
  - cbn [fst gn]. rewrite map_match_id, F. cbn [snd fst gn gr gnext]. rewrite map_match_id. repeat split; reflexivity.
Qed.

(* ---------- MERGE idempotence, any number of rows (no ON CREATE / ON MATCH items) ---------- *)
Definition plain_row (r : list N * list (N * oval) * list (N * oval) * list (N * oval)) : Prop :=
  snd (fst r) = [] /\ snd r = [] /\
  NoDup (map fst (snd (fst (fst r)))) /\
  (forall k v, In (k, v) (snd (fst (fst r))) -> pv_eq v v = true).
Definition has_cand (l : list (N * gnode)) (r : list N * list (N * oval) * list (N * oval) * list (N * oval)) : Prop :=
  exists e, In e l /\ merge_matches (fst (fst (fst r))) (snd (fst (fst r))) (snd e) = true.

Lemma filter_nonempty {A} (p : A -> bool) l e : In e l -> p e = true -> filter p l <> [].
Proof. intros Hi Hp Hf. assert (In e (filter p l)) by (apply filter_In; auto). rewrite Hf in H. destruct H. Qed.

(* one plain row: nodes are only appended, the row has a candidate afterwards, and if it had one
   before nothing is created *)
Lemma merge_row_plain g c r :
  plain_row r ->
  let res := merge_node_row (g, c) r in
  (exists added, gn (fst res) = gn g ++ added) /\
  gr (fst res) = gr g /\
  has_cand (gn (fst res)) r /\
  (has_cand (gn g) r -> gn (fst res) = gn g /\ gnext (fst res) = gnext g /\ snd res = c).
Proof.
  destruct r as [[[ls ps] oc] om]. intros (Hoc & Hom & ND & Hrefl). cbn [fst snd] in *. subst oc om.
  unfold merge_node_row, has_cand. cbn [fst snd].
  destruct (filter (fun e => merge_matches ls ps (snd e)) (gn g)) as [|c0 ct] eqn:F.
  - cbn [fst snd gn gr gnext].
    set (new := (gnext g, mkG (fold_left (fun acc l => add_label l acc) ls []) (set_all ps []))).
    assert (Hm : merge_matches ls ps (snd new) = true).
    { unfold merge_matches, new. cbn [snd g_labels g_props set_all fold_left]. rewrite fold_labels_all. cbn [andb].
      apply forallb_forall. intros [k v] Hin. cbn [fst snd]. rewrite (pget_self k v ps ND Hin). apply (Hrefl k v Hin). }
    repeat split.
    + exists [new]. reflexivity.
    + exists new. split; [apply in_or_app; right; left; reflexivity|exact Hm].
    + exfalso. destruct H as (e & Hi & He). apply (filter_nonempty _ _ e Hi He F).
    + exfalso. destruct H as (e & Hi & He). apply (filter_nonempty _ _ e Hi He F).
    + exfalso. destruct H as (e & Hi & He). apply (filter_nonempty _ _ e Hi He F).
  - cbn [fst snd gn gr gnext]. rewrite map_match_id. repeat split.
    + exists []. rewrite app_nil_r. reflexivity.
    + exists c0. assert (In c0 (filter (fun e => merge_matches ls ps (snd e)) (gn g))) by (rewrite F; left; reflexivity).
      apply filter_In in H. exact H.
Qed.

Lemma has_cand_app l added r : has_cand l r -> has_cand (l ++ added) r.
Proof. intros (e & Hi & He). exists e. split; [apply in_or_app; left; exact Hi|exact He]. Qed.

Lemma merge_rows_plain : forall rows g c,
  Forall plain_row rows ->
  let res := fold_left merge_node_row rows (g, c) in
  (exists added, gn (fst res) = gn g ++ added) /\
  gr (fst res) = gr g /\
  Forall (has_cand (gn (fst res))) rows /\
  (Forall (has_cand (gn g)) rows -> gn (fst res) = gn g /\ gnext (fst res) = gnext g /\ snd res = c).
Proof.
  induction rows as [|r t IH]; intros g c HP; cbn [fold_left].
  - repeat split; auto. exists []. rewrite app_nil_r. reflexivity.
  - inversion HP as [|? ? Hr Ht]; subst.
    destruct (merge_row_plain g c r Hr) as ((a1 & E1) & R1 & C1 & K1).
    destruct (merge_node_row (g, c) r) as [g1 c1] eqn:M. cbn [fst snd] in *.
    destruct (IH g1 c1 Ht) as ((a2 & E2) & R2 & C2 & K2).
    repeat split.
    + exists (a1 ++ a2). rewrite E2, E1, app_assoc. reflexivity.
    + rewrite R2, R1. reflexivity.
    + constructor; [|exact C2]. rewrite E2. apply has_cand_app. exact C1.
    + inversion H as [|? ? Hc Hct]; subst. destruct (K1 Hc) as (N1 & X1 & Q1).
      assert (Forall (has_cand (gn g1)) t) by (rewrite N1; exact Hct).
      destruct (K2 H0) as (N2 & X2 & Q2). rewrite N2, N1. reflexivity.
    + inversion H as [|? ? Hc Hct]; subst. destruct (K1 Hc) as (N1 & X1 & Q1).
      assert (Forall (has_cand (gn g1)) t) by (rewrite N1; exact Hct).
      destruct (K2 H0) as (N2 & X2 & Q2). rewrite X2, X1. reflexivity.
    + inversion H as [|? ? Hc Hct]; subst. destruct (K1 Hc) as (N1 & X1 & Q1).
      assert (Forall (has_cand (gn g1)) t) by (rewrite N1; exact Hct).
      destruct (K2 H0) as (N2 & X2 & Q2). rewrite Q2, Q1. reflexivity.
Qed.

(* MERGE statement twice: the second run reports 0 and leaves nodes, relationships and the id
   counter as the first run left them *)
Theorem merge_stmt_idempotent g rows :
  Forall plain_row rows ->
  match exec g (UMergeNode rows) with
  | Done g1 _ =>
      match exec g1 (UMergeNode rows) with
      | Done g2 c2 => c2 = 0 /\ gn g2 = gn g1 /\ gr g2 = gr g1 /\ gnext g2 = gnext g1
      | Failed => False
      end
  | Failed => False
  end.
Proof.
  intros HP. cbn [exec done].
  destruct (merge_rows_plain rows g 0 HP) as (_ & _ & C1 & _).
  set (g1 := fst (fold_left merge_node_row rows (g, 0))) in *.
  destruct (merge_rows_plain rows g1 0 HP) as (_ & R2 & _ & K2).
  destruct (K2 C1) as (N2 & X2 & Q2). repeat split; assumption.
Qed.

(* ---------- MERGE with ON CREATE / ON MATCH items on keys disjoint from the pattern keys ---------- *)
Definition keys_of (l : list (N * oval)) : list N := map fst l.
Definition mrow := (list N * list (N * oval) * list (N * oval) * list (N * oval))%type.
Definition r_ls (r : mrow) := fst (fst (fst r)).
Definition r_ps (r : mrow) := snd (fst (fst r)).
Definition r_oc (r : mrow) := snd (fst r).
Definition r_om (r : mrow) := snd r.
(* the ON items of every row leave the pattern keys of every row of the statement alone *)
Definition on_items_disjoint (rows : list mrow) : Prop :=
  forall r r', In r rows -> In r' rows ->
    forall k, In k (keys_of (r_oc r) ++ keys_of (r_om r)) -> ~ In k (keys_of (r_ps r')).
Definition pattern_ok (r : mrow) : Prop :=
  NoDup (keys_of (r_ps r)) /\ (forall k v, In (k, v) (r_ps r) -> pv_eq v v = true).
Definition cand (l : list (N * gnode)) (r : mrow) : Prop :=
  exists e, In e l /\ merge_matches (r_ls r) (r_ps r) (snd e) = true.

Lemma pget_set_all_other k : forall sets p, ~ In k (keys_of sets) -> pget k (set_all p sets) = pget k p.
Proof.
  unfold set_all. induction sets as [|[k' v] t IH]; intros p H; cbn [fold_left]; [reflexivity|].
  rewrite IH by (intros Hi; apply H; right; exact Hi).
  cbn [fst snd]. rewrite pget_pset. destruct (k' =? k) eqn:E; [|reflexivity].
  apply N.eqb_eq in E. subst. exfalso. apply H. left; reflexivity.
Qed.
Lemma forallb_ext_in {A} (f g : A -> bool) l : (forall x, In x l -> f x = g x) -> forallb f l = forallb g l.
Proof.
  induction l as [|x t IH]; intros H; cbn [forallb]; [reflexivity|].
  rewrite (H x (or_introl eq_refl)), IH; [reflexivity|]. intros y Hy. apply H. right; exact Hy.
Qed.
Lemma matches_set_all ls ps lbl p sets :
  (forall k, In k (keys_of sets) -> ~ In k (keys_of ps)) ->
  merge_matches ls ps (mkG lbl (set_all p sets)) = merge_matches ls ps (mkG lbl p).
Proof.
  intros D. unfold merge_matches. cbn [g_labels g_props]. f_equal.
  apply forallb_ext_in. intros [k v] Hin. cbn [fst snd].
  rewrite pget_set_all_other; [reflexivity|].
  intros Hk. apply (D k Hk). apply in_map_iff. exists (k, v). split; [reflexivity|exact Hin].
Qed.

Lemma merge_row_on rows g c r :
  In r rows -> on_items_disjoint rows -> pattern_ok r ->
  let res := merge_node_row (g, c) r in
  (forall r', In r' rows -> cand (gn g) r' -> cand (gn (fst res)) r') /\
  cand (gn (fst res)) r /\
  gr (fst res) = gr g /\
  (cand (gn g) r -> length (gn (fst res)) = length (gn g) /\ gnext (fst res) = gnext g /\ snd res = c).
Proof.
  destruct r as [[[ls ps] oc] om]. intros Hr D (ND & Hrefl). unfold r_ps in ND, Hrefl. cbn [fst snd] in ND, Hrefl.
  unfold merge_node_row. cbn [fst snd].
  destruct (filter (fun e => merge_matches ls ps (snd e)) (gn g)) as [|c0 ct] eqn:F.
  - (* create *)
    cbn [fst snd gn gr gnext].
    set (new := (gnext g, mkG (fold_left (fun acc l => add_label l acc) ls []) (set_all ps oc))).
    assert (Hm : merge_matches ls ps (snd new) = true).
    { unfold new. cbn [snd]. rewrite matches_set_all.
      - unfold merge_matches. cbn [g_labels g_props]. rewrite fold_labels_all. cbn [andb].
        apply forallb_forall. intros [k v] Hin. cbn [fst snd]. rewrite (pget_self k v ps ND Hin). apply (Hrefl k v Hin).
      - intros k Hk. apply (D _ _ Hr Hr). unfold r_oc, r_om. cbn [fst snd]. apply in_or_app. left; exact Hk. }
    split; [|split; [|split; [reflexivity|]]].
    + intros r' _ (e & Hi & He). exists e. split; [apply in_or_app; left; exact Hi|exact He].
    + exists new. split; [apply in_or_app; right; left; reflexivity|exact Hm].
    + intros (e & Hi & He). exfalso. apply (filter_nonempty _ _ e Hi He F).
  - (* matched: ON MATCH items on the matched nodes *)
    cbn [fst snd gn gr gnext].
    set (Fm := fun e : N * gnode => if merge_matches ls ps (snd e)
                                    then (fst e, mkG (g_labels (snd e)) (set_all (g_props (snd e)) om)) else e).
    assert (Hpres : forall r' e, In r' rows -> merge_matches (r_ls r') (r_ps r') (snd e) = true ->
                      merge_matches (r_ls r') (r_ps r') (snd (Fm e)) = true).
    { intros r' [i [lb p]] Hr' He. unfold Fm. cbn [snd fst g_labels g_props] in *.
      destruct (merge_matches ls ps (mkG lb p)); [|exact He]. cbn [snd].
      rewrite matches_set_all; [exact He|].
      intros k Hk. apply (D _ _ Hr Hr'). unfold r_oc, r_om. cbn [fst snd]. apply in_or_app. right; exact Hk. }
    split; [|split; [|split; [reflexivity|]]].
    + intros r' Hr' (e & Hi & He). exists (Fm e). split; [apply in_map; exact Hi|apply Hpres; assumption].
    + assert (Hc0 : In c0 (filter (fun e => merge_matches ls ps (snd e)) (gn g))) by (rewrite F; left; reflexivity).
      apply filter_In in Hc0. destruct Hc0 as [Hi He].
      exists (Fm c0). split; [apply in_map; exact Hi|]. apply (Hpres _ c0 Hr). exact He.
    + intros _. repeat split. apply map_length.
Qed.

Lemma merge_rows_on rows : forall todo g c,
  (forall r, In r todo -> In r rows) -> on_items_disjoint rows -> (forall r, In r todo -> pattern_ok r) ->
  let res := fold_left merge_node_row todo (g, c) in
  (forall r', In r' rows -> cand (gn g) r' -> cand (gn (fst res)) r') /\
  (forall r, In r todo -> cand (gn (fst res)) r) /\
  gr (fst res) = gr g /\
  ((forall r, In r todo -> cand (gn g) r) ->
     length (gn (fst res)) = length (gn g) /\ gnext (fst res) = gnext g /\ snd res = c).
Proof.
  induction todo as [|r t IH]; intros g c Hsub D HP; cbn [fold_left].
  - repeat split; auto. intros r [].
  - assert (Hr : In r rows) by (apply Hsub; left; reflexivity).
    destruct (merge_row_on rows g c r Hr D (HP r (or_introl eq_refl))) as (P1 & C1 & R1 & K1).
    destruct (merge_node_row (g, c) r) as [g1 c1] eqn:M. cbn [fst snd] in *.
    destruct (IH g1 c1 (fun x Hx => Hsub x (or_intror Hx)) D (fun x Hx => HP x (or_intror Hx))) as (P2 & C2 & R2 & K2).
    repeat split.
    + intros r' Hr' Hc. apply P2; [exact Hr'|]. apply P1; assumption.
    + intros x [<-|Hx]; [apply P2; [exact Hr|exact C1]|apply C2; exact Hx].
    + rewrite R2, R1. reflexivity.
    + destruct (K1 (H r (or_introl eq_refl))) as (L1 & X1 & Q1).
      assert (Ht : forall x, In x t -> cand (gn g1) x).
      { intros x Hx. apply P1; [apply Hsub; right; exact Hx|apply H; right; exact Hx]. }
      destruct (K2 Ht) as (L2 & X2 & Q2). rewrite L2, L1. reflexivity.
    + destruct (K1 (H r (or_introl eq_refl))) as (L1 & X1 & Q1).
      assert (Ht : forall x, In x t -> cand (gn g1) x).
      { intros x Hx. apply P1; [apply Hsub; right; exact Hx|apply H; right; exact Hx]. }
      destruct (K2 Ht) as (L2 & X2 & Q2). rewrite X2, X1. reflexivity.
    + destruct (K1 (H r (or_introl eq_refl))) as (L1 & X1 & Q1).
      assert (Ht : forall x, In x t -> cand (gn g1) x).
      { intros x Hx. apply P1; [apply Hsub; right; exact Hx|apply H; right; exact Hx]. }
      destruct (K2 Ht) as (L2 & X2 & Q2). rewrite Q2, Q1. reflexivity.
Qed.

(* a MERGE statement with ON CREATE / ON MATCH items, run twice: the second run creates nothing *)
Theorem merge_on_creates_nothing_twice g rows :
  on_items_disjoint rows -> (forall r, In r rows -> pattern_ok r) ->
  match exec g (UMergeNode rows) with
  | Done g1 _ =>
      match exec g1 (UMergeNode rows) with
      | Done g2 c2 => c2 = 0 /\ length (gn g2) = length (gn g1) /\ gr g2 = gr g1 /\ gnext g2 = gnext g1
      | Failed => False
      end
  | Failed => False
  end.
Proof.
  intros D HP. cbn [exec exec1 done].
  destruct (merge_rows_on rows rows g 0 (fun r H => H) D HP) as (_ & C1 & _ & _).
  set (g1 := fst (fold_left merge_node_row rows (g, 0))) in *.
  destruct (merge_rows_on rows rows g1 0 (fun r H => H) D HP) as (_ & _ & R2 & K2).
  destruct (K2 C1) as (L2 & X2 & Q2). repeat split; assumption.
Qed.

(* ---------- chained clauses (one statement, execute_mixed) ---------- *)
Lemma nmap_nmap id f1 f2 : forall l, nmap id f2 (nmap id f1 l) = nmap id (fun n => f2 (f1 n)) l.
Proof.
  induction l as [|[i n] t IH]; cbn [nmap]; [reflexivity|].
  destruct (i =? id) eqn:E; cbn [nmap]; rewrite E; [reflexivity|]. rewrite IH. reflexivity.
Qed.
Lemma nmap_ext id f g : (forall n, f n = g n) -> forall l, nmap id f l = nmap id g l.
Proof.
  intros H. induction l as [|[i n] t IH]; cbn [nmap]; [reflexivity|].
  destruct (i =? id); [rewrite H; reflexivity|rewrite IH; reflexivity].
Qed.

(* `SET n.k = v REMOVE n.k` in one statement leaves the graph that `REMOVE n.k` alone leaves *)
Theorem chain_set_then_remove g id k v :
  match exec g (UChain [USetProp [(id, k, v)]; URemoveProp [(id, k)]]), exec g (URemoveProp [(id, k)]) with
  | Done g1 _, Done g2 _ => g1 = g2
  | _, _ => False
  end.
Proof.
  cbn [exec exec_chain exec1 done fold_left set_prop_row remove_prop_row fst snd].
  destruct v; cbn [fst snd]; unfold nupd; cbn [gn gr gnext gcat]; f_equal; rewrite nmap_nmap; apply nmap_ext;
    intros n; cbn [g_labels g_props]; f_equal; try apply pdel_idem; apply (set_then_remove k _ (g_props n)).
Qed.


(* ---------- relationship MERGE: rows that carry the same pattern are idempotent ---------- *)
Definition kmatch (pre : graph) (ov : list (rkey * props)) (ps : list (N * oval)) (key : rkey) : bool :=
  match rfind_pre key (gr pre) with Some (_, p) => ps_match p ps | None => false end ||
  existsb (fun e => rkey_eqb (fst e) key && ps_match (snd e) ps) ov.
Definition rsat (pre : graph) (ov : list (rkey * props)) (wk : rkey) (dir : N) (ps : list (N * oval)) : Prop :=
  filter (kmatch pre ov ps) (merge_lookup_keys wk dir) <> [].

Lemma rkey_eqb_refl k : rkey_eqb k k = true.
Proof. destruct k as [[a b] c]. cbn. rewrite !N.eqb_refl. reflexivity. Qed.

Lemma rmap_set_nil key : forall l, rmap key (fun p => set_all p []) l = l.
Proof.
  induction l as [|[k [m p]] t IH]; cbn [rmap]; [reflexivity|].
  destruct (rkey_eqb k key); [reflexivity|rewrite IH; reflexivity].
Qed.
Lemma fold_rmap_set_nil ks : forall l, fold_left (fun rels key => rmap key (fun p => set_all p []) rels) ks l = l.
Proof. induction ks as [|k t IH]; intros l; cbn [fold_left]; [reflexivity|]. rewrite rmap_set_nil. apply IH. Qed.

Lemma merge_rel_row_sat pre g c ov wk dir ps :
  rsat pre ov wk dir ps ->
  merge_rel_row pre (g, c, ov) (wk, dir, ps, [], []) = (mkGraph (gn g) (gr g) (gnext g) (gcat g), c, ov).
Proof.
  unfold rsat. intros H. unfold merge_rel_row. fold (kmatch pre ov ps).
  destruct (filter (kmatch pre ov ps) (merge_lookup_keys wk dir)) as [|k0 kt]; [contradiction|].
  rewrite fold_rmap_set_nil. reflexivity.
Qed.
Lemma merge_rel_row_unsat pre g c ov wk dir ps :
  ~ rsat pre ov wk dir ps ->
  merge_rel_row pre (g, c, ov) (wk, dir, ps, [], []) =
  (mkGraph (gn g) (rel_merge_create (merge_create_key wk dir) ps [] (gr g)) (gnext g) (gcat g), c + 1,
   ov ++ [(merge_create_key wk dir, raw_set [] ps)]).
Proof.
  unfold rsat. intros H. unfold merge_rel_row. fold (kmatch pre ov ps).
  destruct (filter (kmatch pre ov ps) (merge_lookup_keys wk dir)) as [|k0 kt]; [reflexivity|].
  exfalso. apply H. discriminate.
Qed.

Lemma create_key_in_lookup wk dir : In (merge_create_key wk dir) (merge_lookup_keys wk dir).
Proof.
  unfold merge_create_key, merge_lookup_keys.
  destruct (dir =? 0) eqn:D0; [assert (dir =? 1 = false) as -> by (apply N.eqb_eq in D0; subst; reflexivity); left; reflexivity|].
  destruct (dir =? 1); left; reflexivity.
Qed.

Lemma raw_set_other k : forall ps p, ~ In k (keys_of ps) -> pget k (raw_set p ps) = pget k p.
Proof.
  unfold raw_set. induction ps as [|[k' v] t IH]; intros p H; cbn [fold_left]; [reflexivity|].
  rewrite IH by (intros Hi; apply H; right; exact Hi). cbn [fst snd pget].
  destruct (k' =? k) eqn:E; [apply N.eqb_eq in E; subst; exfalso; apply H; left; reflexivity|].
  rewrite pget_pdel, E. reflexivity.
Qed.
Lemma raw_set_self : forall ps p k v, NoDup (keys_of ps) -> In (k, v) ps -> pget k (raw_set p ps) = Some v.
Proof.
  induction ps as [|[k' v'] t IH]; intros p k v ND Hin; [destruct Hin|].
  cbn [keys_of map fst] in ND. inversion ND as [|? ? Hn Hd]; subst.
  unfold raw_set. cbn [fold_left fst snd]. fold (raw_set ((k', v') :: pdel k' p) t).
  destruct Hin as [E|Hin].
  - inversion E; subst. rewrite raw_set_other by exact Hn. cbn [pget]. rewrite N.eqb_refl. reflexivity.
  - apply IH; assumption.
Qed.
Lemma raw_set_matches ps p :
  NoDup (keys_of ps) -> (forall k v, In (k, v) ps -> pv_eq v v = true) -> ps_match (raw_set p ps) ps = true.
Proof.
  intros ND R. unfold ps_match. apply forallb_forall. intros [k v] Hin. cbn [fst snd].
  rewrite (raw_set_self ps p k v ND Hin). apply (R k v Hin).
Qed.

Lemma rfind_after_create key ps : forall l,
  exists m p, rfind_pre key (rel_merge_create key ps [] l) = Some (m, raw_set p ps).
Proof.
  induction l as [|[k [m p]] t IH]; cbn [rel_merge_create].
  - exists 1, []. cbn [rfind_pre]. rewrite rkey_eqb_refl. reflexivity.
  - destruct (rkey_eqb k key) eqn:E; cbn [rfind_pre]; rewrite E; [exists (m + 1), p; reflexivity|exact IH].
Qed.

Lemma rsat_more pre ov ov' wk dir ps : rsat pre ov wk dir ps -> rsat pre (ov ++ ov') wk dir ps.
Proof.
  unfold rsat. intros H Hf. apply H. clear H.
  induction (merge_lookup_keys wk dir) as [|k t IH]; [reflexivity|].
  cbn [filter] in *. destruct (kmatch pre (ov ++ ov') ps k) eqn:E; [discriminate|].
  assert (kmatch pre ov ps k = false) as ->.
  { unfold kmatch in *. apply orb_false_elim in E. destruct E as [E1 E2]. rewrite E1. cbn [orb].
    rewrite existsb_app in E2. apply orb_false_elim in E2. apply E2. }
  apply IH. exact Hf.
Qed.

(* all rows carry the pattern (wk, dir, ps) without ON items *)
Definition same_rows (wk : rkey) (dir : N) (ps : list (N * oval)) (n : nat) :=
  repeat (wk, dir, ps, @nil (N * oval), @nil (N * oval)) n.

Lemma fold_sat pre wk dir ps : forall n g c ov,
  rsat pre ov wk dir ps ->
  exists g', fold_left (merge_rel_row pre) (same_rows wk dir ps n) (g, c, ov) = (g', c, ov) /\
             gn g' = gn g /\ gr g' = gr g /\ gnext g' = gnext g.
Proof.
  induction n as [|n IH]; intros g c ov H; cbn [same_rows repeat fold_left].
  - exists g. auto.
  - rewrite merge_rel_row_sat by exact H.
    destruct (IH (mkGraph (gn g) (gr g) (gnext g) (gcat g)) c ov H) as (g' & E & A & B & C).
    exists g'. split; [exact E|]. cbn in *. auto.
Qed.

Theorem merge_rel_same_rows_idempotent g wk dir ps n :
  NoDup (keys_of ps) -> (forall k v, In (k, v) ps -> pv_eq v v = true) ->
  match exec g (UMergeRel (same_rows wk dir ps n)) with
  | Done g1 c1 =>
      (c1 <= 1) /\
      match exec g1 (UMergeRel (same_rows wk dir ps n)) with
      | Done g2 c2 => c2 = 0 /\ gn g2 = gn g1 /\ gr g2 = gr g1 /\ gnext g2 = gnext g1
      | Failed => False
      end
  | Failed => False
  end.
Proof.
  intros ND R. cbn [exec exec1 done].
  (* second run from any g1 whose snapshot satisfies the pattern *)
  assert (Second : forall g1, rsat g1 [] wk dir ps ->
            snd (fst (fold_left (merge_rel_row g1) (same_rows wk dir ps n) (g1, 0, []))) = 0 /\
            gn (fst (fst (fold_left (merge_rel_row g1) (same_rows wk dir ps n) (g1, 0, [])))) = gn g1 /\
            gr (fst (fst (fold_left (merge_rel_row g1) (same_rows wk dir ps n) (g1, 0, [])))) = gr g1 /\
            gnext (fst (fst (fold_left (merge_rel_row g1) (same_rows wk dir ps n) (g1, 0, [])))) = gnext g1).
  { intros g1 H. destruct (fold_sat g1 wk dir ps n g1 0 [] H) as (g' & E & A & B & C). rewrite E. cbn. auto. }
  destruct n as [|n].
  - cbn. repeat split; lia.
  - cbn [same_rows repeat fold_left]. fold (same_rows wk dir ps n).
    assert (Dec : rsat g [] wk dir ps \/ ~ rsat g [] wk dir ps) by (unfold rsat; destruct (filter (kmatch g [] ps) (merge_lookup_keys wk dir)); [right; intros H; apply H; reflexivity|left; discriminate]). destruct Dec as [Hs|Hu].
    + (* already matched before the statement *)
      rewrite merge_rel_row_sat by exact Hs.
      destruct (fold_sat g wk dir ps n (mkGraph (gn g) (gr g) (gnext g) (gcat g)) 0 [] Hs) as (g' & E & A & B & C).
      rewrite E. cbn [fst snd]. split; [lia|].
      assert (Hs1 : rsat g' [] wk dir ps).
      { unfold rsat, kmatch in *. rewrite B. exact Hs. }
      cbn [same_rows repeat] in Second. specialize (Second g' Hs1).
      change (repeat (wk, dir, ps, [], []) n) with (same_rows wk dir ps n) in Second.
      cbn [fold_left] in Second. exact Second.
    + (* the first row creates, the others find it in the overlay *)
      rewrite merge_rel_row_unsat by exact Hu.
      set (Kc := merge_create_key wk dir).
      assert (Hov : rsat g ([] ++ [(Kc, raw_set [] ps)]) wk dir ps).
      { unfold rsat. intros Hf.
        assert (Hk : In Kc (filter (kmatch g ([] ++ [(Kc, raw_set [] ps)]) ps) (merge_lookup_keys wk dir))).
        { apply filter_In. split; [apply create_key_in_lookup|].
          unfold kmatch. cbn [app existsb fst snd]. rewrite rkey_eqb_refl, raw_set_matches by assumption.
          cbn. apply orb_true_r. }
        rewrite Hf in Hk. destruct Hk. }
      destruct (fold_sat g wk dir ps n (mkGraph (gn g) (rel_merge_create Kc ps [] (gr g)) (gnext g) (gcat g)) (0 + 1) _ Hov)
        as (g' & E & A & B & C).
      rewrite E. cbn [fst snd]. split; [lia|].
      assert (Hs1 : rsat g' [] wk dir ps).
      { unfold rsat. intros Hf.
        assert (Hk : In Kc (filter (kmatch g' [] ps) (merge_lookup_keys wk dir))).
        { apply filter_In. split; [apply create_key_in_lookup|].
          unfold kmatch. rewrite B. cbn [gr].
          destruct (rfind_after_create Kc ps (gr g)) as (m & p & F). rewrite F.
          rewrite raw_set_matches by assumption. reflexivity. }
        rewrite Hf in Hk. destruct Hk. }
      cbn [same_rows repeat] in Second. specialize (Second g' Hs1).
      change (repeat (wk, dir, ps, [], []) n) with (same_rows wk dir ps n) in Second.
      cbn [fold_left] in Second. exact Second.
Qed.
