(* Crash/Fault.v — a failed commit and the dense internal-id rule of recovery.

   `WriteTxn::commit` assigns internal node ids from the in-memory node table, logs
   the transaction, fsyncs the log and only then applies the created nodes to the node
   table.  Recovery (`replay_graph_transactions` / `IdMap::apply_create_node`) accepts a
   logged CreateNode only if its internal id is the next dense id.  An I/O error after the
   commit record reached the log leaves the transaction in the log but not in memory: the
   next transaction reuses its ids.  This file models exactly that bookkeeping. *)
From Coq Require Export List NArith Bool.
Export ListNotations.
Open Scope N_scope.

Record st := {
  log : list (N * N);   (* per logged transaction: first internal id, number of created nodes *)
  mem_next : N          (* next internal id according to the running process *)
}.

Inductive ev :=
| Commit (n : N)               (* a commit creating n nodes succeeds *)
| FailBeforeLogged (n : N)     (* an I/O error before the commit record is completely appended:
                                  the log is rolled back / the group is never committed *)
| FailAfterLogged (n : N).     (* an I/O error after the commit record is in the log *)

Definition step (s : st) (e : ev) : st :=
  match e with
  | Commit n => {| log := log s ++ [(mem_next s, n)]; mem_next := mem_next s + n |}
  | FailBeforeLogged _ => s
  | FailAfterLogged n => {| log := log s ++ [(mem_next s, n)]; mem_next := mem_next s |}
  end.

Definition run (es : list ev) : st := fold_left step es {| log := []; mem_next := 0 |}.

(* recovery: every transaction's nodes must continue the dense id sequence; None = open fails *)
Fixpoint recover_from (next : N) (l : list (N * N)) : option N :=
  match l with
  | [] => Some next
  | (first, cnt) :: r =>
      if cnt =? 0 then recover_from next r
      else if first =? next then recover_from (next + cnt) r else None
  end.

Definition recover (s : st) : option N := recover_from 0 (log s).

(* the known class: some commit that created nodes failed after being logged *)
Definition logged_failure (e : ev) : bool :=
  match e with FailAfterLogged n => 0 <? n | _ => false end.
