From NDB Require Import Crash.Fault.
From Coq Require Import Lia ZifyBool ZifyN.
Open Scope N_scope.

Lemma recover_from_app next l first cnt :
  recover_from next (l ++ [(first, cnt)]) =
  match recover_from next l with
  | Some n => if cnt =? 0 then Some n else if first =? n then Some (n + cnt) else None
  | None => None
  end.
Proof.
  revert next; induction l as [|[f c] l IH]; intros next; cbn [app recover_from].
  - destruct (cnt =? 0); [reflexivity|]. destruct (first =? next); reflexivity.
  - destruct (c =? 0); [apply IH|]. destruct (f =? next); [apply IH|reflexivity].
Qed.

(* histories outside the known class keep the log replayable and in step with memory *)
Lemma run_inv es s :
  recover s = Some (mem_next s) ->
  forallb (fun e => negb (logged_failure e)) es = true ->
  recover (fold_left step es s) = Some (mem_next (fold_left step es s)).
Proof.
  revert s; induction es as [|e es IH]; intros s H F; cbn [fold_left]; [exact H|].
  cbn [forallb] in F. apply andb_prop in F as [F1 F2]. apply IH; [|exact F2].
  destruct e as [n|n|n]; cbn [step]; unfold recover in *; cbn [log mem_next].
  - rewrite recover_from_app, H. destruct (N.eqb_spec n 0) as [->|]; [f_equal; lia|].
    now rewrite N.eqb_refl.
  - exact H.
  - cbn in F1. rewrite recover_from_app, H.
    destruct (N.eqb_spec n 0) as [->|]; [reflexivity|]. exfalso.
    destruct (N.ltb_spec 0 n); [discriminate|lia].
Qed.

Theorem failed_commit_keeps_log_replayable es :
  forallb (fun e => negb (logged_failure e)) es = true ->
  recover (run es) = Some (mem_next (run es)).
Proof. intros F. unfold run. apply run_inv; [reflexivity|exact F]. Qed.

(* the finding: commit, a commit that fails after being logged, one more commit -> open fails *)
Theorem logged_failure_breaks_reopen :
  exists es, recover (run es) = None.
Proof. exists [Commit 1; FailAfterLogged 1; Commit 1]. reflexivity. Qed.
