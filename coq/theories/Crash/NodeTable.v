(* Crash/NodeTable.v — the write protocol of the persistent node table (idmap).

   A node is added by writing its record into the table page (`write_i2e_record`) and then
   advancing the header field `i2e_len` in the meta page (`set_i2e_len`, which also syncs).
   `IdMap::load` reads exactly `i2e_len` records.  The harness abstracts the recorded page
   writes to the alphabet below; this file defines the two crash images and the monitor. *)
From Coq Require Export List NArith Bool.
Export ListNotations.
Open Scope N_scope.

Inductive nstep :=
| NRec (idx : N)     (* the record of internal id idx is written into its page *)
| NMeta (len : N)    (* the meta page is written with i2e_len = len *)
| NSync.             (* fsync of the page file *)

Record ntab := {
  recs_v : N;   (* records 0 .. recs_v-1 are present in the file as written *)
  len_v : N;    (* header length as written *)
  recs_d : N;   (* the same, as of the last fsync *)
  len_d : N
}.

Definition ntab0 : ntab := {| recs_v := 0; len_v := 0; recs_d := 0; len_d := 0 |}.

Definition nstep_tab (s : ntab) (e : nstep) : ntab :=
  match e with
  | NRec idx => {| recs_v := N.max (recs_v s) (idx + 1); len_v := len_v s; recs_d := recs_d s; len_d := len_d s |}
  | NMeta len => {| recs_v := recs_v s; len_v := len; recs_d := recs_d s; len_d := len_d s |}
  | NSync => {| recs_v := recs_v s; len_v := len_v s; recs_d := recs_v s; len_d := len_v s |}
  end.

(* the monitor: records are appended densely (a slot may be rewritten by an idempotent replay),
   and the header never runs ahead of the records *)
Definition nstep_ok (s : ntab) (e : nstep) : bool :=
  match e with
  | NRec idx => idx <=? recs_v s
  | NMeta len => len <=? recs_v s
  | NSync => true
  end.

Fixpoint ntab_from (s : ntab) (tr : list nstep) : bool :=
  match tr with
  | [] => true
  | e :: r => nstep_ok s e && ntab_from (nstep_tab s e) r
  end.

Definition ntab_ok (tr : list nstep) : bool := ntab_from ntab0 tr.
Definition nrun_from (s : ntab) (tr : list nstep) : ntab := fold_left nstep_tab tr s.
Definition nrun (tr : list nstep) : ntab := nrun_from ntab0 tr.

(* what `IdMap::load` needs from a crash image: every record below the header length exists.
   Process death keeps what was written; power loss what was synced. *)
Definition load_safe_pd (s : ntab) : bool := len_v s <=? recs_v s.
Definition load_safe_pl (s : ntab) : bool := len_d s <=? recs_d s.
