From NDB Require Import Crash.NodeTable.
From Coq Require Import Lia ZifyBool ZifyN.
Open Scope N_scope.

Definition NInv (s : ntab) : Prop := len_v s <= recs_v s /\ len_d s <= recs_d s.

Lemma nstep_inv s e : NInv s -> nstep_ok s e = true -> NInv (nstep_tab s e).
Proof.
  intros [A B] H. destruct e as [idx|len|]; cbn [nstep_tab nstep_ok] in *; unfold NInv; cbn [recs_v len_v recs_d len_d]; lia.
Qed.

Lemma nrun_from_inv tr : forall s, NInv s -> ntab_from s tr = true -> NInv (nrun_from s tr).
Proof.
  induction tr as [|e tr IH]; intros s I P; cbn in *; [exact I|].
  apply andb_prop in P as [P1 P2]. apply IH; [now apply nstep_inv|exact P2].
Qed.

Lemma ntab_from_app s a b : ntab_from s (a ++ b) = ntab_from s a && ntab_from (nrun_from s a) b.
Proof. revert s; induction a as [|e a IH]; intros s; cbn; [reflexivity|]. now rewrite IH, andb_assoc. Qed.

(* at every step of every accepted trace, in both crash modes, the header never promises a
   record that is not in the file *)
Theorem node_table_load_safe tr k :
  ntab_ok tr = true ->
  load_safe_pd (nrun (firstn k tr)) = true /\ load_safe_pl (nrun (firstn k tr)) = true.
Proof.
  intros H. unfold ntab_ok in H. rewrite <- (firstn_skipn k tr), ntab_from_app in H.
  apply andb_prop in H as [H _].
  assert (I : NInv (nrun (firstn k tr))) by (apply nrun_from_inv; [split; cbn; lia|exact H]).
  destruct I as [A B]. unfold load_safe_pd, load_safe_pl. split; lia.
Qed.

Example ntab_accepts : ntab_ok [NRec 0; NMeta 1; NSync; NRec 1; NMeta 2; NSync; NRec 2; NRec 2; NMeta 3] = true.
Proof. reflexivity. Qed.
(* the header-before-record order is rejected *)
Example ntab_rejects : ntab_ok [NRec 0; NMeta 1; NSync; NMeta 2; NSync; NRec 1] = false.
Proof. reflexivity. Qed.
