(* Crash/Protocol_proofs.v — every trace accepted by the protocol monitor is
   crash-safe at every step, for process death and for power loss. *)
From NDB Require Import Crash.Protocol.
From Coq Require Import Arith Lia ZifyBool ZifyN ZifyNat.
Open Scope N_scope.

Lemma scan_app_tx w t ck :
  no_torn w = true -> scan (w ++ [ITx t ck]) = scan w ++ [(t, ck)].
Proof.
  induction w as [|i w IH]; cbn; [reflexivity|].
  destruct i; [|discriminate]. intros H. now rewrite IH.
Qed.

Lemma scan_app_torn w x : no_torn w = false -> scan (w ++ [x]) = scan w.
Proof.
  induction w as [|i w IH]; cbn; [discriminate|].
  destruct i; [|reflexivity]. intros H. now rewrite IH.
Qed.

Lemma scan_app_ITorn w : scan (w ++ [ITorn]) = scan w.
Proof. induction w as [|i w IH]; cbn; [reflexivity|]. destruct i; [now rewrite IH|reflexivity]. Qed.

Lemma eff_app l t ck : eff (l ++ [(t, ck)]) = match ck with Some e => Some e | None => eff l end.
Proof.
  induction l as [|[t' c'] l IH]; cbn.
  - destruct ck; reflexivity.
  - rewrite IH. destruct ck; [reflexivity|]. reflexivity.
Qed.

Lemma ids_app l t ck : ids (l ++ [(t, ck)]) = ids l ++ [t].
Proof. unfold ids. now rewrite map_app. Qed.

Lemma memb_In t l : memb t l = true <-> In t l.
Proof.
  unfold memb. rewrite existsb_exists. split.
  - intros [x [H E]]. apply N.eqb_eq in E. now subst.
  - intros H. exists t. split; [assumption|apply N.eqb_refl].
Qed.

(* "logically present": in the readable log, or at/below the effective checkpoint *)
Definition LP (l : list ctx) (t : N) : Prop :=
  In t (ids l) \/ exists u n, eff l = Some (u, n) /\ t <= u.

(* every checkpoint that occurs in the log is backed by durable page writes *)
Definition ckpts_le (w : list item) (p : N) : Prop :=
  forall t u n, In (ITx t (Some (u, n))) w -> n <= p.

Record Inv (d : disk) : Prop := {
  inv_wd : (wd d <= length (wv d))%nat;
  inv_pd : pd d <= pv d;
  inv_ck : ckpts_le (wv d) (pd d);
  inv_ack_v : forall a, In a (acked d) -> LP (scan (wv d)) a;
  inv_ack_d : forall a, In a (acked d) -> LP (scan (firstn (wd d) (wv d))) a
}.

Lemma Inv0 : Inv disk0.
Proof.
  constructor; cbn; try lia; try (now intros ? []); try (now intros ? ? ? []).
Qed.

Lemma firstn_app_le {A} n (a b : list A) : (n <= length a)%nat -> firstn n (a ++ b) = firstn n a.
Proof. intros H. rewrite firstn_app. replace (n - length a)%nat with 0%nat by lia. cbn. apply app_nil_r. Qed.

Lemma LP_app_tx l t ck a :
  LP l a -> (forall u n, ck = Some (u, n) -> a <= u \/ In a (ids l) \/ a = t) ->
  LP (l ++ [(t, ck)]) a.
Proof.
  intros H K. unfold LP. rewrite ids_app, eff_app, in_app_iff.
  destruct ck as [[u n]|].
  - destruct (K u n eq_refl) as [L|[L|L]]; [right; eauto|left; auto|left; right; cbn; auto].
  - destruct H as [H|H]; [left; auto|right; exact H].
Qed.

Lemma eff_in l u n : eff l = Some (u, n) -> exists t, In (t, Some (u, n)) l.
Proof.
  induction l as [|[t c] l IH]; cbn; [discriminate|].
  destruct (eff l) as [e|] eqn:E.
  - intros H. injection H as ->. destruct (IH eq_refl) as [t' H']. eauto.
  - intros ->. eauto.
Qed.

Lemma scan_in w t ck : In (t, ck) (scan w) -> In (ITx t ck) w.
Proof.
  induction w as [|i w IH]; cbn; [tauto|].
  destruct i as [t' c'|]; [|intros []].
  cbn. intros [H|H]; [injection H as -> ->; auto|auto].
Qed.

Lemma In_firstn {A} n (l : list A) x : In x (firstn n l) -> In x l.
Proof. revert l; induction n as [|n IH]; intros [|y l]; cbn; try tauto. intros [H|H]; auto. Qed.

Lemma step_inv d s : Inv d -> step_ok d s = true -> Inv (step_disk d s).
Proof.
  intros [Hwd Hpd Hck Hav Had] Hok.
  destruct s as [t ck| | | | |t u n| |]; cbn [step_disk step_ok] in *.
  - (* STx *)
    constructor; cbn [wv wd pv pd acked].
    + rewrite app_length; cbn; lia.
    + assumption.
    + intros t' u' n' H. apply in_app_iff in H as [H|H]; [eapply Hck; eauto|].
      destruct H as [H|[]]. injection H as -> ->.
      repeat (match goal with H : _ && _ = true |- _ => apply andb_prop in H as [? ?] end). lia.
    + intros a Ha. destruct (no_torn (wv d)) eqn:NT.
      * rewrite scan_app_tx by assumption. apply LP_app_tx; [auto|].
        intros u n ->. destruct (andb_prop _ _ Hok) as [_ F].
        rewrite forallb_forall in F. specialize (F a Ha).
        apply orb_prop in F as [F|F]; [apply orb_prop in F as [F|F]|].
        -- left; lia.
        -- right; left. now apply memb_In.
        -- right; right. lia.
      * rewrite scan_app_torn by assumption. auto.
    + intros a Ha. rewrite firstn_app_le by assumption. auto.
  - (* STorn *)
    constructor; cbn [wv wd pv pd acked].
    + rewrite app_length; cbn; lia.
    + assumption.
    + intros t' u' n' H. apply in_app_iff in H as [H|[H|[]]]; [eapply Hck; eauto|discriminate].
    + intros a Ha. rewrite scan_app_ITorn. auto.
    + intros a Ha. rewrite firstn_app_le by assumption. auto.
  - (* SWSync *)
    constructor; cbn [wv wd pv pd acked]; auto.
    intros a Ha. rewrite firstn_all. auto.
  - (* SP *)
    constructor; cbn [wv wd pv pd acked]; auto. lia.
  - (* SPSync *)
    constructor; cbn [wv wd pv pd acked]; auto; try lia.
    intros t' u' n' H. specialize (Hck _ _ _ H). lia.
  - (* SRewrite *)
    destruct (andb_prop _ _ Hok) as [Hok1 F]. destruct (andb_prop _ _ Hok1) as [Hok2 E3].
    destruct (andb_prop _ _ Hok2) as [E1 E2].
    assert (L : forall a, In a (acked d) -> LP [(t, Some (u, n))] a).
    { intros a Ha. rewrite forallb_forall in F. specialize (F a Ha).
      apply orb_prop in F as [F|F]; [right; exists u, n; split; [reflexivity|lia]|left; cbn; left; lia]. }
    constructor; cbn [wv wd pv pd acked length firstn scan]; auto.
    intros t' u' n' [H|[]]. injection H as -> -> ->. lia.
  - (* SAck *)
    destruct (andb_prop _ _ Hok) as [E NT]. apply Nat.eqb_eq in E.
    constructor; cbn [wv wd pv pd acked]; auto.
    + intros a Ha. apply in_app_iff in Ha as [Ha|Ha]; [auto|left; exact Ha].
    + intros a Ha. rewrite E, firstn_all. apply in_app_iff in Ha as [Ha|Ha]; [|left; exact Ha].
      specialize (Had a Ha). now rewrite E, firstn_all in Had.
  - discriminate.
Qed.

Lemma run_from_inv tr : forall d, Inv d -> protocol_from d tr = true -> Inv (run_from d tr).
Proof.
  induction tr as [|s tr IH]; intros d I P; cbn in *; [exact I|].
  apply andb_prop in P as [P1 P2]. apply IH; [now apply step_inv|exact P2].
Qed.

Lemma protocol_from_app d a b :
  protocol_from d (a ++ b) = protocol_from d a && protocol_from (run_from d a) b.
Proof.
  revert d; induction a as [|s a IH]; intros d; cbn; [reflexivity|].
  now rewrite IH, andb_assoc.
Qed.

Lemma protocol_prefix tr k : protocol_ok tr = true -> protocol_ok (firstn k tr) = true.
Proof.
  unfold protocol_ok. intros H. rewrite <- (firstn_skipn k tr), protocol_from_app in H.
  now apply andb_prop in H as [H _].
Qed.

Theorem reachable_inv tr k : protocol_ok tr = true -> Inv (run (firstn k tr)).
Proof. intros H. apply run_from_inv; [apply Inv0|now apply protocol_prefix]. Qed.

Lemma LP_present img a :
  LP (scan (fst img)) a ->
  (forall u n, eff (scan (fst img)) = Some (u, n) -> n <= snd img) ->
  present img a = true.
Proof.
  intros [H|(u & n & E & L)] B; unfold present.
  - apply memb_In in H. now rewrite H.
  - rewrite E. specialize (B u n E). apply orb_true_iff. right. lia.
Qed.

Lemma inv_backed d m : Inv d ->
  forall u n, eff (scan (fst (image m d))) = Some (u, n) -> n <= snd (image m d).
Proof.
  intros [Hwd Hpd Hck _ _] u n E. apply eff_in in E as [t E]. apply scan_in in E.
  destruct m; cbn [image fst snd] in *.
  - specialize (Hck _ _ _ E). lia.
  - apply In_firstn in E. now specialize (Hck _ _ _ E).
Qed.

(* C01 at the level of the durability protocol: at every step of every accepted trace, in both
   crash modes, every acknowledged transaction is recoverable from the crash image. *)
Theorem acked_survive tr k m a :
  protocol_ok tr = true ->
  In a (acked (run (firstn k tr))) ->
  present (image m (run (firstn k tr))) a = true.
Proof.
  intros P Ha. pose proof (reachable_inv tr k P) as I.
  apply LP_present; [|now apply inv_backed].
  destruct m; cbn [image fst]; [now apply (inv_ack_v _ I)|now apply (inv_ack_d _ I)].
Qed.

(* the checkpoint that recovery will trust never points beyond the page file on disk *)
Theorem ckpt_always_backed tr k m :
  protocol_ok tr = true -> ckpt_backed (image m (run (firstn k tr))) = true.
Proof.
  intros P. pose proof (reachable_inv tr k P) as I. unfold ckpt_backed.
  destruct (eff (scan (fst (image m (run (firstn k tr)))))) as [[u n]|] eqn:E; [|reflexivity].
  apply N.leb_le. eapply inv_backed; eauto.
Qed.

(* C02 at the level of the log: the transactions recovered from any crash image are a prefix, in
   commit order, of the transactions whose commit record was written *)
Lemma scan_firstn_prefix n w : exists r, scan w = scan (firstn n w) ++ r.
Proof.
  revert w; induction n as [|n IH]; intros w; cbn; [eauto|].
  destruct w as [|i w]; cbn; [exists []; reflexivity|].
  destruct i as [t ck|]; [|exists []; reflexivity].
  destruct (IH w) as [r E]. exists r. cbn. now rewrite <- E.
Qed.

Lemma prefixN_app a r : prefixN a (a ++ r) = true.
Proof. induction a as [|x a IH]; cbn; [reflexivity|]. now rewrite N.eqb_refl. Qed.

Theorem recovered_prefix tr k m :
  prefixN (recovered_ids m (firstn k tr)) (ids (scan (wv (run (firstn k tr))))) = true.
Proof.
  unfold recovered_ids. destruct m; cbn [image fst].
  - rewrite <- (app_nil_r (ids (scan (wv (run (firstn k tr)))))). rewrite app_nil_r at 1. apply prefixN_app.
  - destruct (scan_firstn_prefix (wd (run (firstn k tr))) (wv (run (firstn k tr)))) as [r E].
    rewrite E. unfold ids. rewrite map_app. apply prefixN_app.
Qed.

(* a failed operation (a trace cut short: no acknowledgement) leaves a transaction either
   completely in the log or not at all: items are whole transactions by construction, and the
   accepted-trace property is prefix closed *)
Theorem protocol_prefix_closed tr k : protocol_ok tr = true -> protocol_ok (firstn k tr) = true.
Proof. apply protocol_prefix. Qed.

(* ---- every logged transaction lies above the checkpoint in force before it: it is replayed ---- *)

Definition eff_upto (cur : option N) (l : list ctx) : option N :=
  match eff l with Some (u, _) => Some u | None => cur end.

Lemma seg_ok_app cur l t c :
  seg_ok cur (l ++ [(t, c)]) =
  seg_ok cur l && match eff_upto cur l with Some u => u <? t | None => true end.
Proof.
  revert cur; induction l as [|[t' c'] l IH]; intros cur; cbn [app seg_ok].
  - unfold eff_upto; cbn [eff]. now rewrite andb_true_r.
  - rewrite IH, andb_assoc. f_equal. unfold eff_upto. cbn [eff].
    destruct (eff l) as [[u n]|]; [reflexivity|]. destruct c' as [[u n]|]; reflexivity.
Qed.

Lemma seg_ok_prefix cur a b : seg_ok cur (a ++ b) = true -> seg_ok cur a = true.
Proof.
  revert cur; induction a as [|[t c] a IH]; intros cur; cbn [app seg_ok]; [reflexivity|].
  intros H. apply andb_prop in H as [H1 H2]. rewrite H1. cbn. eapply IH; eauto.
Qed.

Lemma step_seg d s :
  seg_ok None (scan (wv d)) = true -> step_ok d s = true ->
  seg_ok None (scan (wv (step_disk d s))) = true.
Proof.
  intros I Hok.
  assert (A : forall t ck, above_eff (scan (wv d)) t = true ->
                           seg_ok None (scan (wv d ++ [ITx t ck])) = true).
  { intros t ck Ab. destruct (no_torn (wv d)) eqn:NT.
    - rewrite scan_app_tx by assumption. rewrite seg_ok_app, I. cbn.
      unfold above_eff in Ab. unfold eff_upto. destruct (eff (scan (wv d))) as [[u n]|]; auto.
    - now rewrite scan_app_torn. }
  destruct s as [t ck| | | | |t u n| |]; cbn [step_disk step_ok wv] in *; auto.
  - destruct ck as [[u n]|]; apply A.
    + repeat (match goal with H : _ && _ = true |- _ => apply andb_prop in H as [? ?] end). assumption.
    + assumption.
  - now rewrite scan_app_ITorn.
Qed.

Lemma run_from_seg tr : forall d,
  seg_ok None (scan (wv d)) = true -> protocol_from d tr = true ->
  seg_ok None (scan (wv (run_from d tr))) = true.
Proof.
  induction tr as [|s tr IH]; intros d I P; cbn in *; [exact I|].
  apply andb_prop in P as [P1 P2]. apply IH; [now apply step_seg|exact P2].
Qed.

(* at every crash point, in both modes, every transaction in the surviving log lies above the
   checkpoint logged before it: recovery replays it instead of skipping it *)
Theorem logged_are_replayed tr k m :
  protocol_ok tr = true -> replayable (image m (run (firstn k tr))) = true.
Proof.
  intros P. assert (V : seg_ok None (scan (wv (run (firstn k tr)))) = true).
  { apply run_from_seg; [reflexivity|now apply protocol_prefix]. }
  unfold replayable. destruct m; cbn [image fst]; [exact V|].
  destruct (scan_firstn_prefix (wd (run (firstn k tr))) (wv (run (firstn k tr)))) as [r E].
  rewrite E in V. eapply seg_ok_prefix; eauto.
Qed.

(* non-vacuity: a commit, a compaction with checkpoint, a close-time rewrite, all accepted *)
Example accepted_trace :
  let tr := [STx 1 None; SWSync; SAck; SP; SP; SPSync; STx 2 None; SWSync; SAck;
             SP; SPSync; STx 3 (Some (2, 3)); SWSync; SAck; SPSync; SRewrite 4 3 3; SWSync; SAck] in
  protocol_ok tr = true /\ acked (run tr) <> [] /\
  present (image PL (run (firstn 13 tr))) 2 = true.
Proof. vm_compute. intuition discriminate. Qed.

(* the monitor rejects the unsynced-page-before-checkpoint pattern *)
Example rejected_unsynced_checkpoint :
  protocol_ok [STx 1 None; SWSync; SAck; SP; STx 2 (Some (1, 1)); SWSync; SAck] = false.
Proof. reflexivity. Qed.
