(* Crash/Protocol.v — the durability protocol of the storage engine as an
   executable model over abstract I/O steps.

   The harness (harness/hx_crash) records every WAL/pager I/O step of the real
   engine (hook nervusdb_storage::verif_io) and abstracts it to the alphabet
   `step` below (a transaction's records Begin..Commit are one step, emitted at
   its commit record; a begun-but-never-committed group is dropped exactly as
   `Wal::replay_committed` drops it).  This file defines
     - the disk state after a list of steps (volatile view and durable view),
     - the two crash images (process death / power loss),
     - log recovery (`replay_committed` + `scan_recovery_state`) on items,
     - the protocol monitor `protocol_ok`: acknowledge only after the log is
       synced and readable; log a checkpoint only over a synced page file and
       only if it covers every acknowledged transaction no longer in the log;
       rewrite the log only to such a checkpoint.
   Crash/Protocol_proofs.v proves that every trace accepted by the monitor is
   crash-safe at every step, in both modes. *)
From Coq Require Export List NArith Bool.
Export ListNotations.
Open Scope N_scope.

(* checkpoint carried by a transaction: recovery skips transactions <= upto and relies on the
   first `need` page-file writes (ghost count filled in by the harness, checked by the monitor) *)
Definition ckpt := (N * N)%type.

Inductive item :=
| ITx (t : N) (ck : option ckpt)   (* a complete committed transaction in the log *)
| ITorn.                           (* garbage: a frame that failed half way *)

Inductive step :=
| STx (t : N) (ck : option ckpt)   (* Begin t .. Commit t appended (complete) *)
| STorn                            (* an append failed half way and the process went on *)
| SWSync                           (* fsync of the log *)
| SP                               (* one page-file write *)
| SPSync                           (* fsync of the page file *)
| SRewrite (t upto need : N)       (* log atomically replaced by [Begin t; labels; manifest; Checkpoint; Commit t], synced *)
| SAck                             (* an operation returned success to its caller *)
| SBad.                            (* the log would not parse: record outside a transaction / mismatched commit *)

Record disk := {
  wv : list item;   (* log as written *)
  wd : nat;         (* length of the durable prefix of wv *)
  pv : N;           (* page-file writes issued *)
  pd : N;           (* page-file writes durable *)
  acked : list N    (* transaction ids whose commit was acknowledged *)
}.

Definition disk0 : disk := {| wv := []; wd := 0; pv := 0; pd := 0; acked := [] |}.

Definition ctx := (N * option ckpt)%type.

(* the readable committed transactions: the scan stops at the first torn frame *)
Fixpoint scan (w : list item) : list ctx :=
  match w with
  | ITx t ck :: r => (t, ck) :: scan r
  | _ => []
  end.

Definition ids (l : list ctx) : list N := map fst l.

(* scan_recovery_state: the last committed checkpoint wins *)
Fixpoint eff (l : list ctx) : option ckpt :=
  match l with
  | [] => None
  | (_, c) :: r => match eff r with Some e => Some e | None => c end
  end.

Definition no_torn (w : list item) : bool :=
  forallb (fun i => match i with ITorn => false | _ => true end) w.

Definition step_disk (d : disk) (s : step) : disk :=
  match s with
  | STx t ck => {| wv := wv d ++ [ITx t ck]; wd := wd d; pv := pv d; pd := pd d; acked := acked d |}
  | STorn => {| wv := wv d ++ [ITorn]; wd := wd d; pv := pv d; pd := pd d; acked := acked d |}
  | SWSync => {| wv := wv d; wd := length (wv d); pv := pv d; pd := pd d; acked := acked d |}
  | SP => {| wv := wv d; wd := wd d; pv := pv d + 1; pd := pd d; acked := acked d |}
  | SPSync => {| wv := wv d; wd := wd d; pv := pv d; pd := pv d; acked := acked d |}
  | SRewrite t u n => {| wv := [ITx t (Some (u, n))]; wd := 1; pv := pv d; pd := pd d; acked := acked d |}
  | SAck => {| wv := wv d; wd := wd d; pv := pv d; pd := pd d; acked := acked d ++ ids (scan (wv d)) |}
  | SBad => d
  end.

Definition memb (t : N) (l : list N) : bool := existsb (N.eqb t) l.

(* the monitor: what the engine must respect at each step *)
(* a new transaction must lie above the checkpoint recovery will trust, or it would be skipped *)
Definition above_eff (l : list ctx) (t : N) : bool :=
  match eff l with Some (u, _) => u <? t | None => true end.

Definition step_ok (d : disk) (s : step) : bool :=
  match s with
  | STx t (Some (u, n)) =>
      (n =? pv d) && (pd d =? pv d) && (u <? t) && above_eff (scan (wv d)) t &&
      forallb (fun a => (a <=? u) || memb a (ids (scan (wv d))) || (a =? t)) (acked d)
  | STx t None => above_eff (scan (wv d)) t
  | SRewrite t u n =>
      (n =? pv d) && (pd d =? pv d) && (u <? t) && forallb (fun a => (a <=? u) || (a =? t)) (acked d)
  | SAck => Nat.eqb (wd d) (length (wv d)) && no_torn (wv d)
  | SBad => false
  | _ => true
  end.

Fixpoint protocol_from (d : disk) (tr : list step) : bool :=
  match tr with
  | [] => true
  | s :: r => step_ok d s && protocol_from (step_disk d s) r
  end.

Definition protocol_ok (tr : list step) : bool := protocol_from disk0 tr.
Definition run_from (d : disk) (tr : list step) : disk := fold_left step_disk tr d.
Definition run (tr : list step) : disk := run_from disk0 tr.

Inductive mode := PD | PL.

(* what survives a crash: (log, number of page-file writes on disk) *)
Definition image (m : mode) (d : disk) : list item * N :=
  match m with
  | PD => (wv d, pv d)
  | PL => (firstn (wd d) (wv d), pd d)
  end.

(* a transaction is recoverable from an image: replayed from the log, or skipped under the
   effective checkpoint whose page-file prerequisites are on disk *)
Definition present (img : list item * N) (t : N) : bool :=
  let l := scan (fst img) in
  memb t (ids l) ||
  match eff l with
  | Some (u, n) => (t <=? u) && (n <=? snd img)
  | None => false
  end.

(* recovery replays a logged transaction only if its id is above the checkpoint in force before it:
   `seg_ok cur l` says every transaction of l lies above the latest checkpoint logged before it
   (cur = upto of the checkpoint in force at the start of l) *)
Fixpoint seg_ok (cur : option N) (l : list ctx) : bool :=
  match l with
  | [] => true
  | (t, c) :: r =>
      match cur with Some u => u <? t | None => true end &&
      seg_ok (match c with Some (u, _) => Some u | None => cur end) r
  end.

Definition replayable (img : list item * N) : bool := seg_ok None (scan (fst img)).

(* the effective checkpoint of an image never points beyond the page file on disk *)
Definition ckpt_backed (img : list item * N) : bool :=
  match eff (scan (fst img)) with
  | Some (_, n) => n <=? snd img
  | None => true
  end.

(* what the recovered log is, for the correspondence with the implementation *)
Definition recovered_ids (m : mode) (tr : list step) : list N :=
  ids (scan (fst (image m (run tr)))).

Fixpoint prefixN (a b : list N) : bool :=
  match a, b with
  | [], _ => true
  | x :: a', y :: b' => (x =? y) && prefixN a' b'
  | _, _ => false
  end.

(* ---- record-level traces and their abstraction (mirror of Wal::replay_committed's grouping) ----
   The harness also reports the recorded I/O events at record granularity; `abstract` groups
   Begin..Commit into one STx exactly as the log scanner does, and the correspondence compares
   it with the harness's own grouping (two independent implementations). *)
Inductive wrec := RBegin (t : N) | RCommit (t : N) | RCkpt (upto need : N) | RData.

Inductive rstep :=
| RW (r : wrec)        (* a complete record appended to the log *)
| RWtorn               (* an append that failed half way and was not rolled back *)
| RWSync | RP | RPSync
| RTmp (r : wrec)      (* a record written to the temporary log of a rewrite *)
| RRename              (* the temporary log replaces the log *)
| ROpOk.               (* an operation returned success *)

Record gstate := { g_cur : option N; g_pend : option ckpt }.
Definition g0 : gstate := {| g_cur := None; g_pend := None |}.

(* one record through the grouper: new state and the step to emit, if any *)
Definition feed (g : gstate) (r : wrec) : gstate * option step :=
  match r with
  | RBegin t => ({| g_cur := Some t; g_pend := None |}, None)
  | RCommit t =>
      match g_cur g with
      | Some c => if c =? t then (g0, Some (STx t (g_pend g))) else (g, Some SBad)
      | None => (g, Some SBad)
      end
  | RCkpt u n =>
      match g_cur g with
      | Some _ => ({| g_cur := g_cur g; g_pend := Some (u, n) |}, None)
      | None => (g, Some SBad)
      end
  | RData =>
      match g_cur g with Some _ => (g, None) | None => (g, Some SBad) end
  end.

Fixpoint abstract_from (g tg : gstate) (tmp : list step) (tr : list rstep) : list step :=
  match tr with
  | [] => []
  | RW r :: rest =>
      let '(g', o) := feed g r in
      match o with Some s => s :: abstract_from g' tg tmp rest | None => abstract_from g' tg tmp rest end
  | RWtorn :: rest => STorn :: abstract_from g tg tmp rest
  | RWSync :: rest => SWSync :: abstract_from g tg tmp rest
  | RP :: rest => SP :: abstract_from g tg tmp rest
  | RPSync :: rest => SPSync :: abstract_from g tg tmp rest
  | RTmp r :: rest =>
      let '(tg', o) := feed tg r in
      abstract_from g tg' (match o with Some s => tmp ++ [s] | None => tmp end) rest
  | RRename :: rest =>
      (match tmp with
       | [STx t (Some (u, n))] => SRewrite t u n
       | _ => SBad
       end) :: abstract_from g0 g0 [] rest
  | ROpOk :: rest => SAck :: abstract_from g tg tmp rest
  end.

Definition abstract (tr : list rstep) : list step := abstract_from g0 g0 [] tr.
