(* IndexSem/Proofs.v — proofs about the index model: when the index seek and the label scan
   return the same rows (state level), and that every history without a known-class step
   keeps the index exact (history level). *)
From NDB Require Import Base.Bytes Base.Bytes_proofs Index.OrderedKey Index.OrderedKey_proofs IndexSem.Model.
From Coq Require Import Lia Sorted Permutation.
Open Scope N_scope.

(* ---------- strictly increasing lists of ids ---------- *)
Definition ssorted := StronglySorted N.lt.

Lemma ins_sorted_in a l x : In x (ins_sorted a l) <-> x = a \/ In x l.
Proof.
  induction l as [|y t IH]; cbn [ins_sorted]; [cbn; intuition|].
  destruct (a <=? y); cbn [In]; [intuition|]. rewrite IH. intuition.
Qed.

Lemma sort_ids_in l x : In x (sort_ids l) <-> In x l.
Proof.
  induction l as [|a t IH]; cbn [sort_ids fold_right]; [reflexivity|].
  rewrite ins_sorted_in. fold (sort_ids t). rewrite IH. cbn [In]. intuition.
Qed.

Lemma ins_sorted_ssorted a l : ssorted l -> ~ In a l -> ssorted (ins_sorted a l).
Proof.
  induction l as [|y t IH]; intros Hs Hn; cbn [ins_sorted].
  - repeat constructor.
  - destruct (a <=? y) eqn:E.
    + apply N.leb_le in E. assert (a < y) by (cbn in Hn; lia).
      constructor; [exact Hs|]. inversion Hs as [|? ? Ht Hf]; subst.
      constructor; [exact H|]. rewrite Forall_forall in *. intros z Hz. specialize (Hf z Hz). lia.
    + apply N.leb_gt in E. inversion Hs as [|? ? Ht Hf]; subst.
      constructor.
      * apply IH; [exact Ht|]. cbn in Hn. intuition.
      * rewrite Forall_forall in *. intros z Hz. apply ins_sorted_in in Hz. destruct Hz as [->|Hz]; [exact E|auto].
Qed.

Lemma sort_ids_ssorted l : NoDup l -> ssorted (sort_ids l).
Proof.
  induction 1 as [|a t Hn Hd IH]; cbn [sort_ids fold_right]; [constructor|].
  fold (sort_ids t). apply ins_sorted_ssorted; [exact IH|]. rewrite sort_ids_in. exact Hn.
Qed.

Lemma ssorted_filter p l : ssorted l -> ssorted (filter p l).
Proof.
  induction 1 as [|a t Ht IH Hf]; cbn [filter]; [constructor|].
  destruct (p a); [|exact IH]. constructor; [exact IH|].
  rewrite Forall_forall in *. intros z Hz. apply filter_In in Hz. apply Hf, Hz.
Qed.

Lemma ssorted_ext a : forall b, ssorted a -> ssorted b -> (forall x, In x a <-> In x b) -> a = b.
Proof.
  induction a as [|x a IH]; intros b Ha Hb He.
  - destruct b as [|y b]; [reflexivity|]. exfalso. apply (He y). left; reflexivity.
  - destruct b as [|y b]; [exfalso; apply (He x); left; reflexivity|].
    inversion Ha as [|? ? Ha' Hfa]; inversion Hb as [|? ? Hb' Hfb]; subst.
    rewrite Forall_forall in Hfa, Hfb.
    assert (x = y).
    { destruct (proj1 (He x) (or_introl eq_refl)) as [E|Hi]; [auto|].
      destruct (proj2 (He y) (or_introl eq_refl)) as [E|Hj]; [auto|].
      specialize (Hfa y Hj). specialize (Hfb x Hi). lia. }
    subst y. f_equal. apply IH; [exact Ha'|exact Hb'|].
    intros z. split; intros Hz.
    + destruct (proj1 (He z) (or_intror Hz)) as [E|Hi]; [|exact Hi]. subst z. specialize (Hfa x Hz). lia.
    + destruct (proj2 (He z) (or_intror Hz)) as [E|Hi]; [|exact Hi]. subst z. specialize (Hfb x Hz). lia.
Qed.

Lemma ids_from_in p : forall ns i x,
  In x (ids_from i ns p) <-> exists n, i <= x /\ nth_error ns (N.to_nat (x - i)) = Some n /\ p n = true.
Proof.
  induction ns as [|n t IH]; intros i x; cbn [ids_from].
  - split; [intros []|]. intros (n & _ & H & _). destruct (N.to_nat (x - i)); discriminate.
  - assert (Hrec : In x (ids_from (N.succ i) t p) <->
                   exists n0, i < x /\ nth_error t (N.to_nat (x - N.succ i)) = Some n0 /\ p n0 = true).
    { rewrite IH. split; intros (n0 & A & B & C); exists n0; repeat split; auto; lia. }
    assert (Hstep : forall n0, i < x ->
              (nth_error (n :: t) (N.to_nat (x - i)) = Some n0 <-> nth_error t (N.to_nat (x - N.succ i)) = Some n0)).
    { intros n0 Hlt. replace (N.to_nat (x - i)) with (S (N.to_nat (x - N.succ i))) by lia. reflexivity. }
    destruct (p n) eqn:Ep; cbn [In]; rewrite Hrec; split.
    + intros [<-|(n0 & A & B & C)].
      * exists n. replace (i - i) with 0 by lia. cbn. repeat split; auto; lia.
      * exists n0. repeat split; [lia| apply Hstep; auto | auto].
    + intros (n0 & A & B & C). destruct (N.eq_dec i x) as [E|E]; [left; exact E|right].
      exists n0. assert (i < x) by lia. repeat split; auto. apply Hstep; auto.
    + intros (n0 & A & B & C). exists n0. repeat split; [lia| apply Hstep; auto | auto].
    + intros (n0 & A & B & C). destruct (N.eq_dec i x) as [E|E].
      * subst x. replace (i - i) with 0 in B by lia. cbn in B. congruence.
      * exists n0. assert (i < x) by lia. repeat split; auto. apply Hstep; auto.
Qed.

Lemma ids_from_ssorted p : forall ns i, ssorted (ids_from i ns p).
Proof.
  induction ns as [|n t IH]; intros i; cbn [ids_from]; [constructor|].
  destruct (p n); [|apply IH]. constructor; [apply IH|].
  rewrite Forall_forall. intros z Hz. apply ids_from_in in Hz. destruct Hz as (? & A & _). lia.
Qed.

(* ---------- equality and encodings ---------- *)
Lemma oeq_true_enc w v :
  typed w = true -> typed v = true -> kind w = kind v -> oeq_true w v = true -> enc w = enc v.
Proof.
  intros Tw Tv K E. unfold oeq_true in E.
  destruct w, v; cbn in K; try discriminate; cbn in E; try discriminate.
  - destruct b, b0; cbn in E; try discriminate; reflexivity.
  - destruct (Z.eqb z z0) eqn:Q; [|discriminate]. apply Z.eqb_eq in Q. subst; reflexivity.
  - destruct (is_nan bits) eqn:N1; [discriminate|]. destruct (is_nan bits0) eqn:N2; [discriminate|].
    cbn in E. destruct (Z.eqb (fkey bits) (fkey bits0)) eqn:Q; [|discriminate]. apply Z.eqb_eq in Q.
    apply enc_eq_iff.
    + cbn. cbn in Tw. rewrite Tw, N1. reflexivity.
    + cbn. cbn in Tv. rewrite Tv, N2. reflexivity.
    + unfold val_eq. cbn. rewrite Q, Z.compare_refl. reflexivity.
  - destruct (bytes_eqb s s0) eqn:Q; [|discriminate]. apply bytes_eqb_eq in Q. subst; reflexivity.
Qed.

Section Idx.
Context (ilabel ikey : N).
Notation lookup := (lookup ilabel ikey).
Notation seek_eval := (seek_eval ilabel ikey).
Notation k_numeric := (k_numeric ilabel ikey).

(* the seek answers like the scan as soon as the lookup result has no duplicate and contains
   every live node the scan would return *)
Lemma seek_scan_state s l preds :
  (forall k0 v0 rest ids, preds = (k0, v0) :: rest -> lookup s l k0 v0 = Some ids ->
     NoDup ids /\
     forall id n, get_node s id = Some n -> n_deleted n = false -> sat n l preds = true -> In id ids) ->
  seek_eval s l preds = scan_eval s l preds.
Proof.
  intros H. unfold Model.seek_eval. destruct preds as [|[k0 v0] rest]; [reflexivity|].
  destruct (lookup s l k0 v0) as [ids|] eqn:L; [|reflexivity].
  destruct (H k0 v0 rest ids eq_refl L) as [Hnd Hall].
  apply ssorted_ext.
  - apply ssorted_filter, sort_ids_ssorted, NoDup_filter, Hnd.
  - apply ids_from_ssorted.
  - intros x. rewrite filter_In, sort_ids_in, filter_In. unfold scan_eval. rewrite ids_from_in.
    unfold live, get_node. replace (x - 0) with x by lia.
    split.
    + intros ((Hi & Hl) & Hs). destruct (nth_error (nodes s) (N.to_nat x)) as [n|]; [|discriminate].
      exists n. repeat split; [lia|]. rewrite Hl, Hs. reflexivity.
    + intros (n & _ & Hn & Hp). apply andb_prop in Hp. destruct Hp as [Hl Hs].
      rewrite Hn. repeat split; auto. apply (Hall x n); auto.
      destruct (n_deleted n); [discriminate|reflexivity].
Qed.

(* ---------- small facts about the store and the entry list ---------- *)
Lemma nth_upd_nth {A} (f : A -> A) : forall l i j,
  nth_error (upd_nth l i f) j = if Nat.eqb i j then option_map f (nth_error l j) else nth_error l j.
Proof.
  induction l as [|x t IH]; intros i j; cbn [upd_nth].
  - destruct (Nat.eqb i j); destruct j; reflexivity.
  - destruct i, j; cbn [nth_error Nat.eqb option_map]; try reflexivity. apply IH.
Qed.

Lemma pget_pdel k k' m : pget k (pdel k' m) = if k' =? k then None else pget k m.
Proof.
  induction m as [|[a v] t IH]; cbn [pdel pget]; [destruct (k' =? k); reflexivity|].
  destruct (a =? k') eqn:E1.
  - apply N.eqb_eq in E1; subst a. rewrite IH. destruct (k' =? k); reflexivity.
  - cbn [pget]. rewrite IH. destruct (a =? k) eqn:E2; [|reflexivity].
    apply N.eqb_eq in E2; subst a. rewrite N.eqb_sym, E1. reflexivity.
Qed.

Definition stored (v : oval) : option oval := match v with ONull => None | _ => Some v end.
Lemma pget_pset k k' v m : pget k (pset k' v m) = if k' =? k then stored v else pget k m.
Proof.
  unfold pset, stored. destruct v; cbn [pget]; rewrite ?pget_pdel; destruct (k' =? k); reflexivity.
Qed.

Definition res (acc : option oval) (base : option oval) : option oval :=
  match acc with None => base | Some v => stored v end.
Lemma pget_apply_sets k : forall sets m acc base,
  pget k m = res acc base -> pget k (apply_sets sets m) = res (last_for k sets acc) base.
Proof.
  induction sets as [|[k' v] t IH]; intros m acc base H; cbn [apply_sets fold_left last_for]; [exact H|].
  apply IH. cbn [fst snd]. rewrite pget_pset. destruct (k' =? k); [reflexivity|exact H].
Qed.

Lemma pget_apply_sets_typed k : forall sets m w,
  typed_props sets = true ->
  pget k (apply_sets sets m) = Some w ->
  (typed w = true /\ w <> ONull) \/ pget k m = Some w.
Proof.
  induction sets as [|[k' v] t IH]; intros m w Ht H; cbn [apply_sets fold_left] in H; [right; exact H|].
  cbn [typed_props forallb snd] in Ht. apply andb_prop in Ht. destruct Ht as [Tv Tt].
  destruct (IH _ _ Tt H) as [L|R]; [left; exact L|].
  cbn [fst snd] in R. rewrite pget_pset in R. destruct (k' =? k); [|right; exact R].
  left. unfold stored in R. destruct v; inversion R; subst; split; auto; discriminate.
Qed.

Lemma entry_eqb_eq a b : entry_eqb a b = true <-> a = b.
Proof.
  destruct a as [ka ia], b as [kb ib]. unfold entry_eqb. cbn [fst snd].
  rewrite andb_true_iff, bytes_eqb_eq, N.eqb_eq. split; [intros [-> ->]; reflexivity|intros H; inversion H; auto].
Qed.

Lemma idx_del_in e e' l : In e (idx_del e' l) -> In e l.
Proof.
  induction l as [|x t IH]; cbn [idx_del]; [auto|]. destruct (entry_eqb x e'); cbn [In]; intuition.
Qed.
Lemma idx_del_keep e e' l : In e l -> e <> e' -> In e (idx_del e' l).
Proof.
  induction l as [|x t IH]; cbn [idx_del In]; [auto|]. intros [->|H] Hne.
  - destruct (entry_eqb e e') eqn:E; [apply entry_eqb_eq in E; contradiction|left; reflexivity].
  - destruct (entry_eqb x e'); [exact H|right; auto].
Qed.
Lemma idx_del_nodup e' l : NoDup l -> NoDup (idx_del e' l) /\ ~ In e' (idx_del e' l).
Proof.
  induction 1 as [|x t Hn Hd IH]; cbn [idx_del]; [split; [constructor|intros []]|].
  destruct (entry_eqb x e') eqn:E.
  - apply entry_eqb_eq in E; subst x. split; assumption.
  - destruct IH as [I1 I2]. split.
    + constructor; [|exact I1]. intros Hi. apply Hn. eapply idx_del_in; eauto.
    + cbn [In]. intros [->|Hi]; [|auto]. assert (entry_eqb e' e' = true) by (apply entry_eqb_eq; reflexivity). congruence.
Qed.

(* ---------- the invariant of histories without a known-class step ---------- *)
Notation step := (step ilabel ikey).
Notation bad_step := (bad_step ilabel).
Notation run := (run ilabel ikey).

Definition first_ok (n : node) : bool := label_eqb (n_first n) ilabel.

Record inv (s : state) : Prop := {
  inv_typed : forall id n k w, get_node s id = Some n -> pget k (n_props n) = Some w -> typed w = true /\ w <> ONull;
  inv_first : forall id n, get_node s id = Some n -> has_label n ilabel = true -> first_ok n = true;
  inv_nodup : forall ix, index s = Some ix -> NoDup ix;
  inv_complete : forall ix id n w, index s = Some ix -> get_node s id = Some n -> first_ok n = true ->
                   pget ikey (n_props n) = Some w -> n_deleted n = false -> In (enc w, id) ix;
  inv_sound : forall ix k id, index s = Some ix -> In (k, id) ix ->
                exists n w, get_node s id = Some n /\ first_ok n = true /\ pget ikey (n_props n) = Some w /\ k = enc w
}.

Lemma inv_st0 : inv st0.
Proof.
  split; unfold get_node; cbn; intros; try discriminate;
    match goal with H : nth_error [] ?i = Some _ |- _ => destruct i; discriminate end.
Qed.

Lemma get_node_upd s id f id' :
  get_node (upd_node s id f) id' = if id =? id' then option_map f (get_node s id') else get_node s id'.
Proof.
  unfold get_node, upd_node. cbn [nodes]. rewrite nth_upd_nth.
  destruct (id =? id') eqn:E.
  - apply N.eqb_eq in E; subst. rewrite Nat.eqb_refl. reflexivity.
  - apply N.eqb_neq in E. destruct (Nat.eqb (N.to_nat id) (N.to_nat id')) eqn:E2; [|reflexivity].
    apply Nat.eqb_eq in E2. lia.
Qed.

(* a node update that keeps the creation label and the properties keeps the index part *)
Lemma inv_upd_labels s id f :
  inv s ->
  (forall n, n_first (f n) = n_first n /\ n_props (f n) = n_props n) ->
  (forall n, get_node s id = Some n -> has_label (f n) ilabel = true -> first_ok n = true) ->
  (forall n, n_deleted (f n) = false -> n_deleted n = false) ->
  inv (upd_node s id f).
Proof.
  intros I Hf Hl Hdel.
  assert (G : forall id' n', get_node (upd_node s id f) id' = Some n' ->
            exists n, get_node s id' = Some n /\ n_first n' = n_first n /\ n_props n' = n_props n /\
                      (n' = n \/ (id' = id /\ n' = f n))).
  { intros id' n' H. rewrite get_node_upd in H. destruct (id =? id') eqn:E.
    - apply N.eqb_eq in E; subst id'. destruct (get_node s id) as [n|]; [|discriminate]. cbn in H. inversion H; subst.
      exists n. destruct (Hf n). repeat split; auto.
    - exists n'. repeat split; auto. }
  assert (G2 : forall id' n, get_node s id' = Some n ->
            exists n', get_node (upd_node s id f) id' = Some n' /\ n_first n' = n_first n /\ n_props n' = n_props n).
  { intros id' n H. rewrite get_node_upd. destruct (id =? id'); rewrite H; cbn [option_map].
    - exists (f n). destruct (Hf n). auto.
    - exists n. auto. }
  split.
  - intros id' n' k w H P. destruct (G _ _ H) as (n & Hn & _ & Hp & _). rewrite Hp in P. eapply inv_typed; eauto.
  - intros id' n' H L. destruct (G _ _ H) as (n & Hn & Hfi & _ & [->|[-> ->]]).
    + eapply inv_first; eauto.
    + unfold first_ok. rewrite Hfi. apply (Hl n Hn L).
  - intros ix H. apply (inv_nodup s I). exact H.
  - intros ix id' n' w Hix H F P D. destruct (G _ _ H) as (n & Hn & Hfi & Hp & Hor).
    unfold first_ok in F. rewrite Hfi in F. rewrite Hp in P.
    assert (n_deleted n = false) by (destruct Hor as [->|[_ ->]]; [exact D|apply Hdel; exact D]).
    eapply inv_complete; eauto.
  - intros ix k id' Hix Hin. destruct (inv_sound s I ix k id' Hix Hin) as (n & w & Hn & F & P & E).
    destruct (G2 _ _ Hn) as (n' & Hn' & Hfi & Hp). exists n', w. unfold first_ok. rewrite Hfi, Hp. auto.
Qed.

Lemma has_label_app n l ls : existsb (N.eqb l) (ls ++ [n]) = existsb (N.eqb l) ls || (l =? n).
Proof. rewrite existsb_app. cbn. rewrite orb_false_r. reflexivity. Qed.

Lemma pget_in k : forall m w, pget k m = Some w -> In (k, w) m.
Proof.
  induction m as [|[a v] t IH]; intros w H; cbn [pget] in H; [discriminate|].
  destruct (a =? k) eqn:E; [apply N.eqb_eq in E; inversion H; subst; left; reflexivity|right; auto].
Qed.

Lemma get_node_app s n ix id' n' :
  get_node (mkState (nodes s ++ [n]) ix) id' = Some n' ->
  get_node s id' = Some n' \/ (id' = N.of_nat (length (nodes s)) /\ n' = n).
Proof.
  unfold get_node. cbn [nodes]. intros H.
  destruct (Nat.lt_ge_cases (N.to_nat id') (length (nodes s))) as [L|L].
  - rewrite nth_error_app1 in H by exact L. left; exact H.
  - rewrite nth_error_app2 in H by exact L. right.
    destruct (N.to_nat id' - length (nodes s))%nat eqn:E; cbn in H.
    + inversion H; subst. split; [lia|reflexivity].
    + destruct n0; discriminate.
Qed.
Lemma get_node_app_old s n ix id' n' :
  get_node s id' = Some n' -> get_node (mkState (nodes s ++ [n]) ix) id' = Some n'.
Proof.
  unfold get_node. cbn [nodes]. intros H. rewrite nth_error_app1; [exact H|].
  apply nth_error_Some. congruence.
Qed.
Lemma get_node_len s : get_node s (N.of_nat (length (nodes s))) = None.
Proof. unfold get_node. apply nth_error_None. lia. Qed.

Lemma inv_create s labels ps : inv s -> bad_step s (OCreate labels ps) = false -> inv (step s (OCreate labels ps)).
Proof.
  intros I B. cbn [Model.bad_step] in B. apply orb_false_elim in B. destruct B as [B B3].
  apply orb_false_elim in B. destruct B as [B1 B2]. apply negb_false_iff in B1.
  cbn [Model.step].
  set (id := N.of_nat (length (nodes s))).
  set (n := mkNode (hd_error labels) labels ps false).
  set (ix' := match index s with Some ix => Some _ | None => None end).
  assert (Hnew : forall k w, pget k ps = Some w -> typed w = true /\ w <> ONull).
  { intros k w H. apply pget_in in H. split.
    - unfold typed_props in B1. rewrite forallb_forall in B1. apply (B1 _ H).
    - intros ->. assert (existsb (fun kv : N * oval => match snd kv with ONull => true | _ => false end) ps = true)
        by (apply existsb_exists; eexists; split; [exact H|reflexivity]). congruence. }
  split.
  - intros id' n' k w H P. apply get_node_app in H. destruct H as [H|[_ ->]].
    + eapply inv_typed; eauto.
    + cbn in P. eauto.
  - intros id' n' H L. apply get_node_app in H. destruct H as [H|[_ ->]].
    + eapply inv_first; eauto.
    + unfold has_label in L. cbn [n_labels n] in L. rewrite L in B3. cbn in B3. apply negb_false_iff in B3. exact B3.
  - intros ix H. subst ix'. cbn [index] in H. destruct (index s) as [ix0|] eqn:E; [|discriminate]. inversion H; subst ix; clear H.
    pose proof (inv_nodup s I ix0 E) as ND.
    destruct (label_eqb (hd_error labels) ilabel); [|exact ND]. destruct (pget ikey ps); [|exact ND].
    unfold idx_ins. constructor; [|exact ND]. intros Hin.
    destruct (inv_sound s I ix0 _ _ E Hin) as (n0 & w & Hn & _). fold id in Hn. unfold id in Hn. rewrite get_node_len in Hn. discriminate.
  - intros ix id' n' w H G F P D. subst ix'. cbn [index] in H. destruct (index s) as [ix0|] eqn:E; [|discriminate]. inversion H; subst ix; clear H.
    apply get_node_app in G. destruct G as [G|[-> ->]].
    + assert (In (enc w, id') ix0) by (eapply inv_complete; eauto).
      destruct (label_eqb (hd_error labels) ilabel); [|assumption]. destruct (pget ikey ps); [right|]; assumption.
    + unfold first_ok in F. cbn [n_first n] in F. rewrite F. cbn [n_props n] in P. rewrite P. left; reflexivity.
  - intros ix k id' H Hin. subst ix'. cbn [index] in H. destruct (index s) as [ix0|] eqn:E; [|discriminate]. inversion H; subst ix; clear H.
    assert (Hold : In (k, id') ix0 -> exists n1 w, get_node (mkState (nodes s ++ [n]) (Some ix0)) id' = Some n1 /\ first_ok n1 = true /\ pget ikey (n_props n1) = Some w /\ k = enc w).
    { intros Hi. destruct (inv_sound s I ix0 _ _ E Hi) as (n1 & w & A & B & C & D). exists n1, w. repeat split; auto. apply get_node_app_old; exact A. }
    destruct (label_eqb (hd_error labels) ilabel) eqn:F.
    + destruct (pget ikey ps) as [v|] eqn:P.
      * destruct Hin as [Heq|Hi]; [|apply Hold in Hi; exact Hi].
        inversion Heq; subst k id'. exists n, v. repeat split; auto.
        unfold get_node. cbn [nodes]. rewrite nth_error_app2 by lia. replace (N.to_nat id - length (nodes s))%nat with O by (unfold id; lia). reflexivity.
      * apply Hold in Hin; exact Hin.
    + apply Hold in Hin; exact Hin.
Qed.

(* the entry list after removing the node's old entry: duplicate-free, no entry of `id` left,
   entries of other nodes untouched *)
Lemma old_entry_removed s ix id n0 :
  inv s -> index s = Some ix -> get_node s id = Some n0 -> first_ok n0 = true ->
  let ixd := match pget ikey (n_props n0) with Some o => idx_del (enc o, id) ix | None => ix end in
  NoDup ixd /\ (forall k, ~ In (k, id) ixd) /\
  (forall k id', id' <> id -> (In (k, id') ixd <-> In (k, id') ix)).
Proof.
  intros I Hix Hn F. pose proof (inv_nodup s I ix Hix) as ND.
  destruct (pget ikey (n_props n0)) as [o|] eqn:P; cbn zeta.
  - destruct (idx_del_nodup (enc o, id) ix ND) as [N1 N2]. split; [exact N1|]. split.
    + intros k Hin. assert (Hin' := idx_del_in _ _ _ Hin).
      destruct (inv_sound s I ix k id Hix Hin') as (n & w & Hn' & _ & P' & ->).
      rewrite Hn in Hn'. inversion Hn'; subst n. rewrite P in P'. inversion P'; subst w. exact (N2 Hin).
    + intros k id' Hne. split; [apply idx_del_in|]. intros Hin. apply idx_del_keep; [exact Hin|].
      intros E. inversion E. contradiction.
  - split; [exact ND|]. split; [|intros; reflexivity].
    intros k Hin. destruct (inv_sound s I ix k id Hix Hin) as (n & w & Hn' & _ & P' & _).
    rewrite Hn in Hn'. inversion Hn'; subst n. rewrite P in P'. discriminate.
Qed.

Lemma inv_props s id sets : inv s -> bad_step s (OProps id sets) = false -> inv (step s (OProps id sets)).
Proof.
  intros I B. cbn [Model.bad_step] in B. apply negb_false_iff in B. cbn [Model.step].
  destruct (get_node s id) as [n0|] eqn:Hn0; [|exact I].
  set (f := fun n => mkNode (n_first n) (n_labels n) (apply_sets sets (n_props n)) (n_deleted n)).
  set (ix' := option_map _ (index s)).
  assert (G : forall id' n', get_node (mkState (upd_nth (nodes s) (N.to_nat id) f) ix') id' = Some n' ->
            (id' <> id /\ get_node s id' = Some n') \/ (id' = id /\ n' = f n0)).
  { intros id' n' H. change (get_node (upd_node (mkState (nodes s) ix') id f) id' = Some n') in H.
    rewrite get_node_upd in H. destruct (id =? id') eqn:E.
    - apply N.eqb_eq in E; subst id'. right. split; [reflexivity|].
      change (get_node (mkState (nodes s) ix') id) with (get_node s id) in H. rewrite Hn0 in H. inversion H; reflexivity.
    - apply N.eqb_neq in E. left. split; [congruence|exact H]. }
  assert (G2 : forall id', id' <> id -> forall n', get_node s id' = Some n' ->
            get_node (mkState (upd_nth (nodes s) (N.to_nat id) f) ix') id' = Some n').
  { intros id' Hne n' H. change (get_node (upd_node (mkState (nodes s) ix') id f) id' = Some n').
    rewrite get_node_upd. destruct (id =? id') eqn:E; [apply N.eqb_eq in E; congruence|exact H]. }
  assert (G3 : get_node (mkState (upd_nth (nodes s) (N.to_nat id) f) ix') id = Some (f n0)).
  { change (get_node (upd_node (mkState (nodes s) ix') id f) id = Some (f n0)).
    rewrite get_node_upd, N.eqb_refl. change (get_node (mkState (nodes s) ix') id) with (get_node s id). rewrite Hn0. reflexivity. }
  assert (Pnew : pget ikey (n_props (f n0)) = res (last_for ikey sets None) (pget ikey (n_props n0))).
  { cbn [f n_props]. apply pget_apply_sets. reflexivity. }
  split.
  - intros id' n' k w H P. destruct (G _ _ H) as [[_ H']|[_ ->]]; [eapply inv_typed; eauto|].
    cbn [f n_props] in P. destruct (pget_apply_sets_typed k sets _ w B P) as [L|R]; [exact L|eapply inv_typed; eauto].
  - intros id' n' H L. destruct (G _ _ H) as [[_ H']|[_ ->]]; [eapply inv_first; eauto|].
    unfold first_ok. cbn [f n_first]. apply (inv_first s I id n0 Hn0). exact L.
  - intros ix H. subst ix'. cbn [index] in H. destruct (index s) as [ix0|] eqn:E; [|discriminate]. cbn [option_map] in H.
    inversion H; subst ix; clear H. unfold index_on_props. fold (first_ok n0).
    destruct (first_ok n0) eqn:F; [|eapply inv_nodup; eauto].
    destruct (old_entry_removed s ix0 id n0 I E Hn0 F) as (N1 & N2 & _).
    destruct (last_for ikey sets None) as [v|]; [|eapply inv_nodup; eauto].
    destruct v; try (unfold idx_ins; constructor; [apply N2|exact N1]).
    destruct (pget ikey (n_props n0)); [exact N1|eapply inv_nodup; eauto].
  - intros ix id' n' w H Gn F' P D. subst ix'. cbn [index] in H. destruct (index s) as [ix0|] eqn:E; [|discriminate]. cbn [option_map] in H.
    inversion H; subst ix; clear H. unfold index_on_props. fold (first_ok n0).
    destruct (G _ _ Gn) as [[Hne Hold]|[-> ->]].
    + assert (Hin : In (enc w, id') ix0) by (eapply inv_complete; eauto).
      destruct (first_ok n0) eqn:F; [|exact Hin].
      destruct (old_entry_removed s ix0 id n0 I E Hn0 F) as (_ & _ & N3).
      assert (Hd : In (enc w, id') (match pget ikey (n_props n0) with Some o => idx_del (enc o, id) ix0 | None => ix0 end))
        by (apply N3; auto).
      destruct (last_for ikey sets None) as [v|]; [|exact Hin].
      destruct v; try (right; exact Hd).
      destruct (pget ikey (n_props n0)); exact Hd.
    + unfold first_ok in F'. cbn [f n_first] in F'. fold (first_ok n0) in F'. rewrite F'.
      rewrite Pnew in P. destruct (last_for ikey sets None) as [v|]; cbn [res] in P.
      * unfold stored in P. destruct v; inversion P; subst; left; reflexivity.
      * cbn [f n_deleted] in D. eapply inv_complete; eauto.
  - intros ix k id' H Hin. subst ix'. cbn [index] in H. destruct (index s) as [ix0|] eqn:E; [|discriminate]. cbn [option_map] in H.
    inversion H; subst ix; clear H. unfold index_on_props in Hin. fold (first_ok n0) in Hin.
    change (exists n w, nth_error (upd_nth (nodes s) (N.to_nat id) f) (N.to_nat id') = Some n /\ first_ok n = true /\ pget ikey (n_props n) = Some w /\ k = enc w).
    assert (Hother : id' <> id -> In (k, id') ix0 ->
              exists n w, nth_error (upd_nth (nodes s) (N.to_nat id) f) (N.to_nat id') = Some n /\ first_ok n = true /\ pget ikey (n_props n) = Some w /\ k = enc w).
    { intros Hne Hi. destruct (inv_sound s I ix0 k id' E Hi) as (n & w & A & Bf & C & D). exists n, w. repeat split; auto. exact (G2 id' Hne n A). }
    destruct (first_ok n0) eqn:F.
    2:{ destruct (N.eq_dec id' id) as [->|Hne]; [|apply Hother; auto].
        destruct (inv_sound s I ix0 k id E Hin) as (n & w & A & Bf & _). rewrite Hn0 in A. inversion A; subst n. congruence. }
    destruct (old_entry_removed s ix0 id n0 I E Hn0 F) as (_ & N2 & N3).
    set (ixd := match pget ikey (n_props n0) with Some o => idx_del (enc o, id) ix0 | None => ix0 end) in *.
    assert (Hd : In (k, id') ixd -> exists n w, nth_error (upd_nth (nodes s) (N.to_nat id) f) (N.to_nat id') = Some n /\ first_ok n = true /\ pget ikey (n_props n) = Some w /\ k = enc w).
    { intros Hi. destruct (N.eq_dec id' id) as [->|Hne]; [exfalso; exact (N2 k Hi)|]. apply Hother; [exact Hne|]. apply N3; auto. }
    destruct (last_for ikey sets None) as [v|] eqn:LF.
    + assert (Hhead : forall v', stored v' = Some v' -> v = v' -> In (k, id') (idx_ins (enc v', id) ixd) ->
                exists n w, nth_error (upd_nth (nodes s) (N.to_nat id) f) (N.to_nat id') = Some n /\ first_ok n = true /\ pget ikey (n_props n) = Some w /\ k = enc w).
      { intros v' Sv Ev [Heq|Hi]; [|apply Hd; exact Hi]. inversion Heq; subst k id'. exists (f n0), v'. split; [exact G3|]. repeat split; auto.
        rewrite Pnew. cbn [res]. rewrite Ev. exact Sv. }
      destruct v; try (refine (Hhead _ _ eq_refl Hin); reflexivity).
      (* ONull: removal *)
      apply Hd. unfold ixd. destruct (pget ikey (n_props n0)); exact Hin.
    + (* untouched *)
      destruct (N.eq_dec id' id) as [->|Hne]; [|apply Hother; auto].
      destruct (inv_sound s I ix0 k id E Hin) as (n & w & A & Bf & C & D). rewrite Hn0 in A. inversion A; subst n.
      exists (f n0), w. split; [exact G3|]. repeat split; auto. rewrite Pnew. cbn [res]. exact C.
Qed.

Lemma ssorted_nodup l : ssorted l -> NoDup l.
Proof.
  induction 1 as [|a t Ht IH Hf]; constructor; [|exact IH].
  intros Hin. rewrite Forall_forall in Hf. specialize (Hf a Hin). lia.
Qed.
Lemma nodup_app {A} (a b : list A) : NoDup a -> NoDup b -> (forall x, In x a -> ~ In x b) -> NoDup (a ++ b).
Proof.
  induction 1 as [|x t Hn Hd IH]; intros Hb Hdis; cbn [app]; [exact Hb|].
  constructor.
  - intros Hin. apply in_app_or in Hin. destruct Hin as [Hin|Hin]; [contradiction|]. apply (Hdis x); [left; reflexivity|exact Hin].
  - apply IH; [exact Hb|]. intros y Hy. apply Hdis. right; exact Hy.
Qed.
Lemma nodup_flat_map (f : N -> list entry) : forall l,
  NoDup l -> (forall x e, In e (f x) -> snd e = x) -> (forall x, NoDup (f x)) -> NoDup (flat_map f l).
Proof.
  induction 1 as [|a t Hn Hd IH]; intros Hs Hf; cbn [flat_map]; [constructor|].
  apply nodup_app; [apply Hf|apply IH; assumption|].
  intros e He Hin. apply in_flat_map in Hin. destruct Hin as (y & Hy & Hey).
  apply Hs in He. apply Hs in Hey. subst. contradiction.
Qed.

Lemma backfill_in s k id :
  In (k, id) (backfill ilabel ikey s) <->
  exists n w, get_node s id = Some n /\ n_deleted n = false /\ first_ok n = true /\
              pget ikey (n_props n) = Some w /\ k = enc w.
Proof.
  unfold backfill. rewrite in_flat_map. split.
  - intros (x & Hx & He). apply ids_from_in in Hx. destruct Hx as (n & _ & Hn & Hp).
    replace (x - 0) with x in Hn by lia.
    unfold backfill_one, get_node in He. rewrite Hn in He.
    destruct (pget ikey (n_props n)) as [w|] eqn:P; [|destruct He].
    destruct He as [He|[]]. inversion He; subst. apply andb_prop in Hp. destruct Hp as [D F].
    exists n, w. unfold get_node. repeat split; auto. destruct (n_deleted n); [discriminate|reflexivity].
  - intros (n & w & Hn & D & F & P & ->). exists id. split.
    + apply ids_from_in. exists n. replace (id - 0) with id by lia. repeat split; [lia|exact Hn|].
      rewrite D. exact F.
    + unfold backfill_one. rewrite Hn, P. left; reflexivity.
Qed.
Lemma backfill_nodup s : NoDup (backfill ilabel ikey s).
Proof.
  unfold backfill. apply nodup_flat_map.
  - apply ssorted_nodup, ids_from_ssorted.
  - intros x e He. unfold backfill_one in He. destruct (get_node s x) as [n|]; [|destruct He].
    destruct (pget ikey (n_props n)); [|destruct He]. destruct He as [<-|[]]. reflexivity.
  - intros x. unfold backfill_one. destruct (get_node s x) as [n|]; [|constructor].
    destruct (pget ikey (n_props n)); repeat constructor. intros [].
Qed.

Lemma inv_step s o : inv s -> bad_step s o = false -> inv (step s o).
Proof.
  intros I B. destruct o.
  - apply inv_create; assumption.
  - apply inv_props; assumption.
  - (* add label *)
    cbn [Model.step]. apply inv_upd_labels; [exact I|intros n; split; reflexivity| |cbn; intros n D; try exact D; discriminate].
    intros n Hn L. cbn [Model.bad_step] in B. rewrite Hn in B. unfold has_label in L. cbn [n_labels] in L.
    destruct (existsb (N.eqb l) (n_labels n)) eqn:E.
    + eapply inv_first; eauto.
    + rewrite has_label_app in L. apply orb_prop in L. destruct L as [L|L]; [eapply inv_first; eauto|].
      apply N.eqb_eq in L. subst l. rewrite N.eqb_refl in B. cbn in B. apply negb_false_iff in B. exact B.
  - (* remove label *)
    cbn [Model.step]. apply inv_upd_labels; [exact I|intros n; split; reflexivity| |cbn; intros n D; try exact D; discriminate].
    intros n Hn L. eapply inv_first; eauto. unfold has_label in *. cbn [n_labels] in L.
    apply existsb_exists in L. destruct L as (x & Hx & Ex). apply filter_In in Hx. apply existsb_exists. exists x. split; [apply Hx|exact Ex].
  - (* delete *)
    cbn [Model.step]. apply inv_upd_labels; [exact I|intros n; split; reflexivity| |cbn; intros n D; try exact D; discriminate].
    intros n Hn L. eapply inv_first; eauto.
  - (* create index *)
    cbn [Model.step]. destruct (index s) as [ix|] eqn:E.
    + replace (mkState (nodes s) (Some ix)) with s; [exact I|]. destruct s; cbn in *; congruence.
    + destruct I as [I1 I2 I3 I4 I5]. split; cbn [index].
      * intros id n k w H P. eapply I1; eauto.
      * intros id n H L. eapply I2; eauto.
      * intros ix H. inversion H; subst. apply backfill_nodup.
      * intros ix id n w H G F P D. inversion H; subst. apply backfill_in. exists n, w. repeat split; auto.
      * intros ix k id H Hin. inversion H; subst. apply backfill_in in Hin.
        destruct Hin as (n & w & Hn & D & F & P & K). exists n, w. repeat split; auto.
  - exact I.
  - exact I.
  - discriminate.
Qed.

Lemma inv_run_from : forall h s, inv s -> good_from ilabel ikey s h = true -> inv (fold_left step h s).
Proof.
  induction h as [|o t IH]; intros s I G; cbn [fold_left]; [exact I|].
  cbn [good_from] in G. apply andb_prop in G. destruct G as [G1 G2]. apply negb_true_iff in G1.
  apply IH; [apply inv_step; assumption|exact G2].
Qed.

Lemma inv_run h : good ilabel ikey h = true -> inv (run h).
Proof. intros G. apply inv_run_from; [apply inv_st0|exact G]. Qed.

Lemma nodup_snd_of_unique (ix : list entry) :
  NoDup ix -> (forall k k' i, In (k, i) ix -> In (k', i) ix -> k = k') -> NoDup (map snd ix).
Proof.
  induction 1 as [|[k i] t Hn Hd IH]; intros U; cbn [map snd]; [constructor|].
  constructor.
  - intros Hin. apply in_map_iff in Hin. destruct Hin as ([k' i'] & Hs & Ht). cbn in Hs. subst i'.
    assert (k = k') by (apply (U k k' i); [left; reflexivity|right; exact Ht]). subst k'. contradiction.
  - apply IH. intros k1 k2 j H1 H2. apply (U k1 k2 j); right; assumption.
Qed.
Lemma nodup_map_filter {A B} (f : A -> B) (p : A -> bool) (l : list A) :
  NoDup (map f l) -> NoDup (map f (filter p l)).
Proof.
  induction l as [|x t IH]; intros H; cbn [filter map]; [constructor|].
  cbn [map] in H. inversion H as [|? ? Hn Hd]; subst.
  destruct (p x); [|apply IH; exact Hd]. cbn [map]. constructor; [|apply IH; exact Hd].
  intros Hin. apply Hn. apply in_map_iff in Hin. destruct Hin as (y & Hy & Hf). apply filter_In in Hf.
  apply in_map_iff. exists y. split; [exact Hy|apply Hf].
Qed.
Lemma inv_nodup_ids s ix : inv s -> index s = Some ix -> NoDup (map snd ix).
Proof.
  intros I Hix. apply nodup_snd_of_unique; [eapply inv_nodup; eauto|].
  intros k k' i H1 H2.
  destruct (inv_sound s I ix k i Hix H1) as (n & w & Hn & _ & P & ->).
  destruct (inv_sound s I ix k' i Hix H2) as (n' & w' & Hn' & _ & P' & ->).
  rewrite Hn in Hn'. inversion Hn'; subst n'. rewrite P in P'. inversion P'; reflexivity.
Qed.

Theorem inv_transparent s l preds :
  inv s -> typed_props preds = true ->
  (forall k0 v0 rest, preds = (k0, v0) :: rest -> k_numeric s v0 = false) ->
  seek_eval s l preds = scan_eval s l preds.
Proof.
  intros I T Hnum. apply seek_scan_state. intros k0 v0 rest ids Hp L.
  unfold Model.lookup in L. destruct ((l =? ilabel) && (k0 =? ikey)) eqn:E; [|discriminate].
  apply andb_prop in E. destruct E as [El Ek]. apply N.eqb_eq in El, Ek. subst l k0.
  destruct (index s) as [ix|] eqn:Hix; [|discriminate].
  assert (Hids : ids = map snd (filter (fun e : entry => existsb (bytes_eqb (fst e)) (seek_keys v0)) ix)).
  { match type of L with (match ?m with _ => _ end) = _ => change (ids = m); destruct m; [discriminate|inversion L; reflexivity] end. }
  clear L. split.
  - rewrite Hids. apply nodup_map_filter. eapply inv_nodup_ids; eauto.
  - intros id n Hn Hd Hs. unfold sat in Hs. apply andb_prop in Hs. destruct Hs as [Hl Hf].
    rewrite Hp in Hf. cbn [forallb fst snd] in Hf. apply andb_prop in Hf. destruct Hf as [Hf _].
    destruct (pget ikey (n_props n)) as [w|] eqn:P; [|discriminate].
    assert (Tw : typed w = true) by (eapply inv_typed; eauto).
    assert (Tv : typed v0 = true).
    { rewrite Hp in T. cbn [typed_props forallb snd] in T. apply andb_prop in T. apply T. }
    assert (Hin : In (enc w, id) ix).
    { eapply inv_complete; eauto. eapply inv_first; eauto. }
    rewrite Hids. apply in_map_iff. exists (enc w, id). split; [reflexivity|].
    apply filter_In. split; [exact Hin|]. cbn [fst]. unfold seek_keys. cbn [existsb].
    destruct (N.eq_dec (kind w) (kind v0)) as [K|K].
    + rewrite (oeq_true_enc w v0 Tw Tv K Hf).
      assert (bytes_eqb (enc v0) (enc v0) = true) by (apply bytes_eqb_eq; reflexivity). rewrite H. reflexivity.
    + (* the other numeric type: reached through the twin *)
      specialize (Hnum ikey v0 rest Hp). unfold Model.k_numeric in Hnum.
      assert (Hhit : twin_hit w v0 = true).
      { destruct (twin_hit w v0) eqn:Q; [reflexivity|exfalso].
        assert (existsb (fun n => negb (n_deleted n) && has_label n ilabel &&
                   match pget ikey (n_props n) with
                   | Some w => oeq_true w v0 && negb (kind w =? kind v0) && negb (twin_hit w v0)
                   | None => false end) (nodes s) = true); [|congruence].
        apply existsb_exists. exists n. split; [unfold get_node in Hn; eapply nth_error_In; eauto|].
        rewrite Hd, Hl, P, Hf, Q. apply N.eqb_neq in K. rewrite K. reflexivity. }
      unfold twin_hit in Hhit. destruct (twin v0) as [t|]; [|discriminate]. cbn [existsb].
      rewrite Hhit. rewrite orb_true_r. reflexivity.
Qed.

End Idx.

(* ---------- the theorems of Props/C15.v ---------- *)
Theorem index_transparent il ik (h : list op) l preds :
  good il ik h = true -> typed_props preds = true ->
  (forall k0 v0 rest, preds = (k0, v0) :: rest -> k_numeric il ik (run il ik h) v0 = false) ->
  seek_eval il ik (run il ik h) l preds = scan_eval (run il ik h) l preds.
Proof. intros G T N. apply inv_transparent; [apply inv_run; exact G|exact T|exact N]. Qed.

Definition w_backfill : list op :=
  [OCreate [0] [(1, OInt 1)]; OCreate [0] [(1, OInt 1)]; OCreateIndex; OCreate [0] [(1, OInt 1)]].
Definition w_label : list op :=
  [OCreateIndex; OCreate [0] [(1, OInt 1)]; OCreate [1; 0] [(1, OInt 1)]].
Definition w_numeric : list op :=
  [OCreateIndex; OCreate [0] [(1, OInt 1)]; OCreate [0] [(1, OFloat 4607182418800017408)]].
Definition w_good : list op :=
  [OCreateIndex; OCreate [0] [(1, OInt 1); (2, OStr [97])]; OCreate [0; 2] [(1, OInt 1)]; OCreate [0] [(1, OInt 1)];
   OProps 0 [(1, OInt 5)]; OProps 0 [(1, OInt 1)]; ODelete 1; ORemoveLabel 2 0; OCompact; OCreate [1] [(1, OInt 1)]].

(* repaired (create_index backfills): the former witness now agrees *)
Lemma fixed_backfill :
  good 0 1 w_backfill = true /\
  seek_eval 0 1 (run 0 1 w_backfill) 0 [(1, OInt 1)] = [0; 1; 2] /\
  scan_eval (run 0 1 w_backfill) 0 [(1, OInt 1)] = [0; 1; 2].
Proof. vm_compute. repeat split. Qed.
Lemma refuted_label :
  seek_eval 0 1 (run 0 1 w_label) 0 [(1, OInt 1)] = [0] /\
  scan_eval (run 0 1 w_label) 0 [(1, OInt 1)] = [0; 1] /\
  k_label 0 1 (run 0 1 w_label) = true.
Proof. vm_compute. repeat split. Qed.
(* repaired (the seek looks up both numeric encodings): int 1 and float 1.0 are both found *)
Lemma fixed_numeric :
  good 0 1 w_numeric = true /\
  seek_eval 0 1 (run 0 1 w_numeric) 0 [(1, OInt 1)] = [0; 1] /\
  scan_eval (run 0 1 w_numeric) 0 [(1, OInt 1)] = [0; 1] /\
  seek_eval 0 1 (run 0 1 w_numeric) 0 [(1, OFloat 4607182418800017408)] = [0; 1] /\
  k_numeric 0 1 (run 0 1 w_numeric) (OInt 1) = false.
Proof. vm_compute. repeat split. Qed.
Lemma full_refuted :
  ~ (forall il ik (h : list op) l preds,
       seek_eval il ik (run il ik h) l preds = scan_eval (run il ik h) l preds).
Proof.
  intros H. specialize (H 0 1 w_label 0 [(1, OInt 1)]).
  destruct refuted_label as (A & B & _). rewrite A, B in H. discriminate.
Qed.
Lemma nonvacuous :
  good 0 1 w_good = true /\
  lookup 0 1 (run 0 1 w_good) 0 1 (OInt 1) = Some [0; 2; 1] /\
  seek_eval 0 1 (run 0 1 w_good) 0 [(1, OInt 1)] = [0] /\
  scan_eval (run 0 1 w_good) 0 [(1, OInt 1)] = [0].
Proof. vm_compute. repeat split. Qed.
