(* IndexSem/Twin_proofs.v — the arithmetic behind the numeric twin lookup of the index seek.
   float_bits_of_int is exact (the double it names is the integer) and complete (it answers whenever
   some double is the integer), f_exact is injective on finite bit patterns up to the sign of zero;
   hence a stored number equal to the sought value in the other numeric type is stored under the
   encoding of the sought value's twin (twin_complete), k_numeric is always false on typed states,
   and the index is transparent without any arithmetic side condition (index_transparent_full). *)
From NDB Require Import Base.Bytes Base.Bytes_proofs Index.OrderedKey Index.OrderedKey_proofs IndexSem.Model IndexSem.Proofs.
From Coq Require Import Lia ZifyBool ZifyN ZifyNat.
Ltac Zify.zify_post_hook ::= Z.div_mod_to_equations.
Open Scope N_scope.

(* the three fields of a binary64 bit pattern, as f_exact reads them *)
Definition fE (b : N) : N := (b / 4503599627370496) mod 2048.
Definition fF (b : N) : N := b mod 4503599627370496.
(* magnitude value * 2^1074 *)
Definition vof (E F : N) : N := if E =? 0 then F else (F + 4503599627370496) * 2 ^ (E - 1).

Lemma f_exact_fields b :
  f_exact b =
  if fE b =? 2047 then (if fF b =? 0 then Some (if N.testbit b 63 then (- Z.pow 2 2200)%Z else Z.pow 2 2200) else None)
  else Some (if N.testbit b 63 then (- Z.of_N (vof (fE b) (fF b)))%Z else Z.of_N (vof (fE b) (fF b))).
Proof.
  unfold f_exact, fE, fF, vof. cbv zeta.
  destruct ((b / 4503599627370496) mod 2048 =? 2047); [reflexivity|].
  f_equal. destruct ((b / 4503599627370496) mod 2048 =? 0) eqn:E0.
  - rewrite N.shiftl_0_r. reflexivity.
  - rewrite N.shiftl_mul_pow2. reflexivity.
Qed.

Lemma compose_fields (neg : bool) E F :
  E < 2048 -> F < 4503599627370496 ->
  let b := (if neg then two63 else 0) + E * 4503599627370496 + F in
  b < two64 /\ fE b = E /\ fF b = F /\ N.testbit b 63 = neg.
Proof.
  intros HE HF b. assert (Hb : b < two64) by (unfold b, two63, two64; destruct neg; lia).
  split; [exact Hb|]. split; [|split].
  - unfold fE, b, two63. destruct neg; lia.
  - unfold fF, b, two63. destruct neg; lia.
  - rewrite (testbit63 b Hb). unfold b, two63. destruct neg; lia.
Qed.

Lemma bits_decomp b : b < two64 ->
  b = (if N.testbit b 63 then two63 else 0) + fE b * 4503599627370496 + fF b.
Proof.
  intros Hb. rewrite (testbit63 b Hb). unfold fE, fF, two63, two64 in *.
  destruct (9223372036854775808 <=? b) eqn:Q; lia.
Qed.

Lemma p52_pow : 4503599627370496 = 2 ^ 52. Proof. reflexivity. Qed.

Lemma vof_bounds E F : 1 <= E -> F < 4503599627370496 ->
  2 ^ (51 + E) <= vof E F < 2 ^ (52 + E).
Proof.
  intros HE HF. unfold vof. destruct (E =? 0) eqn:Q; [lia|].
  replace (51 + E) with (52 + (E - 1)) by lia. replace (52 + E) with (53 + (E - 1)) by lia.
  rewrite !N.pow_add_r. set (P := 2 ^ (E - 1)).
  assert (0 < P) by (apply N.neq_0_lt_0, N.pow_nonzero; lia).
  change (2 ^ 52) with 4503599627370496. change (2 ^ 53) with 9007199254740992.
  split; [apply N.mul_le_mono_r; lia|apply N.mul_lt_mono_pos_r; [exact H|lia]].
Qed.

Lemma vof_inj E F E' F' :
  F < 4503599627370496 -> F' < 4503599627370496 -> vof E F = vof E' F' -> E = E' /\ F = F'.
Proof.
  intros HF HF' H.
  destruct (N.eq_dec E 0) as [->|NE]; destruct (N.eq_dec E' 0) as [->|NE'].
  - split; [reflexivity|exact H].
  - exfalso. assert (B := vof_bounds E' F' ltac:(lia) HF'). rewrite <- H in B. cbn [vof N.eqb] in B.
    assert (2 ^ 52 <= 2 ^ (51 + E')) by (apply N.pow_le_mono_r; lia). change (2 ^ 52) with 4503599627370496 in H0. lia.
  - exfalso. assert (B := vof_bounds E F ltac:(lia) HF). rewrite H in B. cbn [vof N.eqb] in B.
    assert (2 ^ 52 <= 2 ^ (51 + E)) by (apply N.pow_le_mono_r; lia). change (2 ^ 52) with 4503599627370496 in H0. lia.
  - assert (B := vof_bounds E F ltac:(lia) HF). assert (B' := vof_bounds E' F' ltac:(lia) HF').
    assert (L : N.log2 (vof E F) = 51 + E) by (apply N.log2_unique; [lia|rewrite <- N.add_succ_l; exact B]).
    assert (L' : N.log2 (vof E' F') = 51 + E') by (apply N.log2_unique; [lia|rewrite <- N.add_succ_l; exact B']).
    rewrite H in L. assert (E = E') by lia. subst E'. split; [reflexivity|].
    unfold vof in H. destruct (E =? 0) eqn:Q; [lia|].
    apply N.mul_cancel_r in H; [lia|]. apply N.pow_nonzero. lia.
Qed.

Lemma vof_zero E F : F < 4503599627370496 -> vof E F = 0 -> E = 0 /\ F = 0.
Proof.
  intros HF H. unfold vof in H. destruct (E =? 0) eqn:Q; [lia|].
  apply N.eq_mul_0 in H. destruct H as [H|H]; [lia|]. exfalso. revert H. apply N.pow_nonzero. lia.
Qed.

Lemma fF_lt b : fF b < 4503599627370496.
Proof. unfold fF. apply N.mod_lt. lia. Qed.

Lemma fkey_of_fields b1 b2 :
  b1 < two64 -> b2 < two64 ->
  N.testbit b1 63 = N.testbit b2 63 -> fE b1 = fE b2 -> fF b1 = fF b2 -> b1 = b2.
Proof.
  intros H1 H2 S E F. rewrite (bits_decomp b1 H1), (bits_decomp b2 H2), S, E, F. reflexivity.
Qed.

Lemma fkey_zero_fields b : b < two64 -> fE b = 0 -> fF b = 0 -> fkey b = 0%Z.
Proof.
  intros H E F. pose proof (bits_decomp b H) as D. rewrite E, F in D.
  unfold fkey. destruct (N.testbit b 63); rewrite D; unfold two63; reflexivity.
Qed.

(* two finite bit patterns with the same exact value have the same sign-magnitude key *)
Lemma f_exact_finite_inj b1 b2 q :
  b1 < two64 -> b2 < two64 -> fE b1 <> 2047 -> fE b2 <> 2047 ->
  f_exact b1 = Some q -> f_exact b2 = Some q -> fkey b1 = fkey b2.
Proof.
  intros H1 H2 N1 N2 F1 F2. rewrite f_exact_fields in F1, F2.
  apply N.eqb_neq in N1, N2. rewrite N1 in F1. rewrite N2 in F2.
  inversion F1 as [Q1]. inversion F2 as [Q2]. clear F1 F2.
  pose proof (fF_lt b1) as L1. pose proof (fF_lt b2) as L2.
  destruct (N.testbit b1 63) eqn:S1; destruct (N.testbit b2 63) eqn:S2.
  - assert (V : vof (fE b1) (fF b1) = vof (fE b2) (fF b2)) by lia.
    destruct (vof_inj _ _ _ _ L1 L2 V) as [E F]. f_equal. apply fkey_of_fields; congruence.
  - assert (V1 : vof (fE b1) (fF b1) = 0) by lia. assert (V2 : vof (fE b2) (fF b2) = 0) by lia.
    destruct (vof_zero _ _ L1 V1) as [E1 F1]. destruct (vof_zero _ _ L2 V2) as [E2 F2].
    rewrite (fkey_zero_fields b1 H1 E1 F1), (fkey_zero_fields b2 H2 E2 F2). reflexivity.
  - assert (V1 : vof (fE b1) (fF b1) = 0) by lia. assert (V2 : vof (fE b2) (fF b2) = 0) by lia.
    destruct (vof_zero _ _ L1 V1) as [E1 F1]. destruct (vof_zero _ _ L2 V2) as [E2 F2].
    rewrite (fkey_zero_fields b1 H1 E1 F1), (fkey_zero_fields b2 H2 E2 F2). reflexivity.
  - assert (V : vof (fE b1) (fF b1) = vof (fE b2) (fF b2)) by lia.
    destruct (vof_inj _ _ _ _ L1 L2 V) as [E F]. f_equal. apply fkey_of_fields; congruence.
Qed.

Lemma i_exact_mul x : i_exact x = (x * 2 ^ 1074)%Z.
Proof. unfold i_exact. apply Z.shiftl_mul_pow2. lia. Qed.

Lemma i_exact_small x : in_i64 x = true -> (Z.abs (i_exact x) < 2 ^ 2200)%Z.
Proof.
  intros H. rewrite i_exact_mul, Z.abs_mul.
  assert (A : (Z.abs x <= 2 ^ 63)%Z) by (unfold in_i64 in H; change (2 ^ 63)%Z with 9223372036854775808%Z; lia).
  assert (P : (0 < 2 ^ 1074)%Z) by (apply Z.pow_pos_nonneg; lia).
  rewrite (Z.abs_eq (2 ^ 1074)) by lia.
  apply Z.le_lt_trans with (2 ^ 63 * 2 ^ 1074)%Z; [apply Z.mul_le_mono_nonneg_r; lia|].
  rewrite <- Z.pow_add_r by lia. apply Z.pow_lt_mono_r; lia.
Qed.

(* a bit pattern whose exact value is an i64 is finite *)
Lemma f_exact_int_finite b x : in_i64 x = true -> f_exact b = Some (i_exact x) -> fE b <> 2047.
Proof.
  intros Hx F E. rewrite f_exact_fields in F. apply N.eqb_eq in E. rewrite E in F.
  destruct (fF b =? 0); [|discriminate]. pose proof (i_exact_small x Hx) as S.
  remember (2 ^ 2200)%Z as B eqn:EB. assert (HB : (0 <= B)%Z) by (rewrite EB; apply Z.pow_nonneg; lia). clear EB.
  destruct (N.testbit b 63); injection F as Q.
  - rewrite <- Q in S. rewrite Z.abs_opp, Z.abs_eq in S by exact HB. lia.
  - rewrite <- Q in S. rewrite Z.abs_eq in S by exact HB. lia.
Qed.

(* the value a mantissa M in [2^52, 2^53) with biased exponent e + 1023 denotes *)
Lemma fields_value (neg : bool) e M :
  e <= 63 -> 4503599627370496 <= M < 9007199254740992 ->
  let b := (if neg then two63 else 0) + (e + 1023) * 4503599627370496 + (M - 4503599627370496) in
  b < two64 /\ fE b <> 2047 /\
  f_exact b = Some (if neg then (- Z.of_N (M * 2 ^ (e + 1022)))%Z else Z.of_N (M * 2 ^ (e + 1022))).
Proof.
  intros He HM b.
  destruct (compose_fields neg (e + 1023) (M - 4503599627370496) ltac:(lia) ltac:(lia)) as (Hb & HE & HF & HS).
  fold b in Hb, HE, HF, HS. split; [exact Hb|]. split; [rewrite HE; lia|].
  rewrite f_exact_fields, HE, HF, HS.
  destruct (e + 1023 =? 2047) eqn:Q; [lia|].
  unfold vof. destruct (e + 1023 =? 0) eqn:Q0; [lia|].
  replace (M - 4503599627370496 + 4503599627370496) with M by lia.
  replace (e + 1023 - 1) with (e + 1022) by lia. reflexivity.
Qed.

Lemma pow_split a b : 2 ^ (a + b) = 2 ^ a * 2 ^ b.
Proof. apply N.pow_add_r. Qed.

(* the mantissa float_bits_of_int uses: a * 2^1074 = M * 2^(e+1022) with M in [2^52, 2^53) *)
Lemma mantissa_small a : 0 < a -> N.log2 a <= 52 ->
  let e := N.log2 a in let M := N.shiftl a (52 - e) in
  4503599627370496 <= M < 9007199254740992 /\ M * 2 ^ (e + 1022) = a * 2 ^ 1074.
Proof.
  intros Ha He e M. destruct (N.log2_spec a Ha) as [L U]. fold e in L, U.
  unfold M. rewrite N.shiftl_mul_pow2. set (k := 52 - e).
  assert (K : e + k = 52) by (unfold k; lia).
  assert (P52 : 2 ^ e * 2 ^ k = 4503599627370496) by (rewrite <- pow_split, K; reflexivity).
  assert (P53 : 2 ^ N.succ e * 2 ^ k = 9007199254740992) by (rewrite <- pow_split; replace (N.succ e + k) with 53 by lia; reflexivity).
  assert (Pk : 0 < 2 ^ k) by (apply N.neq_0_lt_0, N.pow_nonzero; lia).
  split; [split|].
  - rewrite <- P52. apply N.mul_le_mono_r. exact L.
  - rewrite <- P53. apply N.mul_lt_mono_pos_r; [exact Pk|exact U].
  - rewrite <- N.mul_assoc, <- pow_split. f_equal. f_equal. lia.
Qed.

Lemma mantissa_large a : 0 < a -> 52 < N.log2 a -> a mod 2 ^ (N.log2 a - 52) = 0 ->
  let e := N.log2 a in let M := N.shiftr a (e - 52) in
  4503599627370496 <= M < 9007199254740992 /\ M * 2 ^ (e + 1022) = a * 2 ^ 1074.
Proof.
  intros Ha He Hm e M. destruct (N.log2_spec a Ha) as [L U]. fold e in L, U, Hm.
  unfold M. rewrite N.shiftr_div_pow2. set (k := e - 52) in *.
  assert (Pk : 2 ^ k <> 0) by (apply N.pow_nonzero; lia).
  assert (D : a = 2 ^ k * (a / 2 ^ k)) by (rewrite (N.div_mod a (2 ^ k) Pk) at 1; rewrite Hm; lia).
  set (Mv := a / 2 ^ k) in *.
  assert (E1 : 2 ^ e = 2 ^ k * 4503599627370496) by (replace e with (k + 52) by (unfold k; lia); rewrite pow_split; reflexivity).
  assert (E2 : 2 ^ N.succ e = 2 ^ k * 9007199254740992) by (replace (N.succ e) with (k + 53) by (unfold k; lia); rewrite pow_split; reflexivity).
  assert (Pk' : 0 < 2 ^ k) by lia.
  split; [split|].
  - rewrite D, E1 in L. apply N.mul_le_mono_pos_l in L; [exact L|exact Pk'].
  - rewrite D, E2 in U. apply N.mul_lt_mono_pos_l in U; [exact U|exact Pk'].
  - replace (a * 2 ^ 1074) with (2 ^ k * Mv * 2 ^ 1074) by (rewrite <- D; reflexivity).
    replace (e + 1022) with (k + 1074) by (unfold k; lia). rewrite pow_split. ring.
Qed.

Lemma abs_to_N_pos x : x <> 0%Z -> 0 < Z.to_N (Z.abs x).
Proof. lia. Qed.
Lemma log2_abs_le_63 x : in_i64 x = true -> N.log2 (Z.to_N (Z.abs x)) <= 63.
Proof.
  intros H. assert (A : Z.to_N (Z.abs x) <= 2 ^ 63) by (unfold in_i64 in H; change (2 ^ 63) with 9223372036854775808; lia).
  apply N.log2_le_mono in A. rewrite N.log2_pow2 in A by lia. exact A.
Qed.
Lemma of_N_scaled a : Z.of_N (a * 2 ^ 1074) = (Z.of_N a * 2 ^ 1074)%Z.
Proof. rewrite N2Z.inj_mul, N2Z.inj_pow. reflexivity. Qed.
Lemma signed_scaled x :
  (if (x <? 0)%Z then (- (Z.of_N (Z.to_N (Z.abs x)) * 2 ^ 1074))%Z else (Z.of_N (Z.to_N (Z.abs x)) * 2 ^ 1074)%Z) = i_exact x.
Proof.
  rewrite i_exact_mul, Z2N.id by lia. set (P := (2 ^ 1074)%Z).
  destruct (x <? 0)%Z eqn:Q; [rewrite Z.abs_neq by lia|rewrite Z.abs_eq by lia]; ring.
Qed.

(* exactness: when float_bits_of_int answers, the double it names is exactly the integer *)
Lemma fbi_exact x y' :
  in_i64 x = true -> float_bits_of_int x = Some y' ->
  y' < two64 /\ fE y' <> 2047 /\ f_exact y' = Some (i_exact x).
Proof.
  intros Hx H. unfold float_bits_of_int in H.
  destruct (x =? 0)%Z eqn:Z0.
  - inversion H; subst y'. assert (x = 0%Z) by lia. subst x. repeat split; try reflexivity. unfold fE. cbn. lia.
  - assert (Ha : 0 < Z.to_N (Z.abs x)) by (apply abs_to_N_pos; lia).
    pose proof (log2_abs_le_63 x Hx) as He63.
    set (a := Z.to_N (Z.abs x)) in *. set (e := N.log2 a) in *. cbv zeta in H. fold a e in H.
    destruct (e <=? 52) eqn:Q.
    + injection H as Hy; subst y'.
      destruct (mantissa_small a Ha ltac:(fold e; lia)) as (HM & HV). fold e in HM, HV.
      destruct (fields_value (x <? 0)%Z e (N.shiftl a (52 - e)) He63 HM) as (B1 & B2 & B3).
      split; [exact B1|]. split; [exact B2|]. etransitivity; [exact B3|]. rewrite HV, of_N_scaled. f_equal. apply signed_scaled.
    + destruct (a mod 2 ^ (e - 52) =? 0) eqn:Qm; [|discriminate]. injection H as Hy; subst y'.
      destruct (mantissa_large a Ha ltac:(fold e; lia) ltac:(fold e; lia)) as (HM & HV). fold e in HM, HV.
      destruct (fields_value (x <? 0)%Z e (N.shiftr a (e - 52)) He63 HM) as (B1 & B2 & B3).
      split; [exact B1|]. split; [exact B2|]. etransitivity; [exact B3|]. rewrite HV, of_N_scaled. f_equal. apply signed_scaled.
Qed.

(* completeness: if some double is exactly the integer, float_bits_of_int answers *)
Lemma fbi_complete x y :
  in_i64 x = true -> y < two64 -> f_exact y = Some (i_exact x) -> exists y', float_bits_of_int x = Some y'.
Proof.
  intros Hx Hy F. unfold float_bits_of_int.
  destruct (x =? 0)%Z eqn:Z0; [eexists; reflexivity|].
  assert (Ha : 0 < Z.to_N (Z.abs x)) by (apply abs_to_N_pos; lia).
  set (a := Z.to_N (Z.abs x)) in *. set (e := N.log2 a) in *. cbv zeta.
  destruct (e <=? 52) eqn:Q; [eexists; reflexivity|].
  assert (Hm : a mod 2 ^ (e - 52) = 0); [|rewrite Hm; cbn; eexists; reflexivity].
  pose proof (f_exact_int_finite y x Hx F) as Fin.
  rewrite f_exact_fields in F. apply N.eqb_neq in Fin. rewrite Fin in F.
  set (V := vof (fE y) (fF y)) in *.
  assert (HV : V = a * 2 ^ 1074).
  { apply N2Z.inj. rewrite of_N_scaled. unfold a. rewrite Z2N.id by lia.
    assert (P : (0 < 2 ^ 1074)%Z) by (apply Z.pow_pos_nonneg; lia).
    rewrite i_exact_mul in F. set (Pz := (2 ^ 1074)%Z) in *.
    destruct (N.testbit y 63); injection F as F'; nia. }
  pose proof (fF_lt y) as LF.
  assert (P1074 : 4503599627370496 <= 2 ^ 1074) by (change 4503599627370496 with (2 ^ 52); apply N.pow_le_mono_r; lia).
  assert (HE : 1 <= fE y).
  { destruct (N.eq_dec (fE y) 0) as [E0|]; [|lia]. exfalso. unfold V, vof in HV. rewrite E0 in HV. cbn [N.eqb] in HV. nia. }
  destruct (vof_bounds (fE y) (fF y) HE LF) as [B1 B2]. fold V in B1, B2.
  assert (L1 : N.log2 V = 51 + fE y) by (apply N.log2_unique; [lia|rewrite <- N.add_succ_l; split; assumption]).
  assert (L2 : N.log2 V = 1074 + e) by (rewrite HV; unfold e; apply N.log2_mul_pow2; lia).
  assert (EE : fE y - 1 = (e - 52) + 1074) by lia.
  unfold V, vof in HV. destruct (fE y =? 0) eqn:Q0; [lia|]. rewrite EE, pow_split, N.mul_assoc in HV.
  apply N.mul_cancel_r in HV; [|apply N.pow_nonzero; lia].
  rewrite <- HV. apply N.mod_mul. apply N.pow_nonzero. lia.
Qed.

Lemma not_nan_of_finite b : b < two64 -> fE b <> 2047 -> is_nan b = false.
Proof.
  intros Hb HE. pose proof (bits_decomp b Hb) as D. pose proof (fF_lt b) as LF.
  assert (LE : fE b < 2048) by (unfold fE; apply N.mod_lt; lia).
  unfold is_nan. apply N.ltb_ge. unfold two63 in *. destruct (N.testbit b 63); lia.
Qed.

Lemma enc_float_of_fkey y y' :
  y < two64 -> y' < two64 -> fE y <> 2047 -> fE y' <> 2047 -> fkey y = fkey y' ->
  enc (OFloat y) = enc (OFloat y').
Proof.
  intros H1 H2 F1 F2 K. apply enc_eq_iff.
  - cbn [wf]. rewrite (not_nan_of_finite y H1 F1). apply andb_true_intro. split; [apply N.ltb_lt; exact H1|reflexivity].
  - cbn [wf]. rewrite (not_nan_of_finite y' H2 F2). apply andb_true_intro. split; [apply N.ltb_lt; exact H2|reflexivity].
  - unfold val_eq. cbn [val_cmp]. rewrite K, Z.compare_refl. reflexivity.
Qed.

(* the arithmetic fact behind the numeric twin lookup: a stored number that equals the sought value
   in the other numeric type is stored under the encoding of the sought value's twin *)
Lemma twin_complete w v :
  typed w = true -> typed v = true -> oeq_true w v = true -> kind w <> kind v -> twin_hit w v = true.
Proof.
  intros Tw Tv E K. unfold oeq_true in E.
  destruct w as [| |x|y| | |], v as [| |x'|y'| | |]; cbn [oeq kind] in *; try discriminate; try congruence.
  - (* stored integer x, sought float y' *)
    destruct (f_exact y') as [q|] eqn:F; [|discriminate].
    destruct (Z.eqb (i_exact x) q) eqn:Q; [|discriminate]. apply Z.eqb_eq in Q. subst q.
    unfold twin_hit, twin, int_of_float_bits. rewrite F. rewrite i_exact_mul.
    assert (P : (2 ^ 1074 <> 0)%Z) by (apply Z.pow_nonzero; lia).
    rewrite Z_mod_mult, Z_div_mult_full by exact P. cbn [typed] in Tw. rewrite Tw. cbn [Z.eqb andb option_map].
    apply bytes_eqb_eq. reflexivity.
  - (* stored float y, sought integer x' *)
    destruct (f_exact y) as [q|] eqn:F; [|discriminate].
    destruct (Z.eqb (i_exact x') q) eqn:Q; [|discriminate]. apply Z.eqb_eq in Q. subst q.
    cbn [typed] in Tw, Tv. apply N.ltb_lt in Tw.
    destruct (fbi_complete x' y Tv Tw F) as (y2 & H2).
    destruct (fbi_exact x' y2 Tv H2) as (B1 & B2 & B3).
    pose proof (f_exact_int_finite y x' Tv F) as Fin.
    pose proof (f_exact_finite_inj y y2 _ Tw B1 Fin B2 F B3) as Kk.
    unfold twin_hit, twin. rewrite H2. cbn [option_map]. apply bytes_eqb_eq.
    apply enc_float_of_fkey; assumption.
Qed.

Section Idx.
Context (ilabel ikey : N).

Lemma k_numeric_false s v : inv ilabel ikey s -> typed v = true -> k_numeric ilabel ikey s v = false.
Proof.
  intros I Tv. unfold k_numeric.
  destruct (existsb _ (nodes s)) eqn:E; [exfalso|reflexivity].
  apply existsb_exists in E. destruct E as (n & Hin & Hp).
  apply In_nth_error in Hin. destruct Hin as (i & Hi).
  assert (Hn : get_node s (N.of_nat i) = Some n) by (unfold get_node; rewrite Nat2N.id; exact Hi).
  destruct (pget ikey (n_props n)) as [w|] eqn:P; [|rewrite andb_false_r in Hp; discriminate].
  apply andb_prop in Hp. destruct Hp as [_ Hp]. apply andb_prop in Hp. destruct Hp as [Hp Hh].
  apply andb_prop in Hp. destruct Hp as [He Hk].
  destruct (inv_typed ilabel ikey s I _ _ _ _ Hn P) as [Tw _].
  assert (K : kind w <> kind v) by (apply N.eqb_neq; destruct (kind w =? kind v); [discriminate|reflexivity]).
  rewrite (twin_complete w v Tw Tv He K) in Hh. discriminate.
Qed.

End Idx.

(* the index is transparent for every history without a K-C15-label / resync step: no arithmetic
   side condition left *)
Theorem index_transparent_full il ik (h : list op) l preds :
  good il ik h = true -> typed_props preds = true ->
  seek_eval il ik (run il ik h) l preds = scan_eval (run il ik h) l preds.
Proof.
  intros G T. apply index_transparent; [exact G|exact T|].
  intros k0 v0 rest Hp. apply k_numeric_false; [apply inv_run; exact G|].
  rewrite Hp in T. cbn [typed_props forallb snd] in T. apply andb_prop in T. apply T.
Qed.
