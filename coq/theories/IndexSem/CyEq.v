(* IndexSem/CyEq.v — the scalar equality `oeq` of the index model (values with floats as bit
   patterns) against `cy_eq` of Cypher/Compare.v (values with primitive floats), so that the
   two models cannot drift apart unnoticed.
   - proved: on null / bool / int / string operands the two agree (all values);
   - floats: `to_value` builds the primitive float from the bit pattern (SF2Prim of the decoded
     sign / mantissa / exponent); `agree a b` is the executable comparison of the two
     equalities, evaluated by vm_compute on every pair (stored value, sought value) of every
     generated correspondence case (Corr/C15.v) — checked, not proved. *)
From NDB Require Import Base.Bytes Base.Bytes_proofs Index.OrderedKey IndexSem.Model Cypher.Value Cypher.Compare.
From Coq Require Import Floats.
Open Scope N_scope.

Definition sf_of_bits (b : N) : spec_float :=
  let neg := N.testbit b 63 in
  let e := (b / 4503599627370496) mod 2048 in
  let frac := b mod 4503599627370496 in
  if e =? 2047 then (if frac =? 0 then S754_infinity neg else S754_nan)
  else if e =? 0 then
    match frac with
    | 0 => S754_zero neg
    | Npos p => S754_finite neg p (-1074)
    end
  else
    match frac + 4503599627370496 with
    | 0 => S754_zero neg
    | Npos p => S754_finite neg p (Z.of_N e - 1075)
    end.
Definition float_of_bits (b : N) : float := SF2Prim (sf_of_bits b).

Definition to_value (v : oval) : value :=
  match v with
  | ONull => VNull
  | OBool b => VBool b
  | OInt z => VInt z
  | OFloat b => VFloat (float_of_bits b)
  | OStr s => VStr s
  | ODateTime z => VInt z        (* outside the index model (typed = false) *)
  | OBlob s => VStr s
  end.

Definition ob_eqb (a b : option bool) : bool :=
  match a, b with
  | Some x, Some y => Bool.eqb x y
  | None, None => true
  | _, _ => false
  end.
Definition agree (a b : oval) : bool := ob_eqb (oeq a b) (cy_eq (to_value a) (to_value b)).

Definition no_float (v : oval) : bool :=
  match v with ONull | OBool _ | OInt _ | OStr _ => true | _ => false end.

Theorem oeq_cy_eq_no_float a b :
  no_float a = true -> no_float b = true -> oeq a b = cy_eq (to_value a) (to_value b).
Proof.
  destruct a, b; cbn [no_float]; try discriminate; intros _ _; reflexivity.
Qed.

(* the float part on the boundary values, by computation *)
Definition f_samples : list oval :=
  [OFloat 0; OFloat 9223372036854775808; OFloat 1; OFloat 4607182418800017408; OFloat 13830554455654793216;
   OFloat 4602678819172646912; OFloat 4845873199050653696; OFloat 4845873199050653697; OFloat 4890909195324358656;
   OFloat 14114281232179134464; OFloat 9218868437227405312; OFloat 18442240474082181120; OFloat 9221120237041090560;
   OFloat 4503599627370495; OFloat 4503599627370496; OFloat 9218868437227405311;
   OInt 0; OInt 1; OInt (-1); OInt 2; OInt 9007199254740992; OInt 9007199254740993; OInt 9223372036854775807;
   OInt (-9223372036854775808); OBool true; OStr [49]; ONull].
Lemma agree_samples :
  forallb (fun a => forallb (fun b => agree a b) f_samples) f_samples = true.
Proof. vm_compute. reflexivity. Qed.
