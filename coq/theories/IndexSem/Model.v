(* IndexSem/Model.v — property index of nervusdb: what the index holds after a
   history of transactions and what an equality lookup returns with and without it.
   Model file: executable definitions only.

   Transcribed from (tree after the two C15 `fix:` commits, see known/C15.json)
     nervusdb-storage/src/engine.rs   WriteTxn::commit, IndexOp::{Insert,Update,Remove}:
         - only the label the node was CREATED with (I2E record `label_id`, first label of
           the CREATE pattern) selects the index "Label.key"; later label changes never
           touch an index; deleting a node leaves its entries;
         - created node: Insert(new); existing node: Update = delete(old value read from
           the pre-commit snapshot) + insert(new); removed property: delete(old);
         - one entry = B-tree key [index id][ordered value][node id] (payload node id);
       GraphEngine::create_index (under the write lock): registers the tree and indexes the
         live nodes whose creation label is the label and that carry the property (backfill);
     nervusdb-storage/src/api.rs      StorageSnapshot::lookup_index: all entries whose key
         starts with [index id][ordered value]; None when the index does not exist OR no
         entry matches;
     nervusdb-query/src/query_api/match_compile.rs  compile_pattern_chain: the start of a
         pattern (n:L ...) with equality predicates on n is IndexSeek on the predicate with
         the SMALLEST property name, then Filter(all equality predicates), then
         Filter(n:L), then the WHERE filter;
     nervusdb-query/src/executor/index_seek_plan.rs execute_index_seek: lookup of the value
         and, for a number, of the same number in the other numeric type (numeric_twin); nothing
         found -> the fallback label scan; else ids without deleted nodes, sorted.
   Values are the scalar kinds the index encodes by value (OrderedKey.oval without
   datetime/blob): null, bool, int, float (bit pattern), string (UTF-8 bytes).
   Labels and property names are numbers; the harness names property i "p<i>" so that the
   order of names is the order of numbers.  One index (ilabel, ikey) per history. *)
From NDB Require Export Base.Bytes Index.OrderedKey.
From Coq Require Export List Bool.
Export ListNotations.
Open Scope N_scope.

(* ---------- Cypher equality on these scalars (evaluator_equality.rs cypher_equals) ---------- *)
(* exact value of a double times 2^1074; None for NaN; infinities beyond every finite value *)
Definition f_exact (bits : N) : option Z :=
  let neg := N.testbit bits 63 in
  let e := (bits / 4503599627370496) mod 2048 in
  let frac := bits mod 4503599627370496 in
  let sg := fun z : Z => if neg then (- z)%Z else z in
  if e =? 2047 then (if frac =? 0 then Some (sg (Z.pow 2 2200)) else None)
  else
    let m := if e =? 0 then frac else frac + 4503599627370496 in
    let sh := if e =? 0 then 0 else e - 1 in
    Some (sg (Z.of_N (N.shiftl m sh))).
Definition i_exact (z : Z) : Z := Z.shiftl z 1074.

Definition oeq (a b : oval) : option bool :=
  match a, b with
  | ONull, _ | _, ONull => None
  | OBool x, OBool y => Some (Bool.eqb x y)
  | OInt x, OInt y => Some (Z.eqb x y)
  | OStr x, OStr y => Some (bytes_eqb x y)
  | OFloat x, OFloat y =>
      (* IEEE equality of two doubles: neither NaN and equal sign-magnitude keys (+0 = -0);
         same trusted reading of bit patterns as C27 *)
      Some (negb (is_nan x) && negb (is_nan y) && Z.eqb (fkey x) (fkey y))
  | OInt x, OFloat y | OFloat y, OInt x =>
      (* float_equals_int = (compare_i64_f64 == Equal): exact comparison (since /repo 375602e) *)
      Some (match f_exact y with Some q => Z.eqb (i_exact x) q | None => false end)
  | _, _ => Some false
  end.
Definition oeq_true (a b : oval) : bool :=
  match oeq a b with Some true => true | _ => false end.

(* numeric_twin (index_seek_plan.rs): the same number in the other numeric type, when it exists
   exactly.  Int(i) -> Float(i as f64) if that double is i; Float(f) -> Int(f as i64) if f is
   integral and inside the i64 range. *)
Definition float_bits_of_int (z : Z) : option N :=
  if (z =? 0)%Z then Some 0 else
  let a := Z.to_N (Z.abs z) in
  let e := N.log2 a in
  let sign := if (z <? 0)%Z then two63 else 0 in
  if e <=? 52 then Some (sign + (e + 1023) * 4503599627370496 + (N.shiftl a (52 - e) - 4503599627370496))
  else if a mod (2 ^ (e - 52)) =? 0
       then Some (sign + (e + 1023) * 4503599627370496 + (N.shiftr a (e - 52) - 4503599627370496))
       else None.
Definition int_of_float_bits (b : N) : option Z :=
  match f_exact b with
  | Some q =>
      let z := (q / Z.pow 2 1074)%Z in
      if (q mod Z.pow 2 1074 =? 0)%Z && in_i64 z then Some z else None
  | None => None
  end.
Definition twin (v : oval) : option oval :=
  match v with
  | OInt z => option_map OFloat (float_bits_of_int z)
  | OFloat b => option_map OInt (int_of_float_bits b)
  | _ => None
  end.

(* kinds handled (no datetime/blob) and basic typing of the payloads *)
Definition typed (v : oval) : bool :=
  match v with
  | ONull | OBool _ => true
  | OInt z => in_i64 z
  | OFloat b => b <? two64
  | OStr s => wf_bytes s
  | ODateTime _ | OBlob _ => false
  end.
Definition kind (v : oval) : N :=
  match v with ONull => 0 | OBool _ => 1 | OInt _ => 2 | OFloat _ => 3 | OStr _ => 4
             | ODateTime _ => 5 | OBlob _ => 6 end.

(* ---------- store ---------- *)
Definition props := list (N * oval).          (* property name -> value, no nulls stored *)
Fixpoint pget (k : N) (m : props) : option oval :=
  match m with [] => None | (k', v) :: t => if k' =? k then Some v else pget k t end.
Fixpoint pdel (k : N) (m : props) : props :=
  match m with [] => [] | (k', v) :: t => if k' =? k then pdel k t else (k', v) :: pdel k t end.
Definition pset (k : N) (v : oval) (m : props) : props :=
  match v with ONull => pdel k m | _ => (k, v) :: pdel k m end.

Record node := mkNode {
  n_first : option N;     (* label the node was created with (None: CREATE (n)) — never changes *)
  n_labels : list N;      (* current labels *)
  n_props : props;
  n_deleted : bool        (* labels and properties of a deleted node stay readable *)
}.

Definition entry := (bytes * N)%type.          (* (ordered encoding of the value, node id) *)
Record state := mkState {
  nodes : list node;                  (* node id = position (ids are dense, never reused) *)
  index : option (list entry)         (* None: create_index not called yet *)
}.
Definition st0 : state := mkState [] None.

Definition get_node (s : state) (id : N) : option node := nth_error (nodes s) (N.to_nat id).
Fixpoint upd_nth {A} (l : list A) (i : nat) (f : A -> A) : list A :=
  match l, i with
  | [], _ => []
  | x :: t, O => f x :: t
  | x :: t, S j => x :: upd_nth t j f
  end.
Definition upd_node (s : state) (id : N) (f : node -> node) : state :=
  mkState (upd_nth (nodes s) (N.to_nat id) f) (index s).

Definition entry_eqb (a b : entry) : bool := bytes_eqb (fst a) (fst b) && (snd a =? snd b).
(* BTree::delete of an exact (key, payload): removes one entry if present *)
Fixpoint idx_del (e : entry) (l : list entry) : list entry :=
  match l with [] => [] | x :: t => if entry_eqb x e then t else x :: idx_del e t end.
Definition idx_ins (e : entry) (l : list entry) : list entry := e :: l.

(* ---------- operations: one committed transaction each ---------- *)
Inductive op :=
| OCreate (labels : list N) (ps : props)         (* CREATE (:l1:l2 {..}); ps = final non-null properties *)
| OProps (id : N) (sets : list (N * oval))       (* SET/REMOVE items on ONE existing node, in order; ONull = remove *)
| OAddLabel (id l : N)
| ORemoveLabel (id l : N)
| ODelete (id : N)
| OCreateIndex
| OCompact
| OReopen
| OResync (obs : list (list N * props * bool)).  (* the engine's store deviated (other properties'
                                                    findings: C04 labels, C05 tombstones): continue
                                                    from the observed labels/properties/deleted flags *)

Section Idx.
Context (ilabel ikey : N).

Definition label_eqb (a : option N) (b : N) : bool :=
  match a with Some x => x =? b | None => false end.

(* the last item for the indexed property in a SET list = what the memtable holds at commit *)
Fixpoint last_for (k : N) (sets : list (N * oval)) (acc : option oval) : option oval :=
  match sets with
  | [] => acc
  | (k', v) :: t => last_for k t (if k' =? k then Some v else acc)
  end.

Definition apply_sets (sets : list (N * oval)) (m : props) : props :=
  fold_left (fun m kv => pset (fst kv) (snd kv) m) sets m.

Definition index_on_props (id : N) (first : option N) (old : option oval) (final : option oval)
           (ix : list entry) : list entry :=
  if label_eqb first ilabel then
    match final with
    | None => ix                                           (* property not touched *)
    | Some ONull =>                                        (* IndexOp::Remove(old) *)
        match old with Some o => idx_del (enc o, id) ix | None => ix end
    | Some v =>                                            (* IndexOp::Update(old, v) *)
        idx_ins (enc v, id) (match old with Some o => idx_del (enc o, id) ix | None => ix end)
    end
  else ix.

Fixpoint ids_from (i : N) (ns : list node) (p : node -> bool) : list N :=
  match ns with
  | [] => []
  | n :: t => if p n then i :: ids_from (N.succ i) t p else ids_from (N.succ i) t p
  end.

(* create_index: entries of the live nodes created with the indexed label that carry the property *)
Definition backfill_one (s : state) (id : N) : list entry :=
  match get_node s id with
  | Some n => match pget ikey (n_props n) with Some w => [(enc w, id)] | None => [] end
  | None => []
  end.
Definition backfill (s : state) : list entry :=
  flat_map (backfill_one s)
           (ids_from 0 (nodes s) (fun n => negb (n_deleted n) && label_eqb (n_first n) ilabel)).

Definition step (s : state) (o : op) : state :=
  match o with
  | OCreate labels ps =>
      let id := N.of_nat (length (nodes s)) in
      let first := hd_error labels in
      let n := mkNode first labels ps false in
      let ix := match index s with
                | Some ix =>
                    Some (if label_eqb first ilabel then
                            match pget ikey ps with Some v => idx_ins (enc v, id) ix | None => ix end
                          else ix)
                | None => None
                end in
      mkState (nodes s ++ [n]) ix
  | OProps id sets =>
      match get_node s id with
      | None => s
      | Some n =>
          let ix := option_map (index_on_props id (n_first n) (pget ikey (n_props n))
                                               (last_for ikey sets None)) (index s) in
          mkState (upd_nth (nodes s) (N.to_nat id)
                           (fun n => mkNode (n_first n) (n_labels n) (apply_sets sets (n_props n)) (n_deleted n)))
                  ix
      end
  | OAddLabel id l =>
      upd_node s id (fun n => mkNode (n_first n)
                                     (if existsb (N.eqb l) (n_labels n) then n_labels n else n_labels n ++ [l])
                                     (n_props n) (n_deleted n))
  | ORemoveLabel id l =>
      upd_node s id (fun n => mkNode (n_first n) (filter (fun x => negb (x =? l)) (n_labels n))
                                     (n_props n) (n_deleted n))
  | ODelete id => upd_node s id (fun n => mkNode (n_first n) (n_labels n) (n_props n) true)
  | OCreateIndex => mkState (nodes s) (match index s with None => Some (backfill s) | i => i end)
  | OCompact | OReopen => s
  | OResync obs =>
      mkState (map (fun no => let '(n, (ls, ps, d)) := no in mkNode (n_first n) ls ps d)
                   (combine (nodes s) obs))
              (index s)
  end.

Definition run (h : list op) : state := fold_left step h st0.

(* ---------- the two evaluations of
     MATCH (n:l) WHERE n.p1 = v1 AND n.p2 = v2 ... RETURN id(n)
   preds sorted by property name (BTreeMap order) ---------- *)
Definition has_label (n : node) (l : N) : bool := existsb (N.eqb l) (n_labels n).
Definition sat (n : node) (l : N) (preds : list (N * oval)) : bool :=
  has_label n l &&
  forallb (fun kv => match pget (fst kv) (n_props n) with
                     | Some w => oeq_true w (snd kv)
                     | None => false            (* missing property reads null *)
                     end) preds.


(* label scan + filters *)
Definition scan_eval (s : state) (l : N) (preds : list (N * oval)) : list N :=
  ids_from 0 (nodes s) (fun n => negb (n_deleted n) && sat n l preds).

Fixpoint ins_sorted (x : N) (l : list N) : list N :=
  match l with [] => [x] | y :: t => if x <=? y then x :: l else y :: ins_sorted x t end.
Definition sort_ids (l : list N) : list N := fold_right ins_sorted [] l.

(* StorageSnapshot::lookup_index: one encoded value *)
Definition lookup1 (s : state) (l k : N) (v : oval) : option (list N) :=
  if (l =? ilabel) && (k =? ikey) then
    match index s with
    | None => None
    | Some ix =>
        match map snd (filter (fun e => bytes_eqb (fst e) (enc v)) ix) with
        | [] => None
        | ids => Some ids
        end
    end
  else None.
(* what execute_index_seek collects: the value's entries and its numeric twin's *)
Definition seek_keys (v : oval) : list bytes :=
  enc v :: match twin v with Some t => [enc t] | None => [] end.
Definition lookup (s : state) (l k : N) (v : oval) : option (list N) :=
  if (l =? ilabel) && (k =? ikey) then
    match index s with
    | None => None
    | Some ix =>
        match map snd (filter (fun e => existsb (bytes_eqb (fst e)) (seek_keys v)) ix) with
        | [] => None
        | ids => Some ids
        end
    end
  else None.

Definition live (s : state) (id : N) : bool :=
  match get_node s id with Some n => negb (n_deleted n) | None => false end.

Definition seek_eval (s : state) (l : N) (preds : list (N * oval)) : list N :=
  match preds with
  | [] => scan_eval s l preds
  | (k0, v0) :: _ =>
      match lookup s l k0 v0 with
      | None => scan_eval s l preds
      | Some ids =>
          filter (fun id => match get_node s id with Some n => sat n l preds | None => false end)
                 (sort_ids (filter (live s) ids))
      end
  end.

(* ---------- known-finding classes, as predicates on (state, query) ---------- *)
(* a live node the scan returns for the seek predicate but whose entry is missing *)
Definition entry_present (s : state) (id : N) (w : oval) : bool :=
  match index s with Some ix => existsb (entry_eqb (enc w, id)) ix | None => false end.
Definition missing (s : state) (id : N) (n : node) : bool :=
  negb (n_deleted n) && has_label n ilabel &&
  match pget ikey (n_props n) with Some w => negb (entry_present s id w) | None => false end.
(* K-C15-label: entry missing and the node was not created with the indexed label *)
Definition k_label (s : state) : bool :=
  existsb (fun p => missing s (fst p) (snd p) && negb (label_eqb (n_first (snd p)) ilabel))
          (combine (map N.of_nat (seq 0 (length (nodes s)))) (nodes s)).
(* entry missing although the node was created with the indexed label: only after a
   resynchronisation (K-C15-foreign) since create_index backfills *)
Definition k_backfill (s : state) : bool :=
  existsb (fun p => missing s (fst p) (snd p) && label_eqb (n_first (snd p)) ilabel)
          (combine (map N.of_nat (seq 0 (length (nodes s)))) (nodes s)).
(* (former K-C15-numeric, repaired) a live labelled node stores a number equal to v in the
   other numeric type whose entry the twin lookup does not reach.  Expected never to hold: it is
   the arithmetic fact "numeric_twin is complete", checked on every generated query. *)
Definition twin_hit (w v : oval) : bool :=
  match twin v with Some t => bytes_eqb (enc w) (enc t) | None => false end.
Definition k_numeric (s : state) (v : oval) : bool :=
  existsb (fun n => negb (n_deleted n) && has_label n ilabel &&
                    match pget ikey (n_props n) with
                    | Some w => oeq_true w v && negb (kind w =? kind v) && negb (twin_hit w v)
                    | None => false
                    end) (nodes s).

(* ---------- histories on which the theorem is proved ---------- *)
Definition typed_props (ps : props) : bool := forallb (fun kv => typed (snd kv)) ps.
(* a step that can make the index incomplete (or that leaves the model: OResync) *)
Definition bad_step (s : state) (o : op) : bool :=
  match o with
  | OCreate labels ps =>
      negb (typed_props ps) || existsb (fun kv => match snd kv with ONull => true | _ => false end) ps ||
      (* indexed label given, but not as the first label: K-C15-label *)
      (existsb (N.eqb ilabel) labels && negb (label_eqb (hd_error labels) ilabel))
  | OProps id sets => negb (typed_props sets)
  | OAddLabel id l =>
      (* indexed label added later: K-C15-label *)
      (l =? ilabel) && match get_node s id with Some n => negb (label_eqb (n_first n) ilabel) | None => false end
  | ORemoveLabel _ _ | ODelete _ | OCompact | OReopen => false
  | OCreateIndex => false                       (* create_index backfills (K-C15-backfill repaired) *)
  | OResync _ => true
  end.
Fixpoint good_from (s : state) (h : list op) : bool :=
  match h with
  | [] => true
  | o :: t => negb (bad_step s o) && good_from (step s o) t
  end.
Definition good (h : list op) : bool := good_from st0 h.

End Idx.
