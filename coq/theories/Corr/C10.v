(* Corr/C10.v — a C10 correspondence case: operation lists of several handles on the same
   path (handles in the harness process and in a child process) executed in an explicit
   interleaving; each operation is one public API call.  Compared: the result of every
   operation (open ok / refused, write done, closed, no handle) with the model's result
   trace under current_locking, and which handles are open at the end. *)
From NDB Require Export Conc.Sched Conc.Handles Corr.Common.

Record case := {
  progs : list (list hop);
  sched : list nat;
  impl_results : list (nat * hres);
  impl_open : list bool          (* per handle: open at the end *)
}.

Definition wop_eqb (a b : wop) : bool :=
  match a, b with
  | WCommit x, WCommit y => Z.eqb x y
  | WCompact, WCompact | WClose, WClose | WOffline, WOffline | WOpenScan, WOpenScan => true
  | _, _ => false
  end.

Definition hres_eqb (a b : hres) : bool :=
  match a, b with
  | ROpenOk, ROpenOk | ROpenRefused, ROpenRefused | RAlreadyOpen, RAlreadyOpen
  | RClosed, RClosed | RNoHandle, RNoHandle | ROffline, ROffline | ROfflineRefused, ROfflineRefused => true
  | RWrote x, RWrote y => wop_eqb x y
  | _, _ => false
  end.

Definition res_eqb (a b : nat * hres) : bool := Nat.eqb (fst a) (fst b) && hres_eqb (snd a) (snd b).

Definition ok (c : case) : bool :=
  let r := hrun current_locking (sched c) (hinit (progs c)) in
  list_eqb res_eqb (results (Sched.shared r)) (impl_results c) &&
  list_eqb Bool.eqb (map (fun t => loc (threads r t)) (seq 0 (length (progs c)))) (impl_open c).
