(* Corr/C21.v — a C21 correspondence case: rows (grouping key, argument value), the engine's
   temporal classification of the strings (data) and the engine's result rows: the key and the
   13 aggregates count-star count sum avg min max collect and their DISTINCT variants (count-star
   has none).  Groups come out of a HashMap in arbitrary order: compared as sets. *)
From NDB Require Export Cypher.Value Cypher.Compare Cypher.Agg Corr.Common Corr.C23.
Open Scope N_scope.

Record case := {
  tpt : list (bytes * (N * Z));
  nkeys : nat;
  rows : list (list value * value);
  impl : list (list value * list value)
}.

Definition model_row (tp : toracle) (g : list value * list value) : list value * list value :=
  let vs := snd g in
  (fst g,
   [agg tp ACountStar false vs; agg tp ACount false vs; agg tp ASum false vs; agg tp AAvg false vs;
    agg tp AMin false vs; agg tp AMax false vs; agg tp ACollect false vs;
    agg tp ACount true vs; agg tp ASum true vs; agg tp AAvg true vs;
    agg tp AMin true vs; agg tp AMax true vs; agg tp ACollect true vs]).

Definition model_rows (tp : toracle) (nk : nat) (rows : list (list value * value)) : list (list value * list value) :=
  match rows, nk with
  | [], O => [model_row tp ([], [])]
  | _, _ => map (model_row tp) (group_rows rows)
  end.

Definition out_same (a b : list value * list value) : bool :=
  list_eqb value_same (fst a) (fst b) && list_eqb value_same (snd a) (snd b).
Fixpoint remove_first (x : list value * list value) (l : list (list value * list value)) :=
  match l with
  | [] => None
  | y :: t => if out_same x y then Some t else option_map (cons y) (remove_first x t)
  end.
Fixpoint same_set (a b : list (list value * list value)) : bool :=
  match a with
  | [] => match b with [] => true | _ => false end
  | x :: t => match remove_first x b with Some b' => same_set t b' | None => false end
  end.

Definition ok (c : case) : bool :=
  same_set (model_rows (oracle_of (tpt c)) (nkeys c) (rows c)) (impl c).
