(* Corr/C28.v — a C28 correspondence case: the roots and page graph of a closed database as the
   harness re-parsed them from the files, and what the real vacuum did (succeeded? which pages does
   the new file keep = bits set in its bitmap). *)
From NDB Require Export Store.Pager Store.Vacuum Corr.Common.
Open Scope N_scope.

Record case := {
  meta_bytes : bytes;                        (* first bytes of page 0 *)
  cat_entries : option (list (bool * N));
  wal_props : N; wal_stats : N; wal_segs : list N;
  pages : list (N * praw);
  need_cert : bool;                          (* false for deliberately corrupted files *)
  impl_ok : bool;
  impl_marked : list N                       (* data pages allocated in the vacuumed file *)
}.

Definition roots_of (c : case) : roots :=
  let m := decode_meta (meta_bytes c) in
  {| r_i2e_start := m_i2e_start m; r_i2e_len := m_i2e_len m; r_catalog := m_catalog_root m;
     r_cat_entries := cat_entries c; r_props := wal_props c; r_stats := wal_stats c; r_segments := wal_segs c |}.

Definition subset (a b : list N) : bool := forallb (fun x => mem x b) a.

Definition ok (c : case) : bool :=
  match vacuum (pages c) (roots_of c) with
  | Ok (vis, _) =>
      let data := filter (fun p => first_data_page_id <=? p) vis in
      impl_ok c && subset data (impl_marked c) && subset (impl_marked c) data &&
      (negb (need_cert c) || cert (pages c) (roots_of c) vis)
  | Err => negb (impl_ok c)
  | OutOfFuel => false
  end.
