(* Corr/C11.v — what a C11 correspondence case is and when it agrees.
   engine = Faithful model always; and outside the known-finding classes
   Faithful = Reference on this case (the sampled form of C11_full_statement). *)
From NDB Require Export Query.Clauses Query.Known Query.Cases.
Open Scope N_scope.

(* ccollect: the query uses collect() without fixing the order: collected lists are compared as multisets *)
Record case := { cg : graph; cparams : row; cquery : query; cordered : bool; ccollect : bool; i_out : iout }.

Definition ok (c : case) : bool :=
  let E := mk_env (cg c) (cparams c) None in
  out_same_ul (ccollect c) (cordered c) (result_of Faithful E (cquery c)) (i_out c) &&
  (in_known_class (cg c) (cquery c) || out_same_ul (ccollect c) (cordered c) (result_of Reference E (cquery c)) (i_out c)).
