(* Corr/C20.v — a C20 correspondence case: the rows fed to ORDER BY (sort keys with
   direction, payload), SKIP and LIMIT, the engine's temporal classification of the
   strings (data) and the engine's output rows.  When the comparator is a total
   preorder on the actual rows (`preorder_on`) the model predicts the exact output;
   otherwise (known classes) Rust's unspecified stable sort may return any order and
   only the multiset of the unsliced output is compared (the harness then runs
   the query without SKIP/LIMIT). *)
From NDB Require Export Cypher.Value Cypher.Compare Cypher.OrderBy Corr.Common Corr.C23.
Open Scope N_scope.

Record case := {
  tpt : list (bytes * (N * Z));
  rows : list srow;
  skip : nat; limit : nat;
  impl : list (list value)           (* output of the query with SKIP/LIMIT *)
}.

Definition row_same (a b : list value) : bool := list_eqb value_same a b.
Fixpoint remove_one (x : list value) (l : list (list value)) : option (list (list value)) :=
  match l with
  | [] => None
  | y :: t => if row_same x y then Some t else option_map (cons y) (remove_one x t)
  end.
Fixpoint sub_multiset (a b : list (list value)) : bool :=
  match a with
  | [] => true
  | x :: t => match remove_one x b with Some b' => sub_multiset t b' | None => false end
  end.

Definition ok (c : case) : bool :=
  let tp := oracle_of (tpt c) in
  if preorder_on (srow_cmp tp) (rows c)
  then list_eqb row_same (order_by_slice tp (skip c) (limit c) (rows c)) (impl c)
  else (* outside the model's prediction: the output must still consist of input rows *)
       sub_multiset (impl c) (map snd (rows c)) && Nat.eqb (length (impl c)) (Nat.min (limit c) (length (rows c) - skip c)).
