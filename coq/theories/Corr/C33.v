(* Corr/C33.v — what a C33 correspondence case is and when it agrees.
   The same query is run by the engine without limits and under random limits.
   The faithful model (unlimited) must equal the engine's unlimited result, and a
   limited run must be either that same complete result or a resource-limit error
   (class 3).  Which of the two happens depends on the query-wide row counter,
   which the model does not compute: it is not predicted, only classified. *)
From NDB Require Export Query.Limits Query.Cases.
Open Scope N_scope.

Record case := {
  cg : graph;
  cquery : query;
  cordered : bool;
  i_full : iout;               (* default ExecuteOptions *)
  i_lim : iout                 (* random max_intermediate_rows / max_collection_items *)
}.

Definition ok (c : case) : bool :=
  let m := result_of Faithful (mk_env (cg c) [] None) (cquery c) in
  out_same (cordered c) m (i_full c) &&
  match i_lim c with
  | IRows _ => out_same (cordered c) m (i_lim c)
  | IErr k => k =? 3
  end.
