(* Corr/C16.v — a case: one member of a nesting family (kind, levels) with the parser's
   recursion high-water mark reported by the hook and whether the implementation rejected the
   query with a nesting-limit error.  Agreement: the unguarded model predicts the depth. *)
From NDB Require Export Parser.Depth Corr.Common.
Open Scope N_scope.

Record case := { kind : N; nest : N; impl_depth : N; impl_rejected : bool }.

Definition ok (c : case) : bool :=
  if N.ltb 5000 (nest c) then true   (* not evaluated: keeps vm_compute away from very large unary fuel *)
  else
    let r := depth_reached None (family (kind c) (N.to_nat (nest c))) in
    N.eqb (hw_of r) (impl_depth c) && negb (impl_rejected c) && negb (rejected r).
