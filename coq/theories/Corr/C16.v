(* Corr/C16.v — a case: one member of a nesting family (kind, levels) with what the real parser
   did: rejected with the nesting-limit error? and, if accepted, the recursion high-water mark the
   hook reported.  Agreement: the model with the code's constants (budget of a build with debug
   assertions, as the harness profile has) predicts both. *)
From NDB Require Export Gen.Consts Parser.Depth Corr.Common.
Open Scope N_scope.

Record case := { kind : N; nest : N; impl_depth : N; impl_rejected : bool }.

Definition ok (c : case) : bool :=
  if N.ltb 5000 (nest c) then impl_rejected c   (* far beyond the limit: must be rejected; not evaluated (unary fuel) *)
  else
    let r := parse_return parser_expression_nesting_cost parser_query_nesting_cost (Some parser_depth_budget_debug)
                          (family (kind c) (N.to_nat (nest c))) in
    if rejected r then impl_rejected c
    else negb (impl_rejected c) && N.eqb (hw_of r) (impl_depth c).
