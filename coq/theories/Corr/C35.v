(* Corr/C35.v — the C35 case: the set of lock-acquisition patterns observed on the real code over all
   generated workloads (lock ids per the harness table, modes MR / MW / MTry, held set sorted), the rank table the harness
   computed for it and the gate lock (write_lock).  `ok` = the certificate check of Conc/LockOrder.v,
   so by C35_observed_patterns_partial no state built from these patterns is deadlocked. *)
From NDB Require Export Conc.LockOrder Corr.Common.

Record case := {
  pats : list pattern;
  ranks : list (lock * nat);
  gate : lock
}.

Definition ok (c : case) : bool := check (pats c) (rank_of (ranks c)) (gate c).
