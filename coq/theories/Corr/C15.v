(* Corr/C15.v — a C15 correspondence case: one history of committed transactions run on two
   databases (one with `create_index(ilabel, ikey)` at the OCreateIndex step, one without),
   interleaved with observations of the implementation:
     SQuery l preds w wo : rows (node ids, sorted, duplicates kept) of
                           MATCH (n:l) WHERE n.p = v AND ... RETURN id(n)
                           on the database WITH the index (w) and WITHOUT it (wo);
     SLookup v r         : StorageSnapshot::lookup_index(ilabel, ikey, v), ids sorted.
   `ok` replays the history in the model and compares every observation. *)
From NDB Require Export IndexSem.Model IndexSem.CyEq Corr.Common.

Inductive obs :=
| SOp (o : op)
| SQuery (l : N) (preds : list (N * oval)) (with_idx without_idx : list N)
| SLookup (v : oval) (r : option (list N)).

Record case := { c_ilabel : N; c_ikey : N; c_steps : list obs }.

Fixpoint replay (il ik : N) (s : state) (l : list obs) : bool :=
  match l with
  | [] => true
  | SOp o :: t => replay il ik (step il ik s o) t
  | SQuery lb preds w wo :: t =>
      list_eqb N.eqb (seek_eval il ik s lb preds) w &&
      list_eqb N.eqb (scan_eval s lb preds) wo &&
      (* the arithmetic side condition of C15_index_transparent never holds *)
      match preds with (_, v0) :: _ => negb (k_numeric il ik s v0) | [] => true end &&
      (* the model's scalar equality is Cypher/Compare.v's cy_eq on every pair compared here *)
      forallb (fun kv => forallb (fun n => match pget (fst kv) (n_props n) with
                                            | Some w => agree w (snd kv)
                                            | None => true end) (nodes s)) preds &&
      replay il ik s t
  | SLookup v r :: t =>
      opt_eqb (list_eqb N.eqb) (option_map sort_ids (lookup1 il ik s il ik v)) r &&
      replay il ik s t
  end.

Definition ok (c : case) : bool := replay (c_ilabel c) (c_ikey c) st0 (c_steps c).
