(* Corr/C09.v — a C09 correspondence case: one explicit schedule driven through the
   schedule points of the real code (ndb_execute_write on several threads).
   Compared: (1) the order of the five events of one statement as observed on the real
   code = the model's program order: lock, snapshot, log, publish from the schedule points of a single-thread
   calibration run, and the position of the UNLOCK found by probing - a second writer released while the first
   is parked at each of its points stays blocked until the first one is done; (2) the event
   trace of the driven run = the model's trace for the same schedule (blocked steps
   included: the driver skips a step exactly when the model says the lock is taken);
   (3) the value read back through ndb_query afterwards = the model's cell;
   (4) all statements finished = the model's done flag. *)
From NDB Require Export Conc.Sched Conc.AutoCommit Corr.Common.
Open Scope Z_scope.

Record case := {
  observed_group : list evkind;
  v0 : Z;
  stmts : list (list stmt);
  sched : list nat;
  impl_trace : list (nat * evkind);
  impl_final : option Z;   (* value read back; None when the schedule left statements unfinished *)
  impl_done : bool
}.

Definition evkind_eqb (a b : evkind) : bool :=
  match a, b with
  | ESnap, ESnap | ELock, ELock | ELog, ELog | EPublish, EPublish | EUnlock, EUnlock => true
  | _, _ => false
  end.

Definition ev_eqb (a b : nat * evkind) : bool := Nat.eqb (fst a) (fst b) && evkind_eqb (snd a) (snd b).

Definition ok (c : case) : bool :=
  list_eqb evkind_eqb (observed_group c) (map kind_of (group current_order (SAdd 0))) &&
  (let r := arun (sched c) (init current_order (v0 c) (stmts c)) in
   match impl_final c with Some v => Z.eqb (cell (Sched.shared r)) v | None => true end &&
   list_eqb ev_eqb (trace (Sched.shared r)) (impl_trace c) &&
   Bool.eqb (done_upto (length (stmts c)) r) (impl_done c)).
