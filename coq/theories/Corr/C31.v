(* Corr/C31.v — a C31 correspondence case: HNSW parameters, a history of
   set_vector / delete / reopen operations with the levels the implementation drew,
   and searches (Db::search_vector) with the implementation's answers (distances as exact squared
   integers, recovered by the harness from the reported f32 and re-checked there)
   together with the harness's own brute-force answer (spec side). *)
From NDB Require Export Vector.Hnsw Corr.Common.
Open Scope nat_scope.

Inductive ires :=
| IOk (r : list (N * N))     (* (id, d2) in the order returned *)
| INotFound                  (* Err "Vector not found" *)
| IOther.                    (* any other error / panic *)

Inductive cop :=
| CIns (id : N) (v : vec) (level : nat)
| CDel (id : N)
| CReopen
| CSearch (q : vec) (k : nat) (impl : ires) (bf : list (N * N)).

Record case := { c_m : nat; c_efc : nat; c_efs : nat; c_ops : list cop }.

Definition pair_eqb (a b : N * N) : bool := (fst a =? fst b)%N && (snd a =? snd b)%N.

Definition res_matches (m : res (index * list (N * N))) (i : ires) : bool :=
  match m, i with
  | Ok (_, r), IOk r' => list_eqb pair_eqb r r'
  | NotFound, INotFound => true
  | _, _ => false
  end.

(* the hypothesis of the exactness theorem (Hnsw_exact.small_exact_checked), evaluated on the
   reached state whenever the history so far is "clean" (no id inserted twice, no reopen), the
   index is small (<= 2m+1 vectors, <= ef_search) and the graph tree still has one page *)
Definition small_state_ok (pr : params) (ix : index) (st : list (N * vec)) : bool :=
  if (length st <=? 2 * p_m pr + 1) && (length st <=? p_efs pr)
     && (length (pages (gt (i_env ix))) =? 1) && negb (length st =? 0)
  then small_check pr ix (map fst st)
       && forallb (fun b => vec_eqb (vec_of (i_env ix) (fst b)) (snd b)) st
  else true.

(* `clean`: no id inserted twice and no reopen so far; `uniq`: no id inserted twice so far.
   At every reopen of a `uniq` history the hypothesis of Hnsw_reopen.reopen_same_checked
   (reopen_check) is evaluated on the state. *)
Fixpoint go (pr : params) (ix : index) (st : list (N * vec)) (del : list N) (clean uniq : bool) (ops : list cop) : bool :=
  match ops with
  | [] => true
  | CIns id v level :: t =>
      match insert pr ix id v level with
      | Ok ix' => let fresh := negb (existsb (fun b => (fst b =? id)%N) st) in
                  go pr ix' (stored [OInsert id v level] st) del (clean && fresh) (uniq && fresh) t
      | _ => false
      end
  | CDel id :: t => go pr ix st (id :: del) clean uniq t
  | CReopen :: t =>
      (if uniq then reopen_check ix else true)
      && match reopen ix with Ok ix' => go pr ix' st del false uniq t | _ => false end
  | CSearch q k impl bf :: t =>
      let m := search_vector pr ix del q k in
      res_matches m impl
      && list_eqb pair_eqb (brute_force (filter (fun b => negb (memN (fst b) del)) st) q k) bf
      && (if clean then small_state_ok pr ix st else true)
      && match m with Ok (ix', _) => go pr ix' st del clean uniq t | _ => go pr ix st del clean uniq t end
  end.

Definition ok (c : case) : bool :=
  go {| p_m := c_m c; p_efc := c_efc c; p_efs := c_efs c |} empty_index [] [] true true (c_ops c).
