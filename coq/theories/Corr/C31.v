(* Corr/C31.v — a C31 correspondence case: HNSW parameters, a history of
   set_vector / delete / reopen operations with the levels the implementation drew,
   and searches with the implementation's answers (distances as exact squared
   integers, recovered by the harness from the reported f32 and re-checked there)
   together with the harness's own brute-force answer (spec side). *)
From NDB Require Export Vector.Hnsw Corr.Common.
Open Scope nat_scope.

Inductive ires :=
| IOk (r : list (N * N))     (* (id, d2) in the order returned *)
| INotFound                  (* Err "Vector not found" *)
| IOther.                    (* any other error / panic *)

Inductive cop :=
| CIns (id : N) (v : vec) (level : nat)
| CDel (id : N)
| CReopen
| CSearch (q : vec) (k : nat) (impl : ires) (bf : list (N * N)).

Record case := { c_m : nat; c_efc : nat; c_efs : nat; c_ops : list cop }.

Definition pair_eqb (a b : N * N) : bool := (fst a =? fst b)%N && (snd a =? snd b)%N.

Definition res_matches (m : res (index * list (N * N))) (i : ires) : bool :=
  match m, i with
  | Ok (_, r), IOk r' => list_eqb pair_eqb r r'
  | NotFound, INotFound => true
  | _, _ => false
  end.

(* ix = None: the model has failed earlier (an insert that errs is not expected) *)
Fixpoint go (pr : params) (ix : index) (st : list (N * vec)) (ops : list cop) : bool :=
  match ops with
  | [] => true
  | CIns id v level :: t =>
      match insert pr ix id v level with
      | Ok ix' => go pr ix' (stored [OInsert id v level] st) t
      | _ => false
      end
  | CDel _ :: t => go pr ix st t
  | CReopen :: t =>
      match reopen ix with Ok ix' => go pr ix' st t | _ => false end
  | CSearch q k impl bf :: t =>
      let m := search pr ix q k in
      res_matches m impl
      && list_eqb pair_eqb (brute_force st q k) bf
      && match m with Ok (ix', _) => go pr ix' st t | _ => go pr ix st t end
  end.

Definition ok (c : case) : bool :=
  go {| p_m := c_m c; p_efc := c_efc c; p_efs := c_efs c |} empty_index [] (c_ops c).
