(* Corr/C32.v — a C32 correspondence case: a history of creating statements (shape +
   the clock samples fed through the verif_clock hook + whether the implementation's
   statement succeeded), commits / abandons / compactions / reopens, each followed by
   the implementation's dump of (internal id, external id) of all nodes in the id map. *)
From NDB Require Export IdAlloc.Model Corr.Common.
Open Scope N_scope.

Inductive cop :=
| CStmt (nn ne : N) (clocks : list N) (impl_ok : bool)
| CCommit (dump : list (N * N))
| CAbandon (dump : list (N * N))
| CCompact (dump : list (N * N))
| CReopen (dump : list (N * N)).

Record case := { c_ops : list cop }.

Definition pair_eqb (a b : N * N) : bool := (fst a =? fst b) && (snd a =? snd b).
Definition dump_ok (s : st) (d : list (N * N)) : bool := list_eqb pair_eqb (nodes s) d.

Fixpoint go (s : st) (ops : list cop) : bool :=
  match ops with
  | [] => true
  | CStmt n e clocks impl_ok :: t =>
      let '(s', b) := stmt s {| nn := n; ne := e |} clocks in
      Bool.eqb b impl_ok && Bool.eqb (negb (collides s {| nn := n; ne := e |} clocks)) impl_ok && go s' t
  | CCommit d :: t => let s' := commit s in dump_ok s' d && go s' t
  | CAbandon d :: t => let s' := abandon s in dump_ok s' d && go s' t
  | CCompact d :: t => dump_ok s d && go s t
  | CReopen d :: t => let s' := abandon s in dump_ok s' d && go s' t
  end.

Definition ok (c : case) : bool := go empty (c_ops c).
