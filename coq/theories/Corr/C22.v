(* Corr/C22.v — what a C22 correspondence case is and when it agrees.
   A case is a query of Query/Clauses.v in which exactly one row raises a
   runtime error, wrapped in one result operator, with the outcome the engine
   reported (rows or an error class).  The faithful model must report the same
   outcome: the same error class, or - when the failing row is never pulled
   (LIMIT) - the same rows. *)
From NDB Require Export Query.Clauses Query.Cases.
Open Scope N_scope.

Record case := {
  cg : graph;
  cquery : query;
  cordered : bool;             (* the final RETURN has ORDER BY: compare as a sequence *)
  i_out : iout
}.

Definition ok (c : case) : bool :=
  out_same (cordered c) (result_of Faithful (mk_env (cg c) [] None) (cquery c)) (i_out c).
