(* Corr/C07.v — correspondence cases of C07: see Engine/Case.v (shared engine case). *)
From NDB Require Export Engine.Case.
Definition case := hcase.
Definition ok : case -> bool := hcase_ok.
