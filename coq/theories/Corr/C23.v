(* Corr/C23.v — a C23 correspondence case: an expression over literal operands,
   the engine's temporal classification of the strings occurring in it (data),
   and the engine's result of `RETURN <expr>`.  The case agrees when the model
   evaluator yields the same value (floats as bit patterns, NaN payload masked). *)
From NDB Require Export Cypher.Value Cypher.Compare Cypher.Logic Cypher.Arith Cypher.Eval Corr.Common.
Open Scope N_scope.

Definition oracle_of (t : list (bytes * (N * Z))) : toracle :=
  fun s => match find (fun p => bytes_eqb (fst p) s) t with Some (_, x) => Some x | None => None end.

Record case := {
  tpt : list (bytes * (N * Z));
  ex : expr;
  impl : value
}.

Definition ok (c : case) : bool :=
  match eval (oracle_of (tpt c)) [] (ex c) with
  | Some v => value_same v (impl c)
  | None => false
  end.
