(* Corr/C12.v — a C12 correspondence case: a sequence of update statements (evaluated
   operands) applied to one database, each with what the implementation reported
   (None = the statement failed and its transaction was dropped) and the full dump taken
   afterwards through a fresh snapshot.  `ok` replays the sequence in the model.
   After a step whose dump the harness could attribute to a foreign finding (K-C06-eprops
   etc.) the model continues from the model graph; such steps are not generated. *)
From NDB Require Export Update.Model Corr.Common.

Record obs := {
  o_stmt : stmt;
  o_count : option N;
  o_nodes : list dump_node;
  o_rels : list dump_rel
}.
Record case := { c_steps : list obs }.

Fixpoint replay (g : graph) (l : list obs) : bool :=
  match l with
  | [] => true
  | o :: t =>
      match exec g (o_stmt o), o_count o with
      | Done g' c, Some c' =>
          (c =? c') && nodes_same g' (o_nodes o) && rels_same g' (o_rels o) && replay g' t
      | Failed, None => nodes_same g (o_nodes o) && rels_same g (o_rels o) && replay g t
      | _, _ => false
      end
  end.
Definition ok (c : case) : bool := replay g0 (c_steps c).
