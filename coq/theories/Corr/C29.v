(* Corr/C29.v — a C29 correspondence case: the writer operations (commit / label creation / compaction that had something to
   compact / close-time log rewrite) run before the backup started and between the page-file copy and the log copy, and what the real
   restored database did: does it open, how many of the committed transactions are visible. *)
From NDB Require Export Store.Backup Corr.Common.
Open Scope N_scope.

Record case := {
  before : list wop;
  between : list wop;
  impl_opens : bool;
  impl_visible : N
}.

Definition ok (c : case) : bool :=
  let '(s1, st1) := plan wstate_new (before c) in
  let '(s2, _) := plan st1 (between c) in
  let steps := s1 ++ s2 in
  match content (restore (backup steps (length s1) (length steps))) with
  | None => negb (impl_opens c)
  | Some (l, _, _) => impl_opens c && (N.of_nat (length l) =? impl_visible c)
  end.
