(* Corr/C18.v — C18 correspondence cases.
   CPager: a sequence of pager-user operations run on the real Pager/IdMap (allocate_page, free_page,
           IdMap::apply_create_node) with what each returned and the final bitmap / next_page_id.
   CTrace: the tagged page events (bitmap bits set/cleared, page writes, tag = calling structure) of a
           database history run through nervusdb::Db, with the verdict of the harness's own monitor. *)
From NDB Require Export Store.Pager Store.IdMap Corr.Common.
Open Scope N_scope.

Inductive case :=
| CPager (ops : list pop) (impl_events : list pev) (impl_next_page : N) (impl_alloc : list N)
| CTrace (start : N) (trace : list wev) (impl_spills : N) (impl_other : option N).

Definition pev_eqb (a b : pev) : bool :=
  match a, b with
  | PvAlloc x, PvAlloc y | PvFree x, PvFree y | PvNode x, PvNode y => x =? y
  | PvErr, PvErr => true
  | _, _ => false
  end.

Fixpoint memN (x : N) (l : list N) : bool := match l with [] => false | y :: t => (x =? y) || memN x t end.
Fixpoint upto (start : N) (n : nat) : list N := match n with O => [] | S k => start :: upto (N.succ start) k end.

Definition ok (c : case) : bool :=
  match c with
  | CPager ops evs np al =>
      let '(mevs, _, s) := prun mstate_new ops in
      list_eqb pev_eqb mevs evs &&
      (m_next_page (pg_meta (ms_pager s)) =? np) &&
      forallb (fun p => Bool.eqb (pg_bm (ms_pager s) p) (memN p al)) (upto 0 (N.to_nat (np + 3)))
  | CTrace start tr n v =>
      let '(mn, mv) := monitor no_owner start 0 tr in
      (mn =? n) && opt_eqb N.eqb mv v
  end.
