(* Corr/C19.v — what a C19 correspondence case is and when it agrees.
   A case carries the graph (dumped through GraphSnapshot), the parameters, a
   predicate AST, the rows the implementation returned for the query without a
   filter, and the implementation's outcomes of the query with WHERE p,
   WHERE NOT p, WHERE p IS NULL, and of the query returning p's value per row.
   The model's eval / filter_where are run on the implementation's base rows. *)
From NDB Require Export Query.Cases.
Open Scope N_scope.

Record case := {
  cg : graph;
  cparams : row;
  cpred : expr;
  cpv : var;                   (* column that holds p's value in the fifth query *)
  cbase : list row;            (* rows of the unfiltered query *)
  i_true : iout;               (* ... WHERE p *)
  i_false : iout;              (* ... WHERE NOT p *)
  i_null : iout;               (* ... WHERE p IS NULL *)
  i_val : iout                 (* ... RETURN vars, p *)
}.

Definition ok (c : case) : bool :=
  let E := mk_env (cg c) (cparams c) None in
  out_same false (collect (filter_where E (cpred c) (cbase c))) (i_true c) &&
  out_same false (collect (filter_where E (e_not (cpred c)) (cbase c))) (i_false c) &&
  out_same false (collect (filter_where E (e_is_null (cpred c)) (cbase c))) (i_null c) &&
  out_same false
    (collect (map (fun r => match eval E r (cpred c) with
                            | Ok v => Ok (r ++ [(cpv c, v)])
                            | Err e => Err e
                            end) (cbase c)))
    (i_val c).
