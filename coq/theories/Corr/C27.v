(* Corr/C27.v — what a C27 correspondence case is and when it agrees.
   A case carries two values, the implementation's encodings of both, the
   implementation's byte-wise comparison of the encodings and the
   implementation's comparison of the values themselves (None = unordered or
   different kinds). *)
From NDB Require Export Base.Bytes Index.OrderedKey Corr.Common.

Record case := {
  va : oval; vb : oval;
  impl_enc_a : bytes; impl_enc_b : bytes;
  impl_enc_cmp : comparison;           (* Vec<u8>::cmp of the two encodings *)
  impl_val_cmp : option comparison;    (* Rust comparison of the values: i64::cmp, f64::partial_cmp, str/[u8]::cmp *)
  impl_key : bytes                     (* encode_index_key(7, a, 9) *)
}.

Definition ok (c : case) : bool :=
  bytes_eqb (enc (va c)) (impl_enc_a c) &&
  bytes_eqb (enc (vb c)) (impl_enc_b c) &&
  cmp_eqb (lex_cmp (enc (va c)) (enc (vb c))) (impl_enc_cmp c) &&
  (* the model's value order is the implementation language's order *)
  (if wf (va c) && wf (vb c)
   then opt_eqb cmp_eqb (val_cmp (va c) (vb c)) (impl_val_cmp c) else true) &&
  bytes_eqb (enc_index_key 7 (va c) 9) (impl_key c).
