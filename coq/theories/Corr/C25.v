(* Corr/C25.v — what a C25 correspondence case is and when model and
   implementation agree on it. *)
From NDB Require Export Base.Bytes Codec.Utf8 Codec.PropValue Codec.WalRecord Codec.WalLog Corr.Common.
Open Scope N_scope.

Definition derr_eqb (a b : derr) : bool :=
  match a, b with
  | EEmpty, EEmpty | EInvalidLength, EInvalidLength | EInvalidUtf8, EInvalidUtf8 | ETooDeep, ETooDeep => true
  | EUnknownType x, EUnknownType y => x =? y
  | _, _ => false
  end.

Definition res_eqb {A} (e : A -> A -> bool) (a b : res A) : bool :=
  match a, b with
  | Ok x, Ok y => e x y
  | Err x, Err y => derr_eqb x y
  | Panic, Panic => true
  | _, _ => false          (* NoFuel never equals an implementation outcome *)
  end.

Fixpoint pv_depth (v : pv) : N :=
  match v with
  | PList l => 1 + fold_right (fun x acc => N.max (pv_depth x) acc) 0 l
  | PMap m => 1 + fold_right (fun kv acc => match kv with (_, x) => N.max (pv_depth x) acc end) 0 m
  | _ => 1
  end.

Inductive case :=
(* value v; the implementation's encode(v); junk appended; the implementation's decode(encode(v) ++ junk) *)
| CEnc (v : pv) (impl_enc junk : bytes) (impl_back : res pv)
(* bytes b; PropertyValue::decode(b) under catch_unwind; bytes the decoder needed (shortest
   decodable prefix) when it succeeded; peak live heap bytes during the call;
   size_of::<PropertyValue>(); nesting depth of the decoded value *)
| CDec (b : bytes) (impl : res pv) (impl_consumed : option N) (impl_peak : N) (elem_size : N)
       (impl_depth : option N)
(* bytes b; core::str::from_utf8(b).is_ok() *)
| CUtf8 (b : bytes) (impl_valid : bool)
(* record r; the bytes Wal::append wrote for it (length, crc32fast checksum, encode_body) *)
| CWalEnc (r : wrec) (impl_frame : bytes)
(* a whole log file; Wal::replay_committed_from_path on it (under catch_unwind) *)
| CWalReplay (file : bytes) (impl : (list tx) + lerr).

Definition lerr_eqb (a b : lerr) : bool :=
  match a, b with
  | LTooLarge, LTooLarge | LProtocol, LProtocol | LPanic, LPanic => true
  | _, _ => false                  (* LNoFuel never equals an implementation outcome *)
  end.
Definition replay_eqb (a b : (list tx) + lerr) : bool :=
  match a, b with
  | inl x, inl y => list_eqb tx_eqb x y
  | inr x, inr y => lerr_eqb x y
  | _, _ => false
  end.

Definition consumed_of (b : bytes) : option N :=
  match dec_top b with Ok (_, c) => Some c | _ => None end.

(* heap bytes the implementation may hold per element the model counts, and
   per input byte (copies of strings/blobs/keys, B-tree nodes of maps) *)
Definition peak_per_elem : N := 700.
Definition peak_per_byte : N := 8.
Definition peak_slack : N := 1024.

Definition ok (c : case) : bool :=
  match c with
  | CEnc v e junk back =>
      wf v && bytes_eqb (encode v) e &&
      res_eqb pv_eqb (decode (e ++ junk)) back &&
      res_eqb pv_eqb (Ok v) back &&
      opt_eqb N.eqb (consumed_of (e ++ junk)) (Some (len e))
  | CDec b impl consumed peak esz vdepth =>
      res_eqb pv_eqb (decode b) impl &&
      opt_eqb N.eqb (consumed_of b) consumed &&
      (* every element the model counts is really held by the implementation ... *)
      (esz * alloc_request b <=? peak) &&
      (* ... and it holds nothing that the model's count does not explain *)
      (peak <=? peak_per_elem * alloc_request b + peak_per_byte * len b + peak_slack) &&
      match impl, vdepth with
      | Ok v, Some d => (depth b =? d) && (pv_depth v =? d)
      | Ok _, None => false
      | _, _ => true
      end
  | CUtf8 b valid => Bool.eqb (utf8_valid b) valid
  | CWalEnc r f => wf_rec r && bytes_eqb (frame r) f
  | CWalReplay file impl => replay_eqb (replay_file file) impl
  end.
