(* Corr/C30.v — correspondence cases of C30: see Engine/Case.v (bulk case). *)
From NDB Require Export Engine.Case.
Definition case := bcase.
Definition ok : case -> bool := bcase_ok.
