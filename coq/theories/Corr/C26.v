(* Corr/C26.v — what a C26 correspondence case is and when it agrees.

   A case is one operation history that the harness ran against the real BTree/Pager
   (through the public API, on a file): a table of keys (written compactly: head bytes,
   fill byte, total length), the operations (keys by table index), the implementation's
   result of every operation, the reference multimap's result of every operation (the
   harness's own Rust reference), and the implementation's final root page id and page
   images (decoded by the harness from the raw pages read back through a re-opened pager).

   `ok` demands:
     - the model's results = the implementation's results, op by op;
     - the model's final root, every page (kind, cells in slot order, right sibling /
       leftmost child, cell_content_begin) = the implementation's pages;
     - the spec's results = the Rust reference's results (spec side of the theorem);
     - the executable known-finding predicates agree with the harness's mirrors;
     - outside the known-finding classes: model results = spec results, the model's full
       scan = the spec's list, the final state satisfies the executable invariant
       BTree/Inv.v wf_state and its in-order contents = the spec's list. *)
From NDB Require Export Base.Bytes BTree.BTree BTree.Spec BTree.Inv Corr.Common.

Definition keyspec := (bytes * N * N)%type.   (* head, fill byte, total length *)
Definition expand (ks : keyspec) : key :=
  let '(h, f, n) := ks in h ++ repeat f (N.to_nat n - length h).

Inductive cop :=
| CIns (ki : N) (v : N)
| CDel (ki : N) (v : N)
| CLook (ki : N)
| CScan (ki : N) (lim : N)
| CReopen.

Inductive cres :=
| XUnit
| XBool (b : bool)
| XErr (code : N)          (* 0 = "index page: no space", 1 = anything else *)
| XPanic
| XOpt (o : option N)
| XList (l : list (N * N)). (* (key index, payload) *)

Inductive cpage :=
| CLeaf (cells : list (N * N)) (rsib : N) (content_begin : N)
| CInt (leftmost : N) (cells : list (N * N)) (content_begin : N)
| CNone.

Record case := {
  keytab : list keyspec;
  cops : list cop;
  impl_res : list cres;
  ref_res : list cres;
  impl_root : N;
  impl_pages : list cpage;
  impl_dup : bool       (* harness: some key was stored twice at the same time *)
}.

Definition tkey (tab : list key) (ki : N) : key := nth (N.to_nat ki) tab [].
Definition to_op (tab : list key) (o : cop) : op :=
  match o with
  | CIns ki v => OInsert (tkey tab ki) v
  | CDel ki v => ODelete (tkey tab ki) v
  | CLook ki => OLookup (tkey tab ki)
  | CScan ki lim => OScan (tkey tab ki) lim
  | CReopen => OReopen
  end.

Fixpoint list_match {A B} (e : A -> B -> bool) (a : list A) (b : list B) : bool :=
  match a, b with
  | [], [] => true
  | x :: a', y :: b' => e x y && list_match e a' b'
  | _, _ => false
  end.

Definition cell_match (tab : list key) (m : cell) (x : N * N) : bool :=
  bytes_eqb (fst m) (tkey tab (fst x)) && (snd m =? snd x).
Definition err_code (e : err) : N := match e with ENoSpace => 0 | _ => 1 end.
Definition res_match (tab : list key) (m : res) (x : cres) : bool :=
  match m, x with
  | RUnit, XUnit => true
  | RBool a, XBool b => Bool.eqb a b
  | RErr e, XErr c => err_code e =? c
  | RPanic, XPanic => true
  | ROpt a, XOpt b => opt_eqb N.eqb a b
  | RList a, XList b => list_match (cell_match tab) a b
  | _, _ => false
  end.
Definition page_match (tab : list key) (m : dpage) (x : cpage) : bool :=
  match m, x with
  | DLeaf c r b, CLeaf c' r' b' => list_match (cell_match tab) c c' && (r =? r') && (b =? b')
  | DInternal l c b, CInt l' c' b' => (l =? l') && list_match (cell_match tab) c c' && (b =? b')
  | DNone, CNone => true
  | _, _ => false
  end.

Definition res_eqb (a b : res) : bool :=
  match a, b with
  | RUnit, RUnit => true
  | RBool x, RBool y => Bool.eqb x y
  | RErr _, RErr _ => true
  | RPanic, RPanic => true
  | ROpt x, ROpt y => opt_eqb N.eqb x y
  | RList x, RList y => list_eqb (fun c d => bytes_eqb (fst c) (fst d) && (snd c =? snd d)) x y
  | _, _ => false
  end.

Definition ok (c : case) : bool :=
  let tab := map expand (keytab c) in
  let ops := map (to_op tab) (cops c) in
  let '(st, rs) := run ops in
  let '(sl, srs) := s_run ops in
  let dupc := has_dup ops in
  list_match (res_match tab) rs (impl_res c) &&
  (st_root st =? impl_root c) &&
  list_match (page_match tab) (dump st) (impl_pages c) &&
  list_match (res_match tab) srs (ref_res c) &&
  Bool.eqb dupc (impl_dup c) &&
  (if dupc || existsb res_failed rs then true
   else list_eqb res_eqb rs srs &&
        (* the invariant of the intended refinement proof, and in-order contents = the multimap *)
        wf_state st &&
        list_eqb (fun a b => bytes_eqb (fst a) (fst b) && (snd a =? snd b)) (contents st) sl &&
        match scan_all st with
        | inl l => list_eqb (fun a b => bytes_eqb (fst a) (fst b) && (snd a =? snd b)) l sl
        | inr _ => false
        end).
