(* Corr/C13.v — a C13 correspondence case agrees when the faithful model M (Txn/Model.v)
   predicts the per-statement statuses and the dump the implementation produced. *)
From NDB Require Export Txn.Case.
Definition case := tcase.
Definition ok : case -> bool := tcase_ok.
