(* Corr/C34.v — correspondence cases of C34.
   KCls: a generated statement (its AST in the model of CApi/Classifier.v) with what the
         implementation did: ndb_query refused it as a write statement? ndb_execute_write refused
         it as a non-write statement?  and the harness's own walk over the REAL parsed AST
         (nervusdb_query::parse): is some clause at any nesting, expressions included, an update?
   KJson: a value returned by the Rust API (prepare/execute_streaming + reify) with the JSON the
         C API returned for the same column of the same row. *)
From NDB Require Export CApi.Classifier CApi.Json Corr.Common.

Inductive case :=
| KCls (q : query) (refused_by_query refused_by_write real_ast_has_update : bool)
| KJson (v : value) (impl : json).

Definition ok (c : case) : bool :=
  match c with
  | KCls q rq rw su => Bool.eqb (cls_q q) rq && Bool.eqb (negb (cls_q q)) rw && Bool.eqb (upd_q q) su
  | KJson v j => json_eqb (to_json v) j
  end.
