(* Corr/C26bs.v — second case kind of C26: the probe sequence of core::slice::binary_search_by
   (the toolchain that builds the harness).  The search only sees comparison results, so a case
   is the list of f(element) (arbitrary, also non-monotone: the B-tree applies the search to
   lists that are not sorted by its comparison) and what the real binary_search_by returned. *)
From NDB Require Export BTree.BTree Corr.Common.

Record case := { bs_cmps : list comparison; bs_found : bool; bs_idx : N }.
Definition ok (c : case) : bool :=
  let (f, i) := bsearch (bs_cmps c) in Bool.eqb f (bs_found c) && (N.of_nat i =? bs_idx c).
