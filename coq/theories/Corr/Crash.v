(* Corr/Crash.v — correspondence cases for the crash protocol model (C01, C02, C08).
   A case is the abstract I/O trace of one real run, the verdict of the harness's own
   (Rust) copy of the monitor, and, for sampled crash points, the transaction ids that
   the real log scanner (Wal::replay_committed) recovers from the materialised image. *)
From NDB Require Export Crash.Protocol Crash.NodeTable Corr.Common.

Record case := {
  c_rtrace : list rstep;                             (* the same run at record granularity *)
  c_trace : list step;
  c_seeded : bool;                                   (* reserved *)
  c_monitor_ok : bool;                               (* harness-side monitor verdict *)
  c_points : list (nat * mode * option (list N));    (* abstract crash index, mode, ids recovered by the implementation *)
  c_ntrace : list nstep;                             (* node-table writes of the same run *)
  c_ntab_ok : bool                                   (* harness-side node-table monitor verdict *)
}.

Definition ids_eqb (a b : list N) : bool := list_eqb N.eqb a b.

Definition point_ok (tr : list step) (p : nat * mode * option (list N)) : bool :=
  match p with
  | (k, m, Some l) => ids_eqb (recovered_ids m (firstn k tr)) l
  | (_, _, None) => false     (* the implementation's scanner failed on an image of a real run *)
  end.

Definition step_eqb (a b : step) : bool :=
  match a, b with
  | STx t None, STx t' None => t =? t'
  | STx t (Some (u, n)), STx t' (Some (u', n')) => (t =? t') && (u =? u') && (n =? n')
  | STorn, STorn | SWSync, SWSync | SP, SP | SPSync, SPSync | SAck, SAck | SBad, SBad => true
  | SRewrite t u n, SRewrite t' u' n' => (t =? t') && (u =? u') && (n =? n')
  | _, _ => false
  end%N.

Definition ok (c : case) : bool :=
  (* the Coq grouping of the record-level trace is the harness's abstract trace *)
  list_eqb step_eqb (abstract (c_rtrace c)) (c_trace c) &&
  Bool.eqb (protocol_ok (c_trace c)) (c_monitor_ok c) &&
  Bool.eqb (ntab_ok (c_ntrace c)) (c_ntab_ok c) &&
  forallb (point_ok (c_trace c)) (c_points c).
