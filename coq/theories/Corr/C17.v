(* Corr/C17.v — what a C17 correspondence case is and when model and
   implementation agree on it.  A case is a log file `base ++ tail` (base written
   by the real engine) together with what the implementation did with it. *)
From NDB Require Export Base.Bytes Codec.Crc32 Codec.PropValue Codec.WalRecord Codec.WalLog Corr.Common.
Open Scope N_scope.

Definition lerr_eqb (a b : lerr) : bool :=
  match a, b with
  | LTooLarge, LTooLarge | LProtocol, LProtocol | LPanic, LPanic => true
  | _, _ => false                  (* LNoFuel never equals an implementation outcome *)
  end.
Definition replay_eqb (a b : (list tx) + lerr) : bool :=
  match a, b with
  | inl x, inl y => list_eqb tx_eqb x y
  | inr x, inr y => lerr_eqb x y
  | _, _ => false
  end.

Record case := {
  base : bytes;                         (* log written by the engine: complete committed transactions *)
  tail : bytes;                         (* what follows it in the file *)
  impl_replay : (list tx) + lerr;       (* Wal::replay_committed_from_path(base ++ tail) *)
  impl_open_ok : bool;                  (* GraphEngine::open succeeded *)
  impl_after_open_len : N;              (* length of the log file after open (the harness checks it is a prefix) *)
  impl_suffix : bytes;                  (* bytes the following commit appended to that *)
  impl_replay_after : (list tx) + lerr  (* replay_committed of the file after the commit *)
}.

Definition ok (c : case) : bool :=
  let file := base c ++ tail c in
  replay_eqb (replay_file file) (impl_replay c) &&
  match open_log file with
  | inr _ => negb (impl_open_ok c)
  | inl (f1, txs) =>
      impl_open_ok c &&
      (len f1 =? impl_after_open_len c) &&
      replay_eqb (inl txs) (impl_replay c) &&
      (* the commit appended whole frames behind what open left; the model reads them back *)
      replay_eqb (replay_file (f1 ++ impl_suffix c)) (impl_replay_after c) &&
      (* spec side: the base is a valid log, the tail is a tail, and the recovered transactions are the base's *)
      match scan_file (base c) with
      | inl (_, off) => off =? len (base c)
      | inr _ => false
      end
  end.
