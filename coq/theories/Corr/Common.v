(* Corr/Common.v — helpers for correspondence case files written by the harness. *)
From Coq Require Export List NArith ZArith Bool.
Export ListNotations.

(* indices (from 0) of the cases on which `ok` is false *)
Fixpoint failing_from {A} (ok : A -> bool) (i : N) (l : list A) : list N :=
  match l with
  | [] => []
  | c :: t => if ok c then failing_from ok (N.succ i) t else i :: failing_from ok (N.succ i) t
  end.
Definition failing {A} (ok : A -> bool) (l : list A) : list N := failing_from ok 0%N l.

Definition opt_eqb {A} (e : A -> A -> bool) (a b : option A) : bool :=
  match a, b with Some x, Some y => e x y | None, None => true | _, _ => false end.

Fixpoint list_eqb {A} (e : A -> A -> bool) (a b : list A) : bool :=
  match a, b with
  | [], [] => true
  | x :: a', y :: b' => e x y && list_eqb e a' b'
  | _, _ => false
  end.
