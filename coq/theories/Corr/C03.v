(* Corr/C03.v — a C03 correspondence case: a writer history (commits, compactions) and readers
   (snapshot + k reads each) driven through the schedule points of the real engine in an explicit
   schedule.  Compared: every view every reader observed (nodes in id order, label presence, the
   property of every node, all relationships - sorted on both sides) with the model's observations
   for the same schedule, torn and in-place effects included; and, for every read that the Coq classifier
   below puts outside K-C03-torn and K-C03-inplace, the observed view with the committed state itself. *)
From NDB Require Export Conc.Sched Conc.Snapshot Corr.Common.

Record case := {
  hist : list wop;
  readers : list nat;
  sched : list nat;
  impl_obs : list (nat * view)
}.

Definition edge_leb (a b : edge) : bool :=
  Nat.ltb (fst a) (fst b) || (Nat.eqb (fst a) (fst b) && Nat.leb (snd a) (snd b)).
Fixpoint insert_edge (e : edge) (l : list edge) : list edge :=
  match l with [] => [e] | x :: r => if edge_leb e x then e :: l else x :: insert_edge e r end.
Definition sort_edges (l : list edge) : list edge := fold_right insert_edge [] l.
Definition norm (v : view) : view :=
  {| v_nodes := v_nodes v; v_labeled := v_labeled v; v_props := v_props v; v_edges := sort_edges (v_edges v) |}.

Definition obs_eqb (a b : nat * view) : bool := Nat.eqb (fst a) (fst b) && view_eqb (norm (snd a)) (norm (snd b)).

(* ---- classifier of the conditional theorems' hypotheses, decided inside Coq per schedule ----
   The walk mirrors the program counters of `srun`: thread 0 executes the steps of the history's
   operations in order, reader r its 7 acquisition steps and then its reads.
   A read of reader r is SAFE when (a) no writer step was in flight at r's first acquisition step and
   no writer step ran before r finished copying the fields (quiescent acquisition: outside K-C03-torn),
   and (b) the property root was unset at acquisition or no compaction sink step ran between the end
   of the acquisition and the read (outside K-C03-inplace).  For a safe read the observed view must be
   exactly the committed state after the operations completed when the acquisition started. *)
Record rinfo := {
  ri_steps : nat;            (* steps executed by the reader (7 acquisition steps, then reads) *)
  ri_reads : nat;            (* reads it performs in total *)
  ri_j : nat;                (* writer operations completed when the acquisition started *)
  ri_w0 : nat;               (* writer steps executed when the acquisition started *)
  ri_quiescent : bool;
  ri_root : bool;            (* property root set when it was copied *)
  ri_sinks : nat             (* sink steps executed when the acquisition ended *)
}.

Record cstate := {
  c_ops : list bool;         (* remaining writer operations: true = compaction *)
  c_pos : nat;               (* steps of the current operation already executed *)
  c_done : nat;              (* operations completed *)
  c_wsteps : nat;
  c_sinks : nat;
  c_root : bool;
  c_readers : list rinfo;
  c_flags : list (nat * option nat)   (* per executed read, in order: reader, Some j if the read is safe *)
}.

Definition oplen (compact : bool) : nat := if compact then 7 else 4.

Fixpoint upd_nth {A} (n : nat) (f : A -> A) (l : list A) : list A :=
  match l, n with
  | [], _ => []
  | x :: r, 0 => f x :: r
  | x :: r, S n' => x :: upd_nth n' f r
  end.

Definition cstep (c : cstate) (t : nat) : cstate :=
  match t with
  | 0 =>
      match c_ops c with
      | [] => c
      | k :: rest =>
          let pos' := S (c_pos c) in
          let sinks' := if k && Nat.eqb pos' 2 then S (c_sinks c) else c_sinks c in
          let root' := c_root c || (k && Nat.eqb pos' 4) in
          if Nat.eqb pos' (oplen k)
          then {| c_ops := rest; c_pos := 0; c_done := S (c_done c); c_wsteps := S (c_wsteps c); c_sinks := sinks'; c_root := root';
                  c_readers := c_readers c; c_flags := c_flags c |}
          else {| c_ops := c_ops c; c_pos := pos'; c_done := c_done c; c_wsteps := S (c_wsteps c); c_sinks := sinks'; c_root := root';
                  c_readers := c_readers c; c_flags := c_flags c |}
      end
  | S r' =>
      match nth_error (c_readers c) r' with
      | None => c
      | Some ri =>
          let k := ri_steps ri in
          if Nat.ltb k 7 then
            let ri1 := if Nat.eqb k 0
                       then {| ri_steps := 1; ri_reads := ri_reads ri; ri_j := c_done c; ri_w0 := c_wsteps c;
                               ri_quiescent := Nat.eqb (c_pos c) 0; ri_root := ri_root ri; ri_sinks := ri_sinks ri |}
                       else {| ri_steps := S k; ri_reads := ri_reads ri; ri_j := ri_j ri; ri_w0 := ri_w0 ri;
                               ri_quiescent := ri_quiescent ri; ri_root := ri_root ri; ri_sinks := ri_sinks ri |} in
            (* the window closes with the sixth step (RRoot) *)
            let ri2 := if Nat.eqb k 5
                       then {| ri_steps := ri_steps ri1; ri_reads := ri_reads ri1; ri_j := ri_j ri1; ri_w0 := ri_w0 ri1;
                               ri_quiescent := ri_quiescent ri1 && Nat.eqb (c_wsteps c) (ri_w0 ri1); ri_root := c_root c; ri_sinks := c_sinks c |}
                       else ri1 in
            {| c_ops := c_ops c; c_pos := c_pos c; c_done := c_done c; c_wsteps := c_wsteps c; c_sinks := c_sinks c; c_root := c_root c;
               c_readers := upd_nth r' (fun _ => ri2) (c_readers c); c_flags := c_flags c |}
          else if Nat.ltb k (7 + ri_reads ri) then
            let safe := ri_quiescent ri && (negb (ri_root ri) || Nat.eqb (c_sinks c) (ri_sinks ri)) in
            {| c_ops := c_ops c; c_pos := c_pos c; c_done := c_done c; c_wsteps := c_wsteps c; c_sinks := c_sinks c; c_root := c_root c;
               c_readers := upd_nth r' (fun x => {| ri_steps := S k; ri_reads := ri_reads x; ri_j := ri_j x; ri_w0 := ri_w0 x;
                                                   ri_quiescent := ri_quiescent x; ri_root := ri_root x; ri_sinks := ri_sinks x |}) (c_readers c);
               c_flags := c_flags c ++ [(t, if safe then Some (ri_j ri) else None)] |}
          else c
      end
  end.

Definition classify (h : list wop) (readers : list nat) (sched : list nat) : list (nat * option nat) :=
  c_flags (fold_left cstep sched
    {| c_ops := map (fun o => match o with WCompact => true | WCommit _ => false end) h; c_pos := 0; c_done := 0; c_wsteps := 0;
       c_sinks := 0; c_root := false;
       c_readers := map (fun k => {| ri_steps := 0; ri_reads := k; ri_j := 0; ri_w0 := 0; ri_quiescent := false; ri_root := false; ri_sinks := 0 |}) readers;
       c_flags := [] |}).

(* every read classified safe shows exactly the committed state after the j operations *)
Fixpoint safe_reads_ok (h : list wop) (flags : list (nat * option nat)) (obs : list (nat * view)) : bool :=
  match flags, obs with
  | [], [] => true
  | (t, f) :: fr, (t', v) :: or_ =>
      Nat.eqb t t' &&
      match f with
      | Some j => view_eqb (norm v) (norm (view_of_spec (spec_of (firstn j h))))
      | None => true
      end && safe_reads_ok h fr or_
  | _, _ => false
  end.

Definition safe_count (flags : list (nat * option nat)) : nat :=
  length (filter (fun p => match snd p with Some _ => true | None => false end) flags).

Definition ok (c : case) : bool :=
  list_eqb obs_eqb (s_obs (Sched.shared (srun (sched c) (sinit (hist c) (readers c))))) (impl_obs c) &&
  (* the implementation's observations of reads that the classifier puts outside both known classes
     are exactly the committed state (hypotheses of the conditional theorems decided here, in Coq) *)
  safe_reads_ok (hist c) (classify (hist c) (readers c) (sched c)) (impl_obs c).
