(* Corr/C03.v — a C03 correspondence case: a writer history (commits, compactions) and readers (snapshot + k reads
   each) driven through the schedule points of the real engine in an explicit schedule of the model's steps (one
   schedule entry = one model step; a publication section or an acquisition is driven through all its points in
   one go, it is atomic under the publication lock).  Compared: every view every reader observed (nodes in id
   order, label presence, the property of every node, all relationships - sorted on both sides) with the model's
   observation for the same schedule, in-place effects included.  The model itself marks every observation as
   safe / unsafe (ghost) and Props/C03.v proves the safe ones equal to the committed state. *)
From NDB Require Export Conc.Sched Conc.Snapshot Corr.Common.

Record case := {
  hist : list wop;
  readers : list nat;
  sched : list nat;
  impl_obs : list (nat * view);
  impl_safe : list bool      (* the driver's own classification of every read (mirror of the model's o_safe) *)
}.

Definition edge_leb (a b : edge) : bool :=
  Nat.ltb (fst a) (fst b) || (Nat.eqb (fst a) (fst b) && Nat.leb (snd a) (snd b)).
Fixpoint insert_edge (e : edge) (l : list edge) : list edge :=
  match l with [] => [e] | x :: r => if edge_leb e x then e :: l else x :: insert_edge e r end.
Definition sort_edges (l : list edge) : list edge := fold_right insert_edge [] l.
Definition norm (v : view) : view :=
  {| v_nodes := v_nodes v; v_labeled := v_labeled v; v_props := v_props v; v_edges := sort_edges (v_edges v) |}.

Definition obs_eqb (a b : nat * view) : bool := Nat.eqb (fst a) (fst b) && view_eqb (norm (snd a)) (norm (snd b)).

Fixpoint safe_obs_ok (m : list obs) (i : list (nat * view)) : bool :=
  match m, i with
  | [], [] => true
  | o :: m', x :: i' =>
      implb (o_safe o) (view_eqb (norm (snd x)) (norm (view_of_spec (spec_of (o_hist o))))) && safe_obs_ok m' i'
  | _, _ => false
  end.

Definition ok (c : case) : bool :=
  let mobs := s_obs (Sched.shared (srun (sched c) (sinit (hist c) (readers c)))) in
  list_eqb obs_eqb (map (fun o => (o_t o, o_view o)) mobs) (impl_obs c) &&
  list_eqb Bool.eqb (map o_safe mobs) (impl_safe c) &&
  (* the safe observations of the IMPLEMENTATION are the committed state (what the theorem says of the model) *)
  safe_obs_ok mobs (impl_obs c).
