(* Corr/C03.v — a C03 correspondence case: a writer history (commits, compactions) and readers
   (snapshot + k reads each) driven through the schedule points of the real engine in an explicit
   schedule.  Compared: every view every reader observed (nodes in id order, label presence, the
   property of every node, all relationships - sorted on both sides) with the model's observations
   for the same schedule, torn and in-place effects included. *)
From NDB Require Export Conc.Sched Conc.Snapshot Corr.Common.

Record case := {
  hist : list wop;
  readers : list nat;
  sched : list nat;
  impl_obs : list (nat * view)
}.

Definition edge_leb (a b : edge) : bool :=
  Nat.ltb (fst a) (fst b) || (Nat.eqb (fst a) (fst b) && Nat.leb (snd a) (snd b)).
Fixpoint insert_edge (e : edge) (l : list edge) : list edge :=
  match l with [] => [e] | x :: r => if edge_leb e x then e :: l else x :: insert_edge e r end.
Definition sort_edges (l : list edge) : list edge := fold_right insert_edge [] l.
Definition norm (v : view) : view :=
  {| v_nodes := v_nodes v; v_labeled := v_labeled v; v_props := v_props v; v_edges := sort_edges (v_edges v) |}.

Definition obs_eqb (a b : nat * view) : bool := Nat.eqb (fst a) (fst b) && view_eqb (norm (snd a)) (norm (snd b)).

Definition ok (c : case) : bool :=
  list_eqb obs_eqb (s_obs (Sched.shared (srun (sched c) (sinit (hist c) (readers c))))) (impl_obs c).
