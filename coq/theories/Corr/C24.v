(* Corr/C24.v — a C24 correspondence case: the same record as C13's; every generated sequence
   appears twice, once inside an explicit transaction (model: M_txn) and once statement by
   statement in auto-commit mode (model: fold of M_autocommit, which theorem
   C24_spec_is_sequential shows to be the spec S_txn). *)
From NDB Require Export Txn.Case.
Definition case := tcase.
Definition ok : case -> bool := tcase_ok.
