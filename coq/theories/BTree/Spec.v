(* BTree/Spec.v — SPEC `S` of C26: a sorted multimap as a list of (key, payload), sorted by
   key (Rust's order on byte strings), newest first among equal keys.  Executable. *)
From NDB Require Export BTree.BTree.

Definition smap := list cell.

(* put (k,v) in front of the first entry whose key is >= k *)
Fixpoint s_insert (k : key) (v : N) (l : smap) : smap :=
  match l with
  | [] => [(k, v)]
  | c :: t =>
      match lex_cmp (fst c) k with
      | Lt => c :: s_insert k v t
      | _ => (k, v) :: l
      end
  end.

Definition cell_eqb (c : cell) (k : key) (v : N) : bool := bytes_eqb (fst c) k && (snd c =? v).

(* remove the first stored pair equal to (k,v): exactly one pair, or none *)
Fixpoint s_delete (k : key) (v : N) (l : smap) : bool * smap :=
  match l with
  | [] => (false, [])
  | c :: t =>
      if cell_eqb c k v then (true, t)
      else let (b, t') := s_delete k v t in (b, c :: t')
  end.

(* entries with key >= k *)
Fixpoint s_from (k : key) (l : smap) : smap :=
  match l with
  | [] => []
  | c :: t => match lex_cmp (fst c) k with Lt => s_from k t | _ => l end
  end.

(* the most recently inserted entry of k *)
Definition s_lookup (k : key) (l : smap) : option N :=
  match s_from k l with
  | c :: _ => if bytes_eqb (fst c) k then Some (snd c) else None
  | [] => None
  end.

Definition s_step (l : smap) (o : op) : smap * res :=
  match o with
  | OInsert k v => (s_insert k v l, RUnit)
  | ODelete k v => let (b, l') := s_delete k v l in (l', RBool b)
  | OLookup k => (l, ROpt (s_lookup k l))
  | OScan k lim => (l, RList (firstn (N.to_nat lim) (s_from k l)))
  | OReopen => (l, RUnit)
  end.

Fixpoint s_run_from (l : smap) (ops : list op) : smap * list res :=
  match ops with
  | [] => (l, [])
  | o :: t =>
      let (l1, r) := s_step l o in
      let (l2, rs) := s_run_from l1 t in
      (l2, r :: rs)
  end.
Definition s_run (ops : list op) : smap * list res := s_run_from [] ops.

(* ---------- the class of histories in which the pinned code is known to fail ---------- *)
Definition has_key (k : key) (l : smap) : bool := existsb (fun c => bytes_eqb (fst c) k) l.

(* K-C26-dups: at some point an insert adds a key that is already stored *)
Fixpoint dup_from (l : smap) (ops : list op) : bool :=
  match ops with
  | [] => false
  | o :: t =>
      match o with
      | OInsert k _ => has_key k l || dup_from (fst (s_step l o)) t
      | _ => dup_from (fst (s_step l o)) t
      end
  end.
Definition has_dup (ops : list op) : bool := dup_from [] ops.

(* K-C26-splitfit: some insert did not succeed (a split half does not fit its page) *)
Definition res_failed (r : res) : bool := match r with RErr _ | RPanic => true | _ => false end.
Definition has_failed_op (ops : list op) : bool := existsb res_failed (snd (run ops)).

Definition known_class (ops : list op) : bool := has_dup ops || has_failed_op ops.

(* full-tree scan as the callers do it *)
Definition scan_all (st : state) : list cell + err := scan_from st [].
