(* BTree/Inv.v — the invariant of the intended refinement proof, as an EXECUTABLE predicate on model
   states (model file: definitions only).  wf_state st holds iff, walking the tree from the root:
     - every leaf is strictly sorted by key and its keys lie in [lo, hi) given by the separators above it;
     - every internal page has strictly sorted separators inside its own [lo, hi);
     - the byte accounting of every page is consistent (header + slots + cell bytes + dead bytes <= PAGE_SIZE);
     - the leaves in in-order are linked by their right-sibling pointers, the last one points to 0;
     - no page is visited twice.
   It is evaluated by the correspondence on the final state of every generated history outside the known
   classes (together with: in-order contents = the spec's list).  It is NOT yet proved to be preserved by
   insert/delete beyond one leaf — that is the open part of C26_full_statement. *)
From NDB Require Export BTree.BTree BTree.Spec.

Definition key_ge (lo : option key) (k : key) : bool :=
  match lo with None => true | Some l => match lex_cmp l k with Gt => false | _ => true end end.
Definition key_lt (hi : option key) (k : key) : bool :=
  match hi with None => true | Some h => match lex_cmp k h with Lt => true | _ => false end end.
Fixpoint sorted_strictb (l : list cell) : bool :=
  match l with
  | [] => true
  | c :: t => match t with
              | [] => true
              | d :: _ => (match lex_cmp (fst c) (fst d) with Lt => true | _ => false end) && sorted_strictb t
              end
  end.
Definition in_bounds (lo hi : option key) (l : list cell) : bool :=
  forallb (fun c : cell => key_ge lo (fst c) && key_lt hi (fst c)) l.

Definition leaf_bytes_ok (c : list cell) (dead : N) : bool :=
  bt_leaf_header + bt_slot_size * count c + sum_len leaf_cell_len c + dead <=? bt_page_size.
Definition int_bytes_ok (c : list cell) : bool :=
  bt_internal_header + bt_slot_size * count c + sum_len int_cell_len c <=? bt_page_size.

(* in-order list of (page id, cells, right sibling) of the leaves, plus the ids of the internal pages *)
Definition walk_res := option (list (N * list cell * N) * list N).
(* children of an internal page: `child` covers [lo', first separator of cs), the rest follow *)
Fixpoint kids_walk (W : N -> option key -> option key -> walk_res) (hi : option key)
                   (child : N) (lo' : option key) (cs : list cell) : walk_res :=
  match cs with
  | [] => W child lo' hi
  | (sep, next_child) :: t =>
      match W child lo' (Some sep), kids_walk W hi next_child (Some sep) t with
      | Some (a, ia), Some (b, ib) => Some (a ++ b, ia ++ ib)
      | _, _ => None
      end
  end.
Fixpoint walk (fuel : nat) (h : heap) (p : N) (lo hi : option key) : walk_res :=
  match fuel with
  | O => None
  | S f =>
      match hget h p with
      | Some (Leaf c r d) =>
          if sorted_strictb c && in_bounds lo hi c && leaf_bytes_ok c d then Some ([(p, c, r)], []) else None
      | Some (Internal lm cells) =>
          if sorted_strictb cells && in_bounds lo hi cells && int_bytes_ok cells then
            match kids_walk (walk f h) hi lm lo cells with
            | Some (ls, is) => Some (ls, p :: is)
            | None => None
            end
          else None
      | None => None
      end
  end.

Fixpoint chain_ok (ls : list (N * list cell * N)) : bool :=
  match ls with
  | [] => true
  | (_, _, r) :: t =>
      match t with
      | [] => r =? 0
      | (q, _, _) :: _ => (r =? q) && negb (q =? 0) && chain_ok t
      end
  end.
Fixpoint nodupb (l : list N) : bool :=
  match l with [] => true | x :: t => negb (existsb (N.eqb x) t) && nodupb t end.

Definition wf_state (st : state) : bool :=
  match walk depth_fuel (st_heap st) (st_root st) None None with
  | Some (ls, is) =>
      chain_ok ls && nodupb (map (fun x => fst (fst x)) ls ++ is) &&
      forallb (fun q => q <? st_next st) (map (fun x => fst (fst x)) ls ++ is)
  | None => false
  end.
Definition contents (st : state) : list cell :=
  match walk depth_fuel (st_heap st) (st_root st) None None with
  | Some (ls, _) => concat (map (fun x => snd (fst x)) ls)
  | None => []
  end.
