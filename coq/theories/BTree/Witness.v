(* BTree/Witness.v — refutation witnesses of C26, evaluated in the faithful model with the real
   constants (PAGE_SIZE 8192).  The same histories are corpus cases 0-3 of the harness. *)
From NDB Require Import Base.Bytes BTree.BTree BTree.Spec.

Definition k900 (h : bytes) : key := h ++ repeat 107 (900 - length h).

(* 0: three equal keys in one leaf; the oldest pair cannot be deleted *)
Definition w_delete : list op := [OInsert [107] 1; OInsert [107] 2; OInsert [107] 3].
Lemma refuted_delete :
  exists ops k v, In (k, v) (fst (s_run ops)) /\ snd (delete (fst (run ops)) k v) = RBool false.
Proof.
  exists w_delete, [107], 1. split.
  - vm_compute. right; right; left; reflexivity.
  - vm_compute. reflexivity.
Qed.

(* 1: nine inserts of one 900-byte key *)
Definition w_lookup : list op := map (fun i => OInsert (k900 [97]) (N.of_nat i)) (seq 1 9).
Lemma refuted_lookup :
  exists ops k,
    lookup (fst (run ops)) k = inl (Some 4) /\ s_lookup k (fst (s_run ops)) = Some 9 /\
    (exists l, scan_from (fst (run ops)) k = inl l /\ length l = 5%nat /\ length (s_from k (fst (s_run ops))) = 9%nat).
Proof.
  exists w_lookup, (k900 [97]).
  split; [vm_compute; reflexivity|].
  split; [vm_compute; reflexivity|].
  destruct (scan_from (fst (run w_lookup)) (k900 [97])) as [l|e] eqn:E.
  - exists l. split; [reflexivity|].
    assert (H : match scan_from (fst (run w_lookup)) (k900 [97]) with inl l => length l | inr _ => O end = 5%nat)
      by (vm_compute; reflexivity).
    rewrite E in H. split; [exact H|]. vm_compute; reflexivity.
  - exfalso.
    assert (H : match scan_from (fst (run w_lookup)) (k900 [97]) with inl _ => true | inr _ => false end = true)
      by (vm_compute; reflexivity).
    rewrite E in H. discriminate H.
Qed.

(* 2: 30 distinct 900-byte keys in order; the four keys of the second leaf deleted *)
Definition kk (i : nat) : key := k900 [0; N.of_nat i].
Definition w_scan : list op :=
  map (fun i => OInsert (kk i) (N.of_nat i)) (seq 0 30) ++ map (fun i => ODelete (kk i) (N.of_nat i)) (seq 4 4).
(* regression (fixed in /repo ff9d0a3: BTreeCursor::advance skips empty leaves): the full scan passes
   the emptied second leaf and returns all 26 stored entries, as the multimap does *)
Lemma fixed_scan_emptyleaf :
  has_dup w_scan = false /\ scan_all (fst (run w_scan)) = inl (fst (s_run w_scan)) /\ length (fst (s_run w_scan)) = 26%nat.
Proof. vm_compute. repeat split; reflexivity. Qed.

(* 3: eight 2-byte keys, eight 900-byte keys, a ninth 900-byte key (was K-C26-splitfit: the insert panicked) *)
Definition w_insert : list op :=
  map (fun i => OInsert [97; N.of_nat i] (N.of_nat i)) (seq 0 8) ++
  map (fun i => OInsert (k900 [122; N.of_nat i]) (N.of_nat i)) (seq 0 9).
(* regression (fixed in /repo 0fc5a58: the split point is chosen so that both halves fit a page): all 17
   inserts succeed and the full scan is the multimap (the median split by count left 9 x 912 bytes) *)
Lemma fixed_insert_splitfit :
  has_dup w_insert = false /\ has_failed_op w_insert = false /\
  snd (run w_insert) = snd (s_run w_insert) /\
  scan_all (fst (run w_insert)) = inl (fst (s_run w_insert)) /\ length (fst (s_run w_insert)) = 17%nat.
Proof. vm_compute. repeat split; reflexivity. Qed.
