(* BTree/Delete_proofs.v — PROOFS: for EVERY state of the page heap (any shape, equal keys or not):
   a delete that reports true removed exactly one cell, that cell was the pair (k, v), and no other
   page changed; a delete that reports false changed nothing. *)
From Coq Require Import Lia ZifyBool ZifyN ZifyNat.
From NDB Require Import Base.Bytes Base.Bytes_proofs BTree.BTree BTree.Spec BTree.Leaf_proofs.
Ltac Zify.zify_post_hook ::= Z.div_mod_to_equations.

Lemma bs_loop_range l : forall fuel base size, (1 <= size)%nat ->
  (base <= bs_loop fuel l base size < base + size)%nat.
Proof.
  induction fuel as [|f IH]; intros base size H1; cbn [bs_loop]; [lia|].
  destruct (Nat.ltb 1 size) eqn:E; [|lia]. apply Nat.ltb_lt in E.
  set (half := Nat.div size 2).
  assert (Hh : (1 <= half /\ half + half <= size)%nat) by (subst half; lia).
  destruct (nth (base + half) l Eq).
  - specialize (IH (base + half)%nat (size - half)%nat). lia.
  - specialize (IH (base + half)%nat (size - half)%nat). lia.
  - specialize (IH base (size - half)%nat). lia.
Qed.

(* Ok(i) of the binary search: i is in range and the comparison at i is Equal *)
Lemma bsearch_found l i : bsearch l = (true, i) -> (i < length l)%nat /\ nth i l Eq = Eq.
Proof.
  unfold bsearch. destruct l as [|x t] eqn:El; [discriminate|]. rewrite <- El.
  assert (Hlen : (1 <= length l)%nat) by (rewrite El; cbn; lia).
  pose proof (bs_loop_range l (length l) O (length l) Hlen) as Hr.
  destruct (nth (bs_loop (length l) l 0 (length l)) l Eq) eqn:E; intro H; inversion H; subst.
  split; [lia | exact E].
Qed.

Lemma cell_cmp_eq c k v : cell_cmp c k v = Eq -> c = (k, v).
Proof.
  intro H. apply cell_cmp_eq_iff in H. unfold cell_eqb in H. apply andb_prop in H. destruct H as [H1 H2].
  apply bytes_eqb_eq in H1. apply N.eqb_eq in H2. destruct c as [k' v']. cbn [fst snd] in *. congruence.
Qed.

Theorem delete_exact st k v :
  match delete st k v with
  | (st', RBool true) =>
      exists p cells r d i,
        hget (st_heap st) p = Some (Leaf cells r d) /\ nth_error cells i = Some (k, v) /\
        st' = {| st_heap := hset (st_heap st) p (Leaf (remove_at i cells) r (d + leaf_cell_len k));
                 st_next := st_next st; st_root := st_root st |}
  | (st', _) => st' = st
  end.
Proof.
  unfold delete.
  destruct (find_leaf depth_fuel (st_heap st) (st_root st) k) as [[[[[p cells] r] d]|]|e] eqn:F; try reflexivity.
  destruct (bsearch (map (fun c : cell => cell_cmp c k v) cells)) as [[|] idx] eqn:B; [|reflexivity].
  apply bsearch_found in B. destruct B as [Hi He]. rewrite map_length in Hi.
  assert (Hn : nth_error cells idx = Some (k, v)).
  { destruct (nth_error cells idx) as [c|] eqn:En; [|apply nth_error_None in En; lia].
    f_equal. apply cell_cmp_eq.
    rewrite (nth_indep _ Eq (cell_cmp c k v)) in He by (rewrite map_length; exact Hi).
    rewrite (map_nth (fun c : cell => cell_cmp c k v)) in He.
    rewrite (nth_error_nth _ _ _ En) in He. exact He. }
  assert (Hnth : nth idx cells ([], 0) = (k, v)) by (apply nth_error_nth; exact Hn).
  (* the leaf that find_leaf returned is in the heap *)
  assert (Hg : hget (st_heap st) p = Some (Leaf cells r d)).
  { clear -F. revert F. generalize (st_root st) as q. unfold depth_fuel. generalize 64%nat as fuel.
    induction fuel as [|f IH]; intros q F; cbn [find_leaf] in F; [discriminate|].
    destruct (hget (st_heap st) q) as [[c' r' d'|lm c']|] eqn:G; [|apply IH in F; exact F|discriminate].
    inversion F; subst. exact G. }
  exists p, cells, r, d, idx. split; [exact Hg|]. split; [exact Hn|].
  unfold cell, key, bytes in *. rewrite Hnth. reflexivity.
Qed.
