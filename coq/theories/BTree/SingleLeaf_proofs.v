(* BTree/SingleLeaf_proofs.v — PROOFS: the refinement M = S for every history in which no key is
   ever stored twice and no page is ever allocated (the tree stays one leaf: no split happens).
   Also: the pager's next page id never decreases. *)
From Coq Require Import Lia ZifyBool ZifyN ZifyNat.
From NDB Require Import Base.Bytes Base.Bytes_proofs BTree.BTree BTree.Spec BTree.Leaf_proofs.

(* ---------- next page id is monotone ---------- *)
Definition ins_next (r : ins_res) : N :=
  match r with IDone _ n | ISplit _ n _ _ | IErr _ n _ => n end.

Lemma alloc_next n p n' : alloc n = Some (p, n') -> p = n /\ n' = n + 1.
Proof. unfold alloc. destruct (n <? bt_max_pages); [|discriminate]. intro H. inversion H. split; reflexivity. Qed.

Lemma ins_leaf_mono h n p cells r d k v : n <= ins_next (ins_leaf h n p cells r d k v).
Proof.
  unfold ins_leaf. destruct (leaf_can_insert cells d k); [cbn; lia|].
  destruct (leaf_split_point (leaf_entries cells k v)) as [mid|]; [|cbn; lia].
  destruct (alloc n) as [[rid n']|] eqn:E; [|cbn; lia].
  apply alloc_next in E. destruct E as [_ ->]. cbn; lia.
Qed.
Lemma ins_parent_mono h n p pos sep rid : n <= ins_next (ins_parent h n p pos sep rid).
Proof.
  unfold ins_parent. destruct (hget h p) as [[cells r d|lm cells]|]; try (cbn; lia).
  destruct (int_can_insert cells sep); [cbn; lia|].
  destruct (int_split_point (insert_at pos (sep, rid) cells)) as [mid|]; [|cbn; lia].
  destruct (alloc n) as [[rp n']|] eqn:E; [|cbn; lia].
  apply alloc_next in E. destruct E as [_ ->]. cbn; lia.
Qed.
Lemma ins_mono fuel : forall h n p k v, n <= ins_next (ins fuel h n p k v).
Proof.
  induction fuel as [|f IH]; intros h n p k v; cbn [ins]; [cbn; lia|].
  destruct (hget h p) as [[cells r d|lm cells]|]; [apply ins_leaf_mono| |cbn; lia].
  destruct (child_for_key lm cells k) as [child pos].
  pose proof (IH h n child k v) as H.
  destruct (ins f h n child k v) as [h' n'|h' n' sep rid|h' n' e]; cbn [ins_next] in *; try exact H.
  pose proof (ins_parent_mono h' n' p pos sep rid). lia.
Qed.
Lemma insert_mono st k v : st_next st <= st_next (fst (insert st k v)).
Proof.
  unfold insert. pose proof (ins_mono depth_fuel (st_heap st) (st_next st) (st_root st) k v) as H.
  destruct (ins depth_fuel (st_heap st) (st_next st) (st_root st) k v) as [h' n'|h' n' sep rid|h' n' e];
    cbn [ins_next] in H; cbn [fst st_next]; try exact H.
  destruct (alloc n') as [[nr n'']|] eqn:E; [|cbn [fst st_next]; exact H].
  apply alloc_next in E. destruct E as [_ ->].
  destruct (int_can_insert [] sep); cbn [fst st_next]; lia.
Qed.
Lemma delete_next st k v : st_next (fst (delete st k v)) = st_next st.
Proof.
  unfold delete. destruct (find_leaf depth_fuel (st_heap st) (st_root st) k) as [[[[[p cells] r] d]|]|e]; try reflexivity.
  destruct (bsearch _) as [[|] idx]; reflexivity.
Qed.
Lemma step_mono st o : st_next st <= st_next (fst (step st o)).
Proof.
  destruct o; cbn [step fst]; try lia.
  - apply insert_mono.
  - rewrite delete_next. lia.
Qed.
Lemma run_from_mono ops : forall st, st_next st <= st_next (fst (run_from st ops)).
Proof.
  induction ops as [|o t IH]; intro st; cbn [run_from fst]; [lia|].
  pose proof (step_mono st o) as H1. destruct (step st o) as [st1 r]. cbn [fst] in H1.
  pose proof (IH st1) as H2. destruct (run_from st1 t) as [st2 rs]. cbn [fst] in *. lia.
Qed.

(* ---------- the one-leaf invariant ---------- *)
Definition SL (st : state) (l : list cell) : Prop :=
  st_root st = bt_first_data_page /\ st_next st = bt_first_data_page + 1 /\
  (exists dead, hget (st_heap st) (st_root st) = Some (Leaf l 0 dead)) /\ ssorted l.

Lemma SL_create : SL create [].
Proof. unfold SL, create. cbn. repeat split; auto. exists 0. reflexivity. Qed.

Lemma hget_hset_same h p v : hget (hset h p v) p = Some v.
Proof. unfold hset. cbn [hget]. rewrite N.eqb_refl. reflexivity. Qed.

Lemma alloc_3 : alloc (bt_first_data_page + 1) = Some (bt_first_data_page + 1, bt_first_data_page + 2).
Proof. reflexivity. Qed.
Lemma alloc_4 : alloc (bt_first_data_page + 2) = Some (bt_first_data_page + 2, bt_first_data_page + 3).
Proof. reflexivity. Qed.

Lemma insert_single st l k v : SL st l -> has_key k l = false ->
  st_next (fst (insert st k v)) = st_next st -> res_failed (snd (insert st k v)) = false ->
  SL (fst (insert st k v)) (s_insert k v l) /\ snd (insert st k v) = RUnit.
Proof.
  intros (Hr & Hn & [dead Hg] & Hs) Hk.
  unfold insert, depth_fuel. cbn [ins]. rewrite Hg. unfold ins_leaf.
  destruct (leaf_can_insert l dead k).
  - cbn [fst snd st_next st_root st_heap]. intros _ _. split; [|reflexivity].
    unfold SL. cbn [st_next st_root st_heap]. split; [exact Hr|]. split; [exact Hn|]. split.
    + exists dead. rewrite hget_hset_same, (leaf_insert_refines l k v (ssorted_wsorted l Hs)). reflexivity.
    + apply ssorted_s_insert; assumption.
  - destruct (leaf_split_point (leaf_entries l k v)) as [mid|].
    + rewrite Hn, alloc_3, alloc_4.
      destruct (int_can_insert [] _); cbn [fst st_next]; intro H; exfalso; revert H; vm_compute; discriminate.
    + cbn [fst snd res_failed]. intros _ X. discriminate X.
Qed.

Lemma find_leaf_single st l k dead : st_root st = bt_first_data_page ->
  hget (st_heap st) (st_root st) = Some (Leaf l 0 dead) ->
  find_leaf depth_fuel (st_heap st) (st_root st) k = inl (Some (st_root st, l, 0, dead)).
Proof. intros _ Hg. unfold depth_fuel. cbn [find_leaf]. rewrite Hg. reflexivity. Qed.

Lemma delete_single st l k v : SL st l ->
  SL (fst (delete st k v)) (snd (s_delete k v l)) /\ snd (delete st k v) = RBool (fst (s_delete k v l)).
Proof.
  intros (Hr & Hn & [dead Hg] & Hs).
  unfold delete. rewrite (find_leaf_single st l k dead Hr Hg).
  pose proof (leaf_delete_refines l k v Hs) as H.
  unfold cell, key in *.
  destruct (bsearch (map (fun c : bytes * N => cell_cmp c k v) l)) as [[|] idx]; destruct H as [H1 H2].
  - cbn [fst snd]. split; [|rewrite <- H1; reflexivity].
    unfold SL. cbn [st_next st_root st_heap]. split; [exact Hr|]. split; [exact Hn|]. split.
    + eexists. rewrite hget_hset_same, H2. reflexivity.
    + apply ssorted_s_delete. exact Hs.
  - cbn [fst snd]. split; [|rewrite <- H1; reflexivity].
    rewrite <- H2. unfold SL. repeat split; try assumption. exists dead. exact Hg.
Qed.

Lemma settle_last fuel h cells slot : settle fuel h cells 0 slot = inl (cells, 0, slot).
Proof. destruct fuel; cbn [settle]; destruct (Nat.ltb slot (length cells)); reflexivity. Qed.
Lemma scan_leaves_last fuel h cells slot : scan_leaves fuel h cells 0 slot = inl (skipn slot cells).
Proof. destruct fuel; reflexivity. Qed.

Lemma cursor_single st l k : SL st l -> cursor_lower_bound st k = inl (l, 0, length (lt_prefix k l)).
Proof.
  intros (Hr & Hn & [dead Hg] & Hs). unfold cursor_lower_bound.
  rewrite (find_leaf_single st l k dead Hr Hg), settle_last, (lower_bound_sorted l k (ssorted_wsorted l Hs)).
  reflexivity.
Qed.
Lemma skipn_lt_prefix k l : skipn (length (lt_prefix k l)) l = s_from k l.
Proof. rewrite (lt_prefix_from k l) at 2. apply skipn_len_app. Qed.

Lemma scan_single st l k : SL st l -> scan_from st k = inl (s_from k l).
Proof.
  intro H. unfold scan_from. rewrite (cursor_single st l k H), scan_leaves_last.
  destruct (Nat.ltb (length (lt_prefix k l)) (length l)) eqn:E; [rewrite skipn_lt_prefix; reflexivity|].
  apply Nat.ltb_ge in E. rewrite <- skipn_lt_prefix, skipn_all2 by exact E. reflexivity.
Qed.
Lemma lookup_single st l k : SL st l -> lookup st k = inl (s_lookup k l).
Proof.
  intro H. unfold lookup, s_lookup. rewrite (cursor_single st l k H).
  assert (E : nth_error l (length (lt_prefix k l)) = hd_error (s_from k l)).
  { rewrite (lt_prefix_from k l) at 1. rewrite nth_error_app2 by lia. rewrite Nat.sub_diag.
    destruct (s_from k l); reflexivity. }
  rewrite E. destruct (s_from k l) as [|[k' v'] t]; cbn [hd_error fst snd]; [reflexivity|].
  destruct (bytes_eqb k' k); reflexivity.
Qed.

(* ---------- the refinement for one-leaf histories ---------- *)
Lemma step_single st l o : SL st l ->
  match o with OInsert k _ => has_key k l = false | _ => True end ->
  st_next (fst (step st o)) = st_next st -> res_failed (snd (step st o)) = false ->
  SL (fst (step st o)) (fst (s_step l o)) /\ snd (step st o) = snd (s_step l o).
Proof.
  intros H Hk Hn Hf. destruct o as [k v|k v|k|k lim|]; cbn [step s_step fst snd] in *.
  - apply insert_single; assumption.
  - pose proof (delete_single st l k v H) as [H1 H2].
    destruct (s_delete k v l) as [b l'] eqn:E. cbn [fst snd] in *. split; assumption.
  - split; [exact H|]. rewrite (lookup_single st l k H). reflexivity.
  - split; [exact H|]. rewrite (scan_single st l k H). reflexivity.
  - split; [exact H|reflexivity].
Qed.

Lemma run_single ops : forall st l, SL st l -> dup_from l ops = false ->
  st_next (fst (run_from st ops)) = st_next st -> existsb res_failed (snd (run_from st ops)) = false ->
  SL (fst (run_from st ops)) (fst (s_run_from l ops)) /\ snd (run_from st ops) = snd (s_run_from l ops).
Proof.
  induction ops as [|o t IH]; intros st l H Hd Hn Hf; cbn [run_from s_run_from fst snd] in *; [split; [exact H|reflexivity]|].
  pose proof (step_mono st o) as M1.
  pose proof (step_single st l o H) as Hstep.
  destruct (step st o) as [st1 r] eqn:E1. cbn [fst snd] in *.
  pose proof (run_from_mono t st1) as M2.
  assert (Hd' : match o with OInsert k _ => has_key k l = false | _ => True end /\ dup_from (fst (s_step l o)) t = false).
  { destruct o; cbn [dup_from] in Hd; try (split; [exact I | exact Hd]).
    apply orb_false_elim in Hd. exact Hd. }
  destruct Hd' as [Hk Hd'].
  destruct (s_step l o) as [l1 sr] eqn:E2. cbn [fst snd] in *.
  destruct (run_from st1 t) as [st2 rs] eqn:E3. cbn [fst snd existsb] in *.
  apply orb_false_elim in Hf. destruct Hf as [Hf1 Hf2].
  assert (Hn1 : st_next st1 = st_next st) by lia.
  destruct (Hstep Hk Hn1 Hf1) as [HS1 Hr1].
  specialize (IH st1 l1 HS1 Hd'). rewrite E3 in IH. cbn [fst snd] in IH.
  assert (Hn2 : st_next st2 = st_next st1) by lia.
  destruct (IH Hn2 Hf2) as [HS2 Hr2].
  destruct (s_run_from l1 t) as [l2 srs]. cbn [fst snd] in *.
  split; [exact HS2|]. rewrite Hr1, Hr2. reflexivity.
Qed.

Lemma s_from_nil l : s_from [] l = l.
Proof. destruct l as [|[k v] t]; cbn; [reflexivity|]. destruct k; reflexivity. Qed.

(* for every history in which no key is ever stored twice and no page is allocated (no split):
   every operation returns what the sorted multimap returns, and the final full scan is the multimap *)
Theorem single_leaf_refines ops :
  has_dup ops = false -> has_failed_op ops = false -> st_next (fst (run ops)) = bt_first_data_page + 1 ->
  snd (run ops) = snd (s_run ops) /\ scan_all (fst (run ops)) = inl (fst (s_run ops)).
Proof.
  intros Hd Hf Hn. unfold run, s_run, has_dup, has_failed_op in *.
  destruct (run_single ops create [] SL_create Hd Hn Hf) as [HS Hr].
  split; [exact Hr|]. unfold scan_all. rewrite (scan_single _ _ [] HS), s_from_nil. reflexivity.
Qed.

(* the hypotheses are met by a non-trivial history (inserts out of order, a delete that hits, one
   that misses, lookups, a seek, a reopen) *)
Example single_leaf_nonvacuous :
  let ops := [OInsert [3] 30; OInsert [1] 10; OInsert [2; 7] 27; OInsert [2] 20; ODelete [1] 10; ODelete [3] 31;
              OLookup [2]; OScan [2] 5; OReopen; OInsert [1] 11; OLookup [1]] in
  has_dup ops = false /\ has_failed_op ops = false /\ st_next (fst (run ops)) = bt_first_data_page + 1 /\
  snd (run ops) = [RUnit; RUnit; RUnit; RUnit; RBool true; RBool false; ROpt (Some 20);
                   RList [([2], 20); ([2; 7], 27); ([3], 30)]; RUnit; RUnit; ROpt (Some 11)].
Proof. vm_compute. repeat split; reflexivity. Qed.

(* ---------- one leaf, equal keys allowed, no delete: insert / lookup / seek are still the multimap's ----------
   (in one leaf the known finding K-C26-dups needs a delete; across leaves it needs a split) *)
Definition SLw (st : state) (l : list cell) : Prop :=
  st_root st = bt_first_data_page /\ st_next st = bt_first_data_page + 1 /\
  (exists dead, hget (st_heap st) (st_root st) = Some (Leaf l 0 dead)) /\ wsorted l.

Lemma s_insert_wsorted k v l : wsorted l -> wsorted (s_insert k v l).
Proof.
  induction l as [|c t IH]; cbn [s_insert]; [cbn; auto|]. intros [H1 H2].
  destruct (lex_cmp (fst c) k) eqn:E.
  - cbn [wsorted]. split; [|split; assumption].
    apply lex_cmp_eq in E. constructor.
    + cbn [fst]. unfold key in *. rewrite <- E, lex_cmp_refl. discriminate.
    + eapply Forall_impl; [|exact H1]. cbn. intros d Hd. unfold key in *. rewrite <- E. exact Hd.
  - cbn [wsorted]. split; [|apply IH; exact H2].
    apply s_insert_Forall; [cbn [fst]; rewrite E; discriminate | exact H1].
  - cbn [wsorted]. split; [|split; assumption].
    assert (Hkc : lex_lt k (fst c)) by (apply lex_lt_of_gt; exact E).
    constructor; [cbn [fst]; red in Hkc; unfold cell, key, bytes in *; rewrite Hkc; discriminate|].
    eapply Forall_impl; [|exact H1]. cbn. intros d Hd X.
    assert (Hdk : lex_lt (fst d) k) by (apply lex_lt_of_gt; exact X).
    pose proof (lex_lt_trans _ _ _ Hdk Hkc) as Hdc. apply lex_gt_of_lt in Hdc. contradiction.
Qed.

Lemma insert_single_w st l k v : SLw st l ->
  st_next (fst (insert st k v)) = st_next st -> res_failed (snd (insert st k v)) = false ->
  SLw (fst (insert st k v)) (s_insert k v l) /\ snd (insert st k v) = RUnit.
Proof.
  intros (Hr & Hn & [dead Hg] & Hs).
  unfold insert, depth_fuel. cbn [ins]. rewrite Hg. unfold ins_leaf.
  destruct (leaf_can_insert l dead k).
  - cbn [fst snd st_next st_root st_heap]. intros _ _. split; [|reflexivity].
    unfold SLw. cbn [st_next st_root st_heap]. split; [exact Hr|]. split; [exact Hn|]. split.
    + exists dead. rewrite hget_hset_same, (leaf_insert_refines l k v Hs). reflexivity.
    + apply s_insert_wsorted; assumption.
  - destruct (leaf_split_point (leaf_entries l k v)) as [mid|].
    + rewrite Hn, alloc_3, alloc_4.
      destruct (int_can_insert [] _); cbn [fst st_next]; intro H; exfalso; revert H; vm_compute; discriminate.
    + cbn [fst snd res_failed]. intros _ X. discriminate X.
Qed.

Lemma cursor_single_w st l k : SLw st l -> cursor_lower_bound st k = inl (l, 0, length (lt_prefix k l)).
Proof.
  intros (Hr & Hn & [dead Hg] & Hs). unfold cursor_lower_bound.
  rewrite (find_leaf_single st l k dead Hr Hg), settle_last, (lower_bound_sorted l k Hs).
  reflexivity.
Qed.
Lemma scan_single_w st l k : SLw st l -> scan_from st k = inl (s_from k l).
Proof.
  intro H. unfold scan_from. rewrite (cursor_single_w st l k H), scan_leaves_last.
  destruct (Nat.ltb (length (lt_prefix k l)) (length l)) eqn:E; [rewrite skipn_lt_prefix; reflexivity|].
  apply Nat.ltb_ge in E. rewrite <- skipn_lt_prefix, skipn_all2 by exact E. reflexivity.
Qed.
Lemma lookup_single_w st l k : SLw st l -> lookup st k = inl (s_lookup k l).
Proof.
  intro H. unfold lookup, s_lookup. rewrite (cursor_single_w st l k H).
  assert (E : nth_error l (length (lt_prefix k l)) = hd_error (s_from k l)).
  { rewrite (lt_prefix_from k l) at 1. rewrite nth_error_app2 by lia. rewrite Nat.sub_diag.
    destruct (s_from k l); reflexivity. }
  rewrite E. destruct (s_from k l) as [|[k' v'] t]; cbn [hd_error fst snd]; [reflexivity|].
  destruct (bytes_eqb k' k); reflexivity.
Qed.

Definition is_delete (o : op) : bool := match o with ODelete _ _ => true | _ => false end.

Lemma run_single_w ops : forall st l, SLw st l -> existsb is_delete ops = false ->
  st_next (fst (run_from st ops)) = st_next st -> existsb res_failed (snd (run_from st ops)) = false ->
  SLw (fst (run_from st ops)) (fst (s_run_from l ops)) /\ snd (run_from st ops) = snd (s_run_from l ops).
Proof.
  induction ops as [|o t IH]; intros st l H Hd Hn Hf; cbn [run_from s_run_from fst snd] in *; [split; [exact H|reflexivity]|].
  cbn [existsb] in Hd. apply orb_false_elim in Hd. destruct Hd as [Ho Hd].
  pose proof (step_mono st o) as M1.
  assert (Hstep : st_next (fst (step st o)) = st_next st -> res_failed (snd (step st o)) = false ->
                  SLw (fst (step st o)) (fst (s_step l o)) /\ snd (step st o) = snd (s_step l o)).
  { intros Hn1 Hf1. destruct o as [k v|k v|k|k lim|]; cbn [step s_step fst snd is_delete] in *.
    - apply insert_single_w; assumption.
    - discriminate Ho.
    - split; [exact H|]. rewrite (lookup_single_w st l k H). reflexivity.
    - split; [exact H|]. rewrite (scan_single_w st l k H). reflexivity.
    - split; [exact H|reflexivity]. }
  destruct (step st o) as [st1 r] eqn:E1. cbn [fst snd] in *.
  pose proof (run_from_mono t st1) as M2.
  destruct (s_step l o) as [l1 sr] eqn:E2. cbn [fst snd] in *.
  destruct (run_from st1 t) as [st2 rs] eqn:E3. cbn [fst snd existsb] in *.
  apply orb_false_elim in Hf. destruct Hf as [Hf1 Hf2].
  assert (Hn1 : st_next st1 = st_next st) by lia.
  destruct (Hstep Hn1 Hf1) as [HS1 Hr1].
  specialize (IH st1 l1 HS1 Hd). rewrite E3 in IH. cbn [fst snd] in IH.
  assert (Hn2 : st_next st2 = st_next st1) by lia.
  destruct (IH Hn2 Hf2) as [HS2 Hr2].
  destruct (s_run_from l1 t) as [l2 srs]. cbn [fst snd] in *.
  split; [exact HS2|]. rewrite Hr1, Hr2. reflexivity.
Qed.

(* equal keys allowed: as long as the history has no delete and no page is allocated, every insert,
   lookup (newest entry of the key), seek+scan and reopen returns what the sorted multimap returns *)
Theorem single_leaf_dups_no_delete ops :
  existsb is_delete ops = false -> has_failed_op ops = false -> st_next (fst (run ops)) = bt_first_data_page + 1 ->
  snd (run ops) = snd (s_run ops) /\ scan_all (fst (run ops)) = inl (fst (s_run ops)).
Proof.
  intros Hd Hf Hn. unfold run, s_run, has_failed_op in *.
  assert (H0 : SLw create []).
  { unfold SLw, create. cbn. repeat split; auto. exists 0. reflexivity. }
  destruct (run_single_w ops create [] H0 Hd Hn Hf) as [HS Hr].
  split; [exact Hr|]. unfold scan_all. rewrite (scan_single_w _ _ [] HS), s_from_nil. reflexivity.
Qed.

Example single_leaf_dups_nonvacuous :
  let ops := [OInsert [7] 1; OInsert [7] 2; OInsert [5] 9; OInsert [7] 3; OLookup [7]; OScan [6] 10] in
  existsb is_delete ops = false /\ has_failed_op ops = false /\ st_next (fst (run ops)) = bt_first_data_page + 1 /\ has_dup ops = true /\
  snd (run ops) = [RUnit; RUnit; RUnit; RUnit; ROpt (Some 3); RList [([7], 3); ([7], 2); ([7], 1)]].
Proof. vm_compute. repeat split; reflexivity. Qed.
