(* BTree/BTree.v — MODEL of nervusdb-storage/src/index/btree.rs (faithful, bugs included).

   Page heap: page id -> Leaf cells right_sibling dead_bytes | Internal leftmost cells.
   A leaf cell is (key, payload); an internal cell is (separator, right child).
   The byte accounting of the slotted page decides when a page splits:
     cell_content_begin = PAGE_SIZE - (bytes of all cells ever written since the last rebuild)
     free_space         = cell_content_begin - (header + 2 * cell_count)      (saturating)
     an insert fits iff   free_space >= cell_len + 2
   Deleting a leaf cell removes its slot only; its bytes stay (`dead`) until the leaf is
   rebuilt by a split.  Internal cells are never deleted.

   `insert` is written as the recursion whose call stack is the `path` vector of the
   Rust code (insert_into_parent pops it); allocations and page writes happen in the
   same order.  Errors and panics are values; the heap after them is what the code
   leaves behind.  Model file: executable definitions only. *)
From NDB Require Export Base.Bytes Gen.Consts.

Definition key := bytes.
Definition cell := (key * N)%type.

Inductive page :=
| Leaf (cells : list cell) (rsib : N) (dead : N)
| Internal (leftmost : N) (cells : list cell).

(* newest binding first *)
Definition heap := list (N * page).
Fixpoint hget (h : heap) (p : N) : option page :=
  match h with
  | [] => None
  | (q, v) :: t => if q =? p then Some v else hget t p
  end.
Definition hset (h : heap) (p : N) (v : page) : heap := (p, v) :: h.

Record state := { st_heap : heap; st_next : N; st_root : N }.

Inductive err := ENoSpace | EBadPage | EFuel | EPageRange.

(* ---------- list helpers ---------- *)
Definition insert_at {A} (i : nat) (x : A) (l : list A) : list A := firstn i l ++ x :: skipn i l.
Definition remove_at {A} (i : nat) (l : list A) : list A := firstn i l ++ skipn (S i) l.
Definition klen (k : key) : N := N.of_nat (length k).

(* ---------- byte accounting ---------- *)
(* varint_u32_len: 1 + number of times v can be shifted right by 7 while >= 0x80 *)
Definition varint_len (v : N) : N :=
  if v <? bt_varint_radix then 1
  else if v <? bt_varint_radix * bt_varint_radix then 2
  else if v <? bt_varint_radix * bt_varint_radix * bt_varint_radix then 3
  else if v <? bt_varint_radix * bt_varint_radix * bt_varint_radix * bt_varint_radix then 4
  else 5.
Definition leaf_cell_len (k : key) : N := varint_len (klen k) + klen k + bt_payload_size.
Definition int_cell_len (k : key) : N := bt_child_size + varint_len (klen k) + klen k.
Definition sum_len (f : key -> N) (cells : list cell) : N :=
  fold_right (fun c acc => f (fst c) + acc) 0 cells.
Definition count (cells : list cell) : N := N.of_nat (length cells).

Definition leaf_begin (cells : list cell) (dead : N) : N := bt_page_size - sum_len leaf_cell_len cells - dead.
Definition leaf_free (cells : list cell) (dead : N) : N :=
  leaf_begin cells dead - (bt_leaf_header + bt_slot_size * count cells).
Definition leaf_can_insert (cells : list cell) (dead : N) (k : key) : bool :=
  leaf_cell_len k + bt_slot_size <=? leaf_free cells dead.
Definition int_begin (cells : list cell) : N := bt_page_size - sum_len int_cell_len cells.
Definition int_free (cells : list cell) : N :=
  int_begin cells - (bt_internal_header + bt_slot_size * count cells).
Definition int_can_insert (cells : list cell) (k : key) : bool :=
  int_cell_len k + bt_slot_size <=? int_free cells.
(* rebuild_leaf / rebuild_internal insert the cells one by one into an empty page; every
   step fits iff the last one does, i.e. iff the total fits *)
Definition leaf_fits (cells : list cell) : bool :=
  sum_len leaf_cell_len cells + bt_slot_size * count cells <=? bt_page_size - bt_leaf_header.
Definition int_fits (cells : list cell) : bool :=
  sum_len int_cell_len cells + bt_slot_size * count cells <=? bt_page_size - bt_internal_header.

(* split_point of btree.rs: the position closest to the median for which both halves fit a page.
     mid = len/2; while mid > 0 && !fits_left(mid) { mid -= 1 }; while mid+1 < len && !fits_right(mid) { mid += 1 };
     None if len = 0 or a half still does not fit *)
Fixpoint dec_loop (fits_l : nat -> bool) (mid : nat) : nat :=
  match mid with
  | O => O
  | S m => if fits_l mid then mid else dec_loop fits_l m
  end.
Fixpoint inc_loop (fuel : nat) (fits_r : nat -> bool) (len mid : nat) : nat :=
  match fuel with
  | O => mid
  | S f => if Nat.ltb (S mid) len && negb (fits_r mid) then inc_loop f fits_r len (S mid) else mid
  end.
Definition split_point (fits_l fits_r : nat -> bool) (len : nat) : option nat :=
  if Nat.eqb len 0 then None
  else
    let m := inc_loop len fits_r len (dec_loop fits_l (Nat.div len 2)) in
    if fits_l m && fits_r m then Some m else None.

(* ---------- the three binary searches ---------- *)
(* leaf_lower_bound: while lo < hi { mid = (lo+hi)/2; if k[mid] < target {lo = mid+1} else {hi = mid} } *)
Fixpoint lb_loop (fuel : nat) (cells : list cell) (target : key) (lo hi : nat) : nat :=
  match fuel with
  | O => lo
  | S f =>
      if Nat.ltb lo hi then
        let mid := Nat.div (lo + hi)%nat 2 in
        match nth_error cells mid with
        | Some (k, _) =>
            match lex_cmp k target with
            | Lt => lb_loop f cells target (S mid) hi
            | _ => lb_loop f cells target lo mid
            end
        | None => lo
        end
      else lo
  end.
Definition lower_bound (cells : list cell) (target : key) : nat :=
  lb_loop (S (length cells)) cells target 0 (length cells).

(* internal_child_for_key: same loop with `k <= target` (upper bound) *)
Fixpoint ub_loop (fuel : nat) (cells : list cell) (target : key) (lo hi : nat) : nat :=
  match fuel with
  | O => lo
  | S f =>
      if Nat.ltb lo hi then
        let mid := Nat.div (lo + hi)%nat 2 in
        match nth_error cells mid with
        | Some (k, _) =>
            match lex_cmp k target with
            | Gt => ub_loop f cells target lo mid
            | _ => ub_loop f cells target (S mid) hi
            end
        | None => lo
        end
      else lo
  end.
Definition upper_bound (cells : list cell) (target : key) : nat :=
  ub_loop (S (length cells)) cells target 0 (length cells).
(* (child, child_pos) *)
Definition child_for_key (leftmost : N) (cells : list cell) (target : key) : N * nat :=
  match upper_bound cells target with
  | O => (leftmost, O)
  | S i => (snd (nth i cells ([], 0)), S i)
  end.

(* core::slice::binary_search_by of the toolchain that builds the harness (rustc 1.95):
     size = len; base = 0;
     while size > 1 { half = size/2; mid = base+half; base = if f(mid) == Greater {base} else {mid}; size -= half }
     cmp = f(base); if cmp == Equal {Ok(base)} else {Err(base + (cmp == Less))}
   The search only sees the comparison results, so the model takes the list of f(element). *)
Fixpoint bs_loop (fuel : nat) (l : list comparison) (base size : nat) : nat :=
  match fuel with
  | O => base
  | S f =>
      if Nat.ltb 1 size then
        let half := Nat.div size 2 in
        let mid := (base + half)%nat in
        let base' := match nth mid l Eq with Gt => base | _ => mid end in
        bs_loop f l base' (size - half)%nat
      else base
  end.
(* (true, i) = Ok(i); (false, i) = Err(i) *)
Definition bsearch (l : list comparison) : bool * nat :=
  match l with
  | [] => (false, O)
  | _ =>
      let base := bs_loop (length l) l O (length l) in
      match nth base l Eq with
      | Eq => (true, base)
      | Lt => (false, S base)
      | Gt => (false, base)
      end
  end.

(* (k, v).cmp(&(key, payload)) *)
Definition cell_cmp (c : cell) (k : key) (v : N) : comparison :=
  match lex_cmp (fst c) k with
  | Eq => snd c ?= v
  | o => o
  end.

(* ---------- pager ---------- *)
Definition alloc (next : N) : option (N * N) :=
  if next <? bt_max_pages then Some (next, next + 1) else None.

Definition depth_fuel : nat := 64.

(* ---------- insert ---------- *)
Inductive ins_res :=
| IDone (h : heap) (next : N)
| ISplit (h : heap) (next : N) (sep : key) (rsib : N)
| IErr (h : heap) (next : N) (e : err).

(* the sorted entry list of an overfull leaf with the new entry put in (position by binary_search_by) *)
Definition leaf_entries (cells : list cell) (k : key) (v : N) : list cell :=
  insert_at (snd (bsearch (map (fun c => lex_cmp (fst c) k) cells))) (k, v) cells.
Definition leaf_split_point (entries : list cell) : option nat :=
  split_point (fun m => leaf_fits (firstn m entries)) (fun m => leaf_fits (skipn m entries)) (length entries).

Definition ins_leaf (h : heap) (next : N) (p : N) (cells : list cell) (rsib dead : N) (k : key) (v : N) : ins_res :=
  let idx := lower_bound cells k in
  if leaf_can_insert cells dead k then
    IDone (hset h p (Leaf (insert_at idx (k, v) cells) rsib dead)) next
  else
    let entries := leaf_entries cells k v in
    match leaf_split_point entries with
    | None => IErr h next ENoSpace            (* before anything is allocated or written *)
    | Some mid =>
        let l := firstn mid entries in
        let r := skipn mid entries in
        let sep := fst (hd ([], 0) r) in
        match alloc next with
        | None => IErr h next EPageRange
        | Some (rid, next') => ISplit (hset (hset h p (Leaf l rid 0)) rid (Leaf r rsib 0)) next' sep rid
        end
    end.

(* insert_into_parent for one popped path entry (page p, child_pos pos) *)
Definition int_split_point (all : list cell) : option nat :=
  split_point (fun m => int_fits (firstn m all)) (fun m => int_fits (skipn (S m) all)) (length all).

Definition ins_parent (h : heap) (next : N) (p : N) (pos : nat) (sep : key) (rid : N) : ins_res :=
  match hget h p with
  | Some (Internal lm cells) =>
      if int_can_insert cells sep then
        IDone (hset h p (Internal lm (insert_at pos (sep, rid) cells))) next
      else
        let all := insert_at pos (sep, rid) cells in
        match int_split_point all with
        | None => IErr h next ENoSpace
        | Some mid =>
            let promote := fst (nth mid all ([], 0)) in
            let lc := firstn mid all in
            let rlm := snd (nth mid all ([], 0)) in
            let rc := skipn (S mid) all in
            match alloc next with
            | None => IErr h next EPageRange
            | Some (rp, next') => ISplit (hset (hset h p (Internal lm lc)) rp (Internal rlm rc)) next' promote rp
            end
        end
  | _ => IErr h next EBadPage
  end.

Fixpoint ins (fuel : nat) (h : heap) (next : N) (p : N) (k : key) (v : N) : ins_res :=
  match fuel with
  | O => IErr h next EFuel
  | S f =>
      match hget h p with
      | None => IErr h next EBadPage
      | Some (Leaf cells rsib dead) => ins_leaf h next p cells rsib dead k v
      | Some (Internal lm cells) =>
          let (child, pos) := child_for_key lm cells k in
          match ins f h next child k v with
          | ISplit h' next' sep rid => ins_parent h' next' p pos sep rid
          | r => r
          end
      end
  end.

Inductive res :=
| RUnit
| RBool (b : bool)
| RErr (e : err)
| RPanic
| ROpt (o : option N)
| RList (l : list cell).

Definition insert (st : state) (k : key) (v : N) : state * res :=
  match ins depth_fuel (st_heap st) (st_next st) (st_root st) k v with
  | IDone h n => ({| st_heap := h; st_next := n; st_root := st_root st |}, RUnit)
  | IErr h n e => ({| st_heap := h; st_next := n; st_root := st_root st |}, RErr e)
  | ISplit h n sep rid =>
      match alloc n with
      | None => ({| st_heap := h; st_next := n; st_root := st_root st |}, RErr EPageRange)
      | Some (nr, n') =>
          if int_can_insert [] sep then
            ({| st_heap := hset h nr (Internal (st_root st) [(sep, rid)]); st_next := n'; st_root := nr |}, RUnit)
          else ({| st_heap := h; st_next := n'; st_root := st_root st |}, RErr ENoSpace)
      end
  end.

(* ---------- descent shared by delete and the cursor ---------- *)
Fixpoint find_leaf (fuel : nat) (h : heap) (p : N) (k : key) : option (N * list cell * N * N) + err :=
  match fuel with
  | O => inr EFuel
  | S f =>
      match hget h p with
      | None => inr EBadPage
      | Some (Leaf cells rsib dead) => inl (Some (p, cells, rsib, dead))
      | Some (Internal lm cells) => find_leaf f h (fst (child_for_key lm cells k)) k
      end
  end.

(* ---------- delete ---------- *)
Definition delete (st : state) (k : key) (v : N) : state * res :=
  match find_leaf depth_fuel (st_heap st) (st_root st) k with
  | inl (Some (p, cells, rsib, dead)) =>
      match bsearch (map (fun c => cell_cmp c k v) cells) with
      | (true, idx) =>
          let gone := fst (nth idx cells ([], 0)) in
          ({| st_heap := hset (st_heap st) p (Leaf (remove_at idx cells) rsib (dead + leaf_cell_len gone));
              st_next := st_next st; st_root := st_root st |}, RBool true)
      | (false, _) => (st, RBool false)
      end
  | inl None => (st, RErr EBadPage)
  | inr e => (st, RErr e)
  end.

(* ---------- cursor ---------- *)
(* the positioning loop at the end of cursor_lower_bound: skip empty / exhausted leaves *)
Fixpoint settle (fuel : nat) (h : heap) (cells : list cell) (rsib : N) (slot : nat) : (list cell * N * nat) + err :=
  if Nat.ltb slot (length cells) then inl (cells, rsib, slot)
  else if rsib =? 0 then inl (cells, rsib, slot)
  else
    match fuel with
    | O => inr EFuel
    | S f =>
        match hget h rsib with
        | Some (Leaf c' r' _) => settle f h c' r' O
        | _ => inr EBadPage
        end
    end.

Definition page_fuel (st : state) : nat := N.to_nat (st_next st).

Definition cursor_lower_bound (st : state) (k : key) : (list cell * N * nat) + err :=
  match find_leaf depth_fuel (st_heap st) (st_root st) k with
  | inl (Some (_, cells, rsib, _)) => settle (page_fuel st) (st_heap st) cells rsib (lower_bound cells k)
  | inl None => inr EBadPage
  | inr e => inr e
  end.

(* the callers' loop `while cur.is_valid() { push(key, payload); if !cur.advance() { break } }`:
   inside one leaf it yields the cells from `slot` on; at the end of a leaf `advance` follows the
   right-sibling chain to the next non-empty leaf (empty leaves are skipped) or to the end *)
Fixpoint scan_leaves (fuel : nat) (h : heap) (cells : list cell) (rsib : N) (slot : nat) : list cell + err :=
  let out := skipn slot cells in
  if rsib =? 0 then inl out
  else
    match fuel with
    | O => inr EFuel
    | S f =>
        match hget h rsib with
        | Some (Leaf c' r' _) =>
            match scan_leaves f h c' r' O with
            | inl more => inl (out ++ more)
            | inr e => inr e
            end
        | _ => inr EBadPage
        end
    end.

Definition scan_from (st : state) (k : key) : list cell + err :=
  match cursor_lower_bound st k with
  | inl (cells, rsib, slot) =>
      (* is_valid() of the positioned cursor *)
      if Nat.ltb slot (length cells) then scan_leaves (page_fuel st) (st_heap st) cells rsib slot else inl []
  | inr e => inr e
  end.

(* read_node_property_from_store: seek, then accept the entry only if its key is the key *)
Definition lookup (st : state) (k : key) : option N + err :=
  match cursor_lower_bound st k with
  | inl (cells, _, slot) =>
      match nth_error cells slot with
      | Some (k', v) => if bytes_eqb k' k then inl (Some v) else inl None
      | None => inl None
      end
  | inr e => inr e
  end.

(* ---------- histories ---------- *)
Inductive op :=
| OInsert (k : key) (v : N)
| ODelete (k : key) (v : N)
| OLookup (k : key)
| OScan (k : key) (lim : N)      (* seek k, then read at most lim entries *)
| OReopen.                        (* close the pager, open the file again, BTree::load(root) *)

(* BTree::create on a fresh pager *)
Definition create : state :=
  {| st_heap := hset [] bt_first_data_page (Leaf [] 0 0); st_next := bt_first_data_page + 1; st_root := bt_first_data_page |}.

Definition step (st : state) (o : op) : state * res :=
  match o with
  | OInsert k v => insert st k v
  | ODelete k v => delete st k v
  | OLookup k => (st, match lookup st k with inl r => ROpt r | inr e => RErr e end)
  | OScan k lim => (st, match scan_from st k with inl l => RList (firstn (N.to_nat lim) l) | inr e => RErr e end)
  | OReopen => (st, RUnit)
  end.

Fixpoint run_from (st : state) (ops : list op) : state * list res :=
  match ops with
  | [] => (st, [])
  | o :: t =>
      let (st1, r) := step st o in
      let (st2, rs) := run_from st1 t in
      (st2, r :: rs)
  end.
Definition run (ops : list op) : state * list res := run_from create ops.

(* ---------- observations used by the correspondence and the known-finding classes ---------- *)
Inductive dpage :=
| DLeaf (cells : list cell) (rsib : N) (content_begin : N)
| DInternal (leftmost : N) (cells : list cell) (content_begin : N)
| DNone.
Definition dump_page (h : heap) (p : N) : dpage :=
  match hget h p with
  | Some (Leaf c r d) => DLeaf c r (leaf_begin c d)
  | Some (Internal lm c) => DInternal lm c (int_begin c)
  | None => DNone
  end.
(* pages first_data_page .. next-1 *)
Definition dump (st : state) : list dpage :=
  map (fun i => dump_page (st_heap st) (bt_first_data_page + N.of_nat i))
      (seq 0 (N.to_nat (st_next st - bt_first_data_page))).
