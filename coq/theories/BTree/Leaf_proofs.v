(* BTree/Leaf_proofs.v — PROOFS about the components of the B-tree model (BTree/BTree.v):
   the three binary searches on sorted cell lists, leaf insert / delete / median split against
   the sorted-multimap spec (BTree/Spec.v), and the refinement for histories that stay in one leaf. *)
From Coq Require Import Lia ZifyBool ZifyN ZifyNat.
From NDB Require Import Base.Bytes Base.Bytes_proofs BTree.BTree BTree.Spec.
Ltac Zify.zify_post_hook ::= Z.div_mod_to_equations.


(* ---------- partition-point loops ---------- *)
Fixpoint pp_loop (p : cell -> bool) (fuel : nat) (cells : list cell) (lo hi : nat) : nat :=
  match fuel with
  | O => lo
  | S f =>
      if Nat.ltb lo hi then
        let mid := Nat.div (lo + hi)%nat 2 in
        match nth_error cells mid with
        | Some c => if p c then pp_loop p f cells (S mid) hi else pp_loop p f cells lo mid
        | None => lo
        end
      else lo
  end.

Lemma lb_loop_pp t f cells lo hi :
  lb_loop f cells t lo hi = pp_loop (fun c => match lex_cmp (fst c) t with Lt => true | _ => false end) f cells lo hi.
Proof.
  revert lo hi; induction f as [|f IH]; intros lo hi; cbn [lb_loop pp_loop]; [reflexivity|].
  destruct (Nat.ltb lo hi); [|reflexivity].
  destruct (nth_error cells (Nat.div (lo + hi) 2)) as [[k v]|]; [|reflexivity].
  cbn [fst]. destruct (lex_cmp k t); apply IH.
Qed.

Lemma ub_loop_pp t f cells lo hi :
  ub_loop f cells t lo hi = pp_loop (fun c => match lex_cmp (fst c) t with Gt => false | _ => true end) f cells lo hi.
Proof.
  revert lo hi; induction f as [|f IH]; intros lo hi; cbn [ub_loop pp_loop]; [reflexivity|].
  destruct (Nat.ltb lo hi); [|reflexivity].
  destruct (nth_error cells (Nat.div (lo + hi) 2)) as [[k v]|]; [|reflexivity].
  cbn [fst]. destruct (lex_cmp k t); apply IH.
Qed.

(* a list partitioned by p: a true-prefix followed by a false-suffix *)
Lemma pp_loop_spec p a b : forallb p a = true -> forallb (fun c => negb (p c)) b = true ->
  forall fuel lo hi, (lo <= length a <= hi)%nat -> (hi <= length (a ++ b))%nat -> (hi - lo < fuel)%nat ->
  pp_loop p fuel (a ++ b) lo hi = length a.
Proof.
  intros Ha Hb. induction fuel as [|f IH]; intros lo hi H1 H2 H3; [lia|].
  cbn [pp_loop]. destruct (Nat.ltb lo hi) eqn:E.
  - apply Nat.ltb_lt in E.
    set (mid := Nat.div (lo + hi) 2).
    assert (Hm : (lo <= mid < hi)%nat) by (subst mid; lia).
    destruct (nth_error (a ++ b) mid) as [c|] eqn:En.
    + destruct (Nat.lt_ge_cases mid (length a)) as [Hlt|Hge].
      * rewrite nth_error_app1 in En by exact Hlt.
        rewrite forallb_forall in Ha. rewrite (Ha c (nth_error_In _ _ En)).
        apply IH; lia.
      * rewrite nth_error_app2 in En by exact Hge.
        rewrite forallb_forall in Hb. specialize (Hb c (nth_error_In _ _ En)).
        destruct (p c); [discriminate Hb|]. apply IH; lia.
    + apply nth_error_None in En. lia.
  - apply Nat.ltb_ge in E. lia.
Qed.


(* ---------- slice::binary_search_by on a monotone comparison list ---------- *)
Definition cls (a b i : nat) : comparison :=
  if Nat.ltb i a then Lt else if Nat.ltb i (a + b) then Eq else Gt.

Lemma bs_loop_mono l a b :
  (forall i, (i < length l)%nat -> nth i l Eq = cls a b i) -> (a + b <= length l)%nat ->
  forall fuel base size, (1 <= size)%nat -> (base + size <= length l)%nat -> (size <= fuel)%nat ->
    (a + b <= base + size)%nat -> (base = 0 \/ base < a + b)%nat ->
    bs_loop fuel l base size = pred (a + b).
Proof.
  intros Hl Hab. induction fuel as [|f IH]; intros base size H1 H2 H3 I1 I2; [lia|].
  cbn [bs_loop]. destruct (Nat.ltb 1 size) eqn:E.
  - apply Nat.ltb_lt in E.
    set (half := Nat.div size 2).
    assert (Hh : (1 <= half /\ half + half <= size /\ size <= half + half + 1)%nat) by (subst half; lia).
    rewrite (Hl (base + half)%nat) by lia. unfold cls.
    destruct (Nat.ltb (base + half) a) eqn:Ea; [|destruct (Nat.ltb (base + half) (a + b)) eqn:Eb].
    + apply Nat.ltb_lt in Ea. apply IH; lia.
    + apply Nat.ltb_lt in Eb. apply IH; lia.
    + apply Nat.ltb_ge in Ea, Eb. apply IH; lia.
  - apply Nat.ltb_ge in E. lia.
Qed.

Lemma bsearch_mono l a b :
  (forall i, (i < length l)%nat -> nth i l Eq = cls a b i) -> (a + b <= length l)%nat ->
  bsearch l = if Nat.ltb 0 b then (true, pred (a + b)) else (false, a).
Proof.
  intros Hl Hab. unfold bsearch. destruct l as [|x l'] eqn:El.
  - cbn in Hab. assert (a = 0 /\ b = 0)%nat as [-> ->] by lia. reflexivity.
  - rewrite <- El in *. assert (Hlen : (1 <= length l)%nat) by (rewrite El; cbn; lia).
    rewrite (bs_loop_mono l a b Hl Hab) by lia.
    destruct (Nat.eq_dec (a + b) 0) as [Z|NZ].
    + assert (a = 0 /\ b = 0)%nat as [-> ->] by lia. cbn [pred Nat.add].
      rewrite (Hl 0%nat) by lia. reflexivity.
    + rewrite (Hl (pred (a + b))) by lia. unfold cls.
      destruct (Nat.ltb 0 b) eqn:Eb.
      * apply Nat.ltb_lt in Eb.
        replace (Nat.ltb (pred (a + b)) a) with false by (symmetry; apply Nat.ltb_ge; lia).
        replace (Nat.ltb (pred (a + b)) (a + b)) with true by (symmetry; apply Nat.ltb_lt; lia).
        reflexivity.
      * apply Nat.ltb_ge in Eb. assert (b = 0)%nat by lia. subst b.
        replace (Nat.ltb (pred (a + 0)) a) with true by (symmetry; apply Nat.ltb_lt; lia).
        f_equal. lia.
Qed.


(* ---------- order helpers ---------- *)
Lemma lex_gt_of_lt a b : lex_cmp a b = Lt -> lex_cmp b a = Gt.
Proof. intro H. rewrite lex_cmp_antisym, H. reflexivity. Qed.
Lemma lex_lt_of_gt a b : lex_cmp a b = Gt -> lex_cmp b a = Lt.
Proof. intro H. rewrite lex_cmp_antisym, H. reflexivity. Qed.
Lemma lex_ge_lt_gt c k d : lex_cmp c k <> Lt -> lex_lt c d -> lex_cmp d k = Gt.
Proof.
  intros H1 H2. destruct (lex_cmp c k) eqn:E.
  - apply lex_cmp_eq in E. subst c. apply lex_gt_of_lt. exact H2.
  - congruence.
  - apply lex_gt_of_lt. apply (lex_lt_trans k c d); [apply lex_lt_of_gt; exact E | exact H2].
Qed.
Lemma lex_ge_le_ge c k d : lex_cmp c k <> Lt -> lex_cmp c d <> Gt -> lex_cmp d k <> Lt.
Proof.
  intros H1 H2. destruct (lex_cmp c d) eqn:E.
  - apply lex_cmp_eq in E. subst d. exact H1.
  - rewrite (lex_ge_lt_gt c k d H1 E). discriminate.
  - congruence.
Qed.
Lemma lex_gt_le_gt c k d : lex_cmp c k = Gt -> lex_cmp c d <> Gt -> lex_cmp d k = Gt.
Proof.
  intros H1 H2. destruct (lex_cmp c d) eqn:E.
  - apply lex_cmp_eq in E. subst d. exact H1.
  - apply (lex_ge_lt_gt c k d); [rewrite H1; discriminate | exact E].
  - congruence.
Qed.

(* ---------- sortedness ---------- *)
Fixpoint wsorted (l : list cell) : Prop :=
  match l with [] => True | c :: t => Forall (fun d : cell => lex_cmp (fst c) (fst d) <> Gt) t /\ wsorted t end.
Fixpoint ssorted (l : list cell) : Prop :=
  match l with [] => True | c :: t => Forall (fun d : cell => lex_lt (fst c) (fst d)) t /\ ssorted t end.
Lemma ssorted_wsorted l : ssorted l -> wsorted l.
Proof.
  induction l as [|c t IH]; cbn; [trivial|]. intros [H1 H2]. split; [|apply IH; exact H2].
  eapply Forall_impl; [|exact H1]. cbn. intros d Hd. unfold lex_lt in Hd. rewrite Hd. discriminate.
Qed.

(* prefix of entries with key < k; the rest is s_from k *)
Fixpoint lt_prefix (k : key) (l : list cell) : list cell :=
  match l with
  | [] => []
  | c :: t => match lex_cmp (fst c) k with Lt => c :: lt_prefix k t | _ => [] end
  end.
Lemma lt_prefix_from k l : l = lt_prefix k l ++ s_from k l.
Proof. induction l as [|c t IH]; cbn; [reflexivity|]. destruct (lex_cmp (fst c) k); cbn; congruence. Qed.
Lemma lt_prefix_all k l : forallb (fun c : cell => match lex_cmp (fst c) k with Lt => true | _ => false end) (lt_prefix k l) = true.
Proof.
  induction l as [|c t IH]; cbn [lt_prefix forallb]; [reflexivity|].
  destruct (lex_cmp (fst c) k) eqn:E; [reflexivity| |reflexivity]. cbn [forallb]. cbv beta. rewrite E. exact IH.
Qed.
Lemma s_from_ge k l : wsorted l -> Forall (fun c : cell => lex_cmp (fst c) k <> Lt) (s_from k l).
Proof.
  induction l as [|c t IH]; cbn; [constructor|]. intros [H1 H2].
  destruct (lex_cmp (fst c) k) eqn:E.
  - constructor; [congruence|]. eapply Forall_impl; [|exact H1]. cbn. intros d Hd.
    apply (lex_ge_le_ge (fst c)); [congruence | exact Hd].
  - apply IH. exact H2.
  - constructor; [congruence|]. eapply Forall_impl; [|exact H1]. cbn. intros d Hd.
    apply (lex_ge_le_ge (fst c)); [congruence | exact Hd].
Qed.
Lemma s_insert_decomp k v l : s_insert k v l = lt_prefix k l ++ (k, v) :: s_from k l.
Proof. induction l as [|c t IH]; cbn; [reflexivity|]. destruct (lex_cmp (fst c) k); cbn; congruence. Qed.
Lemma firstn_len_app {A} (a b : list A) : firstn (length a) (a ++ b) = a.
Proof. induction a; cbn; congruence. Qed.
Lemma skipn_len_app {A} (a b : list A) : skipn (length a) (a ++ b) = b.
Proof. induction a; cbn; congruence. Qed.
Lemma insert_at_app {A} (a b : list A) x : insert_at (length a) x (a ++ b) = a ++ x :: b.
Proof. unfold insert_at. rewrite firstn_len_app, skipn_len_app. reflexivity. Qed.
Lemma remove_at_app {A} (a b : list A) x : remove_at (length a) (a ++ x :: b) = a ++ b.
Proof.
  unfold remove_at. rewrite firstn_len_app.
  replace (S (length a)) with (length (a ++ [x])) by (rewrite app_length; cbn; lia).
  replace (a ++ x :: b) with ((a ++ [x]) ++ b) by (rewrite <- app_assoc; reflexivity).
  rewrite skipn_len_app. reflexivity.
Qed.

(* ---------- leaf_lower_bound on a sorted leaf; the insert position ---------- *)
Lemma lower_bound_sorted l k : wsorted l -> lower_bound l k = length (lt_prefix k l).
Proof.
  intro Hs. unfold lower_bound. rewrite lb_loop_pp.
  pose proof (s_from_ge k l Hs) as Hge.
  pose proof (lt_prefix_all k l) as Hlt.
  pose proof (lt_prefix_from k l) as Hd.
  revert Hge Hlt Hd. generalize (lt_prefix k l) as A. generalize (s_from k l) as B.
  intros B A Hge Hlt ->.
  apply pp_loop_spec.
  - exact Hlt.
  - apply forallb_forall. intros c Hc.
    rewrite Forall_forall in Hge. specialize (Hge c Hc).
    destruct (lex_cmp (fst c) k); [reflexivity | congruence | reflexivity].
  - rewrite app_length. lia.
  - lia.
  - lia.
Qed.

(* the leaf insert position puts the new entry where the spec puts it: before every entry >= k *)
Theorem leaf_insert_refines l k v : wsorted l -> insert_at (lower_bound l k) (k, v) l = s_insert k v l.
Proof.
  intro Hs. rewrite (lower_bound_sorted l k Hs), s_insert_decomp.
  rewrite (lt_prefix_from k l) at 2. apply insert_at_app.
Qed.

(* ---------- delete: binary_search_by on (key, payload) in a leaf without equal keys ---------- *)
Lemma cls_of_blocks la le lg :
  Forall (eq Lt) la -> Forall (eq Eq) le -> Forall (eq Gt) lg ->
  forall i, (i < length (la ++ le ++ lg))%nat ->
    nth i (la ++ le ++ lg) Eq = cls (length la) (length le) i.
Proof.
  intros Ha He Hg i Hi. unfold cls. rewrite !app_length in Hi.
  destruct (Nat.ltb i (length la)) eqn:E1.
  - apply Nat.ltb_lt in E1. rewrite app_nth1 by exact E1.
    rewrite Forall_forall in Ha. symmetry. apply Ha. apply nth_In. exact E1.
  - apply Nat.ltb_ge in E1. rewrite app_nth2 by exact E1.
    destruct (Nat.ltb i (length la + length le)) eqn:E2.
    + apply Nat.ltb_lt in E2. rewrite app_nth1 by lia.
      rewrite Forall_forall in He. symmetry. apply He. apply nth_In. lia.
    + apply Nat.ltb_ge in E2. rewrite app_nth2 by lia.
      rewrite Forall_forall in Hg. symmetry. apply Hg. apply nth_In. lia.
Qed.

Lemma bsearch_blocks la le lg :
  Forall (eq Lt) la -> Forall (eq Eq) le -> Forall (eq Gt) lg ->
  bsearch (la ++ le ++ lg) =
    if Nat.ltb 0 (length le) then (true, pred (length la + length le)) else (false, length la).
Proof.
  intros Ha He Hg. apply bsearch_mono.
  - apply cls_of_blocks; assumption.
  - rewrite !app_length. lia.
Qed.

Lemma cell_cmp_eq_iff (c : cell) k v : cell_cmp c k v = Eq <-> cell_eqb c k v = true.
Proof.
  unfold cell_cmp, cell_eqb. destruct (lex_cmp (fst c) k) eqn:E.
  - apply lex_cmp_eq in E. rewrite E.
    replace (bytes_eqb k k) with true by (symmetry; apply bytes_eqb_eq; reflexivity).
    cbn [andb]. rewrite N.compare_eq_iff, N.eqb_eq. reflexivity.
  - split; [discriminate|]. intro H. apply andb_prop in H. destruct H as [H _].
    apply bytes_eqb_eq in H. rewrite H, lex_cmp_refl in E. discriminate E.
  - split; [discriminate|]. intro H. apply andb_prop in H. destruct H as [H _].
    apply bytes_eqb_eq in H. rewrite H, lex_cmp_refl in E. discriminate E.
Qed.

Lemma s_delete_none k v l : Forall (fun c : cell => cell_cmp c k v <> Eq) l -> s_delete k v l = (false, l).
Proof.
  induction l as [|c t IH]; cbn [s_delete]; [reflexivity|]. intro H. inversion H as [|? ? Hc Ht]; subst.
  destruct (cell_eqb c k v) eqn:E.
  - apply cell_cmp_eq_iff in E. contradiction.
  - rewrite (IH Ht). reflexivity.
Qed.
Lemma s_delete_hit k v a c t :
  Forall (fun c : cell => cell_cmp c k v <> Eq) a -> cell_cmp c k v = Eq -> s_delete k v (a ++ c :: t) = (true, a ++ t).
Proof.
  intros Ha Hc. induction a as [|x a IH]; cbn [s_delete app].
  - apply cell_cmp_eq_iff in Hc. rewrite Hc. reflexivity.
  - inversion Ha as [|? ? Hx Ha']; subst. destruct (cell_eqb x k v) eqn:E.
    + apply cell_cmp_eq_iff in E. contradiction.
    + rewrite (IH Ha'). reflexivity.
Qed.

Lemma ssorted_s_from k l : ssorted l -> ssorted (s_from k l).
Proof.
  induction l as [|c t IH]; cbn [s_from]; [trivial|]. intros H. pose proof H as [H1 H2].
  destruct (lex_cmp (fst c) k); [exact H | apply IH; exact H2 | exact H].
Qed.

Lemma lt_prefix_cmp_lt k v l : Forall (fun c : cell => cell_cmp c k v = Lt) (lt_prefix k l).
Proof.
  induction l as [|c t IH]; cbn [lt_prefix]; [constructor|].
  destruct (lex_cmp (fst c) k) eqn:E; [constructor| |constructor].
  constructor; [|exact IH]. unfold cell_cmp. rewrite E. reflexivity.
Qed.

Lemma Forall_map_eq {A} (f : A -> comparison) x l : Forall (fun c => f c = x) l -> Forall (eq x) (map f l).
Proof. induction 1; cbn; constructor; [symmetry; assumption | assumption]. Qed.

(* delete in a strictly sorted leaf: found iff the pair is stored, and the cell removed is that pair *)
Theorem leaf_delete_refines l k v : ssorted l ->
  let (found, idx) := bsearch (map (fun c : cell => cell_cmp c k v) l) in
  found = fst (s_delete k v l) /\
  (if found then remove_at idx l else l) = snd (s_delete k v l).
Proof.
  intro Hs.
  pose proof (lt_prefix_cmp_lt k v l) as HA.
  pose proof (ssorted_s_from k l Hs) as HsB.
  pose proof (s_from_ge k l (ssorted_wsorted l Hs)) as HgeB.
  pose proof (lt_prefix_from k l) as Hd.
  revert HA HsB HgeB Hd. generalize (lt_prefix k l) as A. generalize (s_from k l) as B.
  intros B A HA HsB HgeB ->. clear Hs.
  assert (HAne : Forall (fun c : cell => cell_cmp c k v <> Eq) A).
  { eapply Forall_impl; [|exact HA]. cbn. intros c Hc. rewrite Hc. discriminate. }
  rewrite map_app.
  destruct B as [|c t].
  - cbn [map]. rewrite !app_nil_r.
    pose proof (bsearch_blocks (map (fun c : cell => cell_cmp c k v) A) [] []
                  (Forall_map_eq _ _ _ HA) (Forall_nil _) (Forall_nil _)) as Hb.
    cbn [app length Nat.ltb Nat.leb] in Hb. rewrite app_nil_r in Hb. rewrite Hb.
    rewrite (s_delete_none k v A HAne). cbn. split; reflexivity.
  - cbn [ssorted] in HsB. destruct HsB as [Hct _].
    inversion HgeB as [|? ? Hcge _]; subst.
    assert (Ht : Forall (fun d : cell => cell_cmp d k v = Gt) t).
    { eapply Forall_impl; [|exact Hct]. cbn. intros d Hd. unfold cell_cmp.
      rewrite (lex_ge_lt_gt (fst c) k (fst d) Hcge Hd). reflexivity. }
    assert (Htne : Forall (fun c : cell => cell_cmp c k v <> Eq) t).
    { eapply Forall_impl; [|exact Ht]. cbn. intros d Hd. rewrite Hd. discriminate. }
    cbn [map]. destruct (cell_cmp c k v) eqn:Ec.
    + (* the pair is stored at position |A| *)
      pose proof (bsearch_blocks (map (fun c : cell => cell_cmp c k v) A) [Eq] (map (fun c : cell => cell_cmp c k v) t)
                    (Forall_map_eq _ _ _ HA) (Forall_cons _ eq_refl (Forall_nil _)) (Forall_map_eq _ _ _ Ht)) as Hb.
      cbn [app length Nat.ltb Nat.leb] in Hb. rewrite Hb.
      rewrite (s_delete_hit k v A c t HAne Ec). cbn [fst snd]. split; [reflexivity|].
      rewrite map_length. replace (pred (length A + 1)) with (length A) by lia.
      apply remove_at_app.
    + (* same key, smaller payload: not the pair *)
      pose proof (bsearch_blocks (map (fun c : cell => cell_cmp c k v) A ++ [Lt]) [] (map (fun c : cell => cell_cmp c k v) t)) as Hb.
      rewrite <- app_assoc in Hb. cbn [app length Nat.ltb Nat.leb] in Hb. rewrite Hb.
      * rewrite s_delete_none; [cbn; split; reflexivity|].
        apply Forall_app. split; [exact HAne|]. constructor; [rewrite Ec; discriminate | exact Htne].
      * apply Forall_app. split; [exact (Forall_map_eq _ _ _ HA) | constructor; [reflexivity|constructor]].
      * constructor.
      * exact (Forall_map_eq _ _ _ Ht).
    + pose proof (bsearch_blocks (map (fun c : cell => cell_cmp c k v) A) [] (Gt :: map (fun c : cell => cell_cmp c k v) t)
                    (Forall_map_eq _ _ _ HA) (Forall_nil _)) as Hb.
      cbn [app length Nat.ltb Nat.leb] in Hb. rewrite Hb.
      * rewrite s_delete_none; [cbn; split; reflexivity|].
        apply Forall_app. split; [exact HAne|]. constructor; [rewrite Ec; discriminate | exact Htne].
      * constructor; [reflexivity | exact (Forall_map_eq _ _ _ Ht)].
Qed.

(* ---------- sortedness is preserved ---------- *)
Lemma s_insert_Forall (P : cell -> Prop) k v l : P (k, v) -> Forall P l -> Forall P (s_insert k v l).
Proof.
  intros Hk. induction l as [|c t IH]; cbn [s_insert]; intro H; [constructor; [exact Hk|constructor]|].
  inversion H; subst. destruct (lex_cmp (fst c) k); constructor; auto.
Qed.
Lemma has_key_false k l : has_key k l = false -> Forall (fun c : cell => lex_cmp (fst c) k <> Eq) l.
Proof.
  unfold has_key. induction l as [|c t IH]; cbn [existsb]; cbv beta; intro H; [constructor|].
  apply orb_false_elim in H. destruct H as [H1 H2]. constructor; [|apply IH; exact H2].
  intro E. apply lex_cmp_eq in E. unfold key in E. rewrite E in H1.
  assert (bytes_eqb k k = true) by (apply bytes_eqb_eq; reflexivity). congruence.
Qed.
Lemma ssorted_s_insert k v l : ssorted l -> has_key k l = false -> ssorted (s_insert k v l).
Proof.
  intros Hs Hk. apply has_key_false in Hk.
  induction l as [|c t IH]; cbn [s_insert]; [cbn; auto|].
  destruct Hs as [H1 H2]. inversion Hk as [|? ? Hc Ht]; subst.
  destruct (lex_cmp (fst c) k) eqn:E.
  - congruence.
  - cbn [ssorted]. split; [|apply IH; assumption].
    apply s_insert_Forall; [exact E | exact H1].
  - cbn [ssorted]. split; [|split; assumption].
    assert (Hkc : lex_lt k (fst c)) by (apply lex_lt_of_gt; exact E).
    constructor; [exact Hkc|]. eapply Forall_impl; [|exact H1]. cbn. intros d Hd.
    apply (lex_lt_trans k (fst c) (fst d)); assumption.
Qed.
Lemma s_delete_Forall (P : cell -> Prop) k v l : Forall P l -> Forall P (snd (s_delete k v l)).
Proof.
  induction l as [|c t IH]; cbn [s_delete]; intro H; [exact H|]. inversion H; subst.
  destruct (cell_eqb c k v); [assumption|]. destruct (s_delete k v t) as [b t'] eqn:E. cbn [snd] in *.
  constructor; auto.
Qed.
Lemma ssorted_s_delete k v l : ssorted l -> ssorted (snd (s_delete k v l)).
Proof.
  induction l as [|c t IH]; cbn [s_delete]; intro H; [exact H|]. destruct H as [H1 H2].
  destruct (cell_eqb c k v); [exact H2|].
  pose proof (s_delete_Forall (fun d : cell => lex_lt (fst c) (fst d)) k v t H1) as HF.
  destruct (s_delete k v t) as [b t'] eqn:E. cbn [snd] in *. split; [exact HF | apply IH; exact H2].
Qed.

(* ---------- the median split of a full leaf ---------- *)
(* position found by binary_search_by on the key when the key is not stored: the lower bound *)
Lemma split_pos_absent l k : wsorted l -> has_key k l = false ->
  bsearch (map (fun c : cell => lex_cmp (fst c) k) l) = (false, length (lt_prefix k l)).
Proof.
  intros Hs Hk. apply has_key_false in Hk.
  pose proof (s_from_ge k l Hs) as Hge.
  assert (HA : Forall (fun c : cell => lex_cmp (fst c) k = Lt) (lt_prefix k l)).
  { clear. induction l as [|c t IH]; cbn [lt_prefix]; [constructor|].
    destruct (lex_cmp (fst c) k) eqn:E; constructor; assumption. }
  pose proof (lt_prefix_from k l) as Hd.
  revert Hk Hge HA Hd. generalize (lt_prefix k l) as A. generalize (s_from k l) as B.
  intros B A Hk Hge HA ->.
  assert (HB : Forall (fun c : cell => lex_cmp (fst c) k = Gt) B).
  { apply Forall_app in Hk. destruct Hk as [_ HkB]. rewrite Forall_forall in *.
    intros c Hc. specialize (Hge c Hc). specialize (HkB c Hc). destruct (lex_cmp (fst c) k); congruence. }
  rewrite map_app.
  pose proof (bsearch_blocks (map (fun c : cell => lex_cmp (fst c) k) A) [] (map (fun c : cell => lex_cmp (fst c) k) B)
                (Forall_map_eq _ _ _ HA) (Forall_nil _) (Forall_map_eq _ _ _ HB)) as Hb.
  cbn [app length Nat.ltb Nat.leb] in Hb. rewrite Hb, map_length. reflexivity.
Qed.

(* the entry list a split works on is the spec's list *)
Theorem leaf_entries_refines l k v : wsorted l -> has_key k l = false -> leaf_entries l k v = s_insert k v l.
Proof.
  intros Hs Hk. unfold leaf_entries. pose proof (split_pos_absent l k Hs Hk) as P.
  unfold cell, key in *. rewrite P. cbn [snd].
  rewrite s_insert_decomp. rewrite (lt_prefix_from k l) at 2. apply insert_at_app.
Qed.

(* split_point: a result is inside the list and both halves fit *)
Lemma dec_loop_le fl m : (dec_loop fl m <= m)%nat.
Proof. induction m as [|m IH]; cbn [dec_loop]; [lia|]. destruct (fl (S m)); lia. Qed.
Lemma inc_loop_lt fr len : forall fuel m, (m < len)%nat -> (m <= inc_loop fuel fr len m < len)%nat.
Proof.
  induction fuel as [|f IH]; intros m Hm; cbn [inc_loop]; [lia|].
  destruct (Nat.ltb (S m) len && negb (fr m)) eqn:E; [|lia].
  apply andb_prop in E. destruct E as [E _]. apply Nat.ltb_lt in E. specialize (IH (S m) E). lia.
Qed.
Lemma split_point_some fl fr len m : split_point fl fr len = Some m ->
  (m < len)%nat /\ fl m = true /\ fr m = true.
Proof.
  unfold split_point. destruct (Nat.eqb len 0) eqn:E0; [discriminate|]. apply Nat.eqb_neq in E0.
  set (m0 := dec_loop fl (Nat.div len 2)).
  assert (H0 : (m0 < len)%nat) by (pose proof (dec_loop_le fl (Nat.div len 2)); subst m0; lia).
  pose proof (inc_loop_lt fr len len m0 H0) as H1.
  destruct (fl (inc_loop len fr len m0) && fr (inc_loop len fr len m0)) eqn:E; [|discriminate].
  intro H. inversion H; subst. apply andb_prop in E. destruct E. repeat split; try assumption. lia.
Qed.

(* cutting a strictly sorted, non-empty list anywhere before its end: separator = first key of the
   right part, strictly above the whole left part, at most every key of the right part *)
Theorem split_separator (e : list cell) mid : ssorted e -> (mid < length e)%nat ->
  let a := firstn mid e in let b := skipn mid e in
  a ++ b = e /\ b <> [] /\ ssorted a /\ ssorted b /\
  Forall (fun c : cell => lex_lt (fst c) (fst (hd ([], 0) b))) a /\
  Forall (fun c : cell => lex_cmp (fst (hd ([], 0) b)) (fst c) <> Gt) b.
Proof.
  intros He Hmid. cbv zeta.
  pose proof (firstn_skipn mid e) as Hcat.
  assert (Hb : skipn mid e <> []).
  { intro Z. apply (f_equal (@length cell)) in Z. rewrite skipn_length in Z. cbn [length] in Z. lia. }
  revert Hcat Hb. generalize (firstn mid e) as a. generalize (skipn mid e) as b. intros b a Hcat Hb. subst e. clear mid Hmid.
  split; [reflexivity|]. split; [exact Hb|].
  induction a as [|x a IH].
  - cbn [app] in He. split; [cbn; trivial|]. split; [exact He|]. split; [constructor|].
    destruct b as [|c t]; [congruence|]. cbn [hd]. constructor; [rewrite lex_cmp_refl; discriminate|].
    destruct He as [H1 _]. eapply Forall_impl; [|exact H1]. cbn. intros d Hd X. red in Hd. unfold cell, key, bytes in *. rewrite X in Hd. discriminate Hd.
  - cbn [app ssorted] in He. destruct He as [H1 H2]. specialize (IH H2). destruct IH as (Sa & Sb & Fa & Fb).
    apply Forall_app in H1. destruct H1 as [H1a H1b].
    split; [cbn [ssorted]; split; assumption|]. split; [exact Sb|]. split; [|exact Fb].
    constructor; [|exact Fa]. destruct b as [|c t]; [congruence|]. cbn [hd]. inversion H1b; subst. assumption.
Qed.

(* the leaf split of the code, in a leaf without equal keys: whatever split point is chosen, the halves are
   the multimap's list cut there, both fit a page, the right half is not empty, separator bounds hold *)
Theorem leaf_split_separator l k v mid : ssorted l -> has_key k l = false ->
  leaf_split_point (leaf_entries l k v) = Some mid ->
  let a := firstn mid (leaf_entries l k v) in let b := skipn mid (leaf_entries l k v) in
  a ++ b = s_insert k v l /\ b <> [] /\ ssorted a /\ ssorted b /\ leaf_fits a = true /\ leaf_fits b = true /\
  Forall (fun c : cell => lex_lt (fst c) (fst (hd ([], 0) b))) a /\
  Forall (fun c : cell => lex_cmp (fst (hd ([], 0) b)) (fst c) <> Gt) b.
Proof.
  intros Hs Hk Hp. rewrite (leaf_entries_refines l k v (ssorted_wsorted l Hs) Hk) in *.
  unfold leaf_split_point in Hp. apply split_point_some in Hp. destruct Hp as (Hm & Hl & Hr).
  pose proof (split_separator (s_insert k v l) mid (ssorted_s_insert k v l Hs Hk) Hm) as H. cbv zeta in *.
  destruct H as (H1 & H2 & H3 & H4 & H5 & H6). repeat split; assumption.
Qed.

(* ---------- the descent rule: internal_child_for_key on sorted separators ---------- *)
(* prefix of separators <= k *)
Fixpoint le_prefix (k : key) (l : list cell) : list cell :=
  match l with
  | [] => []
  | c :: t => match lex_cmp (fst c) k with Gt => [] | _ => c :: le_prefix k t end
  end.
Fixpoint gt_suffix (k : key) (l : list cell) : list cell :=
  match l with
  | [] => []
  | c :: t => match lex_cmp (fst c) k with Gt => l | _ => gt_suffix k t end
  end.
Lemma le_prefix_suffix k l : l = le_prefix k l ++ gt_suffix k l.
Proof. induction l as [|c t IH]; cbn; [reflexivity|]. destruct (lex_cmp (fst c) k); cbn; congruence. Qed.
Lemma le_prefix_all k l :
  forallb (fun c : cell => match lex_cmp (fst c) k with Gt => false | _ => true end) (le_prefix k l) = true.
Proof.
  induction l as [|c t IH]; cbn [le_prefix forallb]; [reflexivity|].
  destruct (lex_cmp (fst c) k) eqn:E; [| |reflexivity]; cbn [forallb]; cbv beta; rewrite E; exact IH.
Qed.
Lemma gt_suffix_gt k l : wsorted l -> Forall (fun c : cell => lex_cmp (fst c) k = Gt) (gt_suffix k l).
Proof.
  induction l as [|c t IH]; cbn [gt_suffix]; [constructor|]. intros [H1 H2].
  destruct (lex_cmp (fst c) k) eqn:E; [apply IH; exact H2 | apply IH; exact H2 |].
  constructor; [exact E|]. eapply Forall_impl; [|exact H1]. cbn. intros d Hd.
  apply (lex_gt_le_gt (fst c)); assumption.
Qed.

Lemma upper_bound_sorted l k : wsorted l -> upper_bound l k = length (le_prefix k l).
Proof.
  intro Hs. unfold upper_bound. rewrite ub_loop_pp.
  pose proof (gt_suffix_gt k l Hs) as Hgt.
  pose proof (le_prefix_all k l) as Hle.
  pose proof (le_prefix_suffix k l) as Hd.
  revert Hgt Hle Hd. generalize (le_prefix k l) as A. generalize (gt_suffix k l) as B.
  intros B A Hgt Hle ->.
  apply pp_loop_spec.
  - exact Hle.
  - apply forallb_forall. intros c Hc.
    rewrite Forall_forall in Hgt. rewrite (Hgt c Hc). reflexivity.
  - rewrite app_length. lia.
  - lia.
  - lia.
Qed.

(* the child chosen for k: the right child of the last separator <= k, the leftmost child if none;
   so a key equal to a separator is sent to the right of it — entries with that key in the left
   subtree (possible only when the key is stored more than once) are not reached *)
Theorem descent_rule lm l k : wsorted l ->
  child_for_key lm l k =
    match rev (le_prefix k l) with
    | [] => (lm, O)
    | c :: _ => (snd c, length (le_prefix k l))
    end.
Proof.
  intro Hs. unfold child_for_key. rewrite (upper_bound_sorted l k Hs).
  pose proof (le_prefix_suffix k l) as Hd.
  revert Hd. generalize (le_prefix k l) as A. generalize (gt_suffix k l) as B. intros B A ->.
  destruct A as [|x A'] using rev_ind; [reflexivity|]. clear IHA'.
  rewrite rev_app_distr. cbn [rev app]. rewrite app_length. cbn [length].
  replace (length A' + 1)%nat with (S (length A')) by lia.
  rewrite <- app_assoc. cbn [app]. rewrite app_nth2 by lia. rewrite Nat.sub_diag. reflexivity.
Qed.

(* ---------- K-C26-dups is not one unlucky input ---------- *)
(* whatever the key: three entries of one key written newest-first (payloads increasing with time, as
   node/blob ids do) — delete's binary search never finds the oldest pair *)
Theorem dups_delete_misses_oldest (k : key) (v1 v2 v3 : N) : v1 < v2 -> v1 < v3 ->
  In (k, v1) [(k, v3); (k, v2); (k, v1)] /\
  fst (bsearch (map (fun c : cell => cell_cmp c k v1) [(k, v3); (k, v2); (k, v1)])) = false.
Proof.
  intros H2 H3. split; [right; right; left; reflexivity|].
  cbn [map]. unfold cell_cmp. cbn [fst snd]. rewrite lex_cmp_refl.
  replace (v3 ?= v1) with Gt by (symmetry; apply N.compare_gt_iff; exact H3).
  replace (v2 ?= v1) with Gt by (symmetry; apply N.compare_gt_iff; exact H2).
  rewrite N.compare_refl. reflexivity.
Qed.
