(* BTree/Chain_proofs.v — PROOFS about the sibling-walking cursor, for EVERY heap: if the right-sibling
   pointers from the leaf the descent reached form a finite chain of leaves (whatever tree is above
   them), then positioning + the callers' scan loop return exactly the rest of that leaf followed by the
   cells of all following leaves (empty leaves contribute nothing and do not end the scan). *)
From Coq Require Import Lia ZifyBool ZifyN ZifyNat.
From NDB Require Import Base.Bytes Base.Bytes_proofs BTree.BTree BTree.Spec BTree.Leaf_proofs.

(* chain h r rest: following the right-sibling pointer r visits leaves holding `rest`, then 0 *)
Inductive chain (h : heap) : N -> list (list cell) -> Prop :=
| chain_end : chain h 0 []
| chain_next r c' r' d' rest :
    r <> 0 -> hget h r = Some (Leaf c' r' d') -> chain h r' rest -> chain h r (c' :: rest).

Lemma scan_leaves_chain h r rest : chain h r rest ->
  forall fuel cells slot, (length rest <= fuel)%nat ->
    scan_leaves fuel h cells r slot = inl (skipn slot cells ++ concat rest).
Proof.
  induction 1 as [|r c' r' d' rest Hr Hg Hc IH]; intros fuel cells slot Hf.
  - destruct fuel; cbn [scan_leaves concat]; rewrite app_nil_r; reflexivity.
  - destruct fuel as [|f]; [cbn in Hf; lia|]. cbn [scan_leaves].
    apply N.eqb_neq in Hr. rewrite Hr, Hg.
    rewrite (IH f c' O) by (cbn in Hf; lia). reflexivity.
Qed.

Lemma settle_chain h r rest : chain h r rest ->
  forall fuel cells slot, (length rest <= fuel)%nat ->
    exists c2 r2 s2 rest2,
      settle fuel h cells r slot = inl (c2, r2, s2) /\ chain h r2 rest2 /\ (length rest2 <= length rest)%nat /\
      skipn s2 c2 ++ concat rest2 = skipn slot cells ++ concat rest /\
      (Nat.ltb s2 (length c2) = false -> skipn slot cells ++ concat rest = []).
Proof.
  induction 1 as [|r c' r' d' rest Hr Hg Hc IH]; intros fuel cells slot Hf.
  - exists cells, 0, slot, []. destruct fuel; cbn [settle]; destruct (Nat.ltb slot (length cells)) eqn:E;
      (split; [reflexivity|]; split; [constructor|]; split; [lia|]; split; [reflexivity|]);
      intro X; try discriminate X; apply Nat.ltb_ge in E; rewrite skipn_all2 by exact E; reflexivity.
  - destruct (Nat.ltb slot (length cells)) eqn:E.
    + exists cells, r, slot, (c' :: rest).
      destruct fuel; cbn [settle]; rewrite E;
        (split; [reflexivity|]; split; [econstructor; eassumption|]; split; [lia|]; split; [reflexivity|]);
        intro X; discriminate X.
    + destruct fuel as [|f]; [cbn in Hf; lia|]. cbn [settle]. rewrite E.
      pose proof Hr as Hr'. apply N.eqb_neq in Hr'. rewrite Hr', Hg.
      destruct (IH f c' O) as (c2 & r2 & s2 & rest2 & H1 & H2 & H3 & H4 & H5); [cbn in Hf; lia|].
      exists c2, r2, s2, rest2. split; [exact H1|]. split; [exact H2|]. split; [cbn; lia|].
      apply Nat.ltb_ge in E. rewrite (skipn_all2 cells) by exact E. cbn [app concat skipn] in *.
      split; [exact H4|exact H5].
Qed.

Lemma find_leaf_hget h : forall fuel q k p cells r d,
  find_leaf fuel h q k = inl (Some (p, cells, r, d)) -> hget h p = Some (Leaf cells r d).
Proof.
  induction fuel as [|f IH]; intros q k p cells r d F; cbn [find_leaf] in F; [discriminate|].
  destruct (hget h q) as [[c' r' d'|lm c']|] eqn:G; [|apply IH in F; exact F|discriminate].
  inversion F; subst. exact G.
Qed.

(* seek + scan = the rest of the reached leaf from the lower-bound slot, then every following leaf *)
Theorem scan_from_chain st k p cells r d rest :
  find_leaf depth_fuel (st_heap st) (st_root st) k = inl (Some (p, cells, r, d)) ->
  chain (st_heap st) r rest -> (length rest <= page_fuel st)%nat ->
  scan_from st k = inl (skipn (lower_bound cells k) cells ++ concat rest).
Proof.
  intros F Hc Hf. unfold scan_from, cursor_lower_bound. rewrite F.
  destruct (settle_chain _ _ _ Hc (page_fuel st) cells (lower_bound cells k) Hf)
    as (c2 & r2 & s2 & rest2 & H1 & H2 & H3 & H4 & H5).
  rewrite H1. destruct (Nat.ltb s2 (length c2)) eqn:E.
  - rewrite (scan_leaves_chain _ _ _ H2) by lia. rewrite H4. reflexivity.
  - rewrite (H5 eq_refl). reflexivity.
Qed.

(* lookup = head of that sequence if its key is the key *)
Theorem lookup_chain st k p cells r d rest :
  find_leaf depth_fuel (st_heap st) (st_root st) k = inl (Some (p, cells, r, d)) ->
  chain (st_heap st) r rest -> (length rest <= page_fuel st)%nat ->
  lookup st k = inl (match skipn (lower_bound cells k) cells ++ concat rest with
                     | (k', v) :: _ => if bytes_eqb k' k then Some v else None
                     | [] => None
                     end).
Proof.
  intros F Hc Hf. unfold lookup, cursor_lower_bound. rewrite F.
  destruct (settle_chain _ _ _ Hc (page_fuel st) cells (lower_bound cells k) Hf)
    as (c2 & r2 & s2 & rest2 & H1 & H2 & H3 & H4 & H5).
  rewrite H1, <- H4.
  destruct (nth_error c2 s2) as [[k' v']|] eqn:En.
  - assert (Hs : skipn s2 c2 = (k', v') :: skipn (S s2) c2).
    { clear -En. revert s2 En. induction c2 as [|x t IH]; intros [|s] En; cbn in *; try discriminate.
      - inversion En; reflexivity.
      - apply IH. exact En. }
    rewrite Hs. cbn [app]. destruct (bytes_eqb k' k); reflexivity.
  - apply nth_error_None in En. assert (E : Nat.ltb s2 (length c2) = false) by (apply Nat.ltb_ge; exact En).
    rewrite H4, (H5 E). reflexivity.
Qed.

Theorem cursor_chain st k p cells r d rest :
  find_leaf depth_fuel (st_heap st) (st_root st) k = inl (Some (p, cells, r, d)) ->
  chain (st_heap st) r rest -> (length rest <= page_fuel st)%nat ->
  scan_from st k = inl (skipn (lower_bound cells k) cells ++ concat rest) /\
  lookup st k = inl (match skipn (lower_bound cells k) cells ++ concat rest with
                     | (k', v) :: _ => if bytes_eqb k' k then Some v else None
                     | [] => None
                     end).
Proof.
  intros F C L. split; [exact (scan_from_chain st k p cells r d rest F C L) | exact (lookup_chain st k p cells r d rest F C L)].
Qed.

(* non-vacuous: the state after the former K-C26-emptyleaf witness (30 ordered 900-byte keys, the second
   leaf emptied): the descent for the empty key reaches the first leaf, six leaves follow it in the
   chain, one of them empty — and the scan is the whole multimap *)
From NDB Require Import BTree.Witness.
Example chain_nonvacuous :
  let st := fst (run w_scan) in
  exists p cells r d rest,
    find_leaf depth_fuel (st_heap st) (st_root st) [] = inl (Some (p, cells, r, d)) /\
    chain (st_heap st) r rest /\ length rest = 6%nat /\ In [] rest /\
    scan_from st [] = inl (skipn (lower_bound cells []) cells ++ concat rest).
Proof.
  cbv zeta.
  destruct (find_leaf depth_fuel (st_heap (fst (run w_scan))) (st_root (fst (run w_scan))) [])
    as [[[[[p cells] r] d]|]|e] eqn:F.
  2: { exfalso. revert F. vm_compute. discriminate. }
  2: { exfalso. revert F. vm_compute. discriminate. }
  assert (Hr : r = 3).
  { revert F. vm_compute. intro F. inversion F. reflexivity. }
  subst r.
  assert (Hc : exists rest, chain (st_heap (fst (run w_scan))) 3 rest /\ length rest = 6%nat /\ In [] rest).
  { remember (st_heap (fst (run w_scan))) as h eqn:Hh.
    assert (G : forall q, hget h q = hget (st_heap (fst (run w_scan))) q) by (intro; rewrite Hh; reflexivity).
    clear Hh F.
    pose proof (G 3) as G3. vm_compute in G3.
    pose proof (G 5) as G5. vm_compute in G5.
    pose proof (G 6) as G6. vm_compute in G6.
    pose proof (G 7) as G7. vm_compute in G7.
    pose proof (G 8) as G8. vm_compute in G8.
    pose proof (G 9) as G9. vm_compute in G9.
    eexists. split; [|split].
    - eapply chain_next; [discriminate | exact G3 |].
      eapply chain_next; [discriminate | exact G5 |].
      eapply chain_next; [discriminate | exact G6 |].
      eapply chain_next; [discriminate | exact G7 |].
      eapply chain_next; [discriminate | exact G8 |].
      eapply chain_next; [discriminate | exact G9 |].
      apply chain_end.
    - reflexivity.
    - left. reflexivity. }
  destruct Hc as (rest & Hc & Hl & Hin).
  exists p, cells, 3, d, rest. split; [reflexivity|]. split; [exact Hc|]. split; [exact Hl|]. split; [exact Hin|].
  apply (scan_from_chain _ _ p cells 3 d rest F Hc). rewrite Hl. vm_compute. lia.
Qed.
