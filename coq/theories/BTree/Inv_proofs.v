(* BTree/Inv_proofs.v — PROOFS about the executable invariant BTree/Inv.v: the leaves it lists are leaf
   pages of the heap with exactly the listed cells and sibling pointers, and `chain_ok` makes them a
   chain in the sense of Chain_proofs.v — hence (cursor_chain) a scan that starts at the first listed
   leaf returns the in-order contents of the whole tree. *)
From Coq Require Import Lia ZifyBool ZifyN ZifyNat.
From NDB Require Import Base.Bytes Base.Bytes_proofs BTree.BTree BTree.Spec BTree.Inv BTree.Leaf_proofs BTree.Chain_proofs.

Definition leaf_in (h : heap) (x : N * list cell * N) : Prop :=
  exists d, hget h (fst (fst x)) = Some (Leaf (snd (fst x)) (snd x) d).

Lemma kids_walk_leaves h (W : N -> option key -> option key -> walk_res) :
  (forall q lo hi ls is, W q lo hi = Some (ls, is) -> Forall (leaf_in h) ls) ->
  forall cs hi child lo ls is, kids_walk W hi child lo cs = Some (ls, is) -> Forall (leaf_in h) ls.
Proof.
  intros HW. induction cs as [|[sep nc] t IH]; intros hi child lo ls is H; cbn [kids_walk] in H.
  - eapply HW; exact H.
  - destruct (W child lo (Some sep)) as [[a ia]|] eqn:E1; [|discriminate].
    destruct (kids_walk W hi nc (Some sep) t) as [[b ib]|] eqn:E2; [|discriminate].
    inversion H; subst. apply Forall_app. split; [eapply HW; exact E1 | eapply IH; exact E2].
Qed.

Lemma walk_leaves h : forall fuel p lo hi ls is, walk fuel h p lo hi = Some (ls, is) -> Forall (leaf_in h) ls.
Proof.
  induction fuel as [|f IH]; intros p lo hi ls is H; cbn [walk] in H; [discriminate|].
  destruct (hget h p) as [[c r d|lm cells]|] eqn:G; [| |discriminate].
  - destruct (sorted_strictb c && in_bounds lo hi c && leaf_bytes_ok c d); [|discriminate].
    inversion H; subst. constructor; [|constructor]. exists d. exact G.
  - destruct (sorted_strictb cells && in_bounds lo hi cells && int_bytes_ok cells); [|discriminate].
    destruct (kids_walk (walk f h) hi lm lo cells) as [[ls' is']|] eqn:K; [|discriminate].
    inversion H; subst. eapply kids_walk_leaves; [|exact K]. intros. eapply IH; eassumption.
Qed.

(* chain_ok over leaves that are in the heap: the sibling pointer of the first listed leaf starts a
   chain through exactly the remaining listed leaves *)
Lemma chain_ok_chain h : forall ls, Forall (leaf_in h) ls -> chain_ok ls = true ->
  match ls with
  | [] => True
  | x :: t => chain h (snd x) (map (fun y => snd (fst y)) t)
  end.
Proof.
  induction ls as [|[[p c] r] t IH]; intros HF HC; [exact I|].
  cbn [snd]. inversion HF as [|? ? Hx Ht]; subst.
  destruct t as [|[[q c'] r'] t'].
  - cbn [chain_ok] in HC. apply N.eqb_eq in HC. subst r. cbn [map]. constructor.
  - cbn [chain_ok] in HC. apply andb_prop in HC. destruct HC as [HC HC3]. apply andb_prop in HC. destruct HC as [HC1 HC2].
    apply N.eqb_eq in HC1. subst r. apply negb_true_iff in HC2. apply N.eqb_neq in HC2.
    specialize (IH Ht HC3). cbn [snd] in IH.
    inversion Ht as [|? ? [d' Hq] _]; subst. cbn [fst snd] in Hq.
    cbn [map fst snd]. eapply chain_next; [exact HC2 | exact Hq | exact IH].
Qed.

Lemma walk_nonempty h : forall fuel q lo hi is, walk fuel h q lo hi <> Some ([], is).
Proof.
  induction fuel as [|f IH]; intros q lo hi is H; cbn [walk] in H; [discriminate|].
  destruct (hget h q) as [[c r d|lm cells]|]; [| |discriminate].
  - destruct (sorted_strictb c && in_bounds lo hi c && leaf_bytes_ok c d); discriminate.
  - destruct (sorted_strictb cells && in_bounds lo hi cells && int_bytes_ok cells); [|discriminate].
    destruct (kids_walk (walk f h) hi lm lo cells) as [[ls' is']|] eqn:K; [|discriminate].
    inversion H; subst. clear H.
    revert lm lo is' K. induction cells as [|[sep nc] t IHc]; intros lm lo is' K; cbn [kids_walk] in K.
    + exact (IH _ _ _ _ K).
    + destruct (walk f h lm lo (Some sep)) as [[a ia]|] eqn:E1; [|discriminate].
      destruct (kids_walk (walk f h) hi nc (Some sep) t) as [[b ib]|] eqn:E2; [|discriminate].
      inversion K as [[Hab Hi]]. apply app_eq_nil in Hab. destruct Hab as [-> ->]. exact (IH _ _ _ _ E1).
Qed.

(* in every state that satisfies the invariant: the first listed leaf is a leaf page of the heap and
   the sibling chain from it runs through exactly the other listed leaves, in order *)
Theorem wf_state_chain st : wf_state st = true ->
  exists p c r d rest,
    hget (st_heap st) p = Some (Leaf c r d) /\ chain (st_heap st) r rest /\ contents st = c ++ concat rest.
Proof.
  unfold wf_state, contents.
  destruct (walk depth_fuel (st_heap st) (st_root st) None None) as [[ls is]|] eqn:W; [|discriminate].
  intro H. apply andb_prop in H. destruct H as [H _]. apply andb_prop in H. destruct H as [HC _].
  pose proof (walk_leaves _ _ _ _ _ _ _ W) as HF.
  pose proof (chain_ok_chain _ ls HF HC) as Hch.
  destruct ls as [|[[p c] r] t].
  - exfalso. exact (walk_nonempty _ _ _ _ _ _ W).
  - inversion HF as [|? ? [d Hp] _]; subst. cbn [fst snd] in *.
    exists p, c, r, d, (map (fun y : N * list cell * N => snd (fst y)) t).
    split; [exact Hp|]. split; [exact Hch|]. cbn [map concat fst snd]. reflexivity.
Qed.
